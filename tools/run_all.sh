#!/bin/sh
# tools/run_all.sh [tier] : every check once, in parallel groups; prints one line per property
TIER=${1:-quick}
cd "$(dirname "$0")/.."
LOGD=$(mktemp -d)
(cd lean && lake build MotoModel motodrv >/dev/null 2>&1)
for p in C01 C02 C03 C04 C05 C06 C07 C08 C09 C10 C11 C12 C13 C14 C15 C16 C17 C18 C19 C20; do
  ( ./bin/check $p $TIER > $LOGD/$p.log 2>&1; rc=$?; echo "$p rc=$rc $(grep -E 'VIOLATION|KNOWN' $LOGD/$p.log | head -2 | tr '\n' ' ') $(tail -1 $LOGD/$p.log)"; if [ $rc -ge 2 ]; then cp $LOGD/$p.log /tmp/failed_runall_$p.log; fi ) &
  if [ $(jobs | wc -l) -ge 6 ]; then wait; fi
done
wait
rm -rf "$LOGD"
# lean/GenPinned is the description of the pinned tree, used when a changed tree's description no longer builds:
# on the pinned tree it must equal what the translator produces now
if ! diff -rq lean/MotoModel/Gen lean/GenPinned >/dev/null 2>&1; then
  if git -C "${MOTO_REPO:-/repo}" diff --quiet 2>/dev/null; then echo "WARNING: lean/GenPinned differs from the regenerated description of a clean tree: cp lean/MotoModel/Gen/*.lean lean/GenPinned/"; fi
fi
