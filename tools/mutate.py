#!/usr/bin/env python3
"""tools/mutate.py — mutation analysis of the checks.

  mutate.py list  <out.json> [--sample N] [--seed S]      enumerate small mutants of the anchored source files
  mutate.py run   <mutants.json> <lane> <nlanes> <out.jsonl>   evaluate the mutants of one lane

A mutant is one small edit of one source file (comparison flipped, integer constant +-1, and/or swapped, condition
negated, arithmetic operator swapped, slice bound +-1, strip/rstrip swapped, one statement removed).  For each mutant that the
repository's own 111 tests do NOT notice, the quick checks of the properties anchored in that file are run against a scratch
worktree holding the mutant (MOTO_REPO), from a private copy of /verif (own Lean build directory), so that lanes do not disturb
each other nor /repo.  Result per mutant: killed by the tests / detected by a check (which) / survived."""
import ast
import copy
import json
import os
import random
import shutil
import subprocess
import sys
import time

REPO = "/repo"
VERIF = os.path.dirname(os.path.dirname(os.path.abspath(__file__)))


def anchors():
    m = {}
    for line in open(os.path.join(VERIF, "properties.jsonl")):
        d = json.loads(line)
        for f in d.get("anchors", {}).get("files", []):
            if f.endswith(".py") and f.startswith("src/"):
                m.setdefault(f, []).append(d["id"])
    return m


CMP = {ast.Lt: ast.LtE, ast.LtE: ast.Lt, ast.Gt: ast.GtE, ast.GtE: ast.Gt, ast.Eq: ast.NotEq, ast.NotEq: ast.Eq}
ARI = {ast.Add: ast.Sub, ast.Sub: ast.Add, ast.FloorDiv: ast.Mod, ast.Mod: ast.FloorDiv, ast.Mult: ast.FloorDiv}
STR = {"rstrip": "strip", "strip": "rstrip", "upper": "lower", "startswith": "endswith"}


def mutants_of(path, src):
    tree = ast.parse(src)
    out = []
    big = set()
    for n in ast.walk(tree):
        if isinstance(n, (ast.Dict, ast.List, ast.Tuple, ast.Set)) and len(getattr(n, "elts", getattr(n, "keys", []))) > 8:
            for c in ast.walk(n):
                big.add(id(c))
    nodes = [n for n in ast.walk(tree)]
    for idx, n in enumerate(nodes):
        if id(n) in big:
            continue
        line = getattr(n, "lineno", 0)
        if isinstance(n, ast.Compare):
            for k, op in enumerate(n.ops):
                if type(op) in CMP:
                    out.append((idx, "cmp", k, line, f"{type(op).__name__}->{CMP[type(op)].__name__}"))
        elif isinstance(n, ast.Constant) and isinstance(n.value, int) and not isinstance(n.value, bool) and 0 <= n.value <= 70000:
            out.append((idx, "const+", 0, line, f"{n.value}->{n.value + 1}"))
            if n.value > 0:
                out.append((idx, "const-", 0, line, f"{n.value}->{n.value - 1}"))
        elif isinstance(n, ast.BoolOp):
            out.append((idx, "boolop", 0, line, "and<->or"))
        elif isinstance(n, (ast.If, ast.IfExp, ast.While)):
            out.append((idx, "negate", 0, line, "negated condition"))
        elif isinstance(n, ast.BinOp) and type(n.op) in ARI:
            out.append((idx, "arith", 0, line, f"{type(n.op).__name__}->{ARI[type(n.op)].__name__}"))
        elif isinstance(n, ast.Attribute) and n.attr in STR and isinstance(getattr(n, "ctx", None), ast.Load):
            out.append((idx, "str", 0, line, f".{n.attr}->.{STR[n.attr]}"))
        elif isinstance(n, (ast.FunctionDef, ast.If, ast.For, ast.While, ast.With)):
            pass
        if isinstance(n, (ast.FunctionDef, ast.If, ast.For, ast.While, ast.With, ast.Try)):
            for field in ("body", "orelse"):
                body = getattr(n, field, None)
                if isinstance(body, list) and len(body) > 1:
                    for k, st in enumerate(body):
                        if isinstance(st, (ast.Expr, ast.Assign, ast.AugAssign)) and not (isinstance(st, ast.Expr) and isinstance(st.value, ast.Constant)):
                            out.append((idx, "del:" + field, k, getattr(st, "lineno", line), "statement removed"))
    return out


def apply(src, m):
    idx, kind, k, line, what = m
    tree = ast.parse(src)
    nodes = [n for n in ast.walk(tree)]
    n = nodes[idx]
    if kind == "cmp":
        n.ops[k] = CMP[type(n.ops[k])]()
    elif kind == "const+":
        n.value = n.value + 1
    elif kind == "const-":
        n.value = n.value - 1
    elif kind == "boolop":
        n.op = ast.Or() if isinstance(n.op, ast.And) else ast.And()
    elif kind == "negate":
        n.test = ast.UnaryOp(op=ast.Not(), operand=n.test)
    elif kind == "arith":
        n.op = ARI[type(n.op)]()
    elif kind == "str":
        n.attr = STR[n.attr]
    elif kind.startswith("del:"):
        body = getattr(n, kind[4:])
        body[k] = ast.Pass()
    ast.fix_missing_locations(tree)
    return ast.unparse(tree)


def cmd_list(out, sample, seed):
    rng = random.Random(seed)
    anc = anchors()
    allm = []
    for rel in sorted(anc):
        path = os.path.join(REPO, rel)
        if not os.path.exists(path):
            continue
        src = open(path).read()
        try:
            base = ast.unparse(ast.parse(src))
        except SyntaxError:
            continue
        ms = mutants_of(path, src)
        for m in ms:
            allm.append({"file": rel, "mutant": list(m), "props": anc[rel]})
    rng.shuffle(allm)
    if sample:
        # stratified: at most sample/len(files) + a few per file first, then fill
        by = {}
        for m in allm:
            by.setdefault(m["file"], []).append(m)
        per = max(2, sample // max(1, len(by)))
        chosen = []
        for f, l in by.items():
            chosen += l[:per]
        rest = [m for m in allm if m not in chosen]
        chosen += rest[: max(0, sample - len(chosen))]
        allm = chosen[:sample] if len(chosen) > sample else chosen
    json.dump(allm, open(out, "w"), indent=0)
    print(len(allm), "mutants over", len({m['file'] for m in allm}), "files")


def sh(cmd, **kw):
    return subprocess.run(cmd, capture_output=True, text=True, **kw)


def cmd_run(mfile, lane, nlanes, out):
    ms = json.load(open(mfile))
    mine = [m for i, m in enumerate(ms) if i % nlanes == lane]
    wt = f"/tmp/mut_wt_{lane}"
    vf = f"/tmp/mut_verif_{lane}"
    sh(["git", "-C", REPO, "worktree", "remove", "--force", wt])
    sh(["git", "-C", REPO, "worktree", "add", "--detach", wt, "HEAD", "-q"])
    shutil.rmtree(vf, ignore_errors=True)
    subprocess.check_call(["rsync", "-a", "--exclude", ".git", "--exclude", "replays", "--exclude", "seeded", VERIF + "/", vf + "/"])
    os.makedirs(os.path.join(vf, "replays"), exist_ok=True)
    env = dict(os.environ, MOTO_REPO=wt, PYTHONPATH=os.path.join(wt, "src"), PYTHONDONTWRITEBYTECODE="1", TMPDIR=f"/tmp/mut_tmp_{lane}")
    os.makedirs(env["TMPDIR"], exist_ok=True)
    with open(out, "a") as fo:
        for m in mine:
            rel = m["file"]
            path = os.path.join(wt, rel)
            orig = open(os.path.join(REPO, rel)).read()
            rec = dict(m)
            t0 = time.time()
            try:
                mutated = apply(orig, tuple(m["mutant"]))
                compile(mutated, rel, "exec")
            except Exception as e:
                rec["result"] = "invalid"
                fo.write(json.dumps(rec) + "\n")
                fo.flush()
                continue
            if mutated == ast.unparse(ast.parse(orig)):
                rec["result"] = "noop"
                fo.write(json.dumps(rec) + "\n")
                fo.flush()
                continue
            open(path, "w").write(mutated)
            try:
                r = sh(["/venv/bin/python", "-m", "pytest", "-q", "-x", "-p", "no:cacheprovider", "--timeout=120"], cwd=wt, env=env, timeout=900)
                tests_pass = "111 passed" in r.stdout
            except subprocess.TimeoutExpired:
                tests_pass = False
            if not tests_pass:
                rec["result"] = "killed_by_tests"
            else:
                rec["result"] = "survived"
                rec["checks"] = {}
                for p in m["props"]:
                    try:
                        c = sh([os.path.join(vf, "bin", "check"), p, "quick"], cwd=vf, env=env, timeout=1800)
                        rc = c.returncode
                        line = next((l for l in c.stdout.splitlines() if l.startswith("VIOLATION")), "")
                    except subprocess.TimeoutExpired:
                        rc, line = 3, "timeout"
                    rec["checks"][p] = {"rc": rc, "line": line[:160]}
                    if rc == 1:
                        rec["result"] = "detected"
                        rec["by"] = p
                        clause = ""
                        try:
                            rp = line.split("replay=")[1].split()[0]
                            d = json.load(open(os.path.join(vf, rp)))
                            v = d.get("violation") or {}
                            clause = v.get("clause") or ("; ".join(d.get("no_longer_checks", []))[:120])
                        except Exception:
                            pass
                        rec["clause"] = clause
                        break
            rec["wall"] = round(time.time() - t0)
            open(path, "w").write(orig)
            fo.write(json.dumps(rec) + "\n")
            fo.flush()
    sh(["git", "-C", REPO, "worktree", "remove", "--force", wt])
    shutil.rmtree(vf, ignore_errors=True)
    shutil.rmtree(env["TMPDIR"], ignore_errors=True)


if __name__ == "__main__":
    if sys.argv[1] == "list":
        sample = int(sys.argv[sys.argv.index("--sample") + 1]) if "--sample" in sys.argv else 0
        seed = int(sys.argv[sys.argv.index("--seed") + 1]) if "--seed" in sys.argv else 0
        cmd_list(sys.argv[2], sample, seed)
    elif sys.argv[1] == "run":
        cmd_run(sys.argv[2], int(sys.argv[3]), int(sys.argv[4]), sys.argv[5])
