#!/usr/bin/env python3
"""tools/seed_eval.py <seed-dir> <prop> [more props...]
confirms a seeded change independently (fresh worktree: tests pass, demo fails with / passes without), runs the
checks against /repo with the patch applied, restores /repo, and files the seed under /verif/seeded/<name>/"""
import json, os, shutil, subprocess, sys, time

seed = sys.argv[1].rstrip("/")
props = sys.argv[2:]
name = os.path.basename(seed).replace("seed_", "")
if name.startswith("seedb_"):
    name = name[len("seedb_"):] + "b"
if name.startswith("seedc_"):
    name = name[len("seedc_"):] + "c"
V = "/verif"
patch = os.path.join(seed, "patch.diff")
demo = os.path.join(seed, "demo.py")
meta = json.load(open(os.path.join(seed, "meta.json"))) if os.path.exists(os.path.join(seed, "meta.json")) else {}
wt = f"/tmp/confirm_{name}"
subprocess.run(["git", "-C", "/repo", "worktree", "remove", "--force", wt], capture_output=True)
subprocess.check_call(["git", "-C", "/repo", "worktree", "add", "--detach", wt, "HEAD", "-q"])
env = dict(os.environ, PYTHONPATH=f"{wt}/src", PYTHONDONTWRITEBYTECODE="1")
demo_local = os.path.join(wt, "demo.py")
txt = open(demo).read().replace(seed, wt)
open(demo_local, "w").write(txt)
r0 = subprocess.run(["/venv/bin/python", demo_local], cwd=wt, env=env, capture_output=True, text=True, timeout=900)
subprocess.check_call(["git", "-C", wt, "apply", patch])
rt = subprocess.run(["/venv/bin/python", "-m", "pytest", "-q", "-p", "no:cacheprovider"], cwd=wt, env=env, capture_output=True, text=True, timeout=900)
r1 = subprocess.run(["/venv/bin/python", demo_local], cwd=wt, env=env, capture_output=True, text=True, timeout=900)
subprocess.run(["git", "-C", "/repo", "worktree", "remove", "--force", wt], capture_output=True)
confirm = {"demo_without_patch_rc": r0.returncode, "tests_with_patch": rt.stdout.strip().splitlines()[-1] if rt.stdout.strip() else rt.stderr[-200:],
           "demo_with_patch_rc": r1.returncode, "demo_with_patch_tail": (r1.stdout + r1.stderr).strip()[-300:]}
ok = r0.returncode == 0 and "111 passed" in confirm["tests_with_patch"] and r1.returncode != 0
print(name, "confirmed" if ok else "NOT CONFIRMED", json.dumps(confirm)[:400])
results = {}
if ok:
    subprocess.check_call(["git", "-C", "/repo", "apply", patch])
    try:
        for p in props:
            t0 = time.time()
            r = subprocess.run([f"{V}/bin/check", p, "quick"], cwd=V, capture_output=True, text=True, timeout=3000)
            lines = [l for l in r.stdout.splitlines() if l.startswith(("VIOLATION", "KNOWN"))]
            replay = None
            for l in lines:
                if "replay=" in l:
                    rp = l.split("replay=")[1].split()[0]
                    try:
                        d = json.load(open(os.path.join(V, rp)))
                        replay = json.dumps(d.get("violation") or d.get("no_longer_checks") or d.get("correspondence_disagreements"))[:500]
                    except Exception:
                        pass
            results[p] = {"rc": r.returncode, "lines": lines, "summary": r.stdout.strip().splitlines()[-1] if r.stdout.strip() else r.stderr[-300:], "replay_excerpt": replay, "wall": round(time.time() - t0)}
            print(" ", p, "rc", r.returncode, lines[:2], (replay or "")[:300])
    finally:
        subprocess.check_call(["git", "-C", "/repo", "checkout", "--", "."])
        # the evidence files written while the patch was applied describe a modified tree: put the committed ones back
        subprocess.run(["git", "-C", V, "checkout", "--", "evidence"], capture_output=True)
        for f in os.listdir(f"{V}/replays"):
            if f.endswith(".json"):
                os.remove(os.path.join(V, "replays", f))
out = os.path.join(V, "seeded", name)
os.makedirs(out, exist_ok=True)
shutil.copy(patch, os.path.join(out, "patch.diff"))
open(os.path.join(out, "demo.py"), "w").write(open(demo).read().replace(seed, "${WORKTREE}"))
meta.update({"breaks_property": meta.get("property", props[0] if props else name), "confirmation": confirm, "confirmed": ok,
             "checks_run": results, "how_to_rerun": f"git -C /repo apply /verif/seeded/{name}/patch.diff && ./bin/check <prop> quick; git -C /repo checkout -- ."})
json.dump(meta, open(os.path.join(out, "meta.json"), "w"), indent=1)
