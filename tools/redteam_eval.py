#!/usr/bin/env python3
"""tools/redteam_eval.py [--lanes N] [--no-confirm] [names...] : confirms and evaluates the red-team seeds seeded/RT*/ in parallel lanes.
Each lane has its own scratch copy of /verif and its own worktree of the repository under /tmp (removed afterwards), so /repo and
/verif are left alone.  Per seed: the demonstration passes on the unchanged tree, the 111 tests pass with the patch, the
demonstration fails with the patch (confirmation); then the quick checks named in meta.json run with the patch applied.
meta.json (confirmation, checks_run) is refreshed in /verif/seeded/<name>/; one line per (seed, check) is printed."""
import json, os, shutil, subprocess, sys, threading, time
V = os.path.dirname(os.path.dirname(os.path.abspath(__file__)))
R = os.environ.get("MOTO_REPO", "/repo")
args = sys.argv[1:]
lanes = 5
confirm = True
if "--lanes" in args:
    i = args.index("--lanes"); lanes = int(args[i + 1]); del args[i:i + 2]
if "--no-confirm" in args:
    args.remove("--no-confirm"); confirm = False
names = args or sorted(d for d in os.listdir(f"{V}/seeded") if d.startswith("RT"))
queue = list(names)
lock = threading.Lock()
PY = "/venv/bin/python"


def run_check(lv, lr, p):
    t0 = time.time()
    env = dict(os.environ, MOTO_REPO=lr)
    r = subprocess.run([f"{lv}/bin/check", p, "quick"], cwd=lv, capture_output=True, text=True, env=env)
    lines = [l for l in r.stdout.splitlines() if l.startswith(("VIOLATION", "KNOWN"))]
    replay = None
    for l in lines:
        if "replay=" in l:
            rp = l.split("replay=")[1].split()[0]
            try:
                x = json.load(open(os.path.join(lv, rp)))
                replay = json.dumps(x.get("violation") or x.get("no_longer_checks") or x.get("correspondence_disagreements"), ensure_ascii=False)[:600]
            except Exception:
                pass
            break
    return {"rc": r.returncode, "lines": lines[:3], "summary": r.stdout.strip().splitlines()[-1] if r.stdout.strip() else r.stderr[-300:],
            "replay_excerpt": replay, "wall": round(time.time() - t0)}


def lane(k):
    base = f"/tmp/rtlane{k}"
    lv, lr = f"{base}/verif", f"{base}/repo"
    shutil.rmtree(base, ignore_errors=True)
    os.makedirs(base)
    subprocess.check_call(["rsync", "-a", "--exclude", ".git", "--exclude", "seeded/mutation", f"{V}/", f"{lv}/"])
    subprocess.check_call(["git", "-C", R, "worktree", "add", "-q", "--detach", lr, "HEAD"])
    try:
        while True:
            with lock:
                if not queue:
                    return
                name = queue.pop(0)
            d = f"{V}/seeded/{name}"
            meta = json.load(open(f"{d}/meta.json"))
            env = dict(os.environ, MOTO_REPO=lr, PYTHONPATH=f"{lr}/src", PYTHONDONTWRITEBYTECODE="1", PYTHONUTF8="1")
            ok = True
            if confirm and os.path.exists(f"{d}/demo.py"):
                wd = f"{base}/demo"
                shutil.rmtree(wd, ignore_errors=True)
                os.makedirs(wd)
                for f in ("demo.py", "demolib.py"):
                    if os.path.exists(f"{d}/{f}"):
                        shutil.copy(f"{d}/{f}", wd)
                r0 = subprocess.run([PY, "demo.py"], cwd=wd, env=env, capture_output=True, text=True, timeout=1800)
                subprocess.check_call(["git", "-C", lr, "apply", f"{d}/patch.diff"])
                rt = subprocess.run([PY, "-m", "pytest", "-q", "-p", "no:cacheprovider"], cwd=lr, env=env, capture_output=True, text=True, timeout=1800)
                r1 = subprocess.run([PY, "demo.py"], cwd=wd, env=env, capture_output=True, text=True, timeout=1800)
                tests = rt.stdout.strip().splitlines()[-1] if rt.stdout.strip() else rt.stderr[-200:]
                meta["confirmation"] = {"demo_without_patch_rc": r0.returncode, "tests_with_patch": tests, "demo_with_patch_rc": r1.returncode,
                                        "demo_with_patch_tail": (r1.stdout + r1.stderr).strip()[-400:]}
                ok = r0.returncode == 0 and "111 passed" in tests and r1.returncode != 0
                meta["confirmed"] = ok
                shutil.rmtree(wd, ignore_errors=True)
            else:
                subprocess.check_call(["git", "-C", lr, "apply", f"{d}/patch.diff"])
            try:
                props = list(meta.get("checks_run", {}).keys())
                res = {}
                ths = []
                for p in props:
                    th = threading.Thread(target=lambda p=p: res.__setitem__(p, run_check(lv, lr, p)))
                    th.start(); ths.append(th)
                for th in ths:
                    th.join()
                meta["checks_run"] = {p: res[p] for p in props}
                meta["detected"] = any(v["rc"] == 1 for v in res.values())
                meta["detected_with_failing_input"] = any(v["rc"] == 1 and not any("no-failing-input-found" in l for l in v["lines"]) for v in res.values())
            finally:
                subprocess.check_call(["git", "-C", lr, "checkout", "--", "."])
                subprocess.run(["git", "-C", lr, "clean", "-fdq"])
                for f in os.listdir(f"{lv}/replays"):
                    if f.endswith(".json"):
                        os.remove(os.path.join(lv, "replays", f))
            json.dump(meta, open(f"{d}/meta.json", "w"), indent=1, ensure_ascii=False)
            with lock:
                print(name, "confirmed" if meta.get("confirmed", ok) else "NOT-CONFIRMED", "DETECTED" if meta["detected"] else "missed",
                      " ".join(f"{p}:rc{v['rc']}" + ("(nfi)" if any("no-failing-input-found" in l for l in v["lines"]) else "") for p, v in meta["checks_run"].items()), flush=True)
    finally:
        subprocess.run(["git", "-C", R, "worktree", "remove", "--force", lr])
        shutil.rmtree(base, ignore_errors=True)


ths = [threading.Thread(target=lane, args=(k,)) for k in range(1, min(lanes, len(names)) + 1)]
for t in ths:
    t.start()
for t in ths:
    t.join()
subprocess.run(["git", "-C", R, "worktree", "prune"])
