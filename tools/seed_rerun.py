#!/usr/bin/env python3
"""tools/seed_rerun.py [names...] : re-run, for every seeded change (default: all), the checks recorded in its meta.json with the
patch applied to /repo (restored afterwards); updates meta.checks_run and prints one line per (seed, check).
harmless/* are run with every check of their 'checks' list and must raise nothing."""
import json, os, subprocess, sys, time
V = os.path.dirname(os.path.dirname(os.path.abspath(__file__)))
REPO = os.environ.get("MOTO_REPO", "/repo")   # a scratch worktree of the repository lets several lanes run side by side
names = sys.argv[1:] or sorted(d for d in os.listdir(f"{V}/seeded") if d.startswith("C"))
for name in names:
    d = f"{V}/seeded/{name}"
    meta = json.load(open(f"{d}/meta.json"))
    props = list(meta.get("checks_run", {}).keys()) or [meta.get("breaks_property", name[:3])]
    if subprocess.run(["git", "-C", REPO, "apply", f"{d}/patch.diff"]).returncode != 0:
        print(name, "PATCH DOES NOT APPLY", flush=True)
        continue
    try:
        for p in props:
            t0 = time.time()
            r = subprocess.run([f"{V}/bin/check", p, "quick"], cwd=V, capture_output=True, text=True, timeout=3000)
            lines = [l for l in r.stdout.splitlines() if l.startswith(("VIOLATION", "KNOWN"))]
            replay = None
            for l in lines:
                if "replay=" in l:
                    rp = l.split("replay=")[1].split()[0]
                    try:
                        x = json.load(open(os.path.join(V, rp)))
                        replay = json.dumps(x.get("violation") or x.get("no_longer_checks") or x.get("correspondence_disagreements"))[:500]
                    except Exception:
                        pass
            meta.setdefault("checks_run", {})[p] = {"rc": r.returncode, "lines": lines, "summary": r.stdout.strip().splitlines()[-1] if r.stdout.strip() else r.stderr[-300:],
                                                    "replay_excerpt": replay, "wall": round(time.time() - t0)}
            print(name, p, "rc", r.returncode, lines[:1], flush=True)
    finally:
        subprocess.check_call(["git", "-C", REPO, "checkout", "--", "."])
        subprocess.run(["git", "-C", V, "checkout", "--", "evidence"], capture_output=True)  # no-op in a copy without .git
        for f in os.listdir(f"{V}/replays"):
            if f.endswith(".json"):
                os.remove(os.path.join(V, "replays", f))
    json.dump(meta, open(f"{d}/meta.json", "w"), indent=1)
