#!/bin/sh
# tools/seed_lanes.sh [lanes] : re-evaluates every seeded change and every harmless refactoring on the current tree, in parallel
# lanes; each lane works on its own scratch copy of /verif and its own worktree of the repository (under /tmp, removed afterwards),
# so that /repo and /verif are left alone.  The refreshed seeded/*/meta.json and seeded/harmless/*/result.txt are copied back.
LANES=${1:-4}
V="$(cd "$(dirname "$0")/.." && pwd)"
R="${MOTO_REPO:-/repo}"
SEEDS=$(cd "$V/seeded" && ls -d C* | tr '\n' ' ')
HARM=$(cd "$V/seeded/harmless" && ls | tr '\n' ' ')
i=0
for lane in $(seq 1 $LANES); do
  rm -rf /tmp/lane$lane
  mkdir -p /tmp/lane$lane
  rsync -a --exclude .git "$V/" /tmp/lane$lane/verif/
  git -C "$R" worktree add -q --detach /tmp/lane$lane/repo HEAD
done
n=0
for s in $SEEDS; do n=$((n + 1)); lane=$(( (n % LANES) + 1 )); eval "L$lane=\"\$L$lane $s\""; done
n=0
for h in $HARM; do n=$((n + 1)); lane=$(( (n % LANES) + 1 )); eval "H$lane=\"\$H$lane $h\""; done
for lane in $(seq 1 $LANES); do
  eval "names=\$L$lane"; eval "harm=\$H$lane"
  ( cd /tmp/lane$lane/verif && MOTO_REPO=/tmp/lane$lane/repo python3 tools/seed_rerun.py $names > /tmp/lane$lane/seeds.txt 2>&1
    cd /tmp/lane$lane/verif && MOTO_REPO=/tmp/lane$lane/repo sh tools/harmless_eval.sh $harm > /tmp/lane$lane/harmless.txt 2>&1 ) &
done
wait
for lane in $(seq 1 $LANES); do
  cat /tmp/lane$lane/seeds.txt
  grep -E "^== |rc=[1-9]" /tmp/lane$lane/harmless.txt
  eval "names=\$L$lane"; eval "harm=\$H$lane"
  for s in $names; do cp /tmp/lane$lane/verif/seeded/$s/meta.json "$V/seeded/$s/meta.json"; done
  for h in $harm; do [ -f /tmp/lane$lane/verif/seeded/harmless/$h/result.txt ] && cp /tmp/lane$lane/verif/seeded/harmless/$h/result.txt "$V/seeded/harmless/$h/result.txt"; done
  git -C "$R" worktree remove --force /tmp/lane$lane/repo
  rm -rf /tmp/lane$lane
done
git -C "$R" worktree prune
