"""A small Python -> Lean translator for pure integer/boolean functions (and functions returning `bytes([...])` of integers).

Supported: functions and methods whose body is made of assignments (also tuple targets and `divmod`), augmented
assignments, `if/elif/else` (branches may return), `return`, one accumulating `for x in <param>: acc = expr` loop, `pass`
and doc strings; expressions over int literals, names, `+ - * // % & | << >>`, comparisons, `and or not`, conditional
expressions, tuples, calls of sibling methods `self.m()`, module-level constants (folded by evaluating them in the
imported module).  `self._field` is the parameter `field`; a bound method used as a truth value (`self.isLast` without
call) is `true`, as in Python.  Integers are translated to `Nat` (the translated functions are only applied to bytes and
sizes); `-` is therefore truncated subtraction, as in the hand-written model.

`translate(module, qualname, lean_name, ...)` returns the Lean text of the definition or raises `Untranslatable`.
"""
import ast
import importlib
import inspect
import textwrap


class Untranslatable(Exception):
    pass


BINOPS = {ast.Add: "+", ast.Sub: "-", ast.Mult: "*", ast.FloorDiv: "/", ast.Mod: "%", ast.BitAnd: "&&&", ast.BitOr: "|||",
          ast.LShift: "<<<", ast.RShift: ">>>"}
CMPOPS = {ast.Eq: "==", ast.NotEq: "!=", ast.Lt: "<", ast.LtE: "≤", ast.Gt: ">", ast.GtE: "≥"}


class Tr:
    def __init__(self, module, self_fields, sibling_methods, module_funcs=None, elem_methods=None, tuple_ctors=()):
        self.module = module
        self.locals = set()
        self.self_fields = self_fields          # {"_status": "status"}
        self.siblings = sibling_methods         # {"isFree": "isFree"}: methods of the same class taking the fields
        self.module_funcs = module_funcs or {}  # {"_computeRequiredSlots": ("computeRequiredSlots", "tuple")}: translated functions
        self.elem_methods = elem_methods or {}  # {"isFree": ("isFree", "bool")}: methods of the elements of an iterated list
        self.tuple_ctors = set(tuple_ctors)     # constructors of plain records, translated to tuples
        self.elems = set()                      # loop variables ranging over such elements

    # ---- constants --------------------------------------------------------------------------------------------------
    def const(self, node):
        names = {n.id for n in ast.walk(node) if isinstance(n, ast.Name)}
        if names & self.locals or "self" in names:
            return None
        try:
            v = eval(compile(ast.Expression(body=node), "<const>", "eval"), dict(self.module.__dict__))
        except Exception:
            return None
        if isinstance(v, bool):
            return "true" if v else "false"
        if isinstance(v, int) and v >= 0:
            return str(v)
        return None

    # ---- expressions: (text, kind) with kind in {"nat", "bool", "tuple"} ----------------------------------------------
    def expr(self, e):
        c = None if isinstance(e, ast.Name) and e.id in self.locals else self.const(e)
        if c is not None:
            return c, ("bool" if c in ("true", "false") else "nat")
        if isinstance(e, ast.Name):
            if e.id in self.locals:
                return e.id, self.kinds.get(e.id, "nat")
            raise Untranslatable(f"free name {e.id}")
        if isinstance(e, ast.Attribute) and isinstance(e.value, ast.Name) and e.value.id == "self":
            if e.attr in self.self_fields:
                return self.self_fields[e.attr], "nat"
            if e.attr in self.siblings:
                return "true", "bool"           # a bound method object is truthy
            raise Untranslatable(f"self.{e.attr}")
        if isinstance(e, ast.BinOp) and type(e.op) in BINOPS:
            a, ka = self.expr(e.left)
            b, kb = self.expr(e.right)
            if ka != "nat" or kb != "nat":
                raise Untranslatable("arithmetic on non-integers")
            return f"({a} {BINOPS[type(e.op)]} {b})", "nat"
        if isinstance(e, ast.Compare) and len(e.ops) >= 1 and all(type(o) in CMPOPS for o in e.ops):
            parts = []
            left = e.left
            for op, right in zip(e.ops, e.comparators):
                a, ka = self.expr(left)
                b, kb = self.expr(right)
                if ka != kb:
                    raise Untranslatable("comparison of different kinds")
                parts.append(f"decide ({a} {CMPOPS[type(op)]} {b})" if type(op) not in (ast.Eq, ast.NotEq) else f"({a} {CMPOPS[type(op)]} {b})")
                left = right
            return "(" + " && ".join(parts) + ")", "bool"
        if isinstance(e, ast.BoolOp):
            vals = [self.expr(v) for v in e.values]
            if any(k != "bool" for _, k in vals):
                raise Untranslatable("and/or on non-booleans")
            return "(" + (" && " if isinstance(e.op, ast.And) else " || ").join(t for t, _ in vals) + ")", "bool"
        if isinstance(e, ast.UnaryOp) and isinstance(e.op, ast.Not):
            a, k = self.expr(e.operand)
            if k != "bool":
                raise Untranslatable("not on a non-boolean")
            return f"(!{a})", "bool"
        if isinstance(e, ast.IfExp):
            c, kc = self.expr(e.test)
            a, ka = self.expr(e.body)
            b, kb = self.expr(e.orelse)
            if kc != "bool" or ka != kb:
                raise Untranslatable("conditional expression")
            return f"(if {c} then {a} else {b})", ka
        if isinstance(e, ast.Tuple):
            vals = [self.expr(v) for v in e.elts]
            return "(" + ", ".join(t for t, _ in vals) + ")", "tuple"
        if isinstance(e, ast.List) and all(not isinstance(x, ast.Starred) for x in e.elts):
            vals = [self.expr(v) for v in e.elts]
            if any(k != "nat" for _, k in vals):
                raise Untranslatable("list of non-integers")
            return "[" + ", ".join(t for t, _ in vals) + "]", "list"
        if isinstance(e, ast.Call):
            f = e.func
            if isinstance(f, ast.Name) and f.id in ("bytes", "bytearray") and len(e.args) == 1 and not e.keywords:
                t, k = self.expr(e.args[0])
                if k != "list":
                    raise Untranslatable("bytes() of something that is not a list literal")
                return t, "list"            # every element is the result of `& 0xFF` or a byte: checked by the equality proof, not here
            if isinstance(f, ast.Attribute) and isinstance(f.value, ast.Name) and f.value.id == "self" and f.attr in self.siblings and not e.args:
                return f"({self.siblings[f.attr][0]} {' '.join(self.self_fields.values())})", self.siblings[f.attr][1]
            if isinstance(f, ast.Name) and f.id in self.module_funcs and not e.keywords:
                args = [self.expr(a) for a in e.args]
                if any(k != "nat" for _, k in args):
                    raise Untranslatable("argument of a translated function")
                name, kind = self.module_funcs[f.id]
                return f"({name} {' '.join(t for t, _ in args)})", kind
            if isinstance(f, ast.Name) and f.id in self.tuple_ctors and not e.keywords:
                vals = [self.expr(v) for v in e.args]
                return "(" + ", ".join(t for t, _ in vals) + ")", "tuple"
            if isinstance(f, ast.Attribute) and isinstance(f.value, ast.Name) and f.value.id in self.elems and f.attr in self.elem_methods and not e.args:
                name, kind = self.elem_methods[f.attr]
                return f"({name} {f.value.id})", kind
            if isinstance(f, ast.Name) and f.id == "divmod" and len(e.args) == 2:
                a, _ = self.expr(e.args[0])
                b, _ = self.expr(e.args[1])
                return f"({a} / {b}, {a} % {b})", "tuple"
            raise Untranslatable("call")
        raise Untranslatable(type(e).__name__)

    # ---- statements: the value of the block, as a Lean term ------------------------------------------------------------
    def block(self, stmts, indent):
        pad = "  " * indent
        if not stmts:
            raise Untranslatable("falls off the end")
        s, rest = stmts[0], stmts[1:]
        if isinstance(s, ast.Expr) and isinstance(s.value, ast.Constant) and isinstance(s.value.value, str):
            return self.block(rest, indent)
        if isinstance(s, ast.Pass):
            return self.block(rest, indent)
        if isinstance(s, ast.Return):
            if s.value is None:
                raise Untranslatable("bare return")
            t, _ = self.expr(s.value)
            return pad + t
        if isinstance(s, ast.Assign) and len(s.targets) == 1:
            tgt = s.targets[0]
            t, k = self.expr(s.value)
            if isinstance(tgt, ast.Name):
                self.locals.add(tgt.id)
                self.kinds[tgt.id] = k
                return f"{pad}let {tgt.id} := {t}\n" + self.block(rest, indent)
            if isinstance(tgt, ast.Tuple) and all(isinstance(x, ast.Name) for x in tgt.elts) and k == "tuple":
                names = [x.id for x in tgt.elts]
                for n in names:
                    self.locals.add(n)
                    self.kinds[n] = "nat"
                return f"{pad}let ({', '.join(names)}) := {t}\n" + self.block(rest, indent)
            raise Untranslatable("assignment target")
        if isinstance(s, ast.AugAssign) and isinstance(s.target, ast.Name) and type(s.op) in BINOPS:
            t, _ = self.expr(ast.BinOp(left=ast.Name(id=s.target.id, ctx=ast.Load()), op=s.op, right=s.value))
            return f"{pad}let {s.target.id} := {t}\n" + self.block(rest, indent)
        if isinstance(s, ast.If):
            c, k = self.expr(s.test)
            if k != "bool":
                raise Untranslatable("condition")
            saved = (set(self.locals), dict(self.kinds))
            a = self.block(list(s.body) + rest, indent + 1)
            self.locals, self.kinds = set(saved[0]), dict(saved[1])
            b = self.block(list(s.orelse) + rest, indent + 1)
            self.locals, self.kinds = saved
            return f"{pad}if {c} then\n{a}\n{pad}else\n{b}"
        if isinstance(s, ast.For) and isinstance(s.target, ast.Name) and isinstance(s.iter, ast.Name) and not s.orelse \
                and len(s.body) == 1 and isinstance(s.body[0], ast.Assign) and len(s.body[0].targets) == 1 \
                and isinstance(s.body[0].targets[0], ast.Name) and s.body[0].targets[0].id in self.locals:
            acc = s.body[0].targets[0].id
            x = s.target.id
            self.locals.add(x)
            self.kinds[x] = "nat"
            t, _ = self.expr(s.body[0].value)
            self.locals.discard(x)
            return f"{pad}let {acc} := {s.iter.id}.foldl (fun {acc} {x} => {t}) {acc}\n" + self.block(rest, indent)
        if isinstance(s, ast.For) and isinstance(s.target, ast.Name) and not s.orelse and self.iter_name(s.iter) is not None:
            # a loop whose body only updates accumulators (possibly under if/elif/else): a fold over the tuple of accumulators
            accs = []
            for n in ast.walk(ast.Module(body=s.body, type_ignores=[])):
                if isinstance(n, (ast.Assign, ast.AugAssign)):
                    tg = n.targets[0] if isinstance(n, ast.Assign) else n.target
                    if not isinstance(tg, ast.Name):
                        raise Untranslatable("loop assignment target")
                    if tg.id not in accs:
                        accs.append(tg.id)
                elif isinstance(n, (ast.Return, ast.For, ast.While, ast.Break, ast.Continue)):
                    raise Untranslatable("control flow inside a loop")
            if not accs or any(a not in self.locals for a in accs):
                raise Untranslatable("loop accumulators")
            x = s.target.id
            saved = (set(self.locals), dict(self.kinds), set(self.elems))
            self.locals.add(x)
            self.kinds[x] = "nat"
            self.elems.add(x)
            ret = ast.Return(value=ast.Tuple(elts=[ast.Name(id=a, ctx=ast.Load()) for a in accs], ctx=ast.Load()) if len(accs) > 1
                             else ast.Name(id=accs[0], ctx=ast.Load()))
            body = self.block(list(s.body) + [ret], indent + 2)
            self.locals, self.kinds, self.elems = saved
            pat = "(" + ", ".join(accs) + ")" if len(accs) > 1 else accs[0]
            return (f"{pad}let {pat} := {self.iter_name(s.iter)}.foldl (fun {pat} {x} =>\n{body}) {pat}\n" + self.block(rest, indent))
        raise Untranslatable(type(s).__name__)

    def iter_name(self, it):
        if isinstance(it, ast.Name) and it.id in self.locals:
            return it.id
        if isinstance(it, ast.Attribute) and isinstance(it.value, ast.Name) and it.value.id == "self" and it.attr in self.self_fields:
            return self.self_fields[it.attr]
        return None


def find_function(module, qualname):
    src = inspect.getsource(module)
    tree = ast.parse(src)
    parts = qualname.split(".")
    body = tree.body
    node = None
    for p in parts:
        node = next((n for n in body if isinstance(n, (ast.FunctionDef, ast.ClassDef)) and n.name == p), None)
        if node is None:
            raise Untranslatable(f"{qualname} not found")
        body = node.body
    if not isinstance(node, ast.FunctionDef):
        raise Untranslatable(f"{qualname} is not a function")
    return node


def translate(module_name, qualname, lean_name, params, ret, self_fields=None, siblings=None, list_params=(),
              module_funcs=None, elem_methods=None, tuple_ctors=(), fragment=None):
    """params: [(python name or self-field name, lean name)], ret: lean type text.
    fragment = (first, last, results): only the statements from the one that assigns `first` to the one that assigns `last` are
    translated, as a function of `params` (local names of the function) returning the tuple of the names in `results`."""
    module = importlib.import_module(module_name)
    fn = find_function(module, qualname)
    tr = Tr(module, self_fields or {}, siblings or {}, module_funcs, elem_methods, tuple_ctors)
    tr.kinds = {}
    args = [a.arg for a in fn.args.args if a.arg not in ("self", "cls")]
    if self_fields is None and fragment is None and args != [p for p, _ in params]:
        raise Untranslatable(f"parameters of {qualname} are {args}")
    for p, l in params:
        tr.locals.add(l if self_fields else p)
        tr.kinds[l if self_fields else p] = "nat"
    stmts = list(fn.body)
    if fragment is not None:
        first, last, results = fragment

        def assigns(st, name):
            if not isinstance(st, ast.Assign):
                return False
            return any(isinstance(n, ast.Name) and n.id == name for t in st.targets for n in ast.walk(t))
        i0 = next((i for i, st in enumerate(stmts) if assigns(st, first)), None)
        i1 = next((i for i, st in enumerate(stmts) if assigns(st, last)), None)
        if i0 is None or i1 is None or i1 < i0:
            raise Untranslatable(f"fragment {first}..{last} of {qualname} not found")
        stmts = stmts[i0:i1 + 1] + [ast.Return(value=ast.Tuple(elts=[ast.Name(id=r, ctx=ast.Load()) for r in results], ctx=ast.Load()))]
    body = tr.block(stmts, 1)
    binder = " ".join(f"({(l if self_fields else p)} : {'List Nat' if p in list_params else 'Nat'})" for p, l in params)
    return f"def {lean_name} {binder} : {ret} :=\n{body}\n"
