#!/bin/sh
# tools/revert_test.sh <commit-subject-prefix> <prop> [<prop>...] : reverse-applies a fix commit in /repo, runs checks, restores
SUBJ="$1"; shift
H=$(git -C /repo log --format='%h %s' | grep -F "$SUBJ" | head -1 | cut -d' ' -f1)
[ -n "$H" ] || { echo "no commit for $SUBJ"; exit 2; }
git -C /repo show "$H" | git -C /repo apply -R || exit 2
for p in "$@"; do
  timeout 1500 /verif/bin/check "$p" quick 2>&1 | grep -E "VIOLATION|KNOWN|^C[0-9]+ quick" ; echo "rc=$?"
done
git -C /repo checkout -- .
rm -f /verif/replays/*.json
