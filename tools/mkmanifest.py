#!/usr/bin/env python3
"""writes /verif/MANIFEST.json from the table below (one place to keep it valid)"""
import json
import os

HERE = os.path.dirname(os.path.dirname(os.path.abspath(__file__)))

NOTE = ("Trusted base: Lean 4.33 kernel; axioms per theorem audited on every run (subset of propext, Classical.choice, "
        "Quot.sound; no sorry/native_decide/bv_decide/own axioms); tools/translate.py for generated constants; the "
        "correspondence check ties the hand-written model to the Python code on generated inputs only; CPython/POSIX "
        "primitives as modelled in Model/Py.lean.")

CHECKS = {
    "C17": ("Proof: the model of PrettierCli.processLine (re.split grouping + parity toggle) equals the quote automaton of the "
            "property for every line; literal-verbatim, positions, length, idempotence and line-order corollaries. Tie: "
            "differential runs of processLine/CLI against the compiled model, exhaustive over all strings <= 6 (quick) / 8 "
            "(thorough) on a 5-symbol alphabet; the automaton is also evaluated on the real output (oracle).",
            "Lean 4 theorems + model/code correspondence (differential, exhaustive small scope)", "7 C17"),
}

CHECKS["C16"] = ("Proof: the model of NumberLineCli (processLine fold with one counter over all files) equals the property's "
                 "numbering rule for every text, start, increment, width (run_eq_spec); length, verbatim, padding and idempotence "
                 "(any second configuration, positive start/increment) theorems. Tie: differential CLI runs (files, stdin, "
                 "CR/LF mixes), exhaustive over all 3-line (quick) / 4-line (thorough) texts on 6 line shapes.",
                 "Lean 4 theorems + model/code correspondence (differential, exhaustive small scope)", "7 C16")
CHECKS["C15"] = ("Proof: listing->ASCII BASIC shape and 7-bit; ASCII BASIC->listing equals the non-empty-lines specification for "
                 "every byte file and both endings (loop invariant), never an empty line; round trip = normalised non-blank "
                 "lines (uses universal-newline and rstrip lemmas over the generated whitespace table). Tie: differential CLI "
                 "runs of moto_lst2bas/moto_bas2lst incl. non-ASCII and odd whitespace, exhaustive over {CR,LF,A,blank}^<=6/9.",
                 "Lean 4 theorems + model/code correspondence (differential, exhaustive small scope)", "7 C15")

T = "Lean 4 theorems + model/code correspondence (differential CLI runs) + format oracle"
CHECKS["C01"] = ("Proof: C01.roundtrip — for every list of readable sources with ordinary 8.3 names that fits, and any contents, the "
                 "model's create writes an archive from which the model's extract writes every file byte for byte under its "
                 "upper-cased name beside the archive / under --into, and list names exactly those files in order (composition of the "
                 "writer invariant, the reader theorem on rendered tapes and the whole-file reader lemma). Tie: create/list/extract of "
                 "the real tool vs the compiled model (status, stdout, archive bytes, files), all single lengths swept.", T, "7 C01")
CHECKS["C03"] = ("Proof: C03.created_tape_is_k7 — whenever create writes, the archive equals the format description's encoding "
                 "(Spec.K7.tape: 16x01 3C 5A frames back to back + zero padding, 21504 bytes); frame length/checksum laws, chunk "
                 "bounds and concatenation, 8/3 field widths for every name length, kind/mode table; generated constants = format "
                 "constants. Tie + oracle: real archives vs model, vs Spec.K7.tape, and through an independent strict Python decoder.", T, "7 C03")
CHECKS["C08"] = ("Proof: C08.read_blocks(_padded) — on every tape emitted by the independent writer (leaders >= 3, idle gaps without 3C, "
                 "payloads 0..254 of any content, any length) the model reader returns exactly the written blocks; "
                 "list_extract_agree — whenever extract completes, list completes with the same report. Tie: tapes from a Python twin of "
                 "the writer (checked byte-identical to Lean's render) through real list/extract vs model and abstract files.", T, "7 C08")
CHECKS["C09"] = ("Proof: C09.accepted / refused / accepted_iff / missing_source / never_partial — the model accepts exactly the lists whose "
                 "encoded size (35 per leader, 21 per block + payload) is < 21504, then writes the complete archive with status 0; "
                 "otherwise status 1, diagnostic, no write at all. Tie: frontier stream with the overflow in every block kind, "
                 "single-file lengths across the frontier, missing sources at every index, pre-existing target.", T, "7 C09")

PENDING = {}


def main():
    props = [json.loads(l) for l in open(os.path.join(HERE, "properties.jsonl"))]
    checks = []
    na = []
    for p in props:
        pid = p["id"]
        if pid in CHECKS:
            text, technique, ref = CHECKS[pid]
            checks.append({
                "property_id": pid,
                "quick_cmd": f"./bin/check {pid} quick",
                "thorough_cmd": f"./bin/check {pid} thorough",
                "evidence_file": f"evidence/{pid}.json",
                "replay_cmd_template": f"./bin/check {pid} --replay {{path}}",
                "engine": "lean-model",
                "level_claimed": {"category": "proof", "text": text, "design_ref": f"DESIGN.md section {ref}"},
                "level_note": NOTE,
                "technique": technique,
            })
        else:
            na.append({"property_id": pid, "reason": PENDING.get(pid, "check not built yet in this session (work in progress; the Lean technique applies, see DESIGN.md section 7)")})
    m = {
        "version": 1,
        "setup_cmd": "cd lean && lake build MotoModel motodrv",
        "hooks": {
            "guard": "MOTO_TOOLS_VERIF",
            "enable": "no hooks are needed: the checks import /repo/src in-process and run the tools as subprocesses",
            "baseline_off_cmd": "cd /repo && /venv/bin/python -m pytest -ra -q -p no:cacheprovider --timeout=900 --continue-on-collection-errors",
            "source_commits": [],
            "add_only": True,
        },
        "engines": [{"name": "lean-model", "path": "lean", "serves_properties": sorted(CHECKS),
                     "kind_free_text": "Lean 4 model + spec + theorems (lake project), generated constants (tools/translate.py), compiled line-protocol driver, Python differential harness"}],
        "checks": checks,
        "not_applicable": na,
        "notes": "All checks: ./bin/check <id> quick|thorough. Exit 0 ok, 1 VIOLATION, 2 infrastructure error. Repository location can be overridden with MOTO_REPO.",
    }
    with open(os.path.join(HERE, "MANIFEST.json"), "w") as f:
        json.dump(m, f, indent=1)
    print(len(checks), "checks,", len(na), "not applicable")


if __name__ == "__main__":
    main()
