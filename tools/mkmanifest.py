#!/usr/bin/env python3
"""writes /verif/MANIFEST.json from the table below (one place to keep it valid)"""
import json
import os

HERE = os.path.dirname(os.path.dirname(os.path.abspath(__file__)))

NOTE = ("Trusted base: Lean 4.33 kernel; axioms per theorem audited on every run (subset of propext, Classical.choice, "
        "Quot.sound; no sorry/native_decide/bv_decide/own axioms); tools/translate.py for generated constants; the "
        "correspondence check ties the hand-written model to the Python code on generated inputs only; CPython/POSIX "
        "primitives as modelled in Model/Py.lean.")

CHECKS = {
    "C17": ("Proof: the model of PrettierCli.processLine (re.split grouping + parity toggle) equals the quote automaton of the "
            "property for every line; literal-verbatim, positions, length, idempotence and line-order corollaries. Tie: "
            "differential runs of processLine/CLI against the compiled model, exhaustive over all strings <= 6 (quick) / 8 "
            "(thorough) on a 5-symbol alphabet; the automaton is also evaluated on the real output (oracle).",
            "Lean 4 theorems + model/code correspondence (differential, exhaustive small scope)", "7 C17"),
}

CHECKS["C16"] = ("Proof: C16.leading_number_is_the_number_at_start — the specification reads 'begins with a number' through its own numberAtStart (digit run, no leading zero, valued from the last digit), proved equal to the tool's regular-expression reading; C16.files_as_concatenation — files ending with a line feed are numbered as their joined text (readlines of a concatenation under universal newlines); the model of NumberLineCli (processLine fold with one counter over all files) equals the property's "
                 "numbering rule for every text, start, increment, width (run_eq_spec); length, verbatim, padding and idempotence "
                 "(any second configuration, positive start/increment) theorems. Tie: differential CLI runs (files, stdin, "
                 "CR/LF mixes), exhaustive over all 3-line (quick) / 4-line (thorough) texts on 6 line shapes.",
                 "Lean 4 theorems + model/code correspondence (differential, exhaustive small scope)", "7 C16")
CHECKS["C15"] = ("Proof: C15.cli_roundtrip — file to file through the run() of both converters (Model/ConvCli): moto_lst2bas name.lst,a writes exactly name.bas, moto_bas2lst name.bas,a [--dos] on it writes exactly name.lst = the non-blank normalised lines; cli_sources_in_order; listing->ASCII BASIC shape and 7-bit; ASCII BASIC->listing equals the non-empty-lines specification for "
                 "every byte file and both endings (loop invariant), never an empty line; round trip = normalised non-blank "
                 "lines (uses universal-newline and rstrip lemmas over the generated whitespace table). Tie: differential CLI "
                 "runs of moto_lst2bas/moto_bas2lst incl. non-ASCII and odd whitespace, exhaustive over {CR,LF,A,blank}^<=6/9.",
                 "Lean 4 theorems + model/code correspondence (differential, exhaustive small scope)", "7 C15")

T = "Lean 4 theorems + model/code correspondence (differential CLI runs) + format oracle"
CHECKS["C01"] = ("Proof: C01.catalog_name_is_8_3 — the name a source is filed under is, for every argument string, NAME.EXT of the naming rule Spec.Names.tapeSource (last path component, last dot, upper case, 8 + 3; written with reverse/takeWhile, the code with rfind); C01.roundtrip_beside_archive — without --into the only path condition is that no member is named like the archive (lexical path normalisation, Proofs/PathNorm.lean); C01.roundtrip_directory — distinct catalog names: after create + extract each source's content is under its name in the destination; C01.roundtrip — for every list of readable sources with ordinary 8.3 names that fits, and any contents, the "
                 "model's create writes an archive from which the model's extract writes every file byte for byte under its "
                 "upper-cased name beside the archive / under --into, and list names exactly those files in order (composition of the "
                 "writer invariant, the reader theorem on rendered tapes and the whole-file reader lemma). Tie: create/list/extract of "
                 "the real tool vs the compiled model (status, stdout, archive bytes, files), all single lengths swept.", T, "7 C01")
CHECKS["C03"] = ("Proof: C03.source_naming_rule — for every argument string the leader's name, extension, kind, mode and the file read are those of Spec.Names.tapeSource (kind/mode by Spec.K7.kindMode); C03.created_tape_is_k7 — whenever create writes, the archive equals the format description's encoding "
                 "(Spec.K7.tape: 16x01 3C 5A frames back to back + zero padding, 21504 bytes); frame length/checksum laws, chunk "
                 "bounds and concatenation, 8/3 field widths for every name length, kind/mode table; generated constants = format "
                 "constants. Tie + oracle: real archives vs model, vs Spec.K7.tape, and through an independent strict Python decoder.", T, "7 C03")
CHECKS["C08"] = ("Proof: C08.third_party_tape_any_idle_read_exactly / read_blocks_any_idle — the weakest reading of 'idle gaps': the stretches before, between and after the blocks may hold any bytes (3C included) except the five-byte start-of-block pattern; C08.read_blocks(_padded) — on every tape emitted by the independent writer (leaders >= 3, idle gaps without 3C, "
                 "payloads 0..254 of any content, any length) the model reader returns exactly the written blocks; "
                 "third_party_tape_read_exactly — such a tape carrying, per file, a leader, any number of data blocks of any sizes and an end block "
                 "is extracted as exactly those files (names, order, content = concatenation of the data blocks) and listed under the same names; "
                 "list_extract_agree — whenever extract completes, list completes with the same report. Tie: tapes from a Python twin of "
                 "the writer (checked byte-identical to Lean's render) through real list/extract vs model and abstract files.", T, "7 C08")
CHECKS["C09"] = ("Proof: C09.all_or_nothing — for every world and every source list, status 0 with exactly one write of 21504 bytes, or another status and no write (no hypothesis); C09.accepted / refused / accepted_iff / missing_source / never_partial — the model accepts exactly the lists whose "
                 "encoded size (35 per leader, 21 per block + payload) is < 21504, then writes the complete archive with status 0; "
                 "otherwise status 1, diagnostic, no write at all. Tie: frontier stream with the overflow in every block kind, "
                 "single-file lengths across the frontier, missing sources at every index, pre-existing target.", T, "7 C09")

D = "Lean 4 theorems (first layer) + model/code correspondence (differential, real tools vs compiled model) + independent-decoder oracle"
CHECKS["C02"] = ("Proof: C02.source_naming_rule / plain_source_is_listed_as_name_dot_ext — for every argument string splitSource = the naming rule Spec.Names.diskSource, and for plain 8.3 names the printed / extracted name is STEM.EXT; C02.create_stores_sources_in_order — every created image holds, side by side and in catalog order, exactly the sources placed there in command-line order (a sub-sequence of the command line, sides never decreasing); listing_and_extraction_follow_catalog_order; add_appends_sources_in_order; C02.create_then_extract_beside_archive — without --into the round trip needs no path hypothesis (members go two levels below the archive's directory); C02.small_batch_in_order — a batch that fits on side 0 is stored entry by entry in the order given and extracted as side0/NAME.EXT in that order with its data (the entry taken is the first that is not live); C02.generated_layout (sizes at the top of writeFile, translated); C02.create_then_extract — for every list of sources with ordinary catalog names (any contents, sizes 0 .. beyond a side, "
                 "end-of-side markers, missing files, refusals) --create returns 0 and writes the archive of a consistent image; --extract of that "
                 "archive (either verbosity, with or without --into) returns 0 and writes exactly the files of the image as target/sideN/NAME.EXT in "
                 "catalog order; every file of the image is the exact data of one of the sources under the entry written for it. Built on "
                 "C02.write_then_read (controller round trip, every size), the invariant of C05 and load(save img) = img; small_batch_roundtrip — a "
                 "batch of readable 8.3-named sources needing at most 157 blocks and 112 entries is stored entirely on side 0, and extract then "
                 "writes exactly as many files as there were sources, each the exact data of one. For larger batches which sources end up "
                 "stored is the placement rule of C10. Tie/oracle: create -> list -> extract of both real tools vs the "
                 "compiled model and vs the sources, sizes 0 .. beyond a side, every block of a side as first block of a file.", D, "7 C02")
CHECKS["C04"] = ("Proof: C04.created_entries_follow_extension_rules — bytes 11/12 of every stored entry are the kind/flag of the extension table for its source; C04.created_image_is_well_formed — for every source list --create writes the serialisation of four sides each accepted by "
                 "the strict independent checker Spec.Dos.fsck (geometry, table byte 0 zero, 160 valid statuses, track 20 reserved, acyclic chains "
                 "ending in C1..C8, no shared block, used = chains, <= 255 bytes in a last sector); consistent_side_passes_fsck (every side "
                 "satisfying the invariant of C05); independent_reader_agrees (the decoder written from the layout lists every live entry with, as "
                 "content, exactly the bytes the tool's reader returns, 255 per sector along the chain); geometry of save for both flavours and FF "
                 "padding of .sd slots, kind/flag dispatch table = documented table, 32-byte entry layout; generated_status_functions (the status "
                 "tests and usage rule translated from block_allocation.py on every run = the model's, for every status). Tie/oracle: created images vs model, "
                 "decoded by two independent readers (Lean Spec.Dos and a Python twin) that must agree with each other and with the sources.", D, "7 C04")
CHECKS["C05"] = ("Proof: C05.every_history_consistent / every_archive_consistent — after --create and ANY sequence of --add invocations (any sources, "
                 "sizes, end-of-side markers, refusals) every side satisfies the invariant SideInv (geometry, readable table, track 20 reserved, every "
                 "live entry names a duplicate-free linked chain ending in C1..C8, chains pairwise disjoint, used blocks = union of the chains), the "
                 "run returns 0 and the archive is the serialisation of those sides; one writeFile either stores (slot that was not live, exactly the "
                 "chosen free blocks) or refuses with the same table and catalog, no third outcome; every stored file reads back identically after "
                 "any writeFile; free+used+reserved = 160. Hypothesis: source names without code point 0xFF (non-ASCII names are refused by the tools). "
                 "SideInv => accepted by the independent Spec.Dos.fsck is C04.consistent_side_passes_fsck. Tie/oracle: all histories of depth "
                 "<= 2/3 over 9 step kinds, random ones, third-party pre-images with a full catalog and fragmented free space; each step vs model + "
                 "independent fsck + full read-back.", D, "7 C05")
CHECKS["C06"] = ("Proof: C06.catalog_and_table_change_only_for_added_files — over a whole --add every catalog entry is unchanged unless it was not live and now is, every table status unchanged unless the block was free and no longer is; C06.used_blocks_never_modified — a whole --add leaves every sector of every block that was not free (track 20 apart) byte-identical and still not free; C06.add_keeps_every_file — --add on the archive of any consistent image (whoever wrote it, however fragmented, deleted "
                 "entries or not) with any batch returns 0 and writes a consistent image in which every file that was stored is still in the same "
                 "catalog slot with the same 16 entry bytes and the same content; every other file is the exact data of one of the sources; "
                 "old_files_intact (controller level); a sector write touches one sector; the table setter rewrites bytes 1..160 only; adding nothing "
                 "saves the loaded sides and (fd) rewrites the image byte for byte. The frame on sectors of used blocks is proved inside the "
                 "invariant proof (mid_facts), the byte frame of table/catalog is checked. Tie/oracle: pre-images from tool histories, an "
                 "independent writer (incl. full catalog + fragmented free space) and the bundled real image (incl. batches reaching its never-formatted sides), then arbitrary batches; byte-level frame check.", D, "7 C06")
CHECKS["C07"] = ("Proof: C07.listed_kind_is_recorded_kind / kind_words — the kind words printed are those of bytes 11/12 on disk; C07.wellformed_image_extracted_beside_archive; C07.images_of_one_two_or_four_sides — emulator images of 1 or 2 sides and 4-sided images of either flavour are loaded, listed and extracted exactly (load_save_n); C07.wellformed_image_extracted_exactly — for every four-sided image whose sides are consistent file systems (any writer, "
                 "any allocation order, fragmentation, deleted / never-used entries anywhere) with ordinary names, --extract returns 0 and writes "
                 "per side exactly the files the independent decoder Spec.Dos.files finds, in catalog order, with the content it assigns to the "
                 "chain; C07.independent_writer_is_read_exactly — for every well-formed description of a side (any slots, allocation order, "
                 "fragmentation, 1..8 sectors in the last block, 0..255 bytes in the last sector, deleted entries, extra reserved blocks, any "
                 "filler) the side laid out by the independent writer Spec.Dos.render is consistent and the tool's reader finds exactly the "
                 "description's files with exactly their content; chain following on any linked table, size formula, load side counts, efficient "
                 "reader = readFile. Tie/oracle: images from an independent writer (Python twin = Lean render, incl. one 157-block chain) through real "
                 "list/extract vs model vs abstract files.", D, "7 C07")
CHECKS["C10"] = ("Proof: C10.report_sections_list_the_files_in_order — section k of the report and side k of the image list the same sources in the same order (as lists); C10.created_catalogs_follow_storage_order / added_files_are_appended — on every side of every created image, and after any --add, the live catalog entries are exactly the first n: each stored file is appended after those stored before it; C10.placement_rule — a file offered while the cursor is on side cur is stored on the first side k >= cur that has enough "
                 "free blocks and a free catalog entry, the cursor stops there; if none can take it, it is stored nowhere and the cursor ends past "
                 "the fourth side; end_of_side_marker (cursor + 1, no side touched); C10.file_stored_in_one_place — one file offered to the injector, with all its retries on the following sides, either "
                 "leaves every catalog slot of every side as it was or appears in exactly one slot of one side that held nothing, with its whole "
                 "content (never split, never twice); the cursor never moves back and sides behind it are untouched; C10.always_completes — on a "
                 "consistent image every batch returns 0 and writes exactly one archive of four consistent sides (sources dropped after the fourth "
                 "side included); report_sections_match_image — every file the create/add report announces stored in the section of side k is, in the "
                 "image the batch leaves, on side k, in a slot that held nothing before, with the announced size and block count "
                 "(file_announced_where_stored: per file, announced in section k iff received on side k). Tie/oracle: interleavings of files "
                 "and --eos on fresh / partially filled images; report sections and decoded image vs an independent replay of the placement rule.", D, "7 C10")
CHECKS["C11"] = ("Proof: C11.load_save_sd / repad_id — a four-sided .sd loaded and saved is payload-identical with FF padding, byte-identical when well padded; the payload setter never changes the sector length and overwrites exactly min(|v|,256) bytes (any length); save length "
                 "= sides x 1280 x sector size; .sd = .fd payloads with FF interleaved; both tools compute the same sides; load then save is the "
                 "identity for 1/2/4-sided .fd; save then load is the identity for four well-formed sides in both flavours, so both flavours load "
                 "back the same disk. Tie/oracle: same sources through both tools, no-op adds over tool-made / independent / bundled "
                 "images, DiskSector.dataOfPayload for every length 0..600 (exhaustive).", D, "7 C11")
CHECKS["C12"] = ("Proof: C12.disk_announced_sizes_and_blocks_are_the_listed_ones — whole batch: every announcement of a create/add report has on its side a live entry in a formerly empty slot whose listing event carries the announced bytes and blocks = length of its chain; C12.announcements_in_order — the files a create/add report announces as stored are, in order, a sub-sequence of the source arguments (name, kind, size, blocks): none twice, none out of order, for every image and source list; C12.tape_reports_agree — tape create, list and extract print the same text (names, sizes, block counts, leader positions), either verbosity; C12.disk_list_report / disk_extract_report — for every image of four consistent sides with ordinary names, --list and "
                 "--extract (quiet and verbose) print exactly Disk.readReport, a stateless text: per side the separator, 'Side k', one line per live "
                 "entry in catalog order under its catalog name (verbose: kind, byte size, block count), the closing line of the side (file count or "
                 "'empty', plural, blocks, percentage), then '---', 'TOTAL' and the totals for an extraction; report_lines_are_the_files — one line "
                 "per file written, printed size = length of the content read, printed blocks = length of the chain; update_total_is_files_added — "
                 "the total a create/add announces is the number of files the image gained (for --create: the number a later --extract writes); "
                 "update_report_text / create_report_text — on a consistent image, whatever the batch, a create/add prints exactly Disk.updateText: "
                 "four sections for the sides 0,1,2,3 in this order (heading, the line of each stored file, refused file or skipped source, the "
                 "count of the files stored in the section with plural/blocks/percentage) then the totals, and the count closing a section is the "
                 "number of files the written image gained on that side (the events of a batch are proved well-bracketed: Disk.Trace); "
                 "tape create/list lines carry the true size, data-block count and leader ordinal; plural rule, counter steps. Tie/oracle: reports of "
                 "create/add/list/extract x quiet/verbose parsed into facts and compared with the independent decoding of the archive.", D, "7 C12")
CHECKS["C13"] = ("Proof: C13.convert_is_a_valid_program / typed_listing_is_a_valid_program — the whole file passes the independent structural validator Spec.BasicRef.parseProgram (FF, true length, one record per line in order with true link pointers from the program base, final zero link) for every accepted listing without NUL whose image ends below address 65536; cli_writes_the_program_beside_the_listing (Model/ConvCli: the run() of moto_lst2bas); generated_uint_encoders (toUint8/16, bytesFromUint translated from the AST on every run); C13.delimited_line — for EVERY line text of the property's domain (every word outside string literals, i.e. every maximal "
                 "run of characters other than . , ( ) : blank, the one-character operator tokens and the double quote, is exactly a keyword or "
                 "contains no keyword) the tokenizer stores exactly what the reference encoder Spec.BasicRef.encodeRef stores: tokens for "
                 "keywords (ELSE after a colon), other words upper-cased, operators as tokens, literals verbatim; no bound on length, number of "
                 "words or kind of separator (states of the tokenizer at the start/end of a word, each separator from there; the five keywords "
                 "that begin with a shorter keyword evaluated in the kernel); delimited_record; tool's token table = pinned MO5 table, codes >= "
                 "0x80 / FFxx, injective, keywords distinct; every keyword typed alone (upper or lower case) yields its token; file = FF, "
                 "length, records, zero link; one record per line iff every line is numbered; pieces_encode_independently, "
                 "keyword_then_separator, delimited_keywords, simple_line (earlier, weaker forms kept). The attempt to prove delimited_line "
                 "exposed defect F17 (keyword behind a pending operator before a literal / end of line), repaired. Tie/oracle: vocabulary "
                 "listings (every keyword x 12 contexts incl. a pending operator) and random lines through real moto_lst2bas vs model, Lean "
                 "structure decoder, Lean reference encoder.", D, "7 C13")
CHECKS["C14"] = ("Proof: C14.typed_listing_roundtrip / program_roundtrip — program level: for every listing of lines 'N text' (N in 1..65535, ASCII without NUL/CR/LF, final LF or not) the converter accepts it and, below 64 KB, the independent parser + detokenizer give back exactly the numbers and the texts upper-cased outside literals, in order; C14.lossless — for every ASCII line body, detokenizing (Spec.BasicRef.decode) the bytes the tokenizer model emits gives "
                 "the text upper-cased outside string literals (C17's automaton): invariant over the four branches of appendAsToken incl. the "
                 "repaired early-match branch, closure of decode over segments, whole-table shape lemma by kernel evaluation. Tie/oracle: "
                 "printable listings, keyword pairs, all strings <= 4/5 over 9 symbols through the real tool vs model, decoded by the Lean "
                 "detokenizer and compared with the source.", D, "7 C14")
CHECKS["C18"] = ("Proof (PARTIAL by nature): C18.disk_confined_four_sides — every path disk extract writes is destination/sideK/<entry> with K < 4 and an entry name that is not empty, '.', '..' and holds no '/' or NUL (tape: Tape.openable), for EVERY byte string given as archive; tape reader visits at most len/7 blocks for every byte string; the chain walk returns a "
                 "duplicate-free chain of at most 161 entries for every table; catalog scan is 112 slots; C18.disk_confined / tape_confined — for "
                 "EVERY byte string given as archive, every path extract writes is destination(/sideN)/name with no '/' or NUL and the only "
                 "directories created are destination/sideN; disk_list_readonly — listing any bytes writes nothing. CPU time and memory are observed, not proved: real list/extract on "
                 "mutated archives in subprocesses under RLIMIT_CPU/AS with an audit hook on every open/mkdir, plus model comparison.", D, "7 C18")
CHECKS["C19"] = ("Proof (PARTIAL by nature): over the regenerated CLI description — all documented packages and declared scripts resolve, no "
                 "abbreviations, required exclusive action groups with the documented actions; tape extract writes under --into else beside the "
                 "archive, list writes nothing; C19.archive_name_rule — the disk archivers accept an archive name exactly when what follows its last "
                 "dot is sd / fd in either case (model of the check in DiskArchiveCli.run, compared with the real tools on 28 name shapes). "
                 "Command lines: a Lean model of CPython's argparse (Model/Argparse.lean: classification of every argument string, alternation of "
                 "positionals and options, clustered flags, explicit =value, --, exclusive group, required tests) interprets the parser descriptions "
                 "regenerated from the source together with how each run() uses its parser (parse_args / parse_known_args + the --eos filter, read "
                 "from the AST); C19.unknown_option_rejected, two_actions_rejected, missing_action_rejected hold for every tool and EVERY argument "
                 "list (induction over the parsing loop); C19.disk_documented_form_accepted — `act archive sources...` with --eos markers anywhere reaches run() "
                 "with the sources and markers exactly as given, for every such list. Tie: the real parsers (in-process parse_known_args: same namespace, same extras) and the "
                 "real run() (status 2 exactly when the model says so, nothing created) on all argument lists of length <= 2 over a 50-string alphabet "
                 "per tool and thousands of random and mostly-valid longer ones. Interpreter start-up stays outside the model: the configuration "
                 "space of the property is also enumerated at process level with tree diffs. Known finding K1 (create --into) is reported, not hidden.", D, "7 C19")
CHECKS["C20"] = ("Proof: C20.tape_create_alters_no_source / disk_update_alters_no_source — every path a writing action writes is the archive and no source designates the archive's place; tape create is a function of the sources' contents only (mode, archive name, rest of the file system irrelevant); "
                 "list writes nothing, extract only under the destination; C20.performCore_pure — two disk batches on the same image whose sources agree "
                 "position by position on catalog name, extensions, option and content give the same image or the same failure, whatever the "
                 "verbosity, archive name and path spelling; same_source_of_spelling / tape_specFile_spelling — the directory part of a source "
                 "path (relative, absolute, dotted directories) enters neither the disk nor the tape archive; C20.tape_create_/disk_create_/disk_add_refuses_archive_as_source — a source argument that is the archive's own path gives a non-zero status and no write; C20.tape_/disk_extract_never_overwrites_archive — for every byte string given as archive and every destination no path --extract writes is the archive itself. Tie/oracle: archives holding a member named like themselves extracted onto / beside / away from the archive; paired real runs (twice, quiet/verbose, relative/absolute/dotted paths, "
                 "old target) must be byte-identical; archives and sources hashed and mtime-checked around reads.", D, "7 C20")

PENDING = {}


def main():
    props = [json.loads(l) for l in open(os.path.join(HERE, "properties.jsonl"))]
    checks = []
    na = []
    for p in props:
        pid = p["id"]
        if pid in CHECKS:
            text, technique, ref = CHECKS[pid]
            checks.append({
                "property_id": pid,
                "quick_cmd": f"./bin/check {pid} quick",
                "thorough_cmd": f"./bin/check {pid} thorough",
                "evidence_file": f"evidence/{pid}.json",
                "replay_cmd_template": f"./bin/check {pid} --replay {{path}}",
                "engine": "lean-model",
                "level_claimed": {"category": "proof", "text": text, "design_ref": f"DESIGN.md section {ref}"},
                "level_note": NOTE,
                "technique": technique,
            })
        else:
            na.append({"property_id": pid, "reason": PENDING.get(pid, "check not built yet in this session (work in progress; the Lean technique applies, see DESIGN.md section 7)")})
    m = {
        "version": 1,
        "setup_cmd": "cd lean && lake build MotoModel motodrv",
        "hooks": {
            "guard": "MOTO_TOOLS_VERIF",
            "enable": "no hooks are needed: the checks import /repo/src in-process and run the tools as subprocesses",
            "baseline_off_cmd": "cd /repo && /venv/bin/python -m pytest -ra -q -p no:cacheprovider --timeout=900 --continue-on-collection-errors",
            "source_commits": [],
            "add_only": True,
        },
        "engines": [{"name": "lean-model", "path": "lean", "serves_properties": sorted(CHECKS),
                     "kind_free_text": "Lean 4 model + spec + theorems (lake project), generated constants (tools/translate.py), compiled line-protocol driver, Python differential harness"}],
        "checks": checks,
        "not_applicable": na,
        "notes": "All checks: ./bin/check <id> quick|thorough. Exit 0 ok, 1 VIOLATION, 2 infrastructure error. Repository location can be overridden with MOTO_REPO.",
    }
    with open(os.path.join(HERE, "MANIFEST.json"), "w") as f:
        json.dump(m, f, indent=1)
    print(len(checks), "checks,", len(na), "not applicable")


if __name__ == "__main__":
    main()
