#!/bin/sh
# tools/harmless_eval.sh <area>... : applies seeded/harmless/<area>/patch.diff (behaviour-preserving refactoring) to /repo,
# runs every quick check, restores /repo; a check that raises an alarm here raises a false alarm
cd "$(dirname "$0")/.."
for a in "$@"; do
  git -C "${MOTO_REPO:-/repo}" apply "$PWD"/seeded/harmless/$a/patch.diff || { echo "$a: patch does not apply"; continue; }
  echo "== harmless/$a"
  sh tools/run_all.sh quick 2>&1 | sort > seeded/harmless/$a/result.txt
  git -C "${MOTO_REPO:-/repo}" checkout -- .
  git checkout -- evidence 2>/dev/null
  rm -f replays/*.json
  cat seeded/harmless/$a/result.txt | cut -c1-200
done
