#!/usr/bin/env python3
"""tools/fuzz_diff.py <target> <seconds> [--seed N] [--corpus DIR] [--out FILE] [--work DIR]

Coverage-guided differential testing (atheris / libFuzzer, tooling venv `python3-vt`) of the hand-written Lean model against
the Python code it mirrors: libFuzzer mutates byte strings guided by the coverage of the *Python implementation*, every input is
given to the real function and — through one persistent `motodrv` process, one request line per input — to the model, and the
two answers are compared.  This is a search for inputs on which model and code differ (a support of the correspondence tie,
S2 of DESIGN.md); it proves nothing.  Targets:

  tokenize   ListingToTokenizedBasicConverter.convert on an ASCII listing            vs  Basic.convert        (bas.convert)
  tapeblocks Tape.nextBlock loop on arbitrary bytes                                  vs  Tape.readAll         (tape.blocks)
  tolisting  the byte loop of BasicToListingCli (ascii mode) on arbitrary bytes      vs  toListing            (conv.tolisting)
  toascii    ListingToAsciiBasicConverter.convert on a text                          vs  toAsciiBasic         (conv.toascii)
  prettier   PrettierCli.run on one file                                             vs  prettierText         (prettier)
  names      the two injectors' reading of a source argument (via a tiny archive)    vs  Spec.Names           (names.tape)

Exit status 0: no difference within the time given; 1: a difference (the input is written to --out as JSON); 2: set-up failure.
Run with python3-vt (atheris); PYTHONPATH must hold <repo>/src."""
import io
import json
import os
import subprocess
import sys
import time

HERE = os.path.dirname(os.path.dirname(os.path.abspath(__file__)))
REPO = os.environ.get("MOTO_REPO", "/repo")
DRV = os.path.join(HERE, "lean", ".lake", "build", "bin", "motodrv")


def cps(s):
    return ",".join(str(ord(c)) for c in s) if s else "-"


def hx(b):
    return bytes(b).hex() if len(b) else "-"


class Driver:
    def __init__(self):
        self.p = subprocess.Popen([DRV], stdin=subprocess.PIPE, stdout=subprocess.PIPE)

    def ask(self, line):
        self.p.stdin.write(line.encode() + b"\n")
        self.p.stdin.flush()
        return self.p.stdout.readline().decode().rstrip("\n")


def main():
    args = sys.argv[1:]
    if len(args) < 2:
        print(__doc__)
        return 2
    target, seconds = args[0], int(args[1])
    seed = int(args[args.index("--seed") + 1]) if "--seed" in args else 0
    out = args[args.index("--out") + 1] if "--out" in args else os.path.join(HERE, "replays", f"fuzz-{target}.json")
    corpus = args[args.index("--corpus") + 1] if "--corpus" in args else None
    sys.path.insert(0, os.path.join(REPO, "src"))
    sys.dont_write_bytecode = True
    import atheris
    with atheris.instrument_imports(include=["moto_lib", "moto_prettier", "moto_bas2lst", "moto_lst2bas", "moto_nl", "moto_tar"]):
        from moto_lib.basic.converter_from_listing import ListingToTokenizedBasicConverter, ListingToAsciiBasicConverter
        from moto_lib.fs_tape.tape import Tape
        from moto_bas2lst.bas2lst import BasicToListingCli
        from moto_prettier.prettier import PrettierCli
        from moto_tar.tar import TapeArchiveCli
    drv = Driver()
    if drv.ask("ping") != "pong":
        print("driver does not answer", file=sys.stderr)
        return 2
    state = {"n": 0, "t0": time.time(), "unmodelled": 0}

    def differ(data, impl, model, req):
        if model == "unmodelled":
            state["unmodelled"] += 1
            return
        json.dump({"target": target, "input_hex": bytes(data).hex(), "request": req[:2000], "implementation": impl[:2000], "model": model[:2000]},
                  open(out, "w"), indent=1)
        print(f"DIFFERENCE target={target} after {state['n']} inputs: written to {out}")
        drv.p.kill()
        os._exit(1)

    def t_tokenize(data):
        text = "".join(chr(b & 0x7F) for b in data)
        src = io.StringIO(text, newline=None)       # universal newlines, like open(p, "rt")
        src = io.StringIO(io.TextIOWrapper(io.BytesIO(text.encode()), newline=None).read())
        dst = io.BytesIO()
        try:
            ListingToTokenizedBasicConverter().convert(src, dst)
            impl = hx(dst.getvalue())
        except ValueError:
            impl = "ValueError"
        except IndexError:
            impl = "IndexError"
        req = f"bas.convert {cps(text)}"
        model = drv.ask(req)
        if model != impl:
            differ(data, impl, model, req)

    def t_tapeblocks(data):
        tape = Tape(bytearray(data))
        blocks = []
        while True:
            b = tape.nextBlock()
            if b is None:
                break
            blocks.append(bytes(b.rawData))
            if len(blocks) > len(data) + 2:
                differ(data, "does not terminate", "", "tape.blocks")
        impl = ";".join(hx(b) for b in blocks)
        req = f"tape.blocks {hx(data)}"
        model = drv.ask(req)
        if model != impl:
            differ(data, impl, model, req)

    def t_tolisting(data):
        dos = bool(data[0] & 1) if data else False
        body = data[1:]
        eol = b"\r\n" if dos else b"\n"
        o = bytearray()
        n = 0
        # the byte loop of BasicToListingCli.run is not a function of its own: exercised through the CLI in a scratch directory
        import tempfile
        with tempfile.TemporaryDirectory() as d:
            p = os.path.join(d, "f.bas")
            open(p, "wb").write(body)
            old = sys.argv
            sys.argv = ["x", p + ",a"] + (["--dos"] if dos else [])
            try:
                BasicToListingCli().run()
            finally:
                sys.argv = old
            impl = hx(open(os.path.join(d, "f.lst"), "rb").read())
        req = f"conv.tolisting {1 if dos else 0} {hx(body)}"
        model = drv.ask(req)
        if model != impl:
            differ(data, impl, model, req)

    def t_toascii(data):
        try:
            text = bytes(data).decode("utf-8")
        except UnicodeDecodeError:
            return
        src = io.StringIO(io.TextIOWrapper(io.BytesIO(text.encode("utf-8")), encoding="utf-8", newline=None).read())
        dst = io.BytesIO()
        ListingToAsciiBasicConverter().convert(src, dst)
        impl = hx(dst.getvalue())
        req = f"conv.toascii {cps(text)}"
        model = drv.ask(req)
        if model != impl:
            differ(data, impl, model, req)

    def t_prettier(data):
        text = "".join(chr(b & 0x7F) for b in data).replace("\r", "\n")
        import tempfile, contextlib
        with tempfile.TemporaryDirectory() as d:
            p = os.path.join(d, "f.txt")
            open(p, "w", newline="").write(text)
            old = sys.argv
            sys.argv = ["x", p]
            buf = io.StringIO()
            try:
                with contextlib.redirect_stdout(buf):
                    PrettierCli().run()
            finally:
                sys.argv = old
        impl = ";".join(cps(l) for l in buf.getvalue().split("\n")[:-1])
        req = f"prettier {cps(text)}"
        model = drv.ask(req)
        if model != impl:
            differ(data, impl, model, req)

    def t_names(data):
        # printable ASCII argument, no control characters, not starting with '-'
        src = "".join(chr(32 + (b % 95)) for b in data)[:40]
        if not src or src.startswith("-") or src.endswith("/") or "//" in src:
            return
        import tempfile, contextlib
        path = src[:-2] if src[-2:].upper() == ",A" and src[:-2].upper().endswith(".BAS") else src
        with tempfile.TemporaryDirectory() as d:
            full = os.path.join(d, path)
            try:
                os.makedirs(os.path.dirname(full), exist_ok=True)
                open(full, "wb").write(b"x")
            except OSError:
                return
            old, cwd = sys.argv, os.getcwd()
            sys.argv = ["x", "-c", "t.k7", src]
            os.chdir(d)
            try:
                with contextlib.redirect_stdout(io.StringIO()):
                    rc = TapeArchiveCli().run()
            except BaseException:
                rc = "raised"
            finally:
                sys.argv = old
                os.chdir(cwd)
            if rc != 0 or not os.path.exists(os.path.join(d, "t.k7")):
                return
            tape = open(os.path.join(d, "t.k7"), "rb").read()
        leader = tape[18 + 2:18 + 2 + 14]
        impl = (leader[0:8].decode("latin-1").rstrip(" "), leader[8:11].decode("latin-1").rstrip(" "), leader[11], leader[12] * 256 + leader[13])
        ans = drv.ask(f"names.tape {cps(src)}").split(" ")

        def un(s):
            return "" if s == "-" else "".join(chr(int(x)) for x in s.split(","))
        model = (un(ans[0]).rstrip(" "), un(ans[1]).rstrip(" "), int(ans[2]), int(ans[3]))
        if model != impl:
            differ(data, repr(impl), repr(model), f"names.tape {src!r}")

    targets = {"tokenize": t_tokenize, "tapeblocks": t_tapeblocks, "tolisting": t_tolisting, "toascii": t_toascii, "prettier": t_prettier,
               "names": t_names}
    if target not in targets:
        print("unknown target", target, file=sys.stderr)
        return 2
    fn = targets[target]

    def one(data):
        state["n"] += 1
        fn(data)

    # a dictionary and a few seed inputs: the interesting inputs are structured (keywords, block markers) and the coverage of the Python
    # code cannot lead the mutator to a five-byte marker or to a keyword that `bytes.find` / a dict look-up test in one step
    import tempfile
    work = args[args.index("--work") + 1] if "--work" in args else tempfile.mkdtemp(prefix="fuzzdiff_")
    os.makedirs(work, exist_ok=True)
    dict_path = os.path.join(work, "dict.txt")
    seeds = corpus or os.path.join(work, "corpus")
    os.makedirs(seeds, exist_ok=True)

    def esc(b):
        return '"' + "".join("\\x%02x" % c for c in b) + '"'
    words = []
    if target in ("tokenize", "prettier", "toascii"):
        from moto_lib.basic.converter_from_listing import basicTokensMap
        words = [k.encode() for k in basicTokensMap] + [b"10 ", b"20 ", b"\n", b"\r\n", b'"', b":", b";", b",", b"65535 ", b"ELSE", b"GOTO", b"GOSUB", b"FOR I=1TO", b"'"]
        open(os.path.join(seeds, "s1"), "wb").write(b'10 PRINT "A";CHR$(65):GOTO 10\n20 IF A THEN 30 ELSE 40\n')
        open(os.path.join(seeds, "s2"), "wb").write(b'5 fori=1to10:nexti\r\n7 data 1,2:rem x')
    if target == "tapeblocks":
        words = [b"\x01\x01\x01\x3c\x5a", b"\x01" * 16 + b"\x3c\x5a", b"\x3c\x5a", b"\x00\x10", b"\x01\x0a", b"\x01\x0d", b"\xff\x02\x00", b"\x01\x00", b"\x01\x02\x00", b"\x01\x01"]
        open(os.path.join(seeds, "s1"), "wb").write(b"\x01" * 16 + b"\x3c\x5a\x00\x10" + b"ABCDEFGHBAS\x00\x00\x00" + b"\x00" + b"\x01" * 16 + b"\x3c\x5a\x01\x05abc\x00"
                                                   + b"\x01" * 4 + b"\x3c\x5a\xff\x02\x00")
    if target == "tolisting":
        words = [b"\r", b"\n", b"\r\n", b"10 A", b"\x1a"]
    if target == "names":
        words = [b".bas", b".BAS,A", b".csv", b"/", b"..", b",a", b".", b"a.b.c"]
    with open(dict_path, "w") as f:
        for w in words:
            f.write(esc(w) + "\n")
    argv = [sys.argv[0], f"-max_total_time={seconds}", f"-seed={seed + 1}", "-max_len=" + ("600" if target != "tapeblocks" else "1500"),
            "-print_final_stats=1", "-verbosity=0"]
    if words:
        argv.append(f"-dict={dict_path}")
    argv.append(seeds)
    import atexit

    def summary():
        print(f"FUZZ target={target} inputs={state['n']} seconds={round(time.time() - state['t0'], 1)} differences=0", flush=True)
    atexit.register(summary)
    atheris.Setup(argv, one)
    atheris.Fuzz()
    return 0


if __name__ == "__main__":
    sys.exit(main())
