#!/usr/bin/env python3
"""tools/redteam_import.py : files the changes of the red-team round (seeded/redteam/<area>/blind_<n>.patch + demo_<n>.py, written by
four sub-agents that had a private copy of /verif and looked for realistic changes the checks did NOT notice) as ordinary seeds
seeded/RT<area><n>/{patch.diff, demo.py, demolib.py, meta.json}; one-off, kept for the record."""
import json, os, shutil
V = os.path.dirname(os.path.dirname(os.path.abspath(__file__)))
T = {
 "tape": {
  "1": (["C01", "C08"], "extraction opens the destination without O_TRUNC (os.open O_WRONLY|O_CREAT)", "the destination already holds a longer file of the member's name"),
  "2": (["C09", "C19"], "`python3 -m moto_tar` no longer passes run()'s status to sys.exit (main() returns it)", "a failing create (too much data, missing source) through `python3 -m moto_tar`, observed at process level"),
  "3": (["C03", "C09"], "a directory among the sources is skipped with onError after its leader block was written", "a directory given as a source: status 0 and an orphan leader on the tape"),
  "4": (["C20", "C09"], "source-is-the-archive guard uses normpath instead of abspath", "archive and source spelled one absolute, one relative"),
  "5": (["C01", "C09", "C20"], "the non-ascii refusal looks at the whole path instead of the 8.3 name", "an ascii 8.3 source inside a directory whose name is not ascii"),
  "6": (["C08"], "the reader loads at most 21 KiB of the archive", "a third-party tape with blocks beyond offset 21504"),
  "7": (["C20", "C01"], "the self-overwrite guard of extract compares paths case-insensitively", "a member whose name is the archive's name in another letter case: refused although it is another file"),
  "8": (["C09", "C03"], "the ascii screen forgets the extension", "a source whose extension alone is not ascii (notes.éé)"),
 },
 "disk": {
  "1": (["C02", "C04"], "catalog name taken as basename.split('.')[0]", "a base name with two or more dots (prog.v2.bas)"),
  "2": (["C07"], "CatalogEntryRecord.fromBytes upper-cases name and extension", "a third-party catalog with lower-case letters"),
  "3": (["C06", "C05"], "the slot search of writeFile also takes a live entry of the same 11 name bytes (replace), without freeing its chain", "adding a file whose name is already on the side"),
  "4": (["C02", "C10"], "the unknown-option filter runs over sources + extras instead of extras", "a source that starts with '-' given after a bare `--`"),
  "5": (["C02", "C04", "C10"], "cleanSrc = src.split(',')[0] when the argument ends with ,a", "an inner comma in the name together with the ,a option (demo,v2.bas,a)"),
 },
 "basic": {
  "1": (["C16"], "moto_nl without source argument reads sys.stdin.read().splitlines()", "moto_nl as a filter (no file argument) and a line holding FF, VT, NEL, LS"),
  "2": (["C16"], "the numbered-line regex uses \\d", "a numbered line whose ascii digits are followed by a non-ascii decimal digit (5０ REM)"),
  "3": (["C17"], "moto_prettier without source argument strips each line", "moto_prettier as a filter with indented lines / trailing blanks in an unterminated literal"),
  "4": (["C17"], "moto_prettier opens files as latin-1", "a UTF-8 listing file with accented letters in a literal"),
  "5": (["C17"], "a REM line keeps its tail as typed", "a line `10 rem Written by me`"),
  "6": (["C15"], "lineOfCodeLength initialised once per run instead of once per file (bas2lst)", "several .bas,a files in one run, an earlier one not ending with CR/LF"),
  "7": (["C15", "C19"], "bas2lst recognises the ,a suffix in lower case only", "PROG.BAS,A"),
  "8": (["C13", "C15"], "lst2bas returns inside the loop over the sources", "two listings on one command line"),
  "9": (["C13", "C14"], "lst2bas derives the output name by replace('.lst', '.bas')", "PROG.LST: the output path is the source, which is truncated"),
  "10": (["C13"], "link pointers packed as signed 16 bit", "a program whose image passes address 0x8000 (more than about 23 KB)"),
  "11": (["C14", "C13"], "lst2bas (tokenized) opens the listing with newline=''", "a listing with CR LF line ends"),
 },
 "cli": {
  "1": (["C18"], "disk extract screens only the name field for '/' and NUL", "a catalog entry whose extension holds the separator (name '.', ext '/XY')"),
  "2": (["C18"], "tape extract screens only the name field for '/'", "a leader with name '.' and extension '/XY'"),
  "4": (["C19"], "unknown filter tests startswith('--')", "an unknown short option together with a valid action and archive (-c arc.fd -z b.dat)"),
  "4b": (["C19"], "unknown filter and parser.error removed", "an unknown option together with a valid action and archive"),
  "5": (["C20"], "disk ascii screen looks at the whole path", "sources reached through a directory whose name is not ascii"),
  "6": (["C20", "C09", "C01"], "tape ascii screen looks at the whole path", "sources reached through a directory whose name is not ascii"),
  "7": (["C20"], "the source-is-archive guard of the disk injector strips ,a only in lower case", "`prog.fd,A` among the sources of `-c prog.fd`"),
  "8": (["C20", "C09"], "normpath instead of abspath in both source-is-archive guards", "archive relative and the same file absolute among the sources (or the reverse)"),
  "9": (["C19"], "disk extract skips the write when the target has the member's length", "an earlier result of the same length with other content"),
  "10": (["C19"], "the archive-extension check is skipped for --extract", "moto_fdar -x arc.k7"),
  "11": (["C18"], "Tape.nextBlock copies the tail of the tape at every block (quadratic)", "a tape of megabytes of small blocks"),
  "12": (["C19"], "moto_nl uses parse_known_args", "moto_nl --bogus p.lst with an existing file"),
  "12b": (["C19"], "moto_prettier uses parse_known_args", "moto_prettier --bogus p.lst with an existing file"),
  "13": (["C09", "C19"], "`python3 -m moto_tar` exits 0 whatever run() returns", "too much data through `python3 -m moto_tar`"),
 },
}
for area, items in T.items():
    src = f"{V}/seeded/redteam/{area}"
    for n, (props, change, needs) in items.items():
        d = f"{V}/seeded/RT{area}{n}"
        os.makedirs(d, exist_ok=True)
        shutil.copy(f"{src}/blind_{n}.patch", f"{d}/patch.diff")
        demo = f"{src}/demo_{n.rstrip('b')}.py"
        if os.path.exists(demo):
            shutil.copy(demo, f"{d}/demo.py")
        shutil.copy(f"{src}/demolib.py", f"{d}/demolib.py")
        meta = {"property": props[0], "breaks_property": props[0], "also": props[1:], "summary": change, "needs_to_manifest": needs,
                "origin": f"red-team round ({area} agent): undetected by the checks as they stood at /verif commit 0db1549, with VERIF_SEED 0 and 1",
                "checks_run": {p: {} for p in props},
                "how_to_rerun": f"git -C /repo apply /verif/seeded/RT{area}{n}/patch.diff && ./bin/check <prop> quick; git -C /repo checkout -- ."}
        if os.path.exists(f"{d}/meta.json"):
            old = json.load(open(f"{d}/meta.json"))
            meta["checks_run"] = old.get("checks_run", meta["checks_run"])
            if "confirmation" in old:
                meta["confirmation"] = old["confirmation"]
        json.dump(meta, open(f"{d}/meta.json", "w"), indent=1, ensure_ascii=False)
        print(d)
