"""helpers for the tokenized BASIC properties (C13, C14)"""
import os

from common import cps, uncps, hx, unhx, drv, run_cli


TOK_NAMES = ["prog.lst", "PROG.LST", "my.prog.v2.Lst", "dir.lst/inner.lst", "a b.lsT", ".lst"]


def lst2bas(ctx, text):
    """the tokenizing conversion of one listing through the CLI; the name of the listing varies (case of the extension, more
    dots, a directory whose name ends in .lst, a dot-file), and now and then a second listing is converted by the same command
    (it must not disturb the first, and must be converted too)"""
    from moto_lst2bas.lst2bas import ListingToBasicCli
    d = ctx.fresh_dir()
    h = len(text) + sum(map(ord, text[:16]))
    name = TOK_NAMES[h % len(TOK_NAMES)]
    p = os.path.join(d, name)
    os.makedirs(os.path.dirname(p), exist_ok=True)
    with open(p, "w", newline="") as f:
        f.write(text)
    argv = [p]
    other = None
    other_ascii = False
    if h % 5 == 0:
        other = os.path.join(d, "second.lst")
        with open(other, "w", newline="") as f:
            f.write("10 REM SECOND\n")
        # the neighbour is converted to tokenized BASIC too, or (",a") to ASCII BASIC: its option must not leak to the other source
        other_ascii = h % 3 == 0
        argv = [p, other + (",a" if other_ascii else "")] if h % 2 else [other + (",A" if other_ascii else ""), p]
    bas = p[:-3] + "bas"
    if h % 4 == 1:
        # an older, longer result sits at the destination: it is replaced, not overwritten in place
        with open(bas, "wb") as f:
            f.write(b"\xff" + bytes(range(256)) * 40)
    status, _ = run_cli(ListingToBasicCli().run, argv)
    if open(p, "rb").read() != text.encode("utf-8"):
        return "SourceOverwritten", None
    if other is not None and status == "ok0":
        ob = other[:-3] + "bas"
        if not os.path.exists(ob):
            return "SecondListingNotConverted", None
        got = open(ob, "rb").read()
        if other_ascii and got != b"\r10 REM SECOND\r":
            return "SecondListingNotAsciiBasic", None
        if not other_ascii and got[:1] != b"\xff":
            return "SecondListingNotTokenized", None
    return status, (open(bas, "rb").read() if os.path.exists(bas) else None)


def split_line(line):
    """independent reading of a numbered line: (number, body) or None"""
    l = line[:-1] if line.endswith("\n") else line
    i = 0
    while i < len(l) and l[i].isdigit() and l[i] in "0123456789":
        i += 1
    if i == 0 or l[0] == "0":
        return None
    body = l[i:]
    if body.startswith(" "):
        body = body[1:]
    return int(l[:i]), body


def keywords():
    from moto_lib.basic.converter_from_listing import basicTokensMap
    return dict(basicTokensMap)


def check_program(res, stream, st, case, text, status, bas, clauses):
    """model correspondence + oracles for one listing; returns nothing"""
    text = text.replace("\r\n", "\n").replace("\r", "\n")     # the listing is read in text mode: CR LF and CR end a line like LF
    lines = text.split("\n")
    if lines and lines[-1] == "":
        lines.pop()
    parts = [split_line(l) for l in lines]
    valid = all(p is not None for p in parts)
    m = drv([f"bas.convert {cps(text)}"])[0]
    if m == "unmodelled":
        st.unmodelled += 1
        return
    st.compared += 1
    if m == "ValueError":
        if status == "ok0":
            res.disagree(stream, case, "ValueError", [status, None if bas is None else bas.hex()[:80]])
    elif status != "ok0" or bas is None or bas.hex() != (m if m != "-" else ""):
        res.disagree(stream, case, m[:200], [status, None if bas is None else bas.hex()[:200]])
    if not valid:
        return
    if status != "ok0" or bas is None:
        res.violate(stream, "conversion of a numbered listing failed", case, status, {"clause": "status"})
        return
    prog = drv([f"bas.program {hx(bas)}"])[0]
    if prog == "bad":
        if "structure" in clauses:
            res.violate(stream, "output is not a structurally valid program (FF, length, records, links from 25A4, zero link)", case, bas.hex()[:120], {"clause": "structure"})
        return
    recs = [] if prog == "" else [r.split(":") for r in prog.split(";")]
    if [int(r[0]) % 65536 for r in recs] != [p[0] % 65536 for p in parts]:
        if "structure" in clauses or "lossless" in clauses:
            res.violate(stream, "line numbers / record order differ from the source", case, {"got": [int(r[0]) for r in recs][:8], "want": [p[0] for p in parts][:8]}, {"clause": "line_numbers"})
        return
    reqs = []
    for p in parts:
        reqs.append(f"bas.ref {cps(p[1])}")
        reqs.append(f"spec.upper {cps(p[1])}")
    ans = drv(reqs)
    for k, (p, r) in enumerate(zip(parts, recs)):
        delim, ref = ans[2 * k].split(" ")
        up = uncps(ans[2 * k + 1])
        if "reference" in clauses and delim == "1" and r[1] != ref:
            res.violate(stream, "delimited line is not encoded like the reference encoder", dict(case, line=lines[k]), {"tool": r[1], "reference": ref}, {"clause": "reference"})
            return
        if "lossless" in clauses and uncps(r[2]) != up:
            res.violate(stream, "decoded text differs from the source text (upper-cased outside literals)", dict(case, line=lines[k]),
                        {"decoded": uncps(r[2]), "source": up, "bytes": r[1]}, {"clause": "lossless"})
            return
        if delim == "1":
            res.count("delimited_lines")
        else:
            res.count("run_together_lines")


# ---------------------------------------------------------------------------------------------
# the command-line layer of the two converters against its Lean model (Model/ConvCli.lean)
# ---------------------------------------------------------------------------------------------

LISTINGS = ["10 PRINT \"A\"\n20 GOTO 10\n", "10 rem x\n", "", "no number here\n", "10 A\n\n20 B\n", "5 ok\n7", "10 A\r\n20 B\r\n",
            "10 PRINT \"é\"\n", "1\n", "10 IF A THEN 20 ELSE 30\n"]
BASICS = [b"\r10 A\r20 B\r", b"", b"10 A", b"\r\n\r\n", b"\xff\x00\x05\x25\xab\x00\x0a\x41\x00\x00\x00", b"X\nY\r\nZ", bytes(range(256))]
LST_ARGS = ["p.lst", "P.LST", "q.Lst,a", "q.lst,A", "my.v2.lst", "d.x/in.lst,a", "d.x/in.lst", "noext", "x.txt", "x.lst,b", "x.lsta", "gone.lst",
            "gone.lst,a", ".lst", "lst", "a,a", "x.bas", "dir.lst/plain", "w.LST,a"]
BAS_ARGS = ["p.bas,a", "P.BAS,A", "q.Bas,a", "q.bas", "my.v2.bas,A", "d.x/in.bas,a", "noext", "x.txt,a", "x.bas,b", "gone.bas,a", "gone.bas",
            "bas,a", "bas", "abas,a", ".bas,a", "x.basa", "a,a", ",a", "as,a"]


def conv_cli_stream(ctx, res, n):
    """command lines of moto_lst2bas / moto_bas2lst — several sources, both conversions, either case, wrong and missing
    extensions, missing files, a listing the tokenizing conversion refuses, earlier results at the destination — run in-process in a
    scratch directory and compared with the model: status, and the directory afterwards = the directory before + the model's writes"""
    from moto_lst2bas.lst2bas import ListingToBasicCli
    from moto_bas2lst.bas2lst import BasicToListingCli
    import tapelib as T
    rng = ctx.rng
    st = res.stream("conv_cli")
    for i in range(n):
        tool = "lst2bas" if i % 2 == 0 else "bas2lst"
        d = ctx.fresh_dir()
        pool = LST_ARGS if tool == "lst2bas" else BAS_ARGS
        # two sources in three are well-formed ones (the first seven of each pool), so that runs of several conversions are common
        args = [rng.choice(pool[:7] if rng.random() < 0.66 else pool) for _ in range(rng.choice([1, 1, 2, 3]))]
        world = {}
        for a in args:
            if tool == "lst2bas":
                path = a[:-2] if a[-2:].upper() == ",A" else a
                # one listing in eight is not UTF-8 (a Latin-1 é): readlines() raises after the target was created / truncated
                content = rng.choice(LISTINGS).encode("utf-8") if rng.random() > 0.125 else b"10 REM \xe9t\xe9\n"
            else:
                path = a[:-2] if a[-2:].upper() == ",A" else a
                content = rng.choice(BASICS)
            if path.startswith("gone") or not path or path in world:
                continue
            if "/" in path and os.path.basename(path) == "plain":
                os.makedirs(os.path.join(d, os.path.dirname(path)), exist_ok=True)
            os.makedirs(os.path.join(d, os.path.dirname(path)), exist_ok=True)
            if os.path.isdir(os.path.join(d, path)):
                continue
            with open(os.path.join(d, path), "wb") as f:
                f.write(content)
            world[path] = content
        if rng.random() < 0.3:
            # an earlier, longer result at one of the destinations
            a = args[0]
            stem = (a[:-2] if a[-2:].upper() == ",A" else a)[:-3]
            tgt = stem + ("bas" if tool == "lst2bas" else "lst")
            if tgt not in world and tgt and not os.path.isdir(os.path.join(d, tgt)) and os.path.isdir(os.path.dirname(os.path.join(d, tgt))):
                with open(os.path.join(d, tgt), "wb") as f:
                    f.write(b"EARLIER RESULT " * 100)
        before = T.snapshot(d)
        dos = tool == "bas2lst" and rng.random() < 0.5
        if tool == "lst2bas":
            status, _ = run_cli(ListingToBasicCli().run, args, cwd=d)
            def listing(c):
                try:
                    return cps(c.decode("utf-8"))
                except UnicodeDecodeError:
                    return "undecodable"
            req = f"conv.lst2bas {len(args)} " + " ".join(cps(a) for a in args) + "".join(
                f" {cps(p)} {listing(c)}" for p, c in world.items())
        else:
            status, _ = run_cli(BasicToListingCli().run, args + (["--dos"] if dos else []), cwd=d)
            req = f"conv.bas2lst {1 if dos else 0} {len(args)} " + " ".join(cps(a) for a in args) + "".join(
                f" {cps(p)} {hx(c)}" for p, c in world.items())
        after = T.snapshot(d)
        case = {"tool": tool, "args": args, "dos": dos, "files": {p: len(c) for p, c in world.items()}}
        st.see(case)
        res.count(f"conv_cli:{tool}:{status}")
        ans = drv([req])[0]
        if ans == "unmodelled":
            st.unmodelled += 1
            continue
        st.compared += 1
        mstatus, mw = ans.split("|")
        expect = dict(before)
        if mw:
            for w in mw.split(";"):
                p, h = w.split(">")
                expect[uncps(p)] = unhx(h)
        if mstatus != status or expect != after:
            diff = sorted(k for k in set(expect) | set(after) if expect.get(k) != after.get(k))
            res.disagree("conv_cli", case, {"status": mstatus, "differing_files": diff[:5]}, {"status": status})
        # oracle, independent of the model: no source file is ever altered, and nothing but `<name minus 3 characters>bas|lst` appears
        for p, c in world.items():
            if after.get(p) != c:
                res.violate("conv_cli", "a converter altered one of its source files", case, p, {"clause": "source_untouched"})
        for k in after:
            if k not in before and not k.endswith("bas" if tool == "lst2bas" else "lst"):
                res.violate("conv_cli", "a converter created a file that is not a conversion result", case, k, {"clause": "only_results"})
