#!/usr/bin/env python3
"""./bin/check <Cxx> [quick|thorough] [--replay file]

exit 0: the property held on everything explored; exit 1 + `VIOLATION property=… replay=…`;
exit 2: infrastructure error (no verdict)."""
import importlib
import json
import os
import sys
import time
import traceback

sys.path.insert(0, os.path.dirname(os.path.abspath(__file__)))
import common  # noqa: E402


def main():
    args = [a for a in sys.argv[1:]]
    replay = None
    if "--replay" in args:
        i = args.index("--replay")
        replay = args[i + 1]
        del args[i:i + 2]
    prop = args[0].upper()
    tier = args[1] if len(args) > 1 else os.environ.get("VERIF_TIER", "quick")
    if tier not in ("quick", "thorough"):
        tier = "quick"
    try:
        seed = int(os.environ.get("VERIF_SEED", "0"))
    except ValueError:
        seed = 0
    t0 = time.time()
    build = common.ensure_build(prop, thorough=(tier == "thorough"))
    if not build.ok:
        print("INFRASTRUCTURE ERROR:", build.infra_error, file=sys.stderr)
        return 2
    import linecov
    cov = linecov.LineCov(os.path.join(common.REPO, "src"))
    cov.start()
    common.use_repo()
    mod = importlib.import_module(f"props.{prop.lower()}")
    ctx = common.Ctx(prop, tier, seed)
    res = common.Result(prop)
    try:
        if replay:
            payload = json.load(open(replay))
            case = payload.get("violation") or (payload.get("correspondence_disagreements") or [None])[0]
            if case is None or not hasattr(mod, "replay"):
                print("nothing replayable in", replay)
                return 2
            mod.replay(ctx, res, case)
        else:
            mod.run(ctx, res)
    except Exception:
        traceback.print_exc()
        print("INFRASTRUCTURE ERROR: harness crashed", file=sys.stderr)
        return 2
    finally:
        ctx.cleanup()
    try:
        anchors = []
        for line in open(os.path.join(common.VERIF, "properties.jsonl")):
            d = json.loads(line)
            if d.get("id") == prop:
                anchors = [f for f in d.get("anchors", {}).get("files", []) if f.endswith(".py") and f.startswith("src/")]
        res.code_lines = cov.report([a[len("src/"):] for a in anchors])
        cov.stop()
    except Exception as e:  # never let the bookkeeping change a verdict
        res.code_lines = {"available": False, "error": repr(e)}
    rc = common.finish(prop, tier, seed, build, res, t0, getattr(mod, "LEVEL_TEXT", ""))
    ev = json.load(open(os.path.join(common.VERIF, "evidence", f"{prop}.json")))
    c = ev["coverage"]
    print(f"{prop} {tier} seed={seed}: theorems {c['discharged']}/{c['obligations']} evaluations={c['evaluations']} "
          f"distinct_nontrivial={c['distinct_nontrivial']} disagreements={c['correspondence_disagreements']} "
          f"violations={ev['violations']} wall={ev['wall_s']}s")
    return rc


if __name__ == "__main__":
    sys.exit(main())
