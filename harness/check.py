#!/usr/bin/env python3
"""./bin/check <Cxx> [quick|thorough] [--replay file]

exit 0: the property held on everything explored; exit 1 + `VIOLATION property=… replay=…`;
exit 2: infrastructure error (no verdict)."""
import importlib
import json
import shutil
import os
import sys
import time
import traceback

sys.path.insert(0, os.path.dirname(os.path.abspath(__file__)))
import common  # noqa: E402


FUZZ_TARGETS = {"C13": ["tokenize"], "C14": ["tokenize"], "C08": ["tapeblocks"], "C18": ["tapeblocks"], "C15": ["tolisting", "toascii"],
                "C17": ["prettier"], "C01": ["names"], "C03": ["names"]}


def fuzz_streams(prop, tier, seed, ctx, res, mod):
    """coverage-guided differential search (tools/fuzz_diff.py: atheris, persistent model driver) for inputs on which the model and
    the Python code differ — a support of the correspondence tie, budgeted in seconds; a difference found is a correspondence
    disagreement like any other (and, for the tokenizer, the property's oracles are evaluated on the input found)"""
    import subprocess
    targets = FUZZ_TARGETS.get(prop, [])
    if not targets:
        return
    budget = 60 if tier == "thorough" else 4
    vt = shutil.which("python3-vt")
    for t in targets:
        st = res.stream(f"fuzz_{t}")
        if vt is None:
            res.count(f"fuzz_{t}:unavailable (no python3-vt)")
            continue
        work = ctx.fresh_dir()
        out = os.path.join(work, "diff.json")
        env = dict(os.environ, PYTHONPATH=os.path.join(common.REPO, "src"), MOTO_REPO=common.REPO)
        r = subprocess.run([vt, os.path.join(common.VERIF, "tools", "fuzz_diff.py"), t, str(budget), "--seed", str(seed), "--out", out, "--work", os.path.join(work, "w")],
                           capture_output=True, text=True, env=env, timeout=budget + 300)
        n = 0
        for line in r.stderr.splitlines():
            if line.startswith("stat::number_of_executed_units:"):
                n = int(line.split(":")[-1])
        if "No module named 'atheris'" in r.stderr:
            res.count(f"fuzz_{t}:unavailable (no atheris)")
            continue
        # time-budgeted, hence machine-dependent: reported in the input distribution only, not in the evaluation counts of the evidence
        res.count(f"fuzz_{t}:inputs", n)
        if r.returncode == 1 and os.path.exists(out):
            d = json.load(open(out))
            case = {"fuzz_target": t, "input_hex": d["input_hex"][:4000]}
            res.disagree(f"fuzz_{t}", case, d["model"][:600], d["implementation"][:600])
            if t == "tokenize" and hasattr(mod, "fuzz_oracle"):
                mod.fuzz_oracle(ctx, res, bytes.fromhex(d["input_hex"]))
        elif r.returncode not in (0, 1):
            res.count(f"fuzz_{t}:failed rc={r.returncode}")


def main():
    args = [a for a in sys.argv[1:]]
    replay = None
    if "--replay" in args:
        i = args.index("--replay")
        replay = args[i + 1]
        del args[i:i + 2]
    prop = args[0].upper()
    tier = args[1] if len(args) > 1 else os.environ.get("VERIF_TIER", "quick")
    if tier not in ("quick", "thorough"):
        tier = "quick"
    try:
        seed = int(os.environ.get("VERIF_SEED", "0"))
    except ValueError:
        seed = 0
    recorded = None
    if replay:
        # every stream draws from one generator seeded by (property, seed): re-running the check with the seed and tier of the
        # replay file regenerates the recorded case exactly; the verdict is the check's, and the recorded case is looked up in it
        payload = json.load(open(replay))
        recorded = payload.get("violation") or (payload.get("correspondence_disagreements") or [None])[0]
        seed = int(payload.get("seed", seed))
        tier = payload.get("tier", tier)
    t0 = time.time()
    build = common.ensure_build(prop, thorough=(tier == "thorough"))
    if not build.ok:
        print("INFRASTRUCTURE ERROR:", build.infra_error, file=sys.stderr)
        return 2
    import linecov
    cov = linecov.LineCov(os.path.join(common.REPO, "src"))
    cov.start()
    common.use_repo()
    mod = importlib.import_module(f"props.{prop.lower()}")
    ctx = common.Ctx(prop, tier, seed)
    res = common.Result(prop)
    try:
        if replay and recorded is not None and hasattr(mod, "replay"):
            mod.replay(ctx, res, recorded)
        else:
            mod.run(ctx, res)
            fuzz_streams(prop, tier, seed, ctx, res, mod)
            import tapelib
            # every source name an oracle of this run looked at: the Lean naming rule (Spec.Names) and the Python twins agree on it
            tapelib.check_naming_spec(res, list(tapelib.NAMES_USED))
            if replay:
                def norm(x):
                    return json.dumps(x, sort_keys=True, default=str)
                if recorded is None:
                    print("REPLAY: the file records no failing case (a proof obligation or the translation no longer checks): see no_longer_checks in it")
                else:
                    want = norm(recorded.get("case"))
                    hit = any(norm(v["case"]) == want for v in res.violations) or any(d and norm(d["case"]) == want for d in res.disagreements)
                    print("REPLAY: the recorded case", "fails again" if hit else "no longer fails", "on this tree")
    except Exception:
        traceback.print_exc()
        print("INFRASTRUCTURE ERROR: harness crashed", file=sys.stderr)
        return 2
    finally:
        ctx.cleanup()
    try:
        anchors = []
        for line in open(os.path.join(common.VERIF, "properties.jsonl")):
            d = json.loads(line)
            if d.get("id") == prop:
                anchors = [f for f in d.get("anchors", {}).get("files", []) if f.endswith(".py") and f.startswith("src/")]
        res.code_lines = cov.report([a[len("src/"):] for a in anchors])
        cov.stop()
    except Exception as e:  # never let the bookkeeping change a verdict
        res.code_lines = {"available": False, "error": repr(e)}
    rc = common.finish(prop, tier, seed, build, res, t0, getattr(mod, "LEVEL_TEXT", ""))
    ev = json.load(open(os.path.join(common.VERIF, "evidence", f"{prop}.json")))
    c = ev["coverage"]
    print(f"{prop} {tier} seed={seed}: theorems {c['discharged']}/{c['obligations']} evaluations={c['evaluations']} "
          f"distinct_nontrivial={c['distinct_nontrivial']} disagreements={c['correspondence_disagreements']} "
          f"violations={ev['violations']} wall={ev['wall_s']}s")
    return rc


if __name__ == "__main__":
    sys.exit(main())
