"""one create/add/list/extract scenario of the disk archivers against the model, with the facts of
the reports parsed for the property oracles"""
import os
import re
import shutil

from common import cps, drv
import disklib as D
import tapelib as T

# the catalog name may itself hold dots (PROG.V2.BAS): the extension is what follows the last one, three characters at most
FILE_Q = re.compile(r"^  (?P<name>.*?)\.(?P<ext>[^.]{0,3}?)(?P<dots>\.\.\.)?(?P<res>ok|too big|ignored)?$")
FILE_V = re.compile(r"^  (?P<name>.{0,8}?)\.(?P<ext>.{0,3}?)  (?P<tof>\S+) +(?P<tod>\S+) *(?P<dots>\.{6})?"
                    r"(?:  +(?P<bytes>\d+) Byte(?P<bs>s| )    +(?P<blocks>\d+) block(?P<ks>s| )|(?P<res>too big|ignored))?$")
COUNT_V = re.compile(r"^(?:empty|(?P<n>\d+) file(?P<s>s?)), (?:\((?P<res>\d+) \+ (?P<used>\d+)\) blocks? used|(?P<blocks>\d+) block(?P<ks>s?) (?P<verb>read|written)) \((?P<pct>[\d.]+%)\)$")
COUNT_Q = re.compile(r"^(?P<n>\d+) file(?P<s>s?)$")
TOTAL_V = re.compile(r"^(?P<n>\d+) file(?P<s>s?), (?P<blocks>\d+) block(?P<ks>s?) (?P<verb>read|written)$")


def parse_report(text, verbose):
    """-> dict(sections=[dict(side, files=[...], messages=[...], count=dict|None)], total=dict|None, junk=[...])"""
    sections = []
    total = None
    junk = []
    cur = None
    lines = text.split("\n")
    if lines and lines[-1] == "":
        lines.pop()
    i = 0
    while i < len(lines):
        ln = lines[i]
        i += 1
        m = re.match(r"^Side (\d+)$", ln)
        if m:
            cur = {"side": int(m.group(1)), "files": [], "messages": [], "count": None}
            sections.append(cur)
            continue
        if ln == "---":
            continue
        if ln == "TOTAL":
            if i < len(lines):
                t = lines[i]
                i += 1
                m = (TOTAL_V if verbose else COUNT_Q).match(t)
                total = m.groupdict() if m else {"raw": t}
            continue
        if ln.startswith("has into : "):
            continue
        if cur is None:
            junk.append(ln)
            continue
        if ln.startswith("  -- "):
            cur["messages"].append(ln[2:])
            continue
        if ln.startswith("  "):
            m = (FILE_V if verbose else FILE_Q).match(ln)
            if m:
                cur["files"].append(m.groupdict())
            else:
                junk.append(ln)
            continue
        m = (COUNT_V if verbose else COUNT_Q).match(ln)
        if m:
            cur["count"] = m.groupdict()
        else:
            junk.append(ln)
    return {"sections": sections, "total": total, "junk": junk}


def stored_per_side(rep):
    """names reported as stored/read, per side number"""
    out = {}
    for sec in rep["sections"]:
        names = []
        for f in sec["files"]:
            if f.get("res") in ("too big", "ignored"):
                continue
            names.append(f["name"].rstrip() + "." + f["ext"].rstrip())
        out.setdefault(sec["side"], []).extend(names)
    return out


class Scenario:
    """files on disk + argv for one invocation"""

    def __init__(self, ctx, fl):
        self.ctx = ctx
        self.fl = fl
        self.dir = ctx.fresh_dir()
        self.blobs = D.Blobs(ctx)
        self.archive = "img." + fl
        self.world = []
        self.contents = {}

    def put_source(self, name, content, sub=""):
        path = T.split_source(name)[4]
        full = os.path.join(self.dir, sub, path)
        os.makedirs(os.path.dirname(full), exist_ok=True)
        with open(full, "wb") as f:
            f.write(content)
        rel = os.path.join(sub, path) if sub else path
        # a path written again (a newer version of a source, offered by a later step) replaces what the world held for it
        self.world = [(r, c) for r, c in self.world if r != rel]
        self.world.append((rel, content))
        return os.path.join(sub, name) if sub else name

    def archive_bytes(self):
        p = os.path.join(self.dir, self.archive)
        return open(p, "rb").read() if os.path.exists(p) else None

    def run(self, action, verbose, srcs=(), into=None):
        argv = [action] + (["-v"] if verbose else []) + ([f"--into", into] if into else []) + [self.archive]
        if srcs:
            # the documented spelling puts the sources (and the --eos markers between them) right after the archive;
            # a bare "--" in front of them is the other accepted spelling: alternate, deterministically
            plain = all(not s.startswith("-") or s.upper() == "--EOS" for s in srcs)
            self._spell = getattr(self, "_spell", 0) + 1
            argv += (list(srcs) if plain and self._spell % 2 == 1 else ["--"] + list(srcs))
        return D.dar(self.fl, argv, cwd=self.dir)


def compare_outcome(res, stream, st, case, action, impl_status, impl_out, impl_bytes, mo, strict_text=True):
    """model outcome vs real run; returns True when they agree"""
    if mo is None:
        st.unmodelled += 1
        return True
    st.compared += 1
    model_bytes = mo["writes"][0][1] if mo["writes"] else None
    ok = True
    if impl_status != mo["status"]:
        ok = False
    elif impl_status == "ok0" and impl_out != mo["out"]:
        ok = False
    elif impl_bytes != model_bytes:
        ok = False
    if not ok:
        diff = None
        if impl_bytes is not None and model_bytes is not None and impl_bytes != model_bytes:
            diff = next((i for i, (a, b) in enumerate(zip(impl_bytes, model_bytes)) if a != b), min(len(impl_bytes), len(model_bytes)))
        res.disagree(stream, dict(case, action=action),
                     {"status": mo["status"], "out": mo["out"][:1500], "wrote": model_bytes is not None},
                     {"status": impl_status, "out": impl_out[:1500], "wrote": impl_bytes is not None, "first_diff_offset": diff})
    return ok


def extract_tree(sc, verbose, into=None, stale=None):
    """run --extract in a clean copy; returns (status, out, {relpath: bytes}).  `stale`: files planted at the destination
    before the run (results of an earlier extraction: the documented behaviour is to overwrite them)"""
    x = sc.ctx.fresh_dir()
    shutil.copy(os.path.join(sc.dir, sc.archive), os.path.join(x, sc.archive))
    for rel, data in (stale or {}).items():
        try:
            full = os.path.join(x, into or "", rel)
            os.makedirs(os.path.dirname(full), exist_ok=True)
            with open(full, "wb") as f:
                f.write(data)
        except (OSError, ValueError):
            pass
    argv = ["-x"] + (["-v"] if verbose else []) + ([f"--into", into] if into else []) + [sc.archive]
    status, out = D.dar(sc.fl, argv, cwd=x)
    snap = T.snapshot(x)
    snap.pop(sc.archive, None)
    return status, out, snap
