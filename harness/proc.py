"""process-level runs of the tools (C18, C19, C20)"""
import os
import subprocess
import sys
import time
from concurrent.futures import ThreadPoolExecutor

from common import PY, REPO, VERIF

SANDBOX = os.path.join(VERIF, "harness", "sandbox_run.py")


def env():
    e = dict(os.environ)
    e["MOTO_REPO"] = REPO
    e["PYTHONPATH"] = os.path.join(REPO, "src")
    e["PYTHONDONTWRITEBYTECODE"] = "1"
    e["PYTHONUTF8"] = "1"
    return e


def run_sandboxed(tool, args, cwd, log, cpu_s=20, mem_mb=1024, timeout=90, stdin=b""):
    """-> dict(rc, out, err, wall, events=[(kind, path)], killed)"""
    t0 = time.time()
    try:
        p = subprocess.run([PY, "-B", SANDBOX, log, str(cpu_s), str(mem_mb), tool] + list(args), cwd=cwd, env=env(),
                           capture_output=True, timeout=timeout, input=stdin)
        rc, out, err, killed = p.returncode, p.stdout, p.stderr, False
    except subprocess.TimeoutExpired as e:
        rc, out, err, killed = -999, e.stdout or b"", e.stderr or b"", True
    events = []
    if os.path.exists(log):
        for line in open(log, errors="replace").read().splitlines():
            parts = line.split("\t")
            events.append((parts[0], parts[-1]))
    return {"rc": rc, "out": out.decode(errors="replace"), "err": err.decode(errors="replace"), "wall": time.time() - t0,
            "events": events, "killed": killed or rc in (-24, -9, -999)}


def run_module(tool, args, cwd, timeout=60, stdin=b""):
    """`python3 -m tool args` exactly as documented; -> (rc, stdout, stderr)"""
    p = subprocess.run([PY, "-B", "-m", tool] + list(args), cwd=cwd, env=env(), capture_output=True, timeout=timeout, input=stdin)
    return p.returncode, p.stdout.decode(errors="replace"), p.stderr.decode(errors="replace")


def parallel(fn, jobs, workers=12):
    with ThreadPoolExecutor(max_workers=workers) as ex:
        return list(ex.map(fn, jobs))


def tree(d):
    out = {}
    for root, dirs, files in os.walk(d):
        for x in dirs:
            out[os.path.relpath(os.path.join(root, x), d) + "/"] = None
        for f in files:
            p = os.path.join(root, f)
            st = os.stat(p)
            out[os.path.relpath(p, d)] = (open(p, "rb").read(), st.st_mtime_ns)
    return out
