"""process-level runs of the tools (C18, C19, C20)"""
import os
import subprocess
import sys
import time
from concurrent.futures import ThreadPoolExecutor

from common import PY, REPO, VERIF

SANDBOX = os.path.join(VERIF, "harness", "sandbox_run.py")


def env():
    e = dict(os.environ)
    e["MOTO_REPO"] = REPO
    e["PYTHONPATH"] = os.path.join(REPO, "src")
    e["PYTHONDONTWRITEBYTECODE"] = "1"
    e["PYTHONUTF8"] = "1"
    return e


def run_sandboxed(tool, args, cwd, log, cpu_s=20, mem_mb=1024, timeout=90, stdin=b""):
    """-> dict(rc, out, err, wall, cpu, events=[(kind, path)], killed)
    termination is judged on the CPU time of the child (RLIMIT_CPU kills it at cpu_s; it reports what it used on exit), not on
    wall time: when the machine is loaded and the wall-clock guard expires first, the run is repeated once with a long guard"""
    t0 = time.time()
    cmd = [PY, "-B", SANDBOX, log, str(cpu_s), str(mem_mb), tool] + list(args)
    wall_guard = False
    try:
        p = subprocess.run(cmd, cwd=cwd, env=env(), capture_output=True, timeout=timeout, input=stdin)
        rc, out, err = p.returncode, p.stdout, p.stderr
    except subprocess.TimeoutExpired:
        try:
            p = subprocess.run(cmd, cwd=cwd, env=env(), capture_output=True, timeout=max(300, 4 * timeout), input=stdin)
            rc, out, err = p.returncode, p.stdout, p.stderr
        except subprocess.TimeoutExpired as e:
            rc, out, err, wall_guard = -999, e.stdout or b"", e.stderr or b"", True
    events = []
    cpu = None
    if os.path.exists(log):
        for line in open(log, errors="replace").read().splitlines():
            parts = line.split("\t")
            if parts[0] == "T":
                try:
                    cpu = float(parts[-1])
                except ValueError:
                    pass
                continue
            events.append((parts[0], parts[-1]))
    killed = wall_guard or rc in (-24, -9) or (cpu is not None and cpu > 0.75 * cpu_s)
    return {"rc": rc, "out": out.decode(errors="replace"), "err": err.decode(errors="replace"), "wall": time.time() - t0,
            "cpu": cpu, "events": events, "killed": killed}


def run_module(tool, args, cwd, timeout=60, stdin=b""):
    """`python3 -m tool args` exactly as documented; -> (rc, stdout, stderr)"""
    cmd = [PY, "-B", "-m", tool] + list(args)
    try:
        p = subprocess.run(cmd, cwd=cwd, env=env(), capture_output=True, timeout=timeout, input=stdin)
    except subprocess.TimeoutExpired:
        # loaded machine: once more, with a long guard
        p = subprocess.run(cmd, cwd=cwd, env=env(), capture_output=True, timeout=max(300, 5 * timeout), input=stdin)
    return p.returncode, p.stdout.decode(errors="replace"), p.stderr.decode(errors="replace")


def parallel(fn, jobs, workers=12):
    with ThreadPoolExecutor(max_workers=workers) as ex:
        return list(ex.map(fn, jobs))


def tree(d):
    out = {}
    for root, dirs, files in os.walk(d):
        for x in dirs:
            out[os.path.relpath(os.path.join(root, x), d) + "/"] = None
        for f in files:
            p = os.path.join(root, f)
            st = os.stat(p)
            out[os.path.relpath(p, d)] = (open(p, "rb").read(), st.st_mtime_ns)
    return out
