"""helpers shared by the disk properties (C02, C04-C07, C10-C12, C18, C20)"""
import os

from common import cps, uncps, hx, unhx, drv, run_cli
import tapelib as T

SIDE_FD = 327680
SIDE_SD = 655360


def cli(fl):
    from moto_lib.fs_disk.cli import DiskArchiveCli
    from moto_lib.fs_disk.image import TypeOfDiskImage
    t = TypeOfDiskImage.SDDRIVE_FLOPPY_IMAGE if fl == "sd" else TypeOfDiskImage.EMULATOR_FLOPPY_IMAGE
    return DiskArchiveCli(typeOfArchive=t)


def dar(fl, argv, cwd=None):
    return run_cli(cli(fl).run, argv, cwd=cwd)


# --------------------------------------------------------------------------------------------
# independent layout reader / checker / writer (Python twin of lean/MotoModel/Spec/Dos.lean,
# written from the same layout description)
# --------------------------------------------------------------------------------------------

def sides_of(raw, fl):
    slot = 512 if fl == "sd" else 256
    side = 1280 * slot
    out = []
    for i in range(len(raw) // side):
        base = i * side
        out.append([raw[base + k * slot: base + k * slot + 256] for k in range(1280)])
    return out


def py_chain(tab, first):
    seen = []
    b = first
    while True:
        if b >= 160 or b in seen:
            return None
        s = tab[b]
        if s in (0xFF, 0xFE):
            return None
        seen.append(b)
        if 0xC1 <= s <= 0xC8:
            return seen
        if s < 160:
            b = s
        else:
            return None


def blk_sector(side, b, s):
    return side[(b // 2) * 16 + 8 * (b % 2) + s]


def py_files(side):
    """[(slot, name8, ext3, kind, flag, chain, lastSectors, lastBytes, content)] or None"""
    tab = side[20 * 16 + 1][1:161]
    out = []
    for k in range(14):
        sec = side[20 * 16 + 2 + k]
        for j in range(8):
            e = sec[32 * j: 32 * j + 32]
            if e[0] in (0, 0xFF):
                continue
            ch = py_chain(tab, e[13])
            if ch is None:
                return None
            last_s = tab[ch[-1]] - 0xC0
            last_b = e[14] * 256 + e[15]
            content = bytearray()
            for i, b in enumerate(ch):
                n = last_s if i == len(ch) - 1 else 8
                for s in range(n):
                    take = last_b if (i == len(ch) - 1 and s == n - 1) else 255
                    content += blk_sector(side, b, s)[:take]
            out.append((8 * k + j, bytes(e[0:8]), bytes(e[8:11]), e[11], e[12], ch, last_s, last_b, bytes(content)))
    return out


def py_fsck(side, strict=True):
    """returns None when consistent, else the name of the first failing clause"""
    if len(side) != 1280 or any(len(s) != 256 for s in side):
        return "geometry"
    bat = side[20 * 16 + 1]
    tab = bat[1:161]
    for s in tab:
        if not (s < 160 or 0xC1 <= s <= 0xC8 or s in (0xFE, 0xFF)):
            return "status"
    if tab[40] != 0xFE or tab[41] != 0xFE:
        return "track20_not_reserved"
    if strict and bat[0] != 0:
        return "byte0"
    fs = py_files(side)
    if fs is None:
        return "chain"
    owner = {}
    for f in fs:
        if f[7] > 255:
            return "last_bytes"
        for b in f[5]:
            if b in owner:
                return "shared_block"
            owner[b] = f[0]
    for b in range(160):
        used = tab[b] not in (0xFF, 0xFE)
        if used != (b in owner):
            return "leaked_block" if used else "free_block_in_chain"
    return None


def py_render(a):
    """a: dict(files=[dict(slot,name,ext,kind,flag,chain,lastSectors,lastBytes,content)], deleted=[(slot, raw32)],
    reserved=[...], filler, tableTail, recPad, byte0) -> list of 1280 sectors"""
    side = [bytes([a["filler"]]) * 256 for _ in range(1280)]
    tab = [0xFE if b in a["reserved"] else 0xFF for b in range(160)]
    cat = [bytes([0xFF]) * 32 for _ in range(112)]
    for slot, raw in a["deleted"]:
        cat[slot] = bytes(raw)
    for f in a["files"]:
        ch = f["chain"]
        for i, b in enumerate(ch):
            last = i == len(ch) - 1
            tab[b] = 0xC0 + f["lastSectors"] if last else ch[i + 1]
            for s in range(f["lastSectors"] if last else 8):
                k = 8 * i + s
                piece = f["content"][255 * k: 255 * k + 255]
                side[(b // 2) * 16 + 8 * (b % 2) + s] = piece + bytes([a["filler"]]) * (256 - len(piece))
        cat[f["slot"]] = (f["name"] + f["ext"] + bytes([f["kind"], f["flag"], ch[0], f["lastBytes"] // 256, f["lastBytes"] % 256])
                          + bytes([a["recPad"]]) * 16)
    side[20 * 16 + 1] = bytes([a["byte0"]] + tab + [(a["tableTail"] * (i + 1)) % 256 for i in range(95)])
    for k in range(14):
        side[20 * 16 + 2 + k] = b"".join(cat[8 * k: 8 * k + 8])
    return side


def raw_of_sides(sides, fl):
    if fl == "sd":
        return b"".join(s + b"\xff" * 256 for side in sides for s in side)
    return b"".join(s for side in sides for s in side)


def blank_formatted_side():
    return py_render({"files": [], "deleted": [], "reserved": [0, 40, 41], "filler": 0xE5, "tableTail": 0, "recPad": 0xFF, "byte0": 0})


# --------------------------------------------------------------------------------------------
# model calls
# --------------------------------------------------------------------------------------------

class Blobs:
    """contents are handed to the driver as files"""

    def __init__(self, ctx):
        self.dir = ctx.fresh_dir()
        self.n = 0
        self.cache = {}

    def put(self, data):
        key = (len(data), hash(data))
        if key in self.cache and open(self.cache[key], "rb").read() == data:
            return "@" + self.cache[key]
        self.n += 1
        p = os.path.join(self.dir, f"b{self.n}")
        with open(p, "wb") as f:
            f.write(data)
        self.cache[key] = p
        return "@" + p

    def out(self):
        self.n += 1
        return os.path.join(self.dir, f"o{self.n}")


def parse_disk_outcome(ans):
    if ans == "unmodelled":
        return None
    st, out, mk, wr = ans.split("|")
    mkdirs = [] if mk == "" else [uncps(x) for x in mk.split(";")]
    writes = []
    if wr:
        for w in wr.split(";"):
            p, ref = w.split(">@")
            writes.append((uncps(p), open(ref, "rb").read()))
    return {"status": st, "out": uncps(out), "mkdirs": mkdirs, "writes": writes}


def world_args(blobs, world):
    return "".join(f" {cps(p)} {'missing' if c is None else blobs.put(c)}" for p, c in world)


def model_create(blobs, fl, verbose, archive, srcs, world):
    return f"disk.create {fl} {'v' if verbose else 'q'} {cps(archive)} {blobs.out()} {len(srcs)} " + " ".join(cps(s) for s in srcs) + world_args(blobs, world)


def model_add(blobs, fl, verbose, archive, pre, srcs, world):
    return (f"disk.add {fl} {'v' if verbose else 'q'} {cps(archive)} {blobs.put(pre)} {blobs.out()} {len(srcs)} " + " ".join(cps(s) for s in srcs)
            + world_args(blobs, world))


def model_list(blobs, fl, verbose, raw):
    return f"disk.list {fl} {'v' if verbose else 'q'} {blobs.put(raw)}"


def model_extract(blobs, fl, verbose, archive, into, raw):
    return f"disk.extract {fl} {'v' if verbose else 'q'} {cps(archive)} {'~' if into is None else cps(into)} {blobs.put(raw)} {blobs.out()}"


def lean_files(blobs, fl, raw, i):
    """Spec.Dos.files on side i of raw -> same tuple shape as py_files, or None"""
    outp = blobs.out()
    ans = drv([f"dos.files {fl} {blobs.put(raw)} {i} {outp}"])[0]
    if ans == "none":
        return None
    if ans == "":
        return []
    out = []
    for row in ans.split(";"):
        slot, name, ext, kind, flag, chain, ls, lb, ref = row.split(",", 8) if False else split_row(row)
        out.append((int(slot), unhx(name), unhx(ext), int(kind), int(flag), chain, int(ls), int(lb), open(ref[1:], "rb").read()))
    return out


def split_row(row):
    # slot,name,ext,kind,flag,<chain cps with commas>,ls,lb,@ref
    parts = row.split(",")
    slot, name, ext, kind, flag = parts[:5]
    ref = parts[-1]
    lb = parts[-2]
    ls = parts[-3]
    chain = [] if parts[5:-3] == ["-"] else [int(x) for x in parts[5:-3]]
    return slot, name, ext, kind, flag, chain, ls, lb, ref


def render_args(blobs, a, outp):
    s = f"dos.render {outp} {a['filler']} {a['tableTail']} {a['recPad']} {a['byte0']} {','.join(map(str, a['reserved'])) or '-'} {len(a['files'])}"
    for f in a["files"]:
        s += f" {f['slot']} {hx(f['name'])} {hx(f['ext'])} {f['kind']} {f['flag']} {','.join(map(str, f['chain']))} {f['lastSectors']} {f['lastBytes']} {blobs.put(f['content'])}"
    s += f" {len(a['deleted'])}"
    for slot, raw in a["deleted"]:
        s += f" {slot} {hx(raw)}"
    return s


# --------------------------------------------------------------------------------------------
# source lists
# --------------------------------------------------------------------------------------------

DISK_SIZES = [0, 1, 254, 255, 256, 510, 2039, 2040, 2041, 2295, 4080, 4081, 20400]


def disk_kind(name):
    """documented kind/flag from the name: (kind byte, flag byte, stored extension)"""
    stem, ext, _, _, _ = T.split_source(name)
    base = name.rsplit("/", 1)[-1].upper()
    if f"{stem}.{ext}" == "AUTO.BAT":
        return 0, 0, ext
    if base.endswith(".BAS,A"):
        return 0, 0xFF, "BAS"
    if ext == "BAS":
        return 0, 0, ext
    if ext == "BIN":
        return 2, 0, ext
    if ext == "TXT":
        return 3, 0xFF, ext
    return 1, 0, ext


CONFUSABLE = ["bin", "txt", "bas", "BAS", "Bin", "TXT", "auto", "bat", "AUTO", "auto.bas", "auto.bat", "AUTO.BAT", "Auto.Bat", "x.bat",
              "bas.txt", "txt.bin", "bin.bas", "bat.bas,a", "bas.bas,a", "autox.bat", "auto.ba", "csv", "dat", "a", "1", "12345678.123", "0.0",
              # leading and inner blanks are ordinary name characters (trailing ones are indistinguishable from the field padding: not generated)
              " a.txt", "  b.dat", "a b.bas", " a. b",
              # the base name starts with the dot: empty catalog name, the rest is the extension
              ".bas", ".x", ".ab",
              # more than one dot: the catalog name is everything before the LAST dot of the base name; an inner comma is an ordinary
              # character (only a final ",a" is an option)
              "stra\u00dfe.bas", "d\u0131sk.dat", "\ufb01le.txt", "a.\u017fd",      # upper-cased to ascii by Python (STRASSE.BAS …): stored; `unmodelled` for the model
              "prog.v2.bas", "lib.v1.bin", "lib.v2.bin", "a..b", "x.1.2", "a.b.bas,a", "v1.0.txt", "demo,v2.bas,a", "a,b.txt", "x,a.bas", "n,a.bas,A"]
# a base name that starts with '-' is an ordinary source once a bare "--" ends the options (Scenario.run spells the command so)
DASHED = ["-draft.bas", "-x", "--y.dat", "-v", "-c.bin"]


def gen_disk_name(rng, used, dashed=False):
    for _ in range(200):
        if rng.random() < 0.2:
            full = rng.choice(DASHED if dashed and rng.random() < 0.15 else CONFUSABLE)
            key = T.catalog_name(full)
            if key not in used:
                used.add(key)
                return full
            continue
        n = "".join(rng.choice(T.NAME_CHARS) for _ in range(rng.choice([1, 2, 4, 8])))
        if n[0] == "-":
            n = "Z" + n[1:]
        e = rng.choice(["", "bas", "BAS", "bas,a", "Bas,A", "bin", "txt", "dat", "x", "BAT"])
        full = n if e == "" else n + "." + e
        if rng.random() < 0.03:
            full = "auto.bat"
        key = T.catalog_name(full)
        if key not in used and T.split_source(full)[4].upper() not in {T.split_source(u)[4].upper() for u in used if False}:
            used.add(key)
            return full
    raise RuntimeError("names exhausted")
