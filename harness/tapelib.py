"""helpers shared by the tape properties (C01, C03, C08, C09, C12, C18, C20)"""
import os
import shutil

from common import cps, uncps, hx, unhx, drv, run_cli

NAME_CHARS = "ABCDEFGHIJKLMNOPQRSTUVWXYZabcdefghijklmnopqrstuvwxyz0123456789_-+!#$%&@~*'()[]{}^`;=" + ':"\\<>?|\x7f'   # every printable a host name may hold, and DEL
SIZES = [0, 1, 2, 253, 254, 255, 256, 507, 508, 509, 761, 762, 763, 1015, 1016, 1017]


def tar(argv, cwd=None):
    """moto_tar in-process; the report is canonicalised where the spelling is not the fact: a unit agreeing in number with its count
    ("1 octet", "1 block.") reads like the invariable spelling of the pinned tree, and the diagnostic of a refused creation counts
    whichever stream it is printed on"""
    from moto_tar.tar import TapeArchiveCli
    import common
    import re
    status, out = run_cli(TapeArchiveCli().run, argv, cwd=cwd)
    lines = out.split("\n")
    for k, ln in enumerate(lines):
        cols = ln.split("\t")
        if len(cols) >= 6 and cols[-2] == "1 octet":
            cols[-2] = "1 octets"
        if len(cols) >= 6 and cols[-1] == "1 block.":
            cols[-1] = "1 blocks."
        lines[k] = "\t".join(cols)
    out = "\n".join(lines)
    if "Too much data" not in out:
        for line in common.LAST["stderr"].splitlines():
            if "Too much data" in line:
                out += line + "\n"
    return status, out


TAPE_CONFUSABLE = ["bas", "csv", "BAS", "bin", "a", "1", "12345678.123", "0.0", "bas.csv", "csv.bas", "csv.bas,a", "x.csv", "x.CSV", "a.b", ".bas", ".b", ".csv",
                   # more than 8 characters of name, more than 3 of extension: stored (and reported) truncated
                   "longfilename.bas", "a.data", "verylongnamenoext", "abcdefghi", "x.basic", "ninechars.csvx", "y.bas,ab",
                   # letters beyond ASCII whose upper case IS ascii (Python's str.upper): stored under that name — STRASSE.BAS, DISK.DAT,
                   # SOFT.BIN, FILE.CSV; the model's upper-casing is ASCII only: such names are answered `unmodelled`, the oracles judge
                   "stra\u00dfe.bas", "d\u0131sk.dat", "\u017foft.bin", "\ufb01le.csv", "prog.ba\u017f,a"]


def gen_name(rng, used, ext_choices=None):
    for _ in range(100):
        if ext_choices is None and rng.random() < 0.12:
            full = rng.choice(TAPE_CONFUSABLE)
            key = catalog_name(full)
            if key not in used:
                used.add(key)
                return full
            continue
        n = "".join(rng.choice(NAME_CHARS) for _ in range(rng.choice([1, 2, 3, 5, 8, 8])))
        if n[0] == "-":  # would be read as an option by any command line parser
            n = "X" + n[1:]
        e = rng.choice(ext_choices or ["", "bas", "BAS", "bas,a", "BAS,A", "Bas,a", "csv", "CSV", "bin", "txt", "x", "ab", "DAT"])
        if e == "":
            full = n if rng.random() < 0.7 else n + "."
        else:
            full = n + "." + e
        key = catalog_name(full)
        if key not in used:
            used.add(key)
            return full
    raise RuntimeError("name space exhausted")


NAMES_USED = {}


def split_source(src):
    """independent reading of a source argument: (upper name, upper ext, kind, mode, path to open)"""
    if len(NAMES_USED) < 20000:
        NAMES_USED[src] = True
    base = src.rsplit("/", 1)[-1]
    path = src
    opt = ""
    if "." in base:
        stem, ext = base.rsplit(".", 1)
        if ext.upper() == "BAS,A":
            ext, opt = ext[:-2], ",A"
            path = src[:-2]
    else:
        stem, ext = base, ""
    ue = ext.upper()
    if ue == "BAS":
        kind, mode = 0, (0xFFFF if opt else 0)
    elif ue == "CSV":
        kind, mode = 1, 0
    else:
        kind, mode = 2, 0
    return stem.upper(), ue, kind, mode, path


def catalog_name(src):
    n, e, _, _, _ = split_source(src)
    return f"{n[:8]}.{e[:3]}"


def content_for(rng, size):
    r = rng.random()
    if r < 0.12 and size >= 4:
        # text-like contents, whatever the kind of the file: a byte-order mark in front, an end-of-file mark (1A) or a line end
        # behind, CR LF / CR / LF lines — all of it is content, reproduced byte for byte
        head = rng.choice([b"\xef\xbb\xbf", b"\xff\xfe", b"", b"\r", b"\n"])
        tail = rng.choice([b"\x1a", b"\r\n", b"\n", b"\r", b"\x00", b"", b"\x1a\x1a"])
        eol = rng.choice([b"\r\n", b"\r", b"\n"])
        body = (b"10 PRINT \"HELLO\"" + eol + b"20 GOTO 10" + eol) * (size // 20 + 1)
        return (head + body)[: size - len(tail)] + tail if size >= len(head) + len(tail) else (head + tail)[:size].ljust(size, b"A")
    if r < 0.15:
        return bytes(size)
    if r < 0.25:
        return b"\xff" * size
    if r < 0.45:
        pat = rng.choice([b"\x01\x01\x01\x3c\x5a", b"\x3c\x5a", b"\xff\x02\x00", b"\x01" * 16 + b"\x3c\x5a\x00\x10"])
        return (pat * (size // len(pat) + 1))[:size]
    if r < 0.55:
        # sums to 0 or 255 modulo 256
        b = bytearray(rng.getrandbits(8) for _ in range(size))
        if size:
            b[-1] = (rng.choice([0, 255]) - sum(b[:-1])) % 256
        return bytes(b)
    return bytes(rng.getrandbits(8) for _ in range(size))


def enc_size(contents):
    tot = 0
    for c in contents:
        n = len(c)
        blocks = (n + 253) // 254
        tot += 35 + 21 * blocks + n + 21
    return tot


def sfile_args(files):
    """files: list of (name, ext, kind, mode, content) -> driver arguments"""
    return " ".join(f"{cps(n)} {cps(e)} {k} {m} {hx(c)}" for n, e, k, m, c in files)


def parse_outcome(ans):
    if ans == "unmodelled":
        return None
    st, out, mk, wr = ans.split("|")
    lines = [] if out == "" else [uncps(x) for x in out.split(";")]
    mkdirs = [] if mk == "" else [uncps(x) for x in mk.split(";")]
    writes = []
    if wr:
        for w in wr.split(";"):
            p, h = w.split(">")
            writes.append((uncps(p), unhx(h)))
    return {"status": st, "out": "".join(l + "\n" for l in lines), "mkdirs": mkdirs, "writes": writes}


def snapshot(d):
    out = {}
    for root, _, files in os.walk(d):
        for f in files:
            p = os.path.join(root, f)
            if os.path.islink(p) and not os.path.exists(p):
                out[os.path.relpath(p, d)] = b"<dangling link to " + os.readlink(p).encode() + b">"
                continue
            out[os.path.relpath(p, d)] = open(p, "rb").read()
    return out


def py_render(pre, blocks):
    """the independent tape writer (Python twin of Spec.K7.render): blocks = (lead, ty, payload, gap)"""
    out = bytearray(pre)
    for lead, ty, payload, gap in blocks:
        out += b"\x01" * lead + b"\x3c\x5a"
        out += bytes([ty, (len(payload) + 2) % 256]) + payload + bytes([(256 - sum(payload) % 256) % 256])
        out += gap
    return bytes(out)


def strict_decode(tape):
    """independent decoder written from the format description (C03): blocks back to back from
    offset 0 (sixteen 01, 3C 5A, type, length, payload, checksum), then only zero padding.
    returns (files, error) with files = [(name8, ext3, kind, mode, content)]"""
    pos = 0
    blocks = []
    n = len(tape)
    while pos < n and tape[pos] != 0:
        if tape[pos:pos + 18] != b"\x01" * 16 + b"\x3c\x5a":
            return None, f"no 16x01 3C 5A at offset {pos}"
        ty, ln = tape[pos + 18], tape[pos + 19]
        plen = (ln - 2) % 256
        if ln == 1:
            return None, f"length byte 1 at offset {pos}"
        payload = tape[pos + 20:pos + 20 + plen]
        if len(payload) != plen or pos + 20 + plen >= n:
            return None, f"truncated block at offset {pos}"
        ck = tape[pos + 20 + plen]
        if (sum(payload) + ck) % 256 != 0:
            return None, f"bad checksum at offset {pos}"
        if plen > 254:
            return None, f"payload longer than 254 at offset {pos}"
        blocks.append((ty, bytes(payload)))
        pos += 21 + plen
    if any(tape[pos:]):
        return None, f"non-zero byte after the last block (from offset {pos})"
    files = []
    cur = None
    for ty, payload in blocks:
        if ty == 0:
            if cur is not None or len(payload) != 14:
                return None, "leader block out of place or not 14 bytes"
            cur = [payload[0:8], payload[8:11], payload[11], payload[12] * 256 + payload[13], b""]
        elif ty == 1:
            if cur is None or len(payload) == 0:
                return None, "data block out of place or empty"
            cur[4] += payload
        elif ty == 0xFF:
            if cur is None or payload != b"":
                return None, "end block out of place or not FF 02 00"
            files.append(tuple(cur))
            cur = None
        else:
            return None, f"unknown block type {ty}"
    if cur is not None:
        return None, "file without end block"
    return files, None


def tape_facts_ok(cols, first, size, nblocks):
    """columns 4.. of a verbose tape line: `#<position>`, `<size> octet(s)`, `<n> block(s).` — the numbers are what C08/C12 are about;
    a unit that agrees in number with its count ("1 octet", "1 block.") is as good as the invariable spelling of the pinned tree"""
    if len(cols) != 3 or cols[0] != f"#{first}":
        return False
    ok_size = cols[1] == f"{size} octets" or (size == 1 and cols[1] == "1 octet")
    ok_blocks = cols[2] == f"{nblocks} blocks." or (nblocks == 1 and cols[2] == "1 block.")
    return ok_size and ok_blocks


_NAMES_SEEN = {}


def disk_split_twin(src):
    """independent reading of a source argument by the disk archivers: (upper stem, upper extension without the option,
    upper extension with it, path to open) — the option ',a' is taken off whatever the extension is"""
    base = src.rsplit("/", 1)[-1]
    opt = src[-2:].upper() == ",A"
    path = src[:-2] if opt else src
    if "." in base:
        stem, ext = base.rsplit(".", 1)
        return stem.upper(), (ext[:-2] if opt else ext).upper(), ext.upper(), path
    return base.upper(), "", "", path


def check_naming_spec(res, srcs):
    """the naming rule has two independent statements — `Spec.Names` in Lean (the one the theorems C01.catalog_name_is_8_3,
    C02 / C03.source_naming_rule are about) and the Python twins above (the ones the oracles use): they must agree on every
    name a stream generates.  A difference is a fault of the machinery, not of the tool: it stops the check (exit 2)."""
    from common import drv, cps, uncps
    todo = [s for s in dict.fromkeys(srcs) if s not in _NAMES_SEEN and s.isascii() and s]
    if not todo:
        return
    ans = drv([f"names.tape {cps(s)}" for s in todo] + [f"names.disk {cps(s)}" for s in todo])
    for i, s in enumerate(todo):
        _NAMES_SEEN[s] = True
        n, e, k, m, p = ans[i].split(" ")
        lean_tape = (uncps(n), uncps(e), int(k), int(m), uncps(p))
        tn, te, tk, tm, tp = split_source(s)
        if lean_tape != (tn[:8], te[:3], tk, tm, tp):
            raise RuntimeError(f"naming rule: Spec.Names.tapeSource and the Python twin differ on {s!r}: {lean_tape} / {(tn[:8], te[:3], tk, tm, tp)}")
        lean_disk = tuple(uncps(x) for x in ans[len(todo) + i].split(" "))
        if lean_disk != disk_split_twin(s):
            raise RuntimeError(f"naming rule: Spec.Names.diskSource and the Python twin differ on {s!r}: {lean_disk} / {disk_split_twin(s)}")
        res.count("naming_rule_lean_spec_equals_twin")
