"""Shared machinery of the checks: build + audit of the Lean side, driver client, access to the
real code, result bookkeeping, verdict, evidence."""
import contextlib
import fcntl
import hashlib
import importlib
import io
import json
import os
import random
import re
import shutil
import subprocess
import sys
import tempfile
import threading
import time

VERIF = os.path.dirname(os.path.dirname(os.path.abspath(__file__)))
LEAN = os.path.join(VERIF, "lean")
REPO = os.environ.get("MOTO_REPO", "/repo")
PY = "/venv/bin/python" if os.path.exists("/venv/bin/python") else sys.executable
DRV = os.path.join(LEAN, ".lake", "build", "bin", "motodrv")
STD_AXIOMS = {"propext", "Classical.choice", "Quot.sound"}
FORBIDDEN = re.compile(r"\bsorry\b|\badmit\b|^\s*axiom\s|native_decide|bv_decide|implemented_by|\bunsafe\s|maxHeartbeats\s+0|\bextern\b", re.M)

TRUSTED_BASE = [
    "Lean 4.33.0 kernel (theorems re-checked by `lake build` on every run; axioms audited per theorem: subset of propext, Classical.choice, Quot.sound)",
    "tools/translate.py (Python ast/import introspection) for the generated constants and tables in lean/MotoModel/Gen",
    "tools/pyfun2lean.py: expression-level translation of eight pure functions to Gen/Fn.lean (Python ints as Nat with truncated subtraction; a function outside the subset falls back to the model function and is listed as not translated)",
    "the correspondence check (this harness): hand-written model functions are compared with the Python functions on generated inputs only",
    "compiled driver motodrv (Lean compiler + C toolchain) is used as a tester only; no theorem depends on it",
    "CPython semantics of the primitives modelled in Model/Py.lean; POSIX path resolution; UTF-8 locale",
]


# ---------------------------------------------------------------------------------------------
# real code access
# ---------------------------------------------------------------------------------------------

def use_repo():
    """make `import moto_*` resolve to the working tree under REPO"""
    src = os.path.join(REPO, "src")
    sys.dont_write_bytecode = True
    if sys.path[0] != src:
        sys.path.insert(0, src)
    for name in list(sys.modules):
        if name.startswith("moto_"):
            f = getattr(sys.modules[name], "__file__", "") or ""
            if not f.startswith(src):
                del sys.modules[name]


def exc_class(e):
    if isinstance(e, SystemExit):
        code = e.code if isinstance(e.code, int) else (0 if e.code is None else 1)
        return f"exit{code}"
    # the class the error belongs to, not the name the project gives it: `class ArchiveNameError(ValueError)` is a ValueError
    for c in type(e).__mro__:
        if c.__module__ == "builtins":
            return c.__name__
    return type(e).__name__


@contextlib.contextmanager
def chdir(path):
    old = os.getcwd()
    os.chdir(path)
    try:
        yield
    finally:
        os.chdir(old)


LAST = {"stderr": ""}     # what the last in-process run wrote on its standard error


def run_cli(entry, argv, cwd=None, stdin_text=None):
    """run a tool's `run()` in-process the way the test suite does: patched argv, captured stdout.
    returns (status, stdout) where status is 'ok<ret>' or the exception class name"""
    out = io.StringIO()
    old_argv, old_stdin = sys.argv, sys.stdin
    sys.argv = ["prog"] + list(argv)
    if stdin_text is not None:
        sys.stdin = io.StringIO(stdin_text)
    err = io.StringIO()
    try:
        with contextlib.redirect_stdout(out), contextlib.redirect_stderr(err):
            if cwd:
                with chdir(cwd):
                    ret = entry()
            else:
                ret = entry()
        status = f"ok{ret if ret is not None else 0}"
    except SystemExit as e:
        status = exc_class(e)
    except BaseException as e:  # noqa
        if isinstance(e, KeyboardInterrupt):
            raise
        status = exc_class(e)
    finally:
        sys.argv, sys.stdin = old_argv, old_stdin
    LAST["stderr"] = err.getvalue()
    return status, out.getvalue()


# ---------------------------------------------------------------------------------------------
# encoding helpers for the driver line protocol
# ---------------------------------------------------------------------------------------------

def hx(b):
    return bytes(b).hex() if len(b) else "-"


def unhx(s):
    return b"" if s == "-" else bytes.fromhex(s)


def cps(s):
    """str -> comma separated code points"""
    return ",".join(str(ord(c)) for c in s) if s else "-"


def uncps(s):
    return "" if s == "-" else "".join(chr(int(x)) for x in s.split(","))


def lcg_bytes(n, seed, pat=0):
    """deterministic content generator shared with the driver (32-bit LCG)"""
    out = bytearray(n)
    x = seed & 0xFFFFFFFF
    for i in range(n):
        x = (x * 1664525 + 1013904223) & 0xFFFFFFFF
        out[i] = (x >> 16) & 0xFF
    return bytes(out)


# ---------------------------------------------------------------------------------------------
# build, audit
# ---------------------------------------------------------------------------------------------

class Build:
    def __init__(self):
        self.ok = True
        self.infra_error = None
        self.translator = {}
        self.translator_failed = []
        self.proof_errors = []  # list of "file:line: message"
        self.audit = {}  # theorem -> axioms
        self.audit_bad = []
        self.forbidden = []
        self.lean_version = ""
        self.used_pinned_gen = False
        self.wall = 0.0

    @property
    def proof_break(self):
        return bool(self.proof_errors or self.translator_failed or self.audit_bad or self.forbidden)

    def broken_items(self):
        return self.translator_failed + self.proof_errors + self.audit_bad + self.forbidden


def strip_comments(text):
    text = re.sub(r"/-.*?-/", "", text, flags=re.S)
    return re.sub(r"--.*", "", text)


def scan_forbidden():
    bad = []
    for root, _, files in os.walk(LEAN):
        if ".lake" in root:
            continue
        for f in files:
            if f.endswith(".lean"):
                p = os.path.join(root, f)
                if p.endswith("AuditCmd.lean"):
                    continue
                for m in FORBIDDEN.finditer(strip_comments(open(p).read())):
                    bad.append(f"{os.path.relpath(p, LEAN)}: forbidden token {m.group(0).strip()!r}")
    return bad


def ensure_build(prop, thorough=False):
    """regenerate Gen from the repository, build the property's theorems and the driver, audit.
    Shared between concurrent checks through a file lock."""
    b = Build()
    t0 = time.time()
    lock = open(os.path.join(LEAN, ".build.lock"), "w")
    fcntl.flock(lock, fcntl.LOCK_EX)
    try:
        r = subprocess.run([PY, os.path.join(VERIF, "tools", "translate.py"), REPO, os.path.join(LEAN, "MotoModel", "Gen")],
                           capture_output=True, text=True)
        try:
            b.translator = json.loads(r.stdout.strip().splitlines()[-1])
        except Exception:
            b.translator = {}
            b.translator_failed.append(f"translator crashed: {r.stderr.strip()[-300:]}")
        for k, v in b.translator.items():
            if v.startswith("FAILED"):
                b.translator_failed.append(f"translator {k}: {v}")
        try:
            fn = open(os.path.join(LEAN, "MotoModel", "Gen", "Fn.lean")).read()
            m = re.search(r"def translated .*:= \[(.*)\]", fn)
            b.translator["functions_translated_from_source"] = dict((n, ok == "true") for n, ok in re.findall(r'\("(\w+)", (true|false)\)', m.group(1)))
        except Exception:
            pass
        env = dict(os.environ)
        # the driver first: it depends on Model/Spec/Gen only
        r = subprocess.run(["lake", "build", "motodrv"], cwd=LEAN, capture_output=True, text=True, env=env)
        if r.returncode != 0:
            # the description regenerated from the source no longer fits the model (a constant disappeared, a table
            # changed shape, ...): that is a broken proof obligation, not an infrastructure failure.  Fall back to the
            # description of the pinned tree (lean/GenPinned) so that the search for a failing input can still compare the
            # model of the unchanged code with the code as it is now.
            errs = re.findall(r"^error: (\S+\.lean:\d+:\d+: .*)$", r.stdout + r.stderr, flags=re.M)
            pinned = os.path.join(LEAN, "GenPinned")
            if not errs or not os.path.isdir(pinned):
                b.infra_error = "driver build failed:\n" + (r.stdout + r.stderr)[-3000:]
                b.ok = False
                return b
            b.proof_errors = ["model does not build on the description regenerated from the source: " + e[:260] for e in errs[:5]]
            b.used_pinned_gen = True
            for f in os.listdir(pinned):
                if f.endswith(".lean"):
                    shutil.copyfile(os.path.join(pinned, f), os.path.join(LEAN, "MotoModel", "Gen", f))
            r = subprocess.run(["lake", "build", "motodrv"], cwd=LEAN, capture_output=True, text=True, env=env)
            if r.returncode != 0:
                b.infra_error = "driver build failed even on the pinned description:\n" + (r.stdout + r.stderr)[-3000:]
                b.ok = False
                return b
            b.forbidden = scan_forbidden()
            b.lean_version = subprocess.run(["lean", "--version"], capture_output=True, text=True).stdout.strip()
            return b
        target = f"MotoModel.Props.{prop}"
        r = subprocess.run(["lake", "build", target, "MotoModel.AuditCmd"], cwd=LEAN, capture_output=True, text=True, env=env)
        if r.returncode != 0:
            errs = re.findall(r"^error: (\S+\.lean:\d+:\d+: .*)$", r.stdout + r.stderr, flags=re.M)
            if not errs:
                b.infra_error = "lake build failed without a Lean error:\n" + (r.stdout + r.stderr)[-3000:]
                b.ok = False
                return b
            b.proof_errors = [e[:300] for e in errs]
        else:
            aud = os.path.join(LEAN, ".lake", f"Audit_{prop}.lean")
            with open(aud, "w") as f:
                f.write(f"import {target}\nimport MotoModel.AuditCmd\n#audit_ns Moto.{prop}\n")
            r = subprocess.run(["lake", "env", "lean", aud], cwd=LEAN, capture_output=True, text=True, env=env)
            for line in r.stdout.splitlines():
                m = re.match(r"AUDIT (\S+) \[(.*)\]", line)
                if m:
                    axs = [a.strip() for a in m.group(2).split(",") if a.strip()]
                    b.audit[m.group(1)] = axs
                    if not set(axs) <= STD_AXIOMS:
                        b.audit_bad.append(f"theorem {m.group(1)} depends on non-standard axioms {axs}")
            if r.returncode != 0 or not b.audit:
                b.infra_error = "audit failed:\n" + (r.stdout + r.stderr)[-2000:]
                b.ok = False
                return b
            if thorough:
                mods = [target]
                r = subprocess.run(["lake", "env", "leanchecker"] + mods, cwd=LEAN, capture_output=True, text=True, env=env)
                if r.returncode != 0:
                    b.audit_bad.append("leanchecker rejected " + target + ": " + (r.stdout + r.stderr)[-300:])
        b.forbidden = scan_forbidden()
        b.lean_version = subprocess.run(["lean", "--version"], capture_output=True, text=True).stdout.strip()
    finally:
        b.wall = time.time() - t0
        fcntl.flock(lock, fcntl.LOCK_UN)
        lock.close()
    return b


def drv(lines):
    """run the compiled model driver on request lines; one answer per request"""
    if not lines:
        return []
    data = ("\n".join(lines) + "\n").encode()
    r = subprocess.run([DRV], input=data, capture_output=True)
    if r.returncode != 0:
        raise RuntimeError(f"driver failed rc={r.returncode}: {r.stderr.decode()[-500:]}")
    out = r.stdout.decode().split("\n")
    if out and out[-1] == "":
        out.pop()
    if len(out) != len(lines):
        raise RuntimeError(f"driver answered {len(out)} lines for {len(lines)} requests")
    return out


# ---------------------------------------------------------------------------------------------
# results
# ---------------------------------------------------------------------------------------------

class Stream:
    def __init__(self, name, exhaustive=False):
        self.name = name
        self.evaluations = 0
        self.hashes = set()
        self.nontrivial = set()
        self.exhaustive = exhaustive
        self.unmodelled = 0
        self.compared = 0

    def see(self, case_repr, nontrivial=True):
        self.evaluations += 1
        h = hashlib.sha1(repr(case_repr).encode()).digest()[:8]
        self.hashes.add(h)
        if nontrivial:
            self.nontrivial.add(h)


class Result:
    def __init__(self, prop):
        self.prop = prop
        self.streams = {}
        self.samples = []
        self.disagreements = []  # correspondence breaks: dict(stream, case, model, impl)
        self.violations = []  # oracle failures: dict(stream, clause, case, detail, signature)
        self.distribution = {}
        self.notes = []
        self.rule = ""
        self.known_reproduced = []

    def stream(self, name, exhaustive=False):
        if name not in self.streams:
            self.streams[name] = Stream(name, exhaustive)
        return self.streams[name]

    def count(self, key, n=1):
        self.distribution[key] = self.distribution.get(key, 0) + n

    def sample(self, s, limit=6):
        if len(self.samples) < limit:
            self.samples.append(s)

    def disagree(self, stream, case, model, impl):
        if len(self.disagreements) < 50:
            self.disagreements.append({"stream": stream, "case": case, "model": model, "impl": impl})
        else:
            self.disagreements.append(None)

    def violate(self, stream, clause, case, detail, signature=None):
        self.violations.append({"stream": stream, "clause": clause, "case": case, "detail": detail,
                                "signature": signature or {"clause": clause}})


class Ctx:
    def __init__(self, prop, tier, seed):
        self.prop = prop
        self.tier = tier
        self.seed = seed
        self.rng = random.Random(f"{prop}:{seed}")
        self.thorough = tier == "thorough"
        self.tmp = tempfile.mkdtemp(prefix=f"moto_{prop}_", dir=os.environ.get("TMPDIR") or None)
        self._n = 0
        self._lock = threading.Lock()

    def n(self, quick, thorough):
        return thorough if self.thorough else quick

    def fresh_dir(self):
        with self._lock:  # called from the worker threads of the process-level streams
            self._n += 1
            d = os.path.join(self.tmp, f"d{self._n}")
        os.makedirs(d)
        return d

    def cleanup(self):
        shutil.rmtree(self.tmp, ignore_errors=True)


# ---------------------------------------------------------------------------------------------
# known findings, verdict, evidence
# ---------------------------------------------------------------------------------------------

def load_known():
    p = os.path.join(VERIF, "known_findings.json")
    try:
        return json.load(open(p))
    except FileNotFoundError:
        return []


def matches_known(v, known, prop):
    for k in known:
        if k.get("kind") != "known" or k.get("property") != prop:
            continue
        sig = k.get("signature", {})
        if all(v["signature"].get(key) == val for key, val in sig.items()):
            return k
    return None


def write_replay(prop, kind, payload):
    os.makedirs(os.path.join(VERIF, "replays"), exist_ok=True)
    h = hashlib.sha1(json.dumps(payload, sort_keys=True, default=str).encode()).hexdigest()[:10]
    path = os.path.join("replays", f"{prop}-{kind}-{h}.json")
    with open(os.path.join(VERIF, path), "w") as f:
        json.dump(payload, f, indent=1, default=str)
    return path


def finish(prop, tier, seed, build, res, t0, level_text=""):
    """verdict + evidence; returns the process exit status"""
    known = load_known()
    exit_code = 0
    lines = []
    unlisted = []
    for v in res.violations:
        k = matches_known(v, known, prop)
        if k:
            if k["id"] not in res.known_reproduced:
                res.known_reproduced.append(k["id"])
                lines.append(f"KNOWN-FINDING: property={prop} {k['what']}")
        else:
            unlisted.append(v)
    n_dis = len(res.disagreements)
    if unlisted:
        v = unlisted[0]
        path = write_replay(prop, "oracle", {"property": prop, "kind": "oracle", "seed": seed, "tier": tier,
                                             "violation": v, "others": unlisted[1:10],
                                             "replay_cmd": f"./bin/check {prop} --replay <this file>"})
        lines.append(f"VIOLATION property={prop} replay={path}")
        exit_code = 1
    elif build.proof_break or n_dis:
        payload = {"property": prop, "kind": "proof" if build.proof_break else "correspondence", "seed": seed, "tier": tier,
                   "no_longer_checks": build.broken_items(),
                   "correspondence_disagreements": [d for d in res.disagreements if d][:10],
                   "note": "no input violating the property's oracle was found by this run's search; the property is no longer shown to hold"}
        path = write_replay(prop, "unproved", payload)
        lines.append(f"VIOLATION property={prop} replay={path} no-failing-input-found")
        exit_code = 1
    evaluations = sum(s.evaluations for s in res.streams.values())
    distinct_nontrivial = sum(len(s.nontrivial) for s in res.streams.values())
    obligations = len(build.audit) + len(build.proof_errors)
    discharged = len([t for t, a in build.audit.items() if set(a) <= STD_AXIOMS]) if not build.proof_errors else 0
    ev = {
        "property_id": prop,
        "tier": tier,
        "seed": seed,
        "level": "proof",
        "coverage": {
            "obligations": max(obligations, 1),
            "discharged": discharged,
            "checker_cmd": f"cd lean && lake build MotoModel.Props.{prop} && lake env lean .lake/Audit_{prop}.lean" + (" && lake env leanchecker MotoModel.Props." + prop if tier == "thorough" else ""),
            "trusted_base": TRUSTED_BASE,
            "theorems": {t: a for t, a in sorted(build.audit.items())},
            "proof_errors": build.proof_errors,
            "translator": build.translator,
            "evaluations": evaluations,
            "distinct_nontrivial": distinct_nontrivial,
            "traces_validated_against_impl": sum(s.compared for s in res.streams.values()),
            "rule": res.rule,
            "samples": res.samples or ["(no sample recorded)"],
            "streams": {n: {"evaluations": s.evaluations, "distinct": len(s.hashes), "nontrivial": len(s.nontrivial),
                            "compared_model_vs_impl": s.compared, "unmodelled": s.unmodelled, "exhaustive": s.exhaustive}
                        for n, s in res.streams.items()},
            "exhaustive": bool(res.streams) and all(s.exhaustive for s in res.streams.values()),
            "distribution": res.distribution,
            "correspondence_disagreements": n_dis,
            "implementation_lines_executed_in_process": getattr(res, "code_lines", {"available": False}),
            "known_findings_reproduced": res.known_reproduced,
            "explanation": level_text,
            "notes": res.notes,
            "build": {"lean": build.lean_version, "build_wall_s": round(build.wall, 2)},
        },
        "assumptions": TRUSTED_BASE,
        "wall_s": round(time.time() - t0, 2),
        "violations": len(unlisted) + (1 if (not unlisted and (build.proof_break or n_dis)) else 0),
    }
    os.makedirs(os.path.join(VERIF, "evidence"), exist_ok=True)
    with open(os.path.join(VERIF, "evidence", f"{prop}.json"), "w") as f:
        json.dump(ev, f, indent=1, default=str)
    for l in lines:
        print(l)
    return exit_code
