"""run one moto tool as `python -m <tool>` would, under resource limits, recording every
file-system mutation attempt through an audit hook.
usage: sandbox_run.py <logfile> <cpu_s> <mem_mb> <tool> [args...]"""
import os
import resource
import runpy
import sys

log_path, cpu_s, mem_mb, tool = sys.argv[1], int(sys.argv[2]), int(sys.argv[3]), sys.argv[4]
args = sys.argv[5:]
repo = os.environ.get("MOTO_REPO", "/repo")
sys.path.insert(0, os.path.join(repo, "src"))
sys.dont_write_bytecode = True
log = open(log_path, "a", buffering=1)
WRITE_FLAGS = os.O_WRONLY | os.O_RDWR | os.O_CREAT | os.O_TRUNC | os.O_APPEND


def hook(event, a):
    try:
        if event == "open":
            path, mode, flags = a[0], a[1], a[2]
            if isinstance(path, int):
                return
            w = (isinstance(mode, str) and any(c in mode for c in "wax+")) or (isinstance(flags, int) and flags & WRITE_FLAGS)
            if w and os.fspath(path) != log_path:
                log.write("W\t%s\n" % os.path.abspath(os.fspath(path)))
        elif event in ("os.mkdir", "os.rmdir", "os.remove", "os.truncate", "os.chmod", "os.symlink", "os.link"):
            log.write("M\t%s\t%s\n" % (event, os.path.abspath(os.fspath(a[0]))))
        elif event == "os.rename":
            log.write("M\t%s\t%s\n" % (event, os.path.abspath(os.fspath(a[0]))))
            log.write("M\t%s\t%s\n" % (event, os.path.abspath(os.fspath(a[1]))))
    except Exception:
        pass


def _report_cpu():
    try:
        t = os.times()
        log.write("T\t%.3f\n" % (t.user + t.system))
    except Exception:
        pass


import atexit  # noqa: E402
atexit.register(_report_cpu)
resource.setrlimit(resource.RLIMIT_CPU, (cpu_s, cpu_s + 1))
resource.setrlimit(resource.RLIMIT_AS, (mem_mb << 20, mem_mb << 20))
sys.addaudithook(hook)
sys.argv = [tool] + args
try:
    runpy.run_module(tool, run_name="__main__", alter_sys=True)
except SystemExit:
    raise
except BaseException as e:  # noqa
    # the built-in class the error belongs to (a project-specific subclass of ValueError is a ValueError), for the harness
    for c in type(e).__mro__:
        if c.__module__ == "builtins":
            log.write("X\t%s\n" % c.__name__)
            break
    raise
