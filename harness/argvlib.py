"""command lines of the seven tools against the Lean model of argparse (Model/Argparse.lean): the parser each tool builds
is asked about generated argument lists (`parse_known_args`, in-process) and must answer what the model answers — help, error,
or the same namespace and the same unrecognised strings; then the tool's `run()` is started on the same list in a scratch
directory and must stop with status 2 exactly when the model of `run()`'s own use of the parser says so (C19)."""
import contextlib
import importlib
import io
import itertools
import os
import shutil

from common import cps, uncps, drv, run_cli

ARCH = {"moto_tar": "k7", "moto_sdar": "sd", "moto_fdar": "fd"}
LINE_TOOLS = ["moto_nl", "moto_prettier", "moto_bas2lst", "moto_lst2bas"]


def parser_of(tool):
    if tool == "moto_tar":
        return importlib.import_module("moto_tar.tar").TapeArchiveCli.createArgParser()
    if tool in ("moto_sdar", "moto_fdar"):
        cli = importlib.import_module("moto_lib.fs_disk.cli")
        image = importlib.import_module("moto_lib.fs_disk.image")
        t = image.TypeOfDiskImage.SDDRIVE_FLOPPY_IMAGE if tool == "moto_sdar" else image.TypeOfDiskImage.EMULATOR_FLOPPY_IMAGE
        return cli.DiskArchiveCli(typeOfArchive=t).createArgParser()
    mod = {"moto_nl": "moto_nl.nl", "moto_prettier": "moto_prettier.prettier", "moto_bas2lst": "moto_bas2lst.bas2lst", "moto_lst2bas": "moto_lst2bas.lst2bas"}[tool]
    return importlib.import_module(mod).createArgParser()


def entry_of(tool):
    if tool == "moto_tar":
        return lambda: importlib.import_module("moto_tar.tar").TapeArchiveCli().run()
    if tool in ("moto_sdar", "moto_fdar"):
        cli = importlib.import_module("moto_lib.fs_disk.cli")
        image = importlib.import_module("moto_lib.fs_disk.image")
        t = image.TypeOfDiskImage.SDDRIVE_FLOPPY_IMAGE if tool == "moto_sdar" else image.TypeOfDiskImage.EMULATOR_FLOPPY_IMAGE
        return lambda: cli.DiskArchiveCli(typeOfArchive=t).run()
    mod, cls = {"moto_nl": ("moto_nl.nl", "NumberLineCli"), "moto_prettier": ("moto_prettier.prettier", "PrettierCli"),
                "moto_bas2lst": ("moto_bas2lst.bas2lst", "BasicToListingCli"), "moto_lst2bas": ("moto_lst2bas.lst2bas", "ListingToBasicCli")}[tool]
    return lambda: getattr(importlib.import_module(mod), cls)().run()


def show_val(v):
    if v is None:
        return "N"
    if v is True:
        return "T"
    if v is False:
        return "F"
    if isinstance(v, int):
        return "I" + str(v)
    if isinstance(v, str):
        return "S" + cps(v)
    if isinstance(v, list):
        return "L" + "/".join(("I" + str(x)) if isinstance(x, int) else cps(x) for x in v)
    return "?" + repr(v)


def canon(ans):
    """model answer with the destinations sorted"""
    if not ans.startswith("ok "):
        return ans
    ns, _, extras = ans[3:].partition(" | ")
    return "ok " + ";".join(sorted(ns.split(";"))) + " | " + extras.strip()


def real_known(parser, argv):
    err = io.StringIO()
    out = io.StringIO()
    try:
        with contextlib.redirect_stdout(out), contextlib.redirect_stderr(err):
            ns, extras = parser.parse_known_args(list(argv))
    except SystemExit as e:
        return "help" if e.code in (0, None) else "error"
    items = sorted(f"{cps(k)}={show_val(v)}" for k, v in vars(ns).items())
    return "ok " + ";".join(items) + " | " + "/".join(cps(x) for x in extras)


def alphabet(tool):
    if tool in ARCH:
        ext = ARCH[tool]
        a = ["-c", "-t", "-x", "-v", "--create", "--list", "--extract", "--verbose", "--into", "--into=dest", "dest", f"arc.{ext}", f"new.{ext}", "a.bas", "b.dat",
             "--eos", "--EOS", "--Eos", "--", "-z", "--bogus", "--bogus=1", "-vc", "-cv", "-vt", "-xv", "-vx", "-tx", "-h", "--help", "-vh", "-hz", "--help=1", "--verbose=1",
             "-v=1", "-c=1", "-5", "-", "", "x y", "--in", "--cre", "-ca", "--eos=1", "-eos", "--into=", "--into=--", "-1.5", "-.5", "-5a", "--=", "-=", "=", "-v-"]
        if tool != "moto_tar":
            a += ["-r", "--add", "-rv", "-cr"]
        return a
    if tool == "moto_nl":
        return ["p.lst", "-", "--", "-h", "--help", "-i", "5", "-i5", "-i=5", "-v", "20", "-v20", "-w", "3", "-w3", "--line-increment", "--line-increment=5",
                "--starting-line-number", "--starting-line-number=7", "--number-width", "--number-width=2", "abc", "-5", "+5", "5_0", "1__0", " 7 ", "--dos", "--bogus", "-z", "-iv",
                "-i-5", "-ix", "", "x y", "-i=", "--line", "0", "-0", "_1", "1_", "-w=-3", "--number-width=-1", "-hi"]
    a = ["p.lst", "q.bas,a", "-", "--", "-h", "--help", "--bogus", "-z", "-5", "", "x y", "--help=1", "-hz", "--he", "--dos=1", "-d", "--", "p.lst"]
    if tool == "moto_bas2lst":
        a += ["--dos", "--do", "--dos="]
    return a


def make_world(ctx, tool):
    d = ctx.fresh_dir()
    with open(os.path.join(d, "a.bas"), "wb") as f:
        f.write(b"10 PRINT\r")
    with open(os.path.join(d, "b.dat"), "wb") as f:
        f.write(b"data" * 100)
    with open(os.path.join(d, "p.lst"), "w") as f:
        f.write("10 PRINT \"A\"\nrem x\n")
    with open(os.path.join(d, "q.bas"), "wb") as f:
        f.write(b"\r10 PRINT\r20 END\r")
    if tool in ARCH:
        status, _ = run_cli(entry_of(tool), ["-c", "arc." + ARCH[tool], "a.bas", "b.dat"], cwd=d)
        assert status == "ok0", status
    return d


def argv_stream(ctx, res):
    st = res.stream("argv_model")
    rng = ctx.rng
    tools = list(ARCH) + LINE_TOOLS
    for tool in tools:
        alpha = alphabet(tool)
        parser = parser_of(tool)
        # parser level: every list of at most two strings of the alphabet, and random longer ones
        cases = [()] + [(x,) for x in alpha] + list(itertools.product(alpha, repeat=2))
        for _ in range(ctx.n(1500, 20000)):
            cases.append(tuple(rng.choice(alpha) for _ in range(rng.choice([3, 3, 4, 5, 6, 8]))))
        answers = drv([f"argv.parse {cps(tool)} known " + " ".join(cps(x) for x in argv) for argv in cases])
        kinds = {}
        for argv, ans in zip(cases, answers):
            if ans == "unmodelled":
                st.unmodelled += 1
                continue
            real = real_known(parser, argv)
            st.compared += 1
            k = ans.split(" ")[0]
            kinds[k] = kinds.get(k, 0) + 1
            if canon(ans) != real:
                res.disagree("argv_model", {"tool": tool, "argv": list(argv), "level": "parse_known_args"}, canon(ans), real)
        for k, n in kinds.items():
            res.count(f"argv:{tool}:parser:{k}", n)
        st.see((tool, "parser", len(cases)), nontrivial=True)
        # run level: the tool itself, in a scratch directory holding the files the alphabet names
        runs = [()] + [(x,) for x in alpha]
        pool = list(itertools.product(alpha, repeat=2))
        rng.shuffle(pool)
        runs += pool[:ctx.n(60, 600)] if tool in ARCH else pool[:ctx.n(150, 1500)]
        for _ in range(ctx.n(40, 500)):
            runs.append(tuple(rng.choice(alpha) for _ in range(rng.choice([3, 4, 5, 6]))))
        # mostly valid command lines: the documented forms, decorated, and now and then disturbed by one more string
        for _ in range(ctx.n(60, 600)):
            if tool in ARCH:
                ext = ARCH[tool]
                act = rng.choice(["-c", "--create", "-t", "--list", "-x", "--extract"] + (["-r", "--add"] if tool != "moto_tar" else []))
                arc = "arc." + ext if act[-1] in "tx" or act in ("--list", "--extract", "-r", "--add") or rng.random() < 0.3 else "new." + ext
                srcs = [rng.choice(["a.bas", "b.dat", "--eos", "--EOS"] if tool != "moto_tar" else ["a.bas", "b.dat"]) for _ in range(rng.choice([0, 1, 2, 3]))] if act[-1] in "cr" or act in ("--create", "--add") else []
                deco = rng.choice([[], ["-v"], ["--verbose"], ["--into", "dest"], ["--into=dest"], ["-v", "--into", "dest"]])
                shape = rng.choice(["act_first", "act_last", "deco_first", "dashdash", "clustered"])
                if shape == "act_first":
                    argv = [act] + deco + [arc] + srcs
                elif shape == "act_last":
                    argv = [arc] + srcs + deco + [act]
                elif shape == "deco_first":
                    argv = deco + [act, arc] + srcs
                elif shape == "dashdash":
                    argv = deco + [act, arc, "--"] + srcs
                else:
                    argv = ["-v" + act[1:] if not act.startswith("--") else act, arc] + srcs
            else:
                src = {"moto_nl": "p.lst", "moto_prettier": "p.lst", "moto_bas2lst": "q.bas,a", "moto_lst2bas": "p.lst"}[tool]
                argv = [src] if rng.random() < 0.8 else []
                if tool == "moto_nl":
                    argv = rng.choice([[], ["-i", "5"], ["-i5", "-w", "3"], ["--starting-line-number", "100"], ["-v", "7", "--number-width=4"]]) + argv
                if tool == "moto_bas2lst" and rng.random() < 0.4:
                    argv.insert(rng.randrange(len(argv) + 1), "--dos")
            if rng.random() < 0.4:
                argv.insert(rng.randrange(len(argv) + 1), rng.choice(alpha))
            runs.append(tuple(argv))
        answers = drv([f"argv.parse {cps(tool)} cli " + " ".join(cps(x) for x in argv) for argv in runs])
        known = drv([f"argv.parse {cps(tool)} known " + " ".join(cps(x) for x in argv) for argv in runs])
        world = make_world(ctx, tool)
        entry = entry_of(tool)
        for argv, ans, kn in zip(runs, answers, known):
            if ans == "unmodelled":
                st.unmodelled += 1
                continue
            d = ctx.fresh_dir()
            shutil.rmtree(d)
            shutil.copytree(world, d)
            before = snapshot(d)
            status, out = run_cli(entry, list(argv), cwd=d, stdin_text="10 X\nrem\n")
            after = snapshot(d)
            st.compared += 1
            want = ans.split(" ")[0]
            got = "error" if status == "exit2" else ("help" if status == "exit0" and out.startswith("usage:") else "ok")
            res.count(f"argv:{tool}:run:{want}")
            case = {"tool": tool, "argv": list(argv), "level": "run"}
            if want != got:
                # the disk archivers check the archive's extension after parsing (C19.archive_name_rule, stream archive_names): whether they
                # report a wrong one as an exception or as a usage error (status 2) is not the parser's business
                gate = False
                if tool in ("moto_sdar", "moto_fdar") and want == "ok" and got == "error":
                    m = [x for x in ans[3:].partition(" | ")[0].split(";") if x.startswith(cps("archive") + "=S")]
                    arch = uncps(m[0].split("=S", 1)[1]) if m else ""
                    gate = not arch.lower().endswith("." + ARCH[tool]) or "." not in arch
                if not gate:
                    res.disagree("argv_model", case, want, [status, out[:200]])
            # the property itself: an argument error leaves with a non-zero status and creates or modifies nothing
            # what the property itself calls an argument error, whatever this tree's run() does with the parser's answer: the parser
            # refuses the line (missing action, two actions, missing archive, a value that is no number, …), or a string is left over
            # that starts with '-' — an unknown option; the disk archivers document `--eos` between their sources
            if kn == "error":
                must_refuse = True
            elif kn.startswith("ok "):
                extras = [uncps(x) for x in kn.partition(" | ")[2].strip().split("/") if x != ""]
                must_refuse = any(e.startswith("-") and not (tool in ("moto_sdar", "moto_fdar") and e.upper() == "--EOS") for e in extras)
            else:
                must_refuse = False
            want = "error" if must_refuse else ("help" if kn == "help" else "ok")
            if want in ("error", "help") and after != before:
                res.violate("argv_model", "a command line that is refused (or only asks for help) created or modified a file", case,
                            {"changed": sorted(k for k in set(before) | set(after) if ((k in before) != (k in after) or before.get(k) != after.get(k)))[:6]}, {"clause": "refused_no_effect"})
            if want == "error" and status in ("ok0", "exit0"):
                res.violate("argv_model", "an argument error is accepted with status 0", case, {"status": status, "out": out[:200]}, {"clause": "argument_error_status"})
        st.see((tool, "run", len(runs)), nontrivial=True)


def snapshot(d):
    out = {}
    for root, dirs, files in os.walk(d):
        for x in dirs:
            out[os.path.relpath(os.path.join(root, x), d) + "/"] = None
        for x in files:
            p = os.path.join(root, x)
            out[os.path.relpath(p, d)] = open(p, "rb").read()
    return out
