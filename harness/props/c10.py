"""C10 — disk side placement (--eos, overflow to next side) matches report and image."""
import disklib as D
import diskcase as K
import diskengine as E

LEVEL_TEXT = ("Lean theorems (Props/C10.lean) about the injector state machine of the model (cursor monotone, a file stored at most "
              "once, image always saved); tie/oracle: interleavings of files and --eos on fresh and partially filled images, the "
              "report sections and the decoded image compared with an independent replay of the placement rule.")

CL = {"placement", "report_sections", "fsck", "stored_match"}


def run(ctx, res):
    res.rule = ("interleavings of files (0 bytes .. larger than a side, batches longer than a catalog) and --eos markers on fresh and "
                "partially filled images, both flavours; non-trivial = offers a file; distinct by (pre-image history, batch)")
    rng = ctx.rng
    sc = K.Scenario(ctx, "fd")
    raw = E.run_step(ctx, res, "fixed", sc, "create", False,
                     [("file", "a.dat", b"a" * 100), ("eos",), ("file", "big.dat", b"b" * 330000), ("file", "after.dat", b"c")], None, CL, {"flavour": "fd"})
    res.sample({"items": [("a.dat", 100), ("eos",), ("big.dat", 330000), ("after.dat", 1)]})
    sc = K.Scenario(ctx, "sd")
    raw = E.run_step(ctx, res, "fixed", sc, "create", True, [("eos",)] * 4 + [("file", "late.dat", b"x")], None, CL, {"flavour": "sd"})
    sc = K.Scenario(ctx, "fd")
    raw = E.run_step(ctx, res, "fixed", sc, "create", True,
                     [("file", "f0.dat", b"0" * (2040 * 157)), ("file", "f1.dat", b"1" * (2040 * 157)), ("file", "f2.dat", b"2" * (2040 * 157)),
                      ("file", "f3.dat", b"3" * (2040 * 157)), ("file", "f4.dat", b"4")], None, CL, {"flavour": "fd"})
    for i in range(ctx.n(22, 400)):
        fl = rng.choice(["fd", "fd", "sd"])
        sc = K.Scenario(ctx, fl)
        used = set()
        raw = None
        if rng.random() < 0.5:
            raw = E.run_step(ctx, res, "prefill", sc, "create", False, E.gen_items(rng, used, shape=rng.choice(["few", "big", "eos_mix", "many"])), None, CL, {"flavour": fl})
            if raw is None:
                continue
            E.run_step(ctx, res, "random", sc, "add", rng.random() < 0.5, E.gen_items(rng, used), raw, CL, {"flavour": fl, "prefilled": True})
        else:
            items = E.gen_items(rng, used, shape=rng.choice(["eos_mix", "big", "overflow", "many", "few"]))
            E.run_step(ctx, res, "random", sc, "create", rng.random() < 0.5, items, None, CL, {"flavour": fl, "prefilled": False})
            if i < 2:
                res.sample({"items": [("eos",) if it[0] == "eos" else (it[1], len(it[2]) if it[0] == "file" else "missing") for it in items][:8]})
