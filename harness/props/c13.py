"""C13 — tokenized BASIC output is a well-formed MO5 program with the right token codes."""
from common import drv
import baslib as B

LEVEL_TEXT = ("Lean theorems (Props/C13.lean): the tool's token table equals the pinned MO5 table, codes are >= 0x80 and injective, "
              "every keyword typed alone yields its token (finite check over the whole table), the record/link/length structure of "
              "convert; tie/oracle: listings over the whole keyword vocabulary through the real moto_lst2bas vs the compiled model, "
              "parsed by the Lean structure decoder and compared with the Lean reference encoder on delimited lines.")

# " =", ":-", "(+", ",<": an operator met with nothing pending stays pending in front of the next word
SEPS = [" ", ":", ",", "(", ")", ".", "=", "+", "-", "*", "/", "<", ">", "^", "  ", " : ", " =", ":-", "(+", ",<", "=-"]
IDENTS = ["A", "B1", "X$", "ZZ", "K9", "Q", "YY$", "W2", "H", "J7", "C%", "V"]


def gen_line(rng, kws, n):
    parts = []
    for _ in range(rng.choice([1, 2, 3, 5, 8])):
        r = rng.random()
        if r < 0.45:
            k = rng.choice(kws)
            parts.append(k if rng.random() < 0.6 else k.lower() if rng.random() < 0.7 else k.capitalize())
        elif r < 0.65:
            parts.append(rng.choice(IDENTS).lower() if rng.random() < 0.3 else rng.choice(IDENTS))
        elif r < 0.8:
            parts.append(str(rng.choice([0, 1, 10, 255, 1000, 65535, 3.5])))
        else:
            lit = rng.choice(['"hello"', '"print goto"', '""', '"a:b,c"', '"lower UPPER"', '"(x)"'])
            parts.append(lit)
        parts.append(rng.choice(SEPS))
    if rng.random() < 0.15:
        parts.append('"unterminated for next')
    if rng.random() < 0.3:
        parts.pop()                     # the line ends with its last word (keyword, identifier, number or literal)
    body = "".join(parts).rstrip("\n")
    sp = rng.choice([" ", " ", "", "  "])
    return f"{n}{sp}{body}"


def run(ctx, res):
    res.rule = ("numbered ASCII listings generated from the full keyword vocabulary (every keyword at least 3 times), identifiers that "
                "contain no keyword, numbers, string literals (unterminated, containing keywords), any spacing, line numbers 1..65535, "
                "0..n lines; non-trivial = holds a keyword; distinct by text")
    rng = ctx.rng
    kws = [k for k in B.keywords() if len(k) > 1]
    st = res.stream("vocabulary")
    CL = {"structure", "reference"}
    # every keyword alone, delimited by each separator kind
    texts = []
    n = 1
    for k in kws:
        for pre, post in ((" ", ""), (":", ":"), ("(", ")"), (" ", " 1"), ("=", ","), ("", " "),
                          (" =", ""), (":+", '"x"'), (" -", " "), ("(<", "="), ("=-", ""), ('"s"+', "")):
            texts.append(f"{n} A{pre}{k}{post}\n" if pre.strip() or pre == " " else f"{n} {k}{post}\n")
            n = n % 65000 + 7
    for i in range(0, len(texts), 40):
        text = "".join(texts[i:i + 40])
        status, bas = B.lst2bas(ctx, text)
        case = {"text": text if len(text) < 400 else text[:400] + "..."}
        st.see(text, nontrivial=True)
        B.check_program(res, "vocabulary", st, case, text, status, bas, CL)
    res.sample({"text": texts[0] + texts[1]})
    st = res.stream("random_listings")
    for i in range(ctx.n(250, 5000)):
        nl = rng.choice([0, 1, 2, 5, 12])
        nums = sorted(rng.sample(range(1, 65536), nl))
        text = "".join(gen_line(rng, kws, n) + "\n" for n in nums)
        if nl and rng.random() < 0.2:
            text = text[:-1]
        status, bas = B.lst2bas(ctx, text)
        case = {"text": text}
        st.see(text, nontrivial=nl > 0)
        B.check_program(res, "random_listings", st, case, text, status, bas, CL)
        if i == 3:
            res.sample({"text": text})
    # structure only: long programs and big line numbers
    st = res.stream("structure")
    for size in (0, 1, 300):
        text = "".join(f"{10 * (i + 1)} PRINT \"{i}\"\n" for i in range(size))
        status, bas = B.lst2bas(ctx, text)
        st.see(text, nontrivial=size > 0)
        B.check_program(res, "structure", st, {"lines": size}, text, status, bas, {"structure"})
