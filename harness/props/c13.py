"""C13 — tokenized BASIC output is a well-formed MO5 program with the right token codes."""
import glob
import os
import shutil

from common import drv, hx, uncps, REPO
import baslib as B

LEVEL_TEXT = ("Lean theorems (Props/C13.lean): the tool's token table equals the pinned MO5 table, codes are >= 0x80 and injective, "
              "every keyword typed alone yields its token (finite check over the whole table), the record/link/length structure of "
              "convert; tie/oracle: listings over the whole keyword vocabulary through the real moto_lst2bas vs the compiled model, "
              "parsed by the Lean structure decoder and compared with the Lean reference encoder on delimited lines.")

# " =", ":-", "(+", ",<": an operator met with nothing pending stays pending in front of the next word
SEPS = [" ", ":", ",", "(", ")", ".", "=", "+", "-", "*", "/", "<", ">", "^", "  ", " : ", " =", ":-", "(+", ",<", "=-", ";", "; ", ";-"]
IDENTS = ["A", "B1", "X$", "ZZ", "K9", "Q", "YY$", "W2", "H", "J7", "C%", "V"]


def gen_line(rng, kws, n):
    parts = []
    for _ in range(rng.choice([1, 2, 3, 5, 8]) if rng.random() < 0.96 else rng.choice([40, 70, 120])):    # now and then a very long line (DATA, PRINT lists): records beyond 255 bytes
        r = rng.random()
        if r < 0.45:
            k = rng.choice(kws)
            parts.append(k if rng.random() < 0.6 else k.lower() if rng.random() < 0.7 else k.capitalize())
        elif r < 0.65:
            parts.append(rng.choice(IDENTS).lower() if rng.random() < 0.3 else rng.choice(IDENTS))
        elif r < 0.8:
            parts.append(str(rng.choice([0, 1, 10, 255, 1000, 65535, 3.5])))
        else:
            lit = rng.choice(['"hello"', '"print goto"', '""', '"a:b,c"', '"lower UPPER"', '"(x)"'])
            parts.append(lit)
        parts.append(rng.choice(SEPS))
    if rng.random() < 0.15:
        parts.append('"unterminated for next')
    if rng.random() < 0.3:
        parts.pop()                     # the line ends with its last word (keyword, identifier, number or literal)
    body = "".join(parts).rstrip("\n")
    sp = rng.choice([" ", " ", "", "  "])
    return f"{n}{sp}{body}"


def real_programs(ctx, res):
    """the tokenized programs saved by a real MO5 that the repository bundles (tests/data/*.BAS, the files of the sample disk
    and of the sample tape): every token code they use is in the table, and every line without a comment or DATA statement,
    decoded to text by the Lean decoder, is tokenized by the tool to the very bytes the machine wrote"""
    import disklib as D
    import tapelib as T
    st = res.stream("real_programs")
    w = ctx.fresh_dir()
    data = os.path.join(REPO, "tests", "data")
    files = sorted(glob.glob(os.path.join(data, "*.BAS")))
    fd = os.path.join(data, "10_lsystem_mo5__2023-10-14.fd")
    k7 = os.path.join(data, "sporny-basic.k7")
    if os.path.exists(fd):
        shutil.copy(fd, os.path.join(w, "d.fd"))
        D.dar("fd", ["-x", "--into", "out", "d.fd"], cwd=w)
        files += sorted(glob.glob(os.path.join(w, "out", "side*", "*")))
    if os.path.exists(k7):
        shutil.copy(k7, os.path.join(w, "t.k7"))
        T.tar(["-x", "--into", "outk", "t.k7"], cwd=w)
        files += sorted(glob.glob(os.path.join(w, "outk", "*")))
    seen = set()
    for f in files:
        b = open(f, "rb").read()
        if not b or b[0] != 0xFF or b in seen:
            continue
        seen.add(b)
        # lenient reading of the records (a saved program keeps the links of the address it was saved from), re-linked from
        # the MO5 base so that the strict structure decoder reads it
        recs0 = []
        i = 3
        while i + 4 <= len(b) and (b[i] or b[i + 1]):
            j = i + 4
            while j < len(b) and b[j] != 0:
                j += 1
            recs0.append((b[i + 2] * 256 + b[i + 3], b[i + 4:j]))
            i = j + 1
        body = bytearray()
        addr = 0x25A4
        for num, t in recs0:
            addr += 4 + len(t) + 1
            body += bytes([addr // 256, addr % 256, num // 256, num % 256]) + t + b"\0"
        body += b"\0\0"
        prog = drv([f"bas.program {hx(bytes([0xFF, len(body) // 256, len(body) % 256]) + bytes(body))}"])[0]
        name = os.path.basename(f)
        case = {"program": name, "records": len(recs0)}
        st.see((name, len(b)), nontrivial=len(recs0) > 0)
        if prog in ("bad", ""):
            res.violate("real_programs", "a program saved by a real MO5 is not decoded (a token code outside the table?)", case, b[:40].hex(), {"clause": "real_program_decodes"})
            continue
        recs = [r.split(":") for r in prog.split(";")]
        text = "".join(f"{r[0]} {uncps(r[2])}\n" for r in recs)
        status, bas = B.lst2bas(ctx, text)
        prog2 = drv([f"bas.program {hx(bas)}"])[0] if (status == "ok0" and bas) else "bad"
        if prog2 in ("bad", ""):
            res.violate("real_programs", "the decoded text of a real program is not converted", case, status, {"clause": "real_program_roundtrip"})
            continue
        recs2 = [r.split(":") for r in prog2.split(";")]
        st.compared += 1
        for r, r2 in zip(recs, recs2):
            t = bytes.fromhex(r[1]) if all(ch in '0123456789abcdefABCDEF' for ch in r[1]) else b""
            if 0x8D in t or 0x8C in t or 0x83 in t:      # comment (the machine keeps it raw, the tool tokenizes it: S5) or DATA
                res.count("real_lines_with_comment_or_data")
                continue
            res.count("real_lines_compared")
            if r[1] != r2[1]:
                res.violate("real_programs", "a line of a real MO5 program, decoded and tokenized again, gives other bytes than the machine wrote",
                            dict(case, line=f"{r[0]} {uncps(r[2])}"[:200]), {"machine": r[1][:160], "tool": r2[1][:160]}, {"clause": "real_program_roundtrip"})
                break
        if len(recs) != len(recs2):
            res.violate("real_programs", "record count changed", case, [len(recs), len(recs2)], {"clause": "real_program_roundtrip"})


# past failures (F24, F25): words the table misspelled or lacked; the reference (pinned MO5 table) decides
REGRESSIONS = ["10 A=ABS(B):C=SQR(2)\n20 DEF FNA(X)=X*2\n30 DSKINI 0\n40 PRINT FNA(3);ABS(-1);SQR(4)\n",
               "10 LET A=1\n20 DEFDBL D:DEFSTR S\n30 X=CVD(A$):B$=MKD$(X)\n40 LET B=CVD(MKD$(1))\n",
               '10 PRINT "A";CHR$(65);TAB(10);B\n20 IF X THEN PRINT "Y";ELSE PRINT "N";\n30 INPUT "N";A:PRINT;:PRINT A;SPC(2);STR$(A)\n']


def run(ctx, res):
    st0 = res.stream("regressions")
    for text in REGRESSIONS:
        status, bas = B.lst2bas(ctx, text)
        st0.see(text, nontrivial=True)
        B.check_program(res, "regressions", st0, {"text": text}, text, status, bas, {"structure", "reference"})
    real_programs(ctx, res)
    B.conv_cli_stream(ctx, res, ctx.n(60, 800))
    res.rule = ("numbered ASCII listings generated from the full keyword vocabulary (every keyword at least 3 times), identifiers that "
                "contain no keyword, numbers, string literals (unterminated, containing keywords), any spacing, line numbers 1..65535, "
                "0..n lines; non-trivial = holds a keyword; distinct by text")
    rng = ctx.rng
    # the vocabulary is the tool's table together with the words of the pinned MO5 table that the tool's table once misspelled
    # or lacked (F24, F25): a table that loses one of them again is still asked about it
    kws = sorted({k for k in B.keywords() if len(k) > 1} | {"ABS", "SQR", "FN", "DSKINI", "LET", "DEFDBL", "CVD", "MKD$"})
    st = res.stream("vocabulary")
    CL = {"structure", "reference"}
    # every keyword alone, delimited by each separator kind
    texts = []
    n = 1
    for k in kws:
        for pre, post in ((" ", ""), (":", ":"), ("(", ")"), (" ", " 1"), ("=", ","), ("", " "),
                          (" =", ""), (":+", '"x"'), (" -", " "), ("(<", "="), ("=-", ""), ('"s"+', ""),
                          (";", ""), (";", ";"), ('"s";', '"t"'), (";-", ";")):
            texts.append(f"{n} A{pre}{k}{post}\n" if pre.strip() or pre == " " else f"{n} {k}{post}\n")
            n = n % 65000 + 7
    for i in range(0, len(texts), 40):
        text = "".join(texts[i:i + 40])
        status, bas = B.lst2bas(ctx, text)
        case = {"text": text if len(text) < 400 else text[:400] + "..."}
        st.see(text, nontrivial=True)
        B.check_program(res, "vocabulary", st, case, text, status, bas, CL)
    res.sample({"text": texts[0] + texts[1]})
    st = res.stream("random_listings")
    for i in range(ctx.n(250, 5000)):
        nl = rng.choice([0, 1, 2, 5, 12])
        nums = sorted(rng.sample(range(1, 65536), nl))
        eol = rng.choice(["\n", "\n", "\n", "\r\n", "\r"])          # listings written by other systems (and by moto_bas2lst --dos)
        text = "".join(gen_line(rng, kws, n) + eol for n in nums)
        if nl and rng.random() < 0.2:
            text = text[:-len(eol)]
        status, bas = B.lst2bas(ctx, text)
        case = {"text": text}
        st.see(text, nontrivial=nl > 0)
        B.check_program(res, "random_listings", st, case, text, status, bas, CL)
        if i == 3:
            res.sample({"text": text})
    # structure only: long programs and big line numbers
    st = res.stream("structure")
    # 2500 and 4300 lines: images of about 32 and 55 KB, link pointers beyond 0x8000 and up to the top of the 16-bit address space
    # (0x25A4 + 55 KB is just below 0xFFFF; a larger program has no 16-bit links)
    for size in (0, 1, 300, 2500, 4300):
        text = "".join(f"{10 * (i + 1)} PRINT \"{i}\"\n" for i in range(size))
        status, bas = B.lst2bas(ctx, text)
        st.see(text, nontrivial=size > 0)
        B.check_program(res, "structure", st, {"lines": size}, text, status, bas, {"structure"})


def fuzz_oracle(ctx, res, data):
    """the property's oracles on an input found by the coverage-guided search (tools/fuzz_diff.py, target tokenize)"""
    text = "".join(chr(b & 0x7F) for b in data)
    if "\x00" in text:
        return
    st = res.stream("fuzz_tokenize")
    status, bas = B.lst2bas(ctx, text)
    B.check_program(res, "fuzz_tokenize", st, {"text": text}, text, status, bas, {"structure", "reference"})

