"""C16 — moto_nl numbers exactly the unnumbered lines, consistently with their neighbours."""
import itertools
import os

from common import cps, uncps, drv, run_cli

LEVEL_TEXT = ("Lean theorems (Props/C16.lean): the model of NumberLineCli equals the property's specification for every "
              "text and configuration (run_eq_spec), one output line per input line, numbered lines verbatim, "
              "idempotence for positive start/increment under any second configuration; tie by differential CLI runs.")

LINE_SHAPES = ["", " ", "PRINT A", " leading blank", "10 PRINT", "7", "0 zero first", "05 X", "123456789012345678901 big", "1", "\t tab", "9x", "rem 20",
               # characters that str.splitlines() treats as line ends but text-mode reading does not
               "' ---- page \x0c ----", "A\x0bB", "12 x\x1cy", "n\x85m", "u\u2028v", "\x1d", "3\x1e", "p\u2029",
               # digits that are not ASCII digits: not part of a line number (Python's \\d and int() would take them)
               "5\uff10 REM", "1\u0663", "\u0663 x", "2\u00b2", "7\u0967 y"]


def model_out(ans):
    return "" if ans == "" else "".join(uncps(x) + "\n" for x in ans.split(";"))


def one_case(ctx, res, stream, cfg, texts, use_stdin=False, check_idem=True, as_filter=False, dash=None):
    from moto_nl.nl import NumberLineCli
    start, incr, width = cfg
    st = res.stream(stream)
    d = ctx.fresh_dir()
    # the options in their short or long spelling
    argv = ["-v", str(start), "-i", str(incr), "-w", str(width)] if (start + incr) % 2 else ["--starting-line-number", str(start), "--line-increment", str(incr), "--number-width", str(width)]
    if as_filter:
        # no file argument at all: the tool is a filter of its standard input
        texts = texts[:1]
        use_stdin = True
    # standard input is named by "-" at any place among the files (its lines are numbered where it stands)
    dash_at = (dash if dash is not None else len(texts) - 1 if (start + width) % 3 else (start + incr + width) % len(texts)) if use_stdin and not as_filter else None
    for k, t in enumerate(texts):
        if as_filter:
            break
        if use_stdin and k == dash_at:
            argv.append("-")
        else:
            p = os.path.join(d, f"f{k}.lst")
            with open(p, "w", newline="") as f:
                f.write(t)
            argv.append(p)
    stdin_text = None
    stdin_at = None
    if use_stdin:
        # standard input is handed over as it is: on POSIX Python does not translate its newlines (only LF ends a line there, a CR is
        # an ordinary character) — the model knows which source is standard input
        stdin_at = (len(texts) - 1) if as_filter else dash_at
        stdin_text = texts[stdin_at]
    status, out = run_cli(NumberLineCli().run, argv, stdin_text=stdin_text)
    req = " ".join(("1 " if k == stdin_at else "0 ") + cps(t) for k, t in enumerate(texts))
    m, s = drv([f"nl2 {start} {incr} {width} {req}", f"spec.nl2 {start} {incr} {width} {req}"])
    mo, so = model_out(m), model_out(s)
    case = {"start": start, "incr": incr, "width": width, "texts": texts, "stdin": use_stdin, "filter": as_filter}
    nontrivial = any(l[:1].isdigit() for t in texts for l in t.splitlines()) and any(not l[:1].isdigit() for t in texts for l in t.splitlines())
    st.see(case, nontrivial=nontrivial)
    st.compared += 1
    res.count(f"files={len(texts)}")
    res.count("stdin" if use_stdin else "files_only")
    if status != "ok0" or out != mo:
        res.disagree(stream, case, mo, [status, out])
    if status != "ok0":
        res.violate(stream, "tool failed on a valid text", case, status, {"clause": "status"})
        return
    if out != so:
        res.violate(stream, "output differs from the numbering rule", case, {"impl": out, "spec": so}, {"clause": "numbering"})
        return
    if check_idem and out:
        # renumbering an already numbered output changes nothing, whatever the second configuration
        p = os.path.join(d, "again.lst")
        with open(p, "w", newline="") as f:
            f.write(out)
        cfg2 = (ctx.rng.choice([1, 5, 10, 77]), ctx.rng.choice([1, 3, 10]), ctx.rng.choice([0, 3, 9]))
        if use_stdin and "\r" in out:
            # a CR that came through standard input is an ordinary character of its line (S4: the two Python streams treat CR differently);
            # the numbered output is given back the way the text came, so that its lines are the same lines
            status2, out2 = run_cli(NumberLineCli().run, ["-v", str(cfg2[0]), "-i", str(cfg2[1]), "-w", str(cfg2[2])], stdin_text=out)
        else:
            status2, out2 = run_cli(NumberLineCli().run, ["-v", str(cfg2[0]), "-i", str(cfg2[1]), "-w", str(cfg2[2]), p])
        if status2 != "ok0" or out2 != out:
            res.violate(stream, "renumbering a numbered output changed it", case, {"once": out, "twice": out2, "cfg2": cfg2}, {"clause": "idempotent"})
    if len(texts) > 1 and not use_stdin and all(t == "" or t.endswith("\n") for t in texts[:-1]):
        p = os.path.join(d, "concat.lst")
        with open(p, "w", newline="") as f:
            f.write("".join(texts))
        status3, out3 = run_cli(NumberLineCli().run, ["-v", str(start), "-i", str(incr), "-w", str(width), p])
        if out3 != out:
            res.violate(stream, "several files differ from their concatenation", case, {"files": out, "concat": out3}, {"clause": "concatenation"})


def gen_text(rng):
    n = rng.choice([0, 1, 2, 3, 5, 9])
    lines = []
    for _ in range(n):
        r = rng.random()
        if r < 0.5:
            lines.append(rng.choice(LINE_SHAPES))
        else:
            k = rng.choice([1, 2, 5, 12])
            lines.append("".join(rng.choice("0123456789 AbZ\t:\"\x0c\x0b\x1d\x85\u2028") for _ in range(k)))
    eol = rng.choice(["\n", "\n", "\n", "\r\n", "\r"])
    t = eol.join(lines)
    if lines and rng.random() < 0.75:
        t += eol
    return t


def run(ctx, res):
    res.rule = ("texts made of numbered / unnumbered / blank / digit-only / zero-leading lines with LF, CRLF or CR endings, "
                "1..4 files and stdin, start/increment in 1..10^4, width 0..12; non-trivial = holds both a numbered and an "
                "unnumbered line; distinct by (configuration, texts)")
    fixed = [((10, 10, 0), ["A\n20 B\nC\n"]), ((1, 1, 5), ["x\n\n9\n0 a\n"]), ((10000, 10000, 12), ["a\nb"]),
             ((10, 10, 0), ["a\n", "5 b\n", "c\n"]), ((3, 7, 2), [""]), ((10, 10, 3), ["100\nq\n"])]
    for cfg, texts in fixed:
        one_case(ctx, res, "fixed", cfg, texts)
        one_case(ctx, res, "fixed", cfg, texts, as_filter=True)
    for dash in (0, 1, 2):
        one_case(ctx, res, "fixed", (10, 10, 0), ["first\n", "25 second\n", "third"], use_stdin=True, dash=dash)
    one_case(ctx, res, "fixed", (10, 5, 0), ["a\x0cb\nu\u2028v\n5\uff10 REM\nnext\n n\x85m \n"], as_filter=True)
    res.sample({"cfg": fixed[0][0], "texts": fixed[0][1]})
    for i in range(ctx.n(600, 5000)):
        cfg = (ctx.rng.choice([1, 2, 10, 100, 999, 10000, ctx.rng.randint(1, 10000)]),
               ctx.rng.choice([1, 5, 10, 10000, ctx.rng.randint(1, 10000)]),
               ctx.rng.choice([0, 1, 2, 3, 4, 5, 8, 12]))
        texts = [gen_text(ctx.rng) for _ in range(ctx.rng.choice([1, 1, 1, 2, 3, 4]))]
        r = ctx.rng.random()
        one_case(ctx, res, "random", cfg, texts, use_stdin=r < 0.25, as_filter=0.25 <= r < 0.4)
        if i == 3:
            res.sample({"cfg": cfg, "texts": texts})
    # a real process fed through a pipe: CR LF and lone CR on standard input are not translated (checked against the model of stdin sources)
    import subprocess
    import proc as P
    from common import PY
    raw = "a\r\nb\rc\n7 d\r\ne\r\n"
    for argv in ([], ["-"]):
        pr = subprocess.run([PY, "-B", "-m", "moto_nl"] + argv, input=raw.encode(), capture_output=True, env=P.env(), timeout=300)
        want = model_out(drv([f"nl2 10 10 0 1 {cps(raw)}"])[0])
        stp = res.stream("process_stdin")
        stp.see(("nl", tuple(argv)), nontrivial=True)
        stp.compared += 1
        if pr.returncode != 0 or pr.stdout.decode() != want:
            res.disagree("process_stdin", {"tool": "moto_nl", "argv": argv, "stdin": raw}, want, [pr.returncode, pr.stdout.decode()])
    # big files: thousands of lines, tens of kilobytes (a reader with a size limit or a buffer would drop or cut lines)
    for nlines, cfg in ((1000, (10, 10, 0)), (2500, (1, 1, 5)), (6000, (100, 5, 0))) if not ctx.thorough else ((1000, (10, 10, 0)), (2500, (1, 1, 5)), (6000, (100, 5, 0)), (40000, (1, 1, 0))):
        big = "".join(("%d REM already numbered %d\n" % (7 * k, k)) if k % 5 == 0 else ("PRINT \"LINE %d\";X%d:GOTO %d\n" % (k, k % 97, k)) for k in range(1, nlines + 1))
        one_case(ctx, res, "big_files", cfg, [big], check_idem=False)
        one_case(ctx, res, "big_files", cfg, ["A\n", big, "Z\n"], use_stdin=(nlines == 2500), check_idem=False)
    # exhaustive small scope: all k-line texts over 6 line shapes x configurations
    K = 4 if ctx.thorough else 3
    shapes = ["", "A", "10 B", "7", "0 C", " 5"]
    cfgs = list(itertools.product([1, 10, 95], [1, 10, 100], [0, 2, 5])) if ctx.thorough else [(10, 10, 0), (1, 1, 4), (95, 100, 2)]
    st = res.stream(f"exhaustive_{K}_lines", exhaustive=True)
    for lines in itertools.product(shapes, repeat=K):
        text = "".join(l + "\n" for l in lines)
        for cfg in cfgs:
            one_case(ctx, res, st.name, cfg, [text], check_idem=(cfg == cfgs[0]))
