"""C17 — moto_prettier upper-cases code and never touches string literals."""
import itertools
import os

from common import cps, uncps, drv, run_cli

LEVEL_TEXT = ("Lean theorems (Props/C17.lean): the model of PrettierCli.processLine equals the character automaton "
              "of the property for every line (prettier_eq_spec), with length/positions/literal-verbatim/idempotence "
              "corollaries; the model is tied to prettier.py by differential runs of processLine and of the CLI "
              "(files, stdin), the automaton itself being evaluated by the driver on the real tool's output.")

ALPHA = 'abzABZ019 \t,;:()=+-$%\'"""'


def impl_lines(lines):
    """the tool on each line (given with its final newline), through its command line only (`run()` as a filter of standard input,
    the way `moto_prettier < file` works): no private method of the implementation is called, so that a refactoring of its
    internals cannot disturb the check; lines are sent in batches, and one by one when a batch does not come back line for line"""
    from moto_prettier.prettier import PrettierCli

    def through_cli(chunk):
        status, out = run_cli(PrettierCli().run, [], stdin_text="".join(chunk))
        if status != "ok0":
            return None
        got = out.split("\n")
        if got and got[-1] == "":
            got.pop()
        return [g + "\n" for g in got]

    out = []
    for i in range(0, len(lines), 2000):
        chunk = lines[i:i + 2000]
        got = through_cli(chunk)
        if got is not None and len(got) == len(chunk):
            out += got
            continue
        for l in chunk:
            g = through_cli([l])
            out.append("EXC:failed" if g is None else "".join(g))
    return out


def check_lines(res, stream, lines):
    """lines: list of str without newline, ASCII"""
    st = res.stream(stream)
    impl = impl_lines([l + "\n" for l in lines])
    model = drv([f"prettier {cps(l + chr(10))}" for l in lines])
    spec = drv([f"spec.upper {cps(l)}" for l in lines])
    impl2 = impl_lines([i if i.endswith("\n") else i + "\n" for i in impl])
    for l, i, m, s, i2 in zip(lines, impl, model, spec, impl2):
        st.see(l, nontrivial=('"' in l and any(c.isalpha() for c in l)))
        st.compared += 1
        res.count("quotes=%d" % min(l.count('"'), 7))
        mo = uncps(m) + "\n"
        so = uncps(s) + "\n"
        if i != mo:
            res.disagree(stream, {"line": l}, mo, i)
        if i != so:
            res.violate(stream, "output differs from the quote automaton", {"line": l},
                        {"impl": i, "spec": so}, {"clause": "automaton"})
        elif i2 != i:
            res.violate(stream, "not idempotent", {"line": l}, {"once": i, "twice": i2}, {"clause": "idempotent"})


def cli_case(ctx, res, texts, use_stdin, as_filter=False, dash=None):
    """files and stdin through PrettierCli.run; line count/order and content"""
    from moto_prettier.prettier import PrettierCli
    st = res.stream("cli")
    d = ctx.fresh_dir()
    argv = []
    if as_filter:
        texts = texts[:1]       # no file argument at all: a filter of standard input
        use_stdin = True
    # standard input is named by "-" at any place among the files (its lines come out where it stands)
    dash_at = (dash if dash is not None else len(texts) - 1 if len(texts[0]) % 3 else len(texts[0]) % len(texts)) if use_stdin and not as_filter else None
    for k, t in enumerate(texts):
        if as_filter:
            break
        if use_stdin and k == dash_at:
            argv.append("-")
        else:
            p = os.path.join(d, f"f{k}.txt")
            with open(p, "w", newline="") as f:
                f.write(t)
            argv.append(p)
    # standard input is handed over as it is: on POSIX Python does not translate its newlines (only LF ends a line there)
    stdin_at = (0 if as_filter else dash_at) if use_stdin else None
    stdin_text = texts[stdin_at] if use_stdin else None
    status, out = run_cli(PrettierCli().run, argv, stdin_text=stdin_text)
    texts_in_order = texts
    model = drv(["prettier2 " + " ".join(("1 " if k == stdin_at else "0 ") + cps(t) for k, t in enumerate(texts_in_order))])[0]
    mo = "".join(uncps(x) + "\n" for x in model.split(";")) if model != "" else ""
    st.see((tuple(texts), use_stdin))
    st.compared += 1
    res.count("cli_files=%d" % len(texts))
    if status != "ok0" or out != mo:
        res.disagree("cli", {"texts": texts, "stdin": use_stdin}, mo, [status, out])
    def lines_of(k, t):
        u = (t if k == stdin_at else t.replace("\r\n", "\n").replace("\r", "\n")).split("\n")
        if u and u[-1] == "":
            u.pop()
        return u
    n_in = sum(len(lines_of(k, t)) for k, t in enumerate(texts))
    # the property itself on what the tool printed: every input line through the character automaton of the specification
    in_lines = []
    for k, t in enumerate(texts_in_order):
        u = (t if k == stdin_at else t.replace("\r\n", "\n").replace("\r", "\n")).split("\n")
        if u and u[-1] == "":
            u.pop()
        in_lines += u
    if status == "ok0" and in_lines and out.count("\n") == n_in:
        want = "".join(uncps(x) + "\n" for x in drv([f"spec.upper {cps(l)}" for l in in_lines]))
        if out != want:
            k = next((j for j, (a, b) in enumerate(zip(out.split("\n"), want.split("\n"))) if a != b), 0)
            res.violate("cli", "output differs from the quote automaton", {"texts": texts, "stdin": use_stdin, "filter": as_filter},
                        {"line": in_lines[min(k, len(in_lines) - 1)], "impl": out.split("\n")[k], "spec": want.split("\n")[k]}, {"clause": "automaton_cli"})
    if status == "ok0" and out.count("\n") != n_in:
        res.violate("cli", "number of lines changed", {"texts": texts, "stdin": use_stdin},
                    {"in": n_in, "out": out.count("\n")}, {"clause": "line_count"})


def run(ctx, res):
    res.rule = ("lines over letters of both cases, digits, blanks, punctuation and double quotes; a case is "
                "non-trivial when it holds at least one quote and one letter; distinct by the line text")
    fixed = ['x"""y z', 'a"b', '""', '"', 'print "hello";a$', 'a""b""c', '"""""', 'a"b"c"d"e"f', 'rem "unterminated', "it's", 'a""""""b',
             '10 print "a""b" : goto 20', '"' * 6 + 'x', 'x' + '"' * 5 + 'y' + '"' * 3 + 'z']
    check_lines(res, "fixed", fixed)
    res.sample({"line": fixed[0]})
    n = ctx.n(4000, 40000)
    lines = []
    for _ in range(n):
        k = ctx.rng.choice([0, 1, 2, 3, 5, 8, 13, 21, 40])
        lines.append("".join(ctx.rng.choice(ALPHA) for _ in range(k)))
    check_lines(res, "random", lines)
    res.sample({"line": lines[7]})
    # small scope, exhaustive: every string over 5 symbols up to length L
    L = 8 if ctx.thorough else 6
    st = res.stream(f"exhaustive_len<={L}", exhaustive=True)
    sym = ['a', 'B', '"', ' ', '1']
    batch = []
    for k in range(L + 1):
        for t in itertools.product(sym, repeat=k):
            batch.append("".join(t))
            if len(batch) >= 50000:
                check_lines(res, st.name, batch)
                batch = []
    if batch:
        check_lines(res, st.name, batch)
    # CLI level: files, stdin, CR/LF mixes, missing final newline
    for _ in range(ctx.n(30, 200)):
        nf = ctx.rng.choice([1, 1, 2, 3])
        texts = []
        for _ in range(nf):
            ls = ["".join(ctx.rng.choice(ALPHA) for _ in range(ctx.rng.choice([0, 1, 4, 9]))) for _ in range(ctx.rng.choice([0, 1, 2, 5]))]
            eol = ctx.rng.choice(["\n", "\n", "\r\n", "\r"])
            t = eol.join(ls) + (eol if ctx.rng.random() < 0.7 and ls else "")
            texts.append(t)
        r = ctx.rng.random()
        cli_case(ctx, res, texts, use_stdin=r < 0.3, as_filter=0.3 <= r < 0.5)
    res.sample({"cli_texts": texts})
    for dash in (0, 1, 2):
        cli_case(ctx, res, ["first a\n", "second \"b\n", "third c"], use_stdin=True, dash=dash)
    cli_case(ctx, res, ["only x\n", "y\n"], use_stdin=True, dash=0)
    # a real process fed through a pipe: CR LF and lone CR on standard input are not translated (checked against the model of stdin sources)
    import subprocess
    import proc as P
    from common import PY
    raw = "a \"x\r\nb\" y\rc\nd\r\n"
    for argv in ([], ["-"]):
        pr = subprocess.run([PY, "-B", "-m", "moto_prettier"] + argv, input=raw.encode(), capture_output=True, env=P.env(), timeout=300)
        m = drv([f"prettier2 1 {cps(raw)}"])[0]
        want = "".join(uncps(x) + "\n" for x in m.split(";")) if m != "" else ""
        stp = res.stream("process_stdin")
        stp.see(("prettier", tuple(argv)), nontrivial=True)
        stp.compared += 1
        if pr.returncode != 0 or pr.stdout.decode() != want:
            res.disagree("process_stdin", {"tool": "moto_prettier", "argv": argv, "stdin": raw}, want, [pr.returncode, pr.stdout.decode()])
    # a big file (a reader with a size limit or a buffer would drop or cut lines), alone and between two others with "-" in the middle
    big = "".join(("%d print \"line %d\";x%d:goto %d\n" % (10 * k, k, k % 97, k)) if k % 3 else ("%d rem \"unterminated %d\n" % (10 * k, k)) for k in range(1, (1500 if not ctx.thorough else 20000)))
    cli_case(ctx, res, [big], use_stdin=False)
    cli_case(ctx, res, ["a\n", "xy" + big, "z\n"], use_stdin=True)
    # letters beyond ASCII outside literals (accented REM text, Greek or Cyrillic identifiers): upper-cased like the others, one
    # character for one (letters whose upper case is longer — the German sharp s — are left out); oracle only: the model's
    # alphabet is ASCII (S3), the reference here is the quote automaton with Python's own one-to-one upper-casing
    def ref_line(line):
        out, lit = [], False
        for ch in line:
            if ch == '"':
                lit = not lit
                out.append(ch)
            else:
                out.append(ch if lit or len(ch.upper()) != 1 else ch.upper())
        return "".join(out)
    stx = res.stream("beyond_ascii")
    beyond = ["10 rem \u00e9crit \u00e0 la main", "20 pr\u00e9nom$=\"\u00e9l\u00e9phant\":print pr\u00e9nom$", "30 \u03b1\u03b2=\u03b3+1:rem \u0436\u0443\u043a \"\u0436\u0443\u043a\"", "40 \u00f1and\u00fa \"unterminated \u00f1"]
    for k in range(ctx.n(12, 100)):
        ls = [ctx.rng.choice(beyond) + ctx.rng.choice(["", " ", "  x"]) for _ in range(ctx.rng.choice([1, 2, 4]))]
        text = "\n".join(ls) + "\n"
        from moto_prettier.prettier import PrettierCli
        d = ctx.fresh_dir()
        as_file = k % 2 == 0
        if as_file:
            with open(os.path.join(d, "u.txt"), "w", encoding="utf-8") as f:
                f.write(text)
        status, out = run_cli(PrettierCli().run, [os.path.join(d, "u.txt")] if as_file else [], stdin_text=None if as_file else text)
        want = "".join(ref_line(l) + "\n" for l in ls)
        stx.see((text, as_file), nontrivial=True)
        stx.unmodelled += 1
        if status != "ok0" or out != want:
            res.violate("beyond_ascii", "output differs from the quote automaton", {"text": text, "file": as_file}, {"impl": [status, out[:300]], "spec": want[:300]}, {"clause": "automaton_beyond_ascii"})
    # files in UTF-8 with letters beyond ASCII inside string literals (reproduced unchanged, also when the text comes from a
    # file), indented lines and trailing blanks (every position kept), whole words — keywords, REM lines — outside literals
    words = ["rem", "print", "goto", "a", "B1", "x$", "10", "20", "for", "next", "rem written by me", "Rem"]
    lits = ['"Entr\u00e9e"', '"\u00e9t\u00e9 \u00df \u0153"', '"a"', '""', '"rem print"', '"unterminated \u00e9']
    for _ in range(ctx.n(40, 300)):
        ls = []
        for _ in range(ctx.rng.choice([1, 2, 4])):
            parts = [ctx.rng.choice(words) if ctx.rng.random() < 0.65 else ctx.rng.choice(lits[:-1]) for _ in range(ctx.rng.choice([1, 2, 4]))]
            line = ctx.rng.choice(["", " ", "   ", "\t"]) + ctx.rng.choice([" ", ":", ";", "  "]).join(parts) + ctx.rng.choice(["", " ", "  ", " " + lits[-1], " " + lits[-1] + "  "])
            ls.append(line)
        t = "\n".join(ls) + "\n"
        r = ctx.rng.random()
        cli_case(ctx, res, [t], use_stdin=r < 0.3, as_filter=0.3 <= r < 0.6)
