"""C17 — moto_prettier upper-cases code and never touches string literals."""
import itertools
import os

from common import cps, uncps, drv, run_cli

LEVEL_TEXT = ("Lean theorems (Props/C17.lean): the model of PrettierCli.processLine equals the character automaton "
              "of the property for every line (prettier_eq_spec), with length/positions/literal-verbatim/idempotence "
              "corollaries; the model is tied to prettier.py by differential runs of processLine and of the CLI "
              "(files, stdin), the automaton itself being evaluated by the driver on the real tool's output.")

ALPHA = 'abzABZ019 \t,;:()=+-$%\'"""'


def impl_lines(lines):
    """PrettierCli.processLine on each line, in-process"""
    import io
    import contextlib
    from moto_prettier.prettier import PrettierCli
    cli = PrettierCli()
    cli.args = None
    out = []
    for l in lines:
        buf = io.StringIO()
        try:
            with contextlib.redirect_stdout(buf):
                cli.processLine(l)
            out.append(buf.getvalue())
        except Exception as e:
            out.append("EXC:" + type(e).__name__)
    return out


def check_lines(res, stream, lines):
    """lines: list of str without newline, ASCII"""
    st = res.stream(stream)
    impl = impl_lines([l + "\n" for l in lines])
    model = drv([f"prettier {cps(l + chr(10))}" for l in lines])
    spec = drv([f"spec.upper {cps(l)}" for l in lines])
    impl2 = impl_lines([i if i.endswith("\n") else i + "\n" for i in impl])
    for l, i, m, s, i2 in zip(lines, impl, model, spec, impl2):
        st.see(l, nontrivial=('"' in l and any(c.isalpha() for c in l)))
        st.compared += 1
        res.count("quotes=%d" % min(l.count('"'), 7))
        mo = uncps(m) + "\n"
        so = uncps(s) + "\n"
        if i != mo:
            res.disagree(stream, {"line": l}, mo, i)
        if i != so:
            res.violate(stream, "output differs from the quote automaton", {"line": l},
                        {"impl": i, "spec": so}, {"clause": "automaton"})
        elif i2 != i:
            res.violate(stream, "not idempotent", {"line": l}, {"once": i, "twice": i2}, {"clause": "idempotent"})


def cli_case(ctx, res, texts, use_stdin):
    """files and stdin through PrettierCli.run; line count/order and content"""
    from moto_prettier.prettier import PrettierCli
    st = res.stream("cli")
    d = ctx.fresh_dir()
    argv = []
    for k, t in enumerate(texts):
        if use_stdin and k == len(texts) - 1:
            argv.append("-")
        else:
            p = os.path.join(d, f"f{k}.txt")
            with open(p, "w", newline="") as f:
                f.write(t)
            argv.append(p)
    stdin_text = texts[-1] if use_stdin else None
    if use_stdin and stdin_text is not None:
        # sys.stdin iteration sees text after universal-newline translation
        stdin_text = stdin_text.replace("\r\n", "\n").replace("\r", "\n")
    status, out = run_cli(PrettierCli().run, argv, stdin_text=stdin_text)
    model = drv([f"prettier {cps(t)}" for t in texts])
    mo = "".join(uncps(x) + "\n" for m in model if m != "" for x in m.split(";"))
    st.see((tuple(texts), use_stdin))
    st.compared += 1
    res.count("cli_files=%d" % len(texts))
    if status != "ok0" or out != mo:
        res.disagree("cli", {"texts": texts, "stdin": use_stdin}, mo, [status, out])
    n_in = sum(len(t.replace("\r\n", "\n").replace("\r", "\n").splitlines(keepends=True) if False else
                   [x for x in t.replace("\r\n", "\n").replace("\r", "\n").split("\n")][: -1 if t.replace("\r\n", "\n").replace("\r", "\n").endswith("\n") or t == "" else None])
               for t in texts)
    if status == "ok0" and out.count("\n") != n_in:
        res.violate("cli", "number of lines changed", {"texts": texts, "stdin": use_stdin},
                    {"in": n_in, "out": out.count("\n")}, {"clause": "line_count"})


def run(ctx, res):
    res.rule = ("lines over letters of both cases, digits, blanks, punctuation and double quotes; a case is "
                "non-trivial when it holds at least one quote and one letter; distinct by the line text")
    fixed = ['x"""y z', 'a"b', '""', '"', 'print "hello";a$', 'a""b""c', '"""""', 'a"b"c"d"e"f', 'rem "unterminated', "it's", 'a""""""b',
             '10 print "a""b" : goto 20', '"' * 6 + 'x', 'x' + '"' * 5 + 'y' + '"' * 3 + 'z']
    check_lines(res, "fixed", fixed)
    res.sample({"line": fixed[0]})
    n = ctx.n(4000, 40000)
    lines = []
    for _ in range(n):
        k = ctx.rng.choice([0, 1, 2, 3, 5, 8, 13, 21, 40])
        lines.append("".join(ctx.rng.choice(ALPHA) for _ in range(k)))
    check_lines(res, "random", lines)
    res.sample({"line": lines[7]})
    # small scope, exhaustive: every string over 5 symbols up to length L
    L = 8 if ctx.thorough else 6
    st = res.stream(f"exhaustive_len<={L}", exhaustive=True)
    sym = ['a', 'B', '"', ' ', '1']
    batch = []
    for k in range(L + 1):
        for t in itertools.product(sym, repeat=k):
            batch.append("".join(t))
            if len(batch) >= 50000:
                check_lines(res, st.name, batch)
                batch = []
    if batch:
        check_lines(res, st.name, batch)
    # CLI level: files, stdin, CR/LF mixes, missing final newline
    for _ in range(ctx.n(30, 200)):
        nf = ctx.rng.choice([1, 1, 2, 3])
        texts = []
        for _ in range(nf):
            ls = ["".join(ctx.rng.choice(ALPHA) for _ in range(ctx.rng.choice([0, 1, 4, 9]))) for _ in range(ctx.rng.choice([0, 1, 2, 5]))]
            eol = ctx.rng.choice(["\n", "\n", "\r\n", "\r"])
            t = eol.join(ls) + (eol if ctx.rng.random() < 0.7 and ls else "")
            texts.append(t)
        cli_case(ctx, res, texts, use_stdin=ctx.rng.random() < 0.4)
    res.sample({"cli_texts": texts})
