"""C08 — any well-formed third-party tape is read exactly; list and extract agree."""
import os

from common import cps, hx, drv
import tapelib as T

LEVEL_TEXT = ("Lean theorems (Props/C08.lean): the model reader recovers exactly the blocks of any tape rendered by the independent "
              "writer Spec.K7.render (leaders >= 3, idle gaps without 3C, any length), list and extract fold the same listener over "
              "the same blocks. Tie: tapes from a Python twin of the writer (byte-identical to Lean's render) through the real "
              "list/extract versus the model and the abstract files.")

PRINTABLE = "ABCDEFGHIJKLMNOPQRSTUVWXYZabcdefghijklmnopqrstuvwxyz0123456789_-+!#$%&@~ .,'()" + '\\:"*?<>|;=[]{}^`'     # every printable but '/' 


def gen_gap(rng):
    k = rng.choice([0, 0, 1, 7, 50, 300]) if rng.random() < 0.97 else rng.choice([4095, 4096, 5000, 20000, 70000])    # "idle gaps of any length": minutes of silence
    r = rng.random()
    if r < 0.3:
        return bytes(k)
    if r < 0.5:
        return b"\x01" * k
    if r < 0.6:
        return b"\x5a" * k
    return bytes(rng.choice([b for b in range(256) if b != 0x3C]) for _ in range(k))


def gen_tape(rng):
    nfiles = rng.choice([0, 1, 1, 2, 3, 6])
    files = []
    blocks = []
    used = set()
    for _ in range(nfiles):
        for _ in range(50):
            name = "".join(rng.choice(PRINTABLE) for _ in range(rng.choice([1, 3, 8]))).strip()
            ext = "".join(rng.choice(PRINTABLE[:62] + "_-+!#$%&@~,'()") for _ in range(rng.choice([0, 1, 2, 3])))
            if len(ext) < 3 and rng.random() < 0.12:
                ext = " " * rng.choice([1, 3 - len(ext)]) + ext      # blanks in front of the extension are padding like those behind it
            if name and name not in (".",) and (name, ext.strip()) not in used and not name.startswith("."):
                break
        used.add((name, ext.strip()))
        if len(name) < 7 and rng.random() < 0.15:
            name = " " * rng.choice([1, 2]) + name[:6]      # blanks in front of a name are not part of it (the reader strips both ends)
            if (name.strip(), ext) in used and name.strip() != name[:0]:
                pass
            used.add((name.strip(), ext))
        kind = rng.choice([0, 0, 1, 2, 2, 3, 200])
        mode = rng.choice([0, 0xFFFF, 0x1234, 255])
        content = b""
        lead = rng.choice([3, 3, 4, 16, 17, 64]) if rng.random() < 0.97 else rng.choice([4096, 6000, 30000])    # a leader tone of any length
        payload = (name + " " * 8)[:8].encode() + (ext + " " * 3)[:3].encode() + bytes([kind, mode >> 8, mode & 255])
        blocks.append((lead, 0, payload, gen_gap(rng)))
        for _ in range(rng.choice([0, 1, 2, 3, 9])):
            n = rng.choice([0, 1, 2, 100, 253, 254, 254, rng.randint(0, 254)])
            p = T.content_for(rng, n)
            content += p
            blocks.append((rng.choice([3, 5, 16, 40]), 1, p, gen_gap(rng)))
        blocks.append((rng.choice([3, 16, 20]), 0xFF, b"", gen_gap(rng)))
        files.append((name, ext, kind, mode, content))
    pre = gen_gap(rng)
    pad = rng.choice([0, 0, 10, 3000, 21504, 200000])
    return files, pre, blocks, pad


def gen_big_tape(rng, total):
    """real blocks far beyond the 21504 bytes of a blank MO5 tape: many files of full blocks; one block straddles offset 21504"""
    files, blocks = [], []
    size = 0
    k = 0
    while size < total:
        name, ext = "BIG%04d" % k, rng.choice(["BIN", "DAT", "BAS"])
        content = b""
        blocks.append((rng.choice([3, 16]), 0, (name + " " * 8)[:8].encode() + ext.encode() + bytes([2, 0, 0]), b""))
        # one member far beyond 64 KiB (300 to 1000 blocks) on the longest tapes
        huge = k == 1 and total >= 100000
        for _ in range(rng.choice([1, 4, 12]) if not huge else rng.choice([300, 520])):
            p = T.content_for(rng, rng.choice([254, 254, 100, 1]) if not huge else 254)
            content += p
            blocks.append((rng.choice([3, 16]), 1, p, gen_gap(rng) if rng.random() < 0.2 else b""))
            size += 20 + len(p)
        blocks.append((16, 0xFF, b"", b""))
        files.append((name, ext, 2, 0, content))
        size += 60
        k += 1
    return files, b"", blocks, 0


def one_case(ctx, res, stream, files, pre, blocks, pad):
    st = res.stream(stream)
    raw = T.py_render(pre, blocks)
    tape = raw + bytes(max(0, pad - len(raw)))
    lean = drv(["k7.render " + hx(pre) + "".join(f" {l} {t} {hx(p)} {hx(g)}" for l, t, p, g in blocks)])[0]
    case = {"files": [(n, e, k, m, len(c)) for n, e, k, m, c in files], "blocks": len(blocks), "tape_len": len(tape),
            "leads": sorted({b[0] for b in blocks})}
    st.see((tape,), nontrivial=len(files) > 0)
    res.count(f"files={min(len(files), 6)}")
    res.count("padded" if pad > len(raw) else "unpadded")
    if lean != hx(raw):
        res.disagree(stream, case, "Lean Spec.K7.render differs from the Python twin writer", "writer")
        return
    d = ctx.fresh_dir()
    ap = os.path.join(d, "third.k7")
    with open(ap, "wb") as f:
        f.write(tape)
    outs = {}
    snaps = {}
    names0 = [f"{n.strip()}.{e.strip()}" for n, e, _, _, _ in files]
    for key, argv in (("t", ["-t"]), ("tv", ["-t", "-v"]), ("x", ["-x"]), ("xv", ["-x", "-v"])):
        if key.startswith("x"):
            for fn in list(os.listdir(d)):
                if fn != "third.k7":
                    os.remove(os.path.join(d, fn))
            if key == "xv":
                # earlier results at the destination: longer, shorter, of the very length of the member, and empty: all replaced
                for k, ((n, e, _, _, c), nm) in enumerate(zip(files, names0)):
                    if "/" in nm or "\0" in nm or nm in (".", ".."):
                        continue
                    old = [c + b"tail of an older, longer file" * 3, c[: len(c) // 2], bytes(255 - b for b in c), b""][(k + len(tape)) % 4]
                    try:
                        with open(os.path.join(d, nm), "wb") as f:
                            f.write(old)
                    except OSError:
                        pass
        outs[key] = T.tar(argv + ["third.k7"], cwd=d)
        if key.startswith("x"):
            snaps[key] = T.snapshot(d)
            snaps[key].pop("third.k7")
    snap = snaps["xv"]
    ans = drv([f"tape.list q {tape.hex()}", f"tape.list v {tape.hex()}", f"tape.extract q {cps('third.k7')} ~ {tape.hex()}",
               f"tape.extract v {cps('third.k7')} ~ {tape.hex()}", f"tape.blocks {tape.hex()}"])
    for key, a in zip(("t", "tv", "x", "xv"), ans):
        mo = T.parse_outcome(a)
        if mo is None:
            st.unmodelled += 1
            continue
        st.compared += 1
        if outs[key] != (mo["status"], mo["out"]):
            res.disagree(stream, dict(case, action=key), {"status": mo["status"], "out": mo["out"]}, {"status": outs[key][0], "out": outs[key][1]})
        if key in ("x", "xv") and dict(mo["writes"]) != snaps[key]:
            res.disagree(stream, dict(case, action="extract files " + key), sorted(dict(mo["writes"])), sorted(snaps[key]))
    want_blocks = ";".join(hx(bytes([t, (len(p) + 2) % 256]) + p + bytes([(256 - sum(p) % 256) % 256])) for _, t, p, _ in blocks)
    if ans[4] != want_blocks:
        res.disagree(stream, dict(case, action="blocks"), "model reader did not recover the written blocks", "blocks")
    names = [f"{n.strip()}.{e.strip()}" for n, e, _, _, _ in files]
    if any(s != "ok0" for s, _ in outs.values()):
        res.violate(stream, "list/extract failed on a well-formed tape", case, {k: v[0] for k, v in outs.items()}, {"clause": "status"})
        return
    if outs["t"][1].splitlines() != names:
        res.violate(stream, "listing does not recover the files' names in order", case, {"listed": outs["t"][1].splitlines(), "want": names}, {"clause": "names"})
    want_files = {}
    for (n, e, _, _, c), nm in zip(files, names):
        want_files[nm] = c
    for key in ("x", "xv"):
        if snaps[key] != want_files:
            res.violate(stream, "extract does not recover the files' bytes" + (" (over earlier results at the destination)" if key == "xv" else ""), case,
                        {"got": sorted(snaps[key]), "want": sorted(want_files), "run": key}, {"clause": "bytes"})
            break
    if outs["t"][1] != outs["x"][1] or outs["tv"][1] != outs["xv"][1]:
        res.violate(stream, "list and extract report differently", case, {"list": outs["tv"][1], "extract": outs["xv"][1]}, {"clause": "agree"})
    # verbose facts
    idx = 0
    vlines = outs["tv"][1].splitlines()
    bi = 0
    for (n, e, k, m, c), line in zip(files, vlines):
        parts = line.split("\t")
        nb = 0
        first = bi + 1
        bi += 1
        while blocks[bi][1] == 1:
            nb += 1
            bi += 1
        bi += 1
        if not T.tape_facts_ok(parts[3:], first, len(c), nb):
            res.violate(stream, "verbose sizes / block counts / positions are wrong", case, {"line": line, "want": [first, len(c), nb]}, {"clause": "verbose_facts"})


def run(ctx, res):
    res.rule = ("tapes emitted by an independent writer: leader runs 3..64, idle gaps (zeros, 01, random without 3C), unpadded to 200 KiB, "
                "0..6 files, payloads 0..254 incl. non-maximal blocks, any kind/mode bytes, marker-imitating payloads; non-trivial = "
                "at least one file; distinct by tape bytes")
    rng = ctx.rng
    # fixed: minimal leader of three, length byte 0, payload imitating a marker right before a real block
    p254 = bytes([1] * 250 + [0x3C, 0x5A, 0, 2])
    fixed_blocks = [(3, 0, b"A       B  " + bytes([2, 0, 0]), b""), (3, 1, p254, b"\x01\x01"), (3, 1, b"\x01\x01\x01\x3c\x5a\xff\x02\x00", b""), (3, 0xFF, b"", b"")]
    one_case(ctx, res, "fixed", [("A", "B", 2, 0, p254 + b"\x01\x01\x01\x3c\x5a\xff\x02\x00")], b"\x00\x01", fixed_blocks, 0)
    res.sample({"files": [("A", "B", 2, 0, 262)], "leads": [3]})
    for i in range(ctx.n(150, 3000)):
        files, pre, blocks, pad = gen_tape(rng)
        one_case(ctx, res, "random", files, pre, blocks, pad)
        if i == 1:
            res.sample({"files": [(n, e, k, m, len(c)) for n, e, k, m, c in files], "pad": pad})
    # tapes longer than a blank MO5 tape ("any total length"): 30 KB to 100 KB of real blocks
    for total in ([23000, 40000, 100000] if not ctx.thorough else [21600, 23000, 30000, 40000, 66000, 100000, 150000]):
        files, pre, blocks, pad = gen_big_tape(rng, total)
        one_case(ctx, res, "longer_than_a_blank_tape", files, pre, blocks, pad)
    if ctx.thorough:
        st = res.stream("lead_x_gap_x_len_grid", exhaustive=True)
        for lead in range(3, 65):
            for gap in (b"", b"\x00" * 5, b"\x01" * 4, b"\x5a\x5a", bytes(range(1, 0x3C))):
                for n in (0, 1, 127, 253, 254):
                    p = T.content_for(rng, n)
                    blocks = [(lead, 0, b"GRID    BIN" + bytes([2, 0, 0]), gap)] + ([(lead, 1, p, gap)] if n else []) + [(lead, 0xFF, b"", gap)]
                    one_case(ctx, res, st.name, [("GRID", "BIN", 2, 0, p if n else b"")], gap, blocks, 0)
