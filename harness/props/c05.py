"""C05 — disk file system stays consistent across every history of additions."""
import itertools

import disklib as D
import diskcase as K
import diskengine as E
import tapelib as T

LEVEL_TEXT = ("Lean theorems (Props/C05.lean) about the allocation model (usage sum, reserved blocks never chosen, refusal for lack "
              "of blocks leaves the side untouched, chain linking); tie/oracle: histories of create/add with refusals at every "
              "position, each step compared with the model and re-checked by the independent fsck with full read-back.")

CL = {"fsck", "old_files", "stored_match", "refusal_noop", "usage_sum", "geometry"}


def history(ctx, res, stream, fl, steps):
    sc = K.Scenario(ctx, fl)
    raw = None
    for k, (mode, verbose, items) in enumerate(steps):
        raw2 = E.run_step(ctx, res, stream, sc, mode, verbose, items, raw, CL, {"flavour": fl, "step": k, "depth": len(steps)})
        if raw2 is None:
            return
        raw = raw2
    res.count(f"depth={min(len(steps), 9)}")


LETTERS = {
    "0": lambda r: 0, "s": lambda r: 255, "b": lambda r: 2040, "b+": lambda r: 2041, "t": lambda r: 2040 * r.choice([10, 30, 60]),
    "F": None, "F+": None, "X": lambda r: 330000,
}


def run(ctx, res):
    res.rule = ("sequences of create/add over size classes 0, 1 sector, 1 block, 1 block+1, tens of blocks, exactly the free space, one "
                "block more, larger than a side, and batch shapes one file, >112 files, --eos; refusals at every position; every step "
                "is one evaluation, non-trivial when it offers a file; distinct by (history prefix, step)")
    rng = ctx.rng
    # fixed: fill side 0 exactly, then a file that must go to side 1, then catalog exhaustion
    used = set()
    steps = [("create", False, [("file", "fill.dat", b"f" * (2040 * 157))]),
             ("add", True, [("file", "more.dat", b"m" * 1)]),
             ("add", False, [("file", "x%d.dat" % i, b"") for i in range(115)]),
             ("add", True, [("file", "huge.bin", b"h" * 330000), ("file", "tiny.bin", b"t")])]
    history(ctx, res, "fixed", "fd", steps)
    # past failure (F20): a source whose name is not ascii, in front of files that must still be stored where the rule says
    for fl in ("fd", "sd"):
        history(ctx, res, "fixed", fl, [("create", False, [("file", "first.dat", b"1" * 300)]),
                                        ("add", True, [("file", "caf\u00e9.bin", b"c" * 300), ("file", "AUTO.BAT", b"a" * 316200), ("file", "late.dat", b"l" * 2041)]),
                                        ("add", False, [("file", "\u00f1", b""), ("eos",), ("file", "x.b\u00e9", b"z"), ("file", "ok.txt", b"t" * 10)])])
    res.sample({"history": ["create fill(320280)", "add 1 byte", "add 115 empty files", "add 330000 then 1 byte"]})
    for i in range(ctx.n(10, 150)):
        used = set()
        depth = rng.choice([2, 3, 4, 8]) if not ctx.thorough else rng.choice([3, 8, 15, 30])
        steps = [("create", rng.random() < 0.5, E.gen_items(rng, used))]
        for _ in range(depth - 1):
            steps.append(("add", rng.random() < 0.5, E.gen_items(rng, used)))
        history(ctx, res, "random", rng.choice(["fd", "fd", "fd", "sd"]), steps)
        if i == 0:
            res.sample({"history": [(m, [("eos",) if it[0] == "eos" else (it[1], len(it[2]) if it[0] == "file" else "missing") for it in its][:4]) for m, _, its in steps]})
    # histories that start on a third-party image whose first side(s) have a full catalog and fragmented free space:
    # every file offered there is refused after its blocks were taken, and must leave the table as it was
    import os
    blobs = D.Blobs(ctx)
    for i in range(ctx.n(4, 40)):
        fl = rng.choice(["fd", "sd"])
        nfull = rng.choice([1, 2, 4])
        asides = [E.gen_aside(rng, full_catalog=(k < nfull), weird=False) for k in range(4)]
        raw = E.render_image(ctx, blobs, asides, fl, check_twin=False)
        used = {f["name"].decode().rstrip() + "." + f["ext"].decode().rstrip() for a in asides for f in a["files"]}
        sc = K.Scenario(ctx, fl)
        with open(os.path.join(sc.dir, sc.archive), "wb") as f:
            f.write(raw)
        for k in range(rng.choice([1, 2, 3])):
            items = [("file", D.gen_disk_name(rng, used), T.content_for(rng, sz)) for sz in rng.sample([0, 255, 2041, 4081, 10000, 2040 * 40], rng.choice([1, 2]))]
            raw = E.run_step(ctx, res, "full_catalog_fragmented", sc, "add", rng.random() < 0.5, items, raw, CL,
                             {"flavour": fl, "step": k, "pre_image": "independent writer, 112 live entries on %d side(s)" % nfull}, tool_made=False)
            if raw is None:
                break
    # histories on the bundled real image, whose sides 1-3 were never formatted (all FF): additions reach them by --eos and by overflow
    from common import REPO
    for fl in ("fd", "sd"):
        pth = os.path.join(REPO, "tests", "data", f"10_lsystem_mo5__2023-10-14.{fl}")
        if not os.path.exists(pth):
            continue
        for variant in range(ctx.n(2, 8)):
            raw = open(pth, "rb").read()
            sc = K.Scenario(ctx, fl)
            with open(os.path.join(sc.dir, sc.archive), "wb") as f:
                f.write(raw)
            used = set()
            for k in range(rng.choice([2, 3, 4])):
                items = E.gen_items(rng, used, shape=rng.choice(["eos_mix", "big", "overflow", "few", "fill_exact"]))
                if k == 0:
                    items = [("eos",)] * (1 + variant % 3) + items
                raw = E.run_step(ctx, res, "never_formatted_sides", sc, "add", rng.random() < 0.5, items, raw, CL,
                                 {"flavour": fl, "step": k, "pre_image": "bundled real image, sides 1-3 all FF"}, tool_made=False)
                if raw is None:
                    break
    # small scope: all histories of depth <= 2 (quick) / 3 (thorough) over a 9-letter alphabet of single-batch steps
    alphabet = [("0", [0]), ("s", [255]), ("b", [2040]), ("b+", [2041]), ("t", [2040 * 40]), ("F", [2040 * 157]), ("F+", [2040 * 157 + 1]), ("X", [330000]), ("eos2", None)]
    depth = 3 if ctx.thorough else 2
    st = res.stream(f"all_histories_depth<={depth}", exhaustive=True)
    for d in range(1, depth + 1):
        for combo in itertools.product(range(len(alphabet)), repeat=d):
            steps = []
            n = 0
            for k, a in enumerate(combo):
                name, sizes = alphabet[a]
                if sizes is None:
                    items = [("eos",), ("file", f"e{n}.dat", b"e" * 300), ("eos",)]
                else:
                    items = [("file", f"h{n}.dat", bytes([65 + k]) * sizes[0])]
                n += 1
                steps.append(("create" if k == 0 else "add", False, items))
            history(ctx, res, st.name, "fd", steps)
