"""C09 — tape creation is all-or-nothing and never over- or under-estimates capacity."""
import os

from common import cps, hx, drv
import tapelib as T

LEVEL_TEXT = ("Lean theorems (Props/C09.lean) about Tape.writeBlock/inject in the model (cursor arithmetic, failure => no "
              "archive write); tie: frontier stream around 21504 encoded bytes with the overflow in every block kind, missing "
              "sources at every index, pre-existing target; real status/archive compared with the model and with encSize.")


def locate_overflow(contents):
    """where the first failing check of the writer falls, by simulating the documented framing"""
    pos = 0
    size = 21504
    for fi, c in enumerate(contents):
        blocks = [("leader", 17)] + [("data", min(254, len(c) - k) + 3) for k in range(0, len(c), 254)] + [("end", 3)]
        for kind, ln in blocks:
            if pos + 18 >= size:
                return f"{kind}:marker"
            if pos + 18 + ln >= size:
                return f"{kind}:block"
            pos += 18 + ln
    return "fits"


def one_case(ctx, res, stream, files, verbose=False, preexisting=None, missing_at=None):
    st = res.stream(stream)
    d = ctx.fresh_dir()
    srcs, world = [], []
    for i, (name, content) in enumerate(files):
        if i != missing_at:
            with open(os.path.join(d, name), "wb") as f:
                f.write(content)
            world.append((name, content))
        srcs.append(name)
    ap = os.path.join(d, "t.k7")
    if preexisting is not None:
        with open(ap, "wb") as f:
            f.write(preexisting)
    before = T.snapshot(d)
    status, out = T.tar(["-c"] + (["-v"] if verbose else []) + ["t.k7"] + srcs, cwd=d)
    after = T.snapshot(d)
    tape = after.get("t.k7")
    contents = [c for _, c in files]
    enc = T.enc_size(contents)
    spec = [T.split_source(s)[:4] + (c,) for s, c in zip(srcs, contents)]
    ans = drv([f"tape.inject {'v' if verbose else 'q'} {cps('t.k7')} {len(srcs)} " + " ".join(cps(s) for s in srcs)
               + "".join(f" {cps(p)} {hx(c)}" for p, c in world), "k7.tape " + T.sfile_args(spec), "k7.encsize " + T.sfile_args(spec)])
    mo = T.parse_outcome(ans[0])
    loc = "missing" if missing_at is not None else locate_overflow(contents)
    case = {"sizes": [len(c) for c in contents], "enc_size": enc, "overflow_at": loc, "preexisting": None if preexisting is None else len(preexisting), "missing_at": missing_at}
    st.see(case, nontrivial=True)
    if mo is None:
        st.unmodelled += 1
        mo = {"status": status, "out": out, "writes": [("t.k7", tape)] if status == "ok0" and tape is not None else []}     # nothing to compare with
    else:
        st.compared += 1
    res.count(f"where={loc}")
    res.count(f"enc-21504={max(-9, min(9, enc - 21504))}")
    if int(ans[2]) != enc:
        res.disagree(stream, case, {"encSize": ans[2]}, {"harness_enc_size": enc})
    new_tape = tape if (tape is not None and (preexisting is None or tape != preexisting or status == "ok0")) else None
    model_tape = mo["writes"][0][1] if mo["writes"] else None
    if (status, out) != (mo["status"], mo["out"]) or (status == "ok0") != (model_tape is not None) or (status == "ok0" and tape != model_tape):
        res.disagree(stream, case, {"status": mo["status"], "out": mo["out"], "wrote": model_tape is not None}, {"status": status, "out": out, "wrote": tape is not None})
    others_changed = {k for k in set(before) | set(after) if k != "t.k7" and ((k in before) != (k in after) or before.get(k) != after.get(k))}
    if others_changed:
        res.violate(stream, "a file other than the archive was created or modified", case, sorted(others_changed), {"clause": "other_files"})
    if status == "ok0":
        if missing_at is not None:
            res.violate(stream, "status 0 although a source is missing", case, out, {"clause": "missing_status"})
        if enc > 21504:
            res.violate(stream, "a list longer than the tape was accepted", case, {"enc": enc}, {"clause": "capacity_over"})
        if tape is None or len(tape) != 21504:
            res.violate(stream, "success without a 21504-byte archive", case, None if tape is None else len(tape), {"clause": "size"})
        elif tape.hex() != ans[1]:
            res.violate(stream, "accepted archive does not hold every source completely", case, {}, {"clause": "complete"})
    else:
        if missing_at is None and enc < 21504:
            res.violate(stream, "a list shorter than the tape was refused", case, {"enc": enc, "status": status, "out": out}, {"clause": "capacity_under"})
        import common
        if missing_at is None and "Too much data" not in out and "Too much data" not in common.LAST["stderr"]:      # a diagnostic, on either stream
            res.violate(stream, "failure without diagnostic", case, out, {"clause": "diagnostic"})
        if tape != preexisting:
            res.violate(stream, "failed creation wrote or altered the archive", case, {"had": None if preexisting is None else len(preexisting), "now": None if tape is None else len(tape)}, {"clause": "all_or_nothing"})


def refused_case(ctx, res, kind, position, verbose):
    """a source the injector refuses — it is the archive's own path, or its name is not ascii — at every position of the list:
    non-zero status, no file of the directory changes (the source that is the archive keeps its bytes)"""
    st = res.stream("refused_source")
    d = ctx.fresh_dir()
    ordinary = [("a.bas", b"10 REM\n"), ("b.dat", bytes(range(200))), ("c.bin", b"c" * 300)]
    arc = "t.k7"
    bad_path = None
    if kind == "not_ascii_name":
        bad, bad_path = "caf\u00e9.bas", "caf\u00e9.bas"
    elif kind == "not_ascii_ext":
        bad, bad_path = "abcdefg\u00e9.d\u00e9t", "abcdefg\u00e9.d\u00e9t"
    elif kind == "not_ascii_ext_only":
        bad, bad_path = "notes.\u00e9\u00e9", "notes.\u00e9\u00e9"
    elif kind == "is_archive_plain":
        arc, bad, bad_path = "notes.bin", "notes.bin", "notes.bin"
    elif kind == "is_archive_dotslash":
        arc, bad, bad_path = "./notes.bin", "notes.bin", "notes.bin"
    elif kind == "is_archive_dotslash_src":
        arc, bad, bad_path = "notes.bin", "./sub/../notes.bin", "./sub/../notes.bin"
        os.makedirs(os.path.join(d, "sub"))
    elif kind == "is_archive_abs":
        arc, bad, bad_path = os.path.join(d, "notes.bin"), os.path.join(d, "notes.bin"), os.path.join(d, "notes.bin")
    elif kind == "is_archive_bas_A":
        arc, bad, bad_path = "prog.bas", "prog.bas,A", "prog.bas"
    elif kind == "is_archive_abs_vs_relative":
        arc, bad, bad_path = "notes.bin", os.path.join(d, "notes.bin"), os.path.join(d, "notes.bin")
    elif kind == "is_archive_relative_vs_abs":
        arc, bad, bad_path = os.path.join(d, "notes.bin"), "notes.bin", "notes.bin"
    elif kind in ("is_archive_symlink", "is_archive_hardlink"):
        arc, bad, bad_path = "notes.bin", "alias.dat", "notes.bin"
    elif kind == "is_archive_through_parent":
        # out of the working directory and back in through its name: the same place, which only a resolution against the
        # working directory shows (the model's lexical comparison does not know it: oracle only)
        arc, bad, bad_path = "notes.bin", f"../{os.path.basename(d)}/notes.bin", "notes.bin"
    else:  # the ,a option is not part of the path
        arc, bad, bad_path = "prog.bas", "prog.bas,a", "prog.bas"
    files = list(ordinary)
    files.insert(position, (bad, b"the source that must survive" * 4))
    world = []
    for name, content in files:
        path = bad_path if name == bad else name
        with open(os.path.join(d, path), "wb") as f:
            f.write(content)
        world.append((path, content))
    if kind == "is_archive_symlink":
        os.symlink("notes.bin", os.path.join(d, "alias.dat"))
    if kind == "is_archive_hardlink":
        os.link(os.path.join(d, "notes.bin"), os.path.join(d, "alias.dat"))
    # a relative and an absolute spelling of one place, and links, are outside the model's lexical comparison (DESIGN S3): oracle only
    unmodelled = kind in ("is_archive_abs_vs_relative", "is_archive_relative_vs_abs", "is_archive_symlink", "is_archive_hardlink", "is_archive_through_parent")
    srcs = [n for n, _ in files]
    before = T.snapshot(d)
    status, out = T.tar(["-c"] + (["-v"] if verbose else []) + [arc] + srcs, cwd=d)
    after = T.snapshot(d)
    case = {"kind": kind, "position": position, "archive": arc if not os.path.isabs(arc) else "<abs>/notes.bin", "sources": [s if not os.path.isabs(s) else "<abs>/notes.bin" for s in srcs]}
    st.see(case, nontrivial=True)
    res.count(f"refused:{kind}:{status}")
    changed = sorted(k for k in set(before) | set(after) if ((k in before) != (k in after) or before.get(k) != after.get(k)))
    if status == "ok0":
        res.violate("refused_source", "status 0 although a source cannot be archived (it is the archive itself / its name is not ascii)", case, out, {"clause": "refused_status", "kind": kind})
    if changed:
        res.violate("refused_source", "a refused creation wrote or altered a file (a source that is the archive must keep its bytes)", case, changed, {"clause": "all_or_nothing", "kind": kind})
    if unmodelled:
        return
    mo = T.parse_outcome(drv([f"tape.inject {'v' if verbose else 'q'} {cps(arc)} {len(srcs)} " + " ".join(cps(s) for s in srcs)
                              + "".join(f" {cps(p)} {hx(c)}" for p, c in world)])[0])
    st.compared += 1
    # a refusal is a non-zero status: whether it is raised or returned with a message is the tool's business
    if (mo["status"] == "ok0") != (status == "ok0") or bool(mo["writes"]) != bool(changed):
        res.disagree("refused_source", case, {"status": mo["status"], "wrote": bool(mo["writes"])}, {"status": status, "changed": changed})


def odd_source_case(ctx, res, kind, position, verbose):
    """a source argument that is not a regular readable file — a directory, a dangling symbolic link — at every position: the
    creation is all or nothing (non-zero status and no archive, the old one untouched), and whatever archive a run with status
    0 writes is the exact encoding of the files it reports (strict decoder)"""
    st = res.stream("odd_source")
    d = ctx.fresh_dir()
    ordinary = [("a.bas", b"10 REM\n"), ("b.dat", bytes(range(200))), ("c.bin", b"c" * 300)]
    if kind == "directory":
        os.makedirs(os.path.join(d, "adir.d"))
        odd = "adir.d"
    elif kind == "directory_no_dot":
        os.makedirs(os.path.join(d, "subdir"))
        odd = "subdir"
    else:
        os.symlink("nowhere.dat", os.path.join(d, "dangling.dat"))
        odd = "dangling.dat"
    for n, c in ordinary:
        with open(os.path.join(d, n), "wb") as f:
            f.write(c)
    srcs = [n for n, _ in ordinary]
    srcs.insert(position, odd)
    pre = b"older archive" if position % 2 else None
    if pre is not None:
        with open(os.path.join(d, "t.k7"), "wb") as f:
            f.write(pre)
    before = T.snapshot(d)
    status, out = T.tar(["-c"] + (["-v"] if verbose else []) + ["t.k7"] + srcs, cwd=d)
    after = T.snapshot(d)
    case = {"kind": kind, "position": position, "sources": srcs, "preexisting": pre is not None}
    st.see(case, nontrivial=True)
    res.count(f"odd_source:{kind}:{status}")
    changed = sorted(k for k in set(before) | set(after) if ((k in before) != (k in after) or before.get(k) != after.get(k)))
    if status != "ok0":
        if changed:
            res.violate("odd_source", "a failed creation wrote or altered a file", case, changed, {"clause": "all_or_nothing", "kind": kind})
        return
    tape = after.get("t.k7")
    dec = T.strict_decode(tape)[0] if tape is not None else None
    if tape is None or len(tape) != 21504 or dec is None:
        res.violate("odd_source", "status 0 with an archive that is not a well-formed tape of the files it reports", case,
                    {"len": None if tape is None else len(tape), "out": out[-300:]}, {"clause": "complete", "kind": kind})


def unwritable_target_case(ctx, res, kind):
    """the archive cannot be written where it is designated (its directory does not exist, its name is a directory's, a component of
    its path is a file): the creation fails with a non-zero status and nothing at all is created or modified — all or nothing also
    here (the model's world has no directories: oracle only)"""
    st = res.stream("unwritable_target")
    d = ctx.fresh_dir()
    with open(os.path.join(d, "a.bas"), "wb") as f:
        f.write(b"10 REM\r")
    os.makedirs(os.path.join(d, "adir.k7"))
    arc = {"absent_directory": "nodir/t.k7", "absent_directory_dotdot": "nodir/../t2.k7", "is_a_directory": "adir.k7", "file_as_directory": "a.bas/t.k7", "empty_name": ""}[kind]
    before = T.snapshot(d)
    dirs_before = sorted(x for x in os.listdir(d))
    status, out = T.tar(["-c", arc, "a.bas"], cwd=d)
    after = T.snapshot(d)
    case = {"kind": kind, "archive": arc}
    st.see(case, nontrivial=True)
    st.unmodelled += 1
    res.count(f"unwritable_target:{kind}:{status}")
    if status == "ok0":
        res.violate("unwritable_target", "status 0 although the archive could not be written", case, out, {"clause": "unwritable_status"})
    if after != before or sorted(os.listdir(d)) != dirs_before:
        res.violate("unwritable_target", "a failed creation created or modified something", case, sorted(set(after) ^ set(before)), {"clause": "all_or_nothing", "kind": kind})


def tuned(rng, target, nfiles, tune_index):
    """a list of nfiles contents whose encoded size is exactly `target` when reachable (tuning file tune_index)"""
    sizes = [rng.choice([0, 1, 100, 254, 255, 600, rng.randint(0, 3000)]) for _ in range(nfiles)]
    sizes[tune_index] = 0
    rest = T.enc_size([bytes(s) for s in sizes])
    lo, hi = 0, 22000
    best = None
    for n in range(max(0, target - rest - 2200), max(0, target - rest) + 2):
        if rest + (21 * ((n + 253) // 254) + n) == target:
            best = n
            break
    if best is None:
        return None
    sizes[tune_index] = best
    return [T.content_for(rng, s) for s in sizes]


def run(ctx, res):
    res.rule = ("source lists whose encoded size (35 per leader, 21 per data/end block + payload) ranges over the capacity frontier, "
                "the overflow falling in the marker or block check of a leader, data or end block of the first, a middle or the last "
                "file; missing source at every index; target absent or present with old bytes; every case is non-trivial; distinct by "
                "(sizes, location, pre-existing, missing index)")
    rng = ctx.rng
    span = range(21470, 21541) if ctx.thorough else range(21490, 21520)
    reps = 6 if ctx.thorough else 2
    k = 0
    for target in span:
        for _ in range(reps):
            nfiles = rng.choice([1, 2, 3, 5])
            ti = rng.choice([0, nfiles // 2, nfiles - 1])
            contents = tuned(rng, target, nfiles, ti)
            if contents is None:
                continue
            files = [(f"f{i}.bin", c) for i, c in enumerate(contents)]
            pre = rng.choice([None, None, b"old bytes", bytes(21504)])
            one_case(ctx, res, "frontier", files, verbose=rng.random() < 0.3, preexisting=pre)
            k += 1
            if k == 3:
                res.sample({"target": target, "sizes": [len(c) for c in contents]})
    # the last file is empty or an exact multiple of the 254-byte payload, the total just below / above the capacity
    for target in (range(21475, 21512) if ctx.thorough else range(21484, 21508, 2)):
        last = rng.choice([0, 254, 508, 762])
        nfiles = rng.choice([2, 3])
        sizes = [rng.choice([0, 254, 300, 1000]) for _ in range(nfiles - 2)] + [0, last]
        rest = T.enc_size([bytes(x) for x in sizes])
        fit = None
        for n in range(max(0, target - rest - 2300), max(0, target - rest) + 2):
            if rest + (21 * ((n + 253) // 254) + n) == target:
                fit = n
                break
        if fit is None:
            continue
        sizes[-2] = fit
        one_case(ctx, res, "frontier_last_multiple_of_254", [(f"l{i}.bin", T.content_for(rng, x)) for i, x in enumerate(sizes)])
    # overflow far from the end: in leaders / end blocks of later files
    for _ in range(ctx.n(40, 400)):
        n = rng.choice([2, 3, 8, 30])
        big = rng.randint(19000, 19900)
        contents = [T.content_for(rng, big)] + [T.content_for(rng, rng.choice([0, 0, 1, 5, 30])) for _ in range(n)]
        rng.shuffle(contents)
        one_case(ctx, res, "many_small_after_big", [(f"g{i}.bin", c) for i, c in enumerate(contents)], preexisting=rng.choice([None, b"keep me"]))
    # single-file lengths across the frontier (exhaustive in the range)
    lo, hi = (19600, 19900) if ctx.thorough else (19740, 19790)
    st = res.stream(f"single_file_{lo}..{hi}", exhaustive=True)
    for n in range(lo, hi + 1):
        one_case(ctx, res, st.name, [("one.bin", bytes(n))])
    # missing source at every index
    for n in (1, 2, 4):
        for idx in range(n):
            files = [(f"m{i}.bin", T.content_for(rng, rng.choice([0, 10, 300]))) for i in range(n)]
            one_case(ctx, res, "missing_source", files, missing_at=idx, preexisting=rng.choice([None, b"old archive"]))
    res.sample({"missing_at": 0, "files": 1})
    # refused sources (F26, F27) at every position
    for kind in ("is_archive_plain", "is_archive_dotslash", "is_archive_dotslash_src", "is_archive_abs", "is_archive_bas_a", "is_archive_bas_A",
                 "is_archive_abs_vs_relative", "is_archive_relative_vs_abs", "is_archive_symlink", "is_archive_hardlink", "is_archive_through_parent", "not_ascii_name", "not_ascii_ext",
                 "not_ascii_ext_only"):
        for position in range(4):
            refused_case(ctx, res, kind, position, verbose=(position % 2 == 1))
    for kind in ("directory", "directory_no_dot", "dangling_link"):
        for position in range(4):
            odd_source_case(ctx, res, kind, position, verbose=(position % 2 == 0))
    for kind in ("absent_directory", "absent_directory_dotdot", "is_a_directory", "file_as_directory", "empty_name"):
        unwritable_target_case(ctx, res, kind)
