"""C06 — adding files to an existing disk image never disturbs what is already there."""
import os
import shutil

from common import drv, REPO
import disklib as D
import diskcase as K
import diskengine as E
import tapelib as T

LEVEL_TEXT = ("Lean theorems (Props/C06.lean): sector-level frame lemmas of the model (putSector touches one sector, setBat touches "
              "bytes 1..160 of one sector only and only where the table changed, no-op perform + save = load's payloads); tie/oracle: "
              "pre-images from tool histories, from the independent writer (fragmented, deleted entries, extra reserved blocks, "
              "table tail all 00 or a run of distinct bytes) and the bundled real image, then arbitrary batches; byte-level frame check of the result.")

CL = {"old_files", "frame", "stored_match", "noop_identity", "fsck", "refusal_noop"}


def add_to(ctx, res, stream, fl, pre_raw, items, verbose, origin):
    sc = K.Scenario(ctx, fl)
    with open(os.path.join(sc.dir, sc.archive), "wb") as f:
        f.write(pre_raw)
    return E.run_step(ctx, res, stream, sc, "add", verbose, items, pre_raw, CL, {"flavour": fl, "pre_image": origin}, tool_made=False)


def run(ctx, res):
    res.rule = ("pre-existing 4-sided images (tool-created histories; independent writer with arbitrary allocation order, "
                "fragmentation, deleted / never-used entries interleaved, extra reserved blocks, table tail and record padding 00 or "
                "FF; the bundled real-world image) x added batches incl. the empty batch x both flavours; non-trivial = offers a "
                "file; distinct by (pre-image, batch)")
    rng = ctx.rng
    blobs = D.Blobs(ctx)
    # bundled real image: side 0 is a real file system, sides 1-3 are unformatted (all FF): additions stay on side 0
    for fl in ("fd", "sd"):
        p = os.path.join(REPO, "tests", "data", f"10_lsystem_mo5__2023-10-14.{fl}")
        if os.path.exists(p):
            pre = open(p, "rb").read()
            add_to(ctx, res, "bundled_image", fl, pre, [], False, "bundled")
            used = set()
            add_to(ctx, res, "bundled_image", fl, pre, [("file", "new1.bas", b"n" * 3000), ("file", "new2.dat", b"")], True, "bundled")
            # batches that reach the sides that were never formatted: by --eos, and by a file too big for what side 0 has left
            add_to(ctx, res, "bundled_image", fl, pre, [("eos",), ("file", "onside1.dat", b"s" * 5000)], False, "bundled")
            add_to(ctx, res, "bundled_image", fl, pre, [("file", "big.bin", bytes([7]) * (2040 * 157)), ("file", "next.dat", b"x" * 300)], True, "bundled")
            add_to(ctx, res, "bundled_image", fl, pre, [("eos",), ("file", "fill1.bin", bytes([9]) * (2040 * 158)), ("file", "one.dat", b"1"),
                                                        ("eos",), ("file", "s3.txt", b"t" * 2041)], True, "bundled")
            add_to(ctx, res, "bundled_image", fl, pre, [("eos",), ("eos",), ("eos",)] + [("file", "m%d.dat" % k, T.content_for(rng, 2040 * k + 1)) for k in range(5)], False, "bundled")
    res.sample({"pre_image": "bundled 10_lsystem_mo5", "batch": [("new1.bas", 3000), ("new2.dat", 0)]})
    for i in range(ctx.n(16, 300)):
        fl = rng.choice(["fd", "fd", "sd"])
        asides = [E.gen_aside(rng) for _ in range(4)]
        pre = E.render_image(ctx, blobs, asides, fl, check_twin=(i % 4 == 0), res=res, stream="independent_writer")
        used = {f["name"].decode().rstrip() + "." + f["ext"].decode().rstrip() for a in asides for f in a["files"]}
        shape = rng.choice(["one", "few", "eos_mix", "big", "many", "none"])
        items = [] if shape == "none" else [it for it in E.gen_items(rng, used, shape=shape) if it[0] != "missing"]
        add_to(ctx, res, "independent_writer", fl, pre, items, rng.random() < 0.5, "independent writer")
        if i == 0:
            res.sample({"pre_image": {"files_per_side": [len(a["files"]) for a in asides], "deleted": [len(a["deleted"]) for a in asides]},
                        "batch": [("eos",) if it[0] == "eos" else (it[1], len(it[2])) for it in items][:6]})
    # full catalog, fragmented free space: every added file is refused after its blocks were taken and must leave no trace
    for i in range(ctx.n(4, 40)):
        fl = rng.choice(["fd", "sd"])
        nfull = rng.choice([1, 1, 2, 4])
        asides = [E.gen_aside(rng, full_catalog=(k < nfull)) for k in range(4)]
        pre = E.render_image(ctx, blobs, asides, fl, check_twin=(i == 0), res=res, stream="full_catalog_fragmented")
        used = {f["name"].decode().rstrip() + "." + f["ext"].decode().rstrip() for a in asides for f in a["files"]}
        items = [("file", D.gen_disk_name(rng, used), T.content_for(rng, s)) for s in rng.sample([0, 1, 2041, 4081, 10000, 30000, 2040 * 44], rng.choice([1, 2, 3]))]
        add_to(ctx, res, "full_catalog_fragmented", fl, pre, items, rng.random() < 0.5, "independent writer, 112 live entries")
    for i in range(ctx.n(6, 100)):
        fl = rng.choice(["fd", "sd"])
        sc = K.Scenario(ctx, fl)
        used = set()
        raw = E.run_step(ctx, res, "tool_history", sc, "create", False, E.gen_items(rng, used), None, CL, {"flavour": fl})
        for _ in range(rng.choice([1, 2, 3])):
            if raw is None:
                break
            items = [] if rng.random() < 0.25 else E.gen_items(rng, used)
            raw = E.run_step(ctx, res, "tool_history", sc, "add", rng.random() < 0.5, items, raw, CL, {"flavour": fl})
