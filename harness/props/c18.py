"""C18 — hostile or corrupt archives cannot hang the tools or escape the destination."""
import os
import zlib
import re

from common import drv, cps
import disklib as D
import diskengine as E
import tapelib as T
import proc as P

LEVEL_TEXT = ("Lean theorems (Props/C18.lean): the tape reader consumes at least 7 bytes per block (step bound for every byte string), "
              "the block-chain walk returns a duplicate-free chain of at most 160 blocks for every table, every path written by the "
              "extractors is a direct child of the destination (sideN) directory. PARTIAL: CPU time and memory are runtime quantities; "
              "they are observed on the real processes (RLIMIT_CPU/AS, audit hook on every open/mkdir), not proved.")

EXC = re.compile(r"^(\w+(?:\.\w+)*)(?::|$)", re.M)


def exc_name(err):
    lines = [l for l in err.strip().splitlines() if l and not l.startswith(" ")]
    if not lines:
        return "?"
    m = EXC.match(lines[-1])
    return m.group(1).split(".")[-1] if m else "?"


def base_disk(rng, fl):
    asides = [E.gen_aside(rng, nfiles=rng.choice([1, 2, 4]), weird=False) for _ in range(4 if fl == "sd" else rng.choice([1, 2, 4]))]
    for a in asides:
        a["byte0"] = 0
    return asides


DISK_KINDS = ["cycle2", "selflink", "longcycle", "rho", "rho_selflink", "first_oob", "slash_name", "dotdot", "nul_name", "hi_name", "absurd_len", "flip_bat", "random_table",
              "random_catalog", "truncate", "random_bytes", "dangling", "shared", "dot_name", "slash_noblock", "slash_lateslot", "nul_noblock",
              "slash_ext", "nul_ext", "dotdot_ext"]
TAPE_KINDS = ["slash", "dotdot", "nul", "nonutf8", "badtype", "truncated", "eof_first", "data_first", "short_leader", "random", "hugelen", "abs",
              "slash_ext", "nul_ext"]


def mutate_disk(rng, asides, fl, kind=None):
    """-> (raw bytes, label)"""
    kind = kind or rng.choice(["cycle2", "selflink", "longcycle", "rho", "rho_selflink", "first_oob", "slash_name", "dotdot", "nul_name", "hi_name", "absurd_len",
                       "flip_bat", "random_table", "random_catalog", "truncate", "random_bytes", "dangling", "shared", "dot_name",
                       "slash_noblock", "slash_noblock", "slash_lateslot", "nul_noblock", "slash_ext", "slash_ext", "nul_ext", "dotdot_ext"])
    sides = [D.py_render(a) for a in asides]
    s = [bytearray(x) for x in sides[0]]
    bat = s[20 * 16 + 1]
    files = asides[0]["files"]
    f = files[0] if files else None

    def cat_entry(slot):
        return s[20 * 16 + 2 + slot // 8], 32 * (slot % 8)

    if kind == "cycle2" and f:
        a, b = f["chain"][0], (f["chain"] + [77])[1] if len(f["chain"]) > 1 else [x for x in range(1, 160) if x not in (40, 41)][rng.randrange(100)]
        bat[1 + a] = b
        bat[1 + b] = a
    elif kind == "selflink" and f:
        bat[1 + f["chain"][0]] = f["chain"][0]
    elif kind == "longcycle" and f:
        ring = [x for x in range(1, 160) if x not in (40, 41)]
        rng.shuffle(ring)
        ring = [f["chain"][0]] + [x for x in ring if x != f["chain"][0]][:rng.choice([3, 50, 150])]
        for i, b in enumerate(ring):
            bat[1 + b] = ring[(i + 1) % len(ring)]
    elif kind in ("rho", "rho_selflink") and f:
        # a chain that runs into a cycle which does NOT contain its first block: b0 -> b1 -> ... -> bk -> (b1 | bk)
        ring = [x for x in range(1, 160) if x not in (40, 41) and x != f["chain"][0]]
        rng.shuffle(ring)
        path = [f["chain"][0]] + ring[:rng.choice([1, 2, 5, 40])]
        for i in range(len(path) - 1):
            bat[1 + path[i]] = path[i + 1]
        bat[1 + path[-1]] = path[-1] if kind == "rho_selflink" else path[rng.randrange(1, len(path))]
    elif kind == "first_oob" and f:
        sec, off = cat_entry(f["slot"])
        sec[off + 13] = rng.choice([160, 161, 200, 254, 255])
    elif kind in ("slash_name", "dotdot", "nul_name", "hi_name", "dot_name") and f:
        sec, off = cat_entry(f["slot"])
        name = {"slash_name": b"../../ES", "dotdot": b"..      ", "nul_name": b"A\x00B     ", "hi_name": b"CAF\xc9    ", "dot_name": b".       "}[kind]
        sec[off:off + 8] = name
        if kind in ("dotdot", "dot_name"):
            sec[off + 8:off + 11] = b"   "
        if kind == "slash_name" and rng.random() < 0.5:
            sec[off:off + 8] = b"/tmp/ev "
            sec[off + 8:off + 11] = b"/x " if rng.random() < 0.5 else b"il "
    elif kind in ("slash_ext", "nul_ext", "dotdot_ext") and f:
        # the hostile character sits in the extension field only: `. /XY` reads `./XY`, `..` + `/X` reads `../X`
        sec, off = cat_entry(f["slot"])
        name, ext = {"slash_ext": rng.choice([(b".       ", b"/XY"), (b"..      ", b"/X "), (b"GOOD    ", b"/.."), (b"A       ", b"B/C")]),
                     "nul_ext": (b"GOOD    ", b"A\x00B"), "dotdot_ext": (b"        ", b".  ")}[kind]
        sec[off:off + 8] = name
        sec[off + 8:off + 11] = ext
        if rng.random() < 0.3:
            sec[off + 13] = rng.choice([0, 40, 41])   # … on an entry that owns no block
    elif kind in ("slash_noblock", "nul_noblock") and f:
        # a live entry that owns no block (first block reserved or free) AND carries a hostile name
        sec, off = cat_entry(f["slot"])
        sec[off:off + 8] = b"../../ES" if kind == "slash_noblock" else b"A\x00B     "
        sec[off + 8:off + 11] = b"CAP"
        sec[off + 13] = rng.choice([0, 40, 41] + [b for b in range(160) if bat[1 + b] == 0xFF][:3])
    elif kind == "slash_lateslot":
        # a hostile name in the very last catalog slot, on a never-used entry made live, pointing at a real chain
        sec, off = cat_entry(111)
        sec[off:off + 32] = b"../ESC  BIN" + bytes([2, 0, f["chain"][0] if f else 1, 0, 5]) + bytes(16)
    elif kind == "absurd_len" and f:
        sec, off = cat_entry(f["slot"])
        sec[off + 14], sec[off + 15] = rng.choice([(0xFF, 0xFF), (1, 0), (0x7F, 3)])
    elif kind == "flip_bat":
        for _ in range(rng.choice([1, 3, 20])):
            bat[rng.randrange(256)] = rng.getrandbits(8)
    elif kind == "random_table":
        valid = list(range(160)) + list(range(0xC1, 0xC9)) + [0xFE, 0xFF]
        for b in range(160):
            bat[1 + b] = rng.choice(valid)
    elif kind == "random_catalog":
        for k in range(14):
            s[20 * 16 + 2 + k] = bytearray(rng.getrandbits(8) for _ in range(256))
    elif kind == "dangling" and f:
        bat[1 + f["chain"][-1]] = rng.choice([0xFF, 0xFE, 40])
    elif kind == "shared" and len(files) > 1:
        sec, off = cat_entry(files[1]["slot"])
        sec[off + 13] = f["chain"][0]
    sides[0] = [bytes(x) for x in s]
    raw = D.raw_of_sides(sides, fl)
    if kind == "truncate":
        raw = raw[:rng.choice([0, 1, 1000, len(raw) // 2, len(raw) - 1, len(raw) - 256])]
    elif kind == "random_bytes":
        raw = bytes(rng.getrandbits(8) for _ in range(4096)) * (len(raw) // 4096)
    return raw, kind


def hostile_tape(rng, kind=None):
    kind = kind or rng.choice(["slash", "dotdot", "nul", "nonutf8", "badtype", "truncated", "eof_first", "data_first", "short_leader", "random", "hugelen", "abs",
                       "slash_ext", "slash_ext", "nul_ext"])
    name = {"slash": b"../ESC  ", "dotdot": b"..      ", "nul": b"A\x00B     ", "nonutf8": b"\xff\xfeNAME  ", "abs": b"/tmp/ev "}.get(kind, b"GOOD    ")
    ext = b"   " if kind == "dotdot" else (b"il " if kind == "abs" else b"BIN")
    if kind == "slash_ext":
        # the separator sits in the extension field only
        name, ext = rng.choice([(b".       ", b"/XY"), (b"..      ", b"/X "), (b"GOOD    ", b"/.."), (b"A       ", b"B/C")])
    if kind == "nul_ext":
        ext = b"A\x00B"
    blocks = [(16, 0, name + ext + bytes([2, 0, 0]), b""), (16, 1, b"payload", b""), (16, 0xFF, b"", b"")]
    if kind == "badtype":
        blocks.insert(1, (16, rng.choice([2, 7, 0x80, 0xFE]), b"zz", b""))
    if kind == "eof_first":
        blocks = [(16, 0xFF, b"", b"")] + blocks
    if kind == "data_first":
        blocks = [(16, 1, b"orphan", b"")] + blocks
    if kind == "short_leader":
        blocks[0] = (16, 0, b"SHORT", b"")
    raw = T.py_render(b"", blocks)
    if kind == "truncated":
        raw = raw[:rng.randrange(1, len(raw))]
    if kind == "random":
        raw = bytes(rng.getrandbits(8) for _ in range(rng.choice([10, 500, 21504])))
    if kind == "hugelen":
        raw = raw[:18] + bytes([1, 0xFE]) + raw[20:60]
    pad = rng.choice([0, 21504])
    return raw + bytes(max(0, pad - len(raw))), kind


def check_confined(res, stream, case, r, arena, before, allowed_prefixes, archive_rel, may_create=()):
    """files created/modified outside the allowed directories, by observation (tree) and by intent (audit log);
    may_create: directories that may come into existence (the --into target) without anything else being written in them"""
    after = P.tree(arena)
    bad = []
    for k in set(before) | set(after):
        if ((k in before) != (k in after) or before.get(k) != after.get(k)):
            if k.rstrip("/") in [a.rstrip("/") for a in allowed_prefixes] or (k.endswith("/") and k in may_create and after.get(k) is None and k in after):
                continue
            if not any(k.startswith(a) for a in allowed_prefixes):
                bad.append(k)
    for kind, path in r["events"]:
        if kind == "X":
            continue
        if kind == "W" and os.path.isdir(path):
            continue  # opening a directory for writing always fails (IsADirectoryError): nothing is created or modified
        rel = os.path.relpath(os.path.realpath(path), os.path.realpath(arena))
        if rel.startswith(".."):
            bad.append("OUTSIDE-ARENA:" + path)
        elif not any((rel + "/").startswith(a) or rel.startswith(a) for a in allowed_prefixes) and not (kind != "W" and (rel + "/") in may_create):
            bad.append("ATTEMPT:" + rel)
    if bad:
        res.violate(stream, "a file was created or modified outside the destination directory", case, sorted(set(bad))[:6], {"clause": "confined"})
    if before.get(archive_rel) != after.get(archive_rel):
        res.violate(stream, "the archive itself was modified", case, None, {"clause": "archive_modified"})


def one_disk(ctx, res, job):
    fl, raw, label, into = job
    arena = ctx.fresh_dir()
    work = os.path.join(arena, "work")
    os.makedirs(work)
    with open(os.path.join(arena, "sentinel.txt"), "w") as f:
        f.write("keep")
    ap = os.path.join(work, "h." + fl)
    with open(ap, "wb") as f:
        f.write(raw)
    tool = "moto_sdar" if fl == "sd" else "moto_fdar"
    out = {}
    before = P.tree(arena)
    # the verbosity of the real runs varies with the case (the model's report is compared for status only)
    quiet_list = (zlib.crc32(raw) + len(label)) % 3 == 0
    out["list"] = P.run_sandboxed(tool, ["-t"] + ([] if quiet_list else ["-v"]) + ["h." + fl], work, os.path.join(ctx.fresh_dir(), "log"))
    out["before"] = before
    out["after_list"] = P.tree(arena)
    args = ["-x"] + (["-v"] if (zlib.crc32(raw) // 3 + len(label)) % 2 == 0 else []) + (["--into", into] if into else []) + ["h." + fl]
    out["extract"] = P.run_sandboxed(tool, args, work, os.path.join(ctx.fresh_dir(), "log2"))
    out["arena"] = arena
    return job, out


def run(ctx, res):
    res.rule = ("byte strings of archive size obtained by mutating valid archives (table cycles, self-links, dangling and shared chains, "
                "first block 160..255, names with '/', '..', leading '/', NUL, non-ASCII, absurd lengths, random flips, truncation) and "
                "fully random tables / catalogs / bytes; both disk flavours and tapes; every case is non-trivial; distinct by bytes")
    rng = ctx.rng
    jobs = []
    for i in range(ctx.n(48, 1500)):
        fl = rng.choice(["fd", "fd", "fd", "sd"])
        # every kind of mutation at least once (twice in the thorough tier: both flavours), then at random
        raw, label = mutate_disk(rng, base_disk(rng, fl), fl, kind=DISK_KINDS[i] if i < len(DISK_KINDS) else None)
        jobs.append((fl, raw, label, rng.choice([None, None, "out"])))
    results = P.parallel(lambda j: one_disk(ctx, res, j), jobs)
    blobs = D.Blobs(ctx)
    st = res.stream("disk_mutations")
    reqs = []
    for (fl, raw, label, into), out in results:
        reqs += [D.model_list(blobs, fl, True, raw), D.model_extract(blobs, fl, False, "h." + fl, into, raw)]
    model_ans = drv(reqs)
    for k, ((fl, raw, label, into), out) in enumerate(results):
        case = {"flavour": fl, "mutation": label, "bytes": len(raw), "into": into}
        st.see((label, hash(raw), into))
        res.count(f"disk:{label}")
        for act in ("list", "extract"):
            r = out[act]
            if r["killed"]:
                res.violate("disk_mutations", f"{act} did not terminate within the bound", case, {"wall": r["wall"], "cpu": r["cpu"], "rc": r["rc"]}, {"clause": "terminates"})
            elif "MemoryError" in r["err"]:
                res.violate("disk_mutations", f"{act} ran out of memory", case, r["err"][-200:], {"clause": "memory"})
        if out["before"] != out["after_list"]:
            res.violate("disk_mutations", "list modified the file system", case, None, {"clause": "list_readonly"})
        target = "work/out/" if into else "work/"
        allowed = [f"{target}side{i}/" for i in range(4)]
        check_confined(res, "disk_mutations", case, out["extract"], out["arena"], out["after_list"], allowed, "work/h." + fl,
                       may_create=[target] if into else [])
        # model: status class and written files
        ml, mx = D.parse_disk_outcome(model_ans[2 * k]), D.parse_disk_outcome(model_ans[2 * k + 1])
        for act, mo in (("list", ml), ("extract", mx)):
            if mo is None:
                st.unmodelled += 1
                continue
            st.compared += 1
            r = out[act]
            impl = "ok0" if r["rc"] == 0 else next((p for k, p in r["events"] if k == "X"), exc_name(r["err"]))
            if r["killed"]:
                impl = "killed"
            if impl != mo["status"] and not (impl == "?" and r["rc"] not in (0, None) and not r["killed"] and mo["status"] != "ok0"):
                res.disagree("disk_mutations", dict(case, action=act), mo["status"], impl + " | " + r["err"][-160:])
            elif act == "extract":
                after = P.tree(out["arena"])
                got = {k[len("work/"):]: v[0] for k, v in after.items() if v is not None and k.startswith(target + "side")}
                want = {os.path.normpath(p): c for p, c in mo["writes"]}
                if got != want:
                    res.disagree("disk_mutations", dict(case, action="extract files"), sorted(want)[:6], sorted(got)[:6])
    res.sample({"mutation": jobs[0][2], "flavour": jobs[0][0]})

    # tapes
    tjobs = [hostile_tape(rng, kind=TAPE_KINDS[i] if i < len(TAPE_KINDS) else None) + (rng.choice([None, "out"]),) for i in range(ctx.n(80, 1500))]

    def one_tape(job):
        raw, label, into = job
        arena = ctx.fresh_dir()
        work = os.path.join(arena, "work")
        os.makedirs(work)
        with open(os.path.join(arena, "sentinel.txt"), "w") as f:
            f.write("keep")
        with open(os.path.join(work, "h.k7"), "wb") as f:
            f.write(raw)
        before = P.tree(arena)
        rl = P.run_sandboxed("moto_tar", ["-t"] + ([] if zlib.crc32(raw) % 3 == 0 else ["-v"]) + ["h.k7"], work, os.path.join(ctx.fresh_dir(), "log"))
        mid = P.tree(arena)
        rx = P.run_sandboxed("moto_tar", ["-x"] + (["-v"] if (zlib.crc32(raw) // 3 + len(label)) % 2 == 0 else []) + (["--into", into] if into else []) + ["h.k7"], work, os.path.join(ctx.fresh_dir(), "log2"))
        return job, {"list": rl, "extract": rx, "before": before, "mid": mid, "arena": arena}

    st = res.stream("tape_mutations")
    for (raw, label, into), out in P.parallel(one_tape, tjobs):
        case = {"mutation": label, "bytes": len(raw), "into": into, "head": raw[:48].hex()}
        st.see((label, hash(raw), into))
        res.count(f"tape:{label}")
        for act in ("list", "extract"):
            r = out[act]
            if r["killed"]:
                res.violate("tape_mutations", f"{act} did not terminate within the bound", case, {"wall": r["wall"], "cpu": r["cpu"], "rc": r["rc"]}, {"clause": "terminates"})
            elif "MemoryError" in r["err"]:
                res.violate("tape_mutations", f"{act} ran out of memory", case, r["err"][-200:], {"clause": "memory"})
        if out["before"] != out["mid"]:
            res.violate("tape_mutations", "list modified the file system", case, None, {"clause": "list_readonly"})
        target = "work/out/" if into else "work/"
        check_confined_tape(res, case, out, target)
        ml, mx = drv([f"tape.list v {raw.hex() or '-'}", f"tape.extract q {cps('h.k7')} {cps(into) if into else '~'} {raw.hex() or '-'}"])
        ml, mx = T.parse_outcome(ml), T.parse_outcome(mx)
        for act, mo in (("list", ml), ("extract", mx)):
            if mo is None:
                st.unmodelled += 1
                continue
            st.compared += 1
            r = out[act]
            impl = "ok0" if r["rc"] == 0 else next((p for k, p in r["events"] if k == "X"), exc_name(r["err"]))
            if impl != mo["status"] and not (impl == "?" and r["rc"] not in (0, None) and not r["killed"] and mo["status"] != "ok0"):
                res.disagree("tape_mutations", dict(case, action=act), mo["status"], impl + " | " + r["err"][-160:])
    res.sample({"tape_mutation": tjobs[0][1]})
    scaling(ctx, res)
    links_at_destination(ctx, res)


def links_at_destination(ctx, res):
    """extract over a destination that already holds links under the members' names — a symbolic link to a file elsewhere, a
    dangling symbolic link, a hard link of a file elsewhere (what an earlier result may have been replaced by): extract creates or
    modifies files only inside the destination, so the link is replaced by the member and nothing elsewhere changes (defect F30)"""
    rng = ctx.rng
    st = res.stream("links_at_destination")
    for i in range(ctx.n(18, 120)):
        kind = ["k7", "fd", "sd"][i % 3]
        arena = ctx.fresh_dir()
        work = os.path.join(arena, "work")
        els = os.path.join(arena, "elsewhere")
        os.makedirs(work)
        os.makedirs(els)
        members = [("notes.txt", b"content coming from the archive\n" * rng.choice([1, 40])), ("new.dat", bytes(rng.randrange(256) for _ in range(rng.choice([0, 5, 300])))),
                   ("third.bin", b"3")]
        for n, c in members:
            with open(os.path.join(work, n), "wb") as f:
                f.write(c)
        arc = "a." + kind
        if kind == "k7":
            r = T.tar(["-c", arc] + [n for n, _ in members], cwd=work)
        else:
            r = D.dar(kind, ["-c", arc] + [n for n, _ in members], cwd=work)
        into = rng.choice([None, "dest"])
        dest = os.path.join(work, into) if into else work
        dest = dest if kind == "k7" else os.path.join(dest, "side0")
        os.makedirs(dest, exist_ok=True)
        outside = {"precious.txt": b"precious bytes\n", "hard.bin": b"hard linked bytes"}
        for n, c in outside.items():
            with open(os.path.join(els, n), "wb") as f:
                f.write(c)
        plan = rng.choice([("symlink", "dangling", "hardlink"), ("hardlink", "symlink", "dangling"), ("dangling", "hardlink", "symlink"), ("symlink", "symlink", "regular")])
        for (n, _), how in zip(members, plan):
            t = os.path.join(dest, n.upper())
            if os.path.lexists(t):
                os.unlink(t)
            if how == "symlink":
                os.symlink(os.path.join(els, "precious.txt"), t)
            elif how == "dangling":
                os.symlink(os.path.join(els, "created-" + n), t)
            elif how == "hardlink":
                os.link(os.path.join(els, "hard.bin"), t)
            else:
                with open(t, "wb") as f:
                    f.write(b"an earlier regular result, longer than the member " * 20)
        args = ["-x"] + (["--into", into] if into else []) + [arc]
        status, out = (T.tar(args, cwd=work) if kind == "k7" else D.dar(kind, args, cwd=work))
        case = {"kind": kind, "into": into, "plan": plan}
        st.see(case)
        res.count(f"links:{kind}:{status}")
        after = {n: (open(os.path.join(els, n), "rb").read()) for n in os.listdir(els)}
        if after != outside:
            changed = sorted(k for k in set(after) | set(outside) if after.get(k) != outside.get(k))
            res.violate("links_at_destination", "a file was created or modified outside the destination directory", case, changed, {"clause": "confined"})
        if status != "ok0":
            res.violate("links_at_destination", "extract failed over earlier results at the destination", case, status, {"clause": "status"})
            continue
        for n, c in members:
            t = os.path.join(dest, n.upper())
            if os.path.islink(t) or not os.path.isfile(t) or open(t, "rb").read() != c:
                res.violate("links_at_destination", "a member was not extracted as a file of the destination", case, n, {"clause": "member_bytes"})
                break


def scaling(ctx, res):
    """"a bound proportional to the archive size": the CPU time of list and extract on a tape of 2n bytes is compared with the
    time on n bytes, for tapes far larger than 21504 bytes made of many small blocks (a reader that copies the rest of the tape at
    every block is quadratic: ratio 4) and for the largest chains a disk can hold"""
    st = res.stream("scaling")

    def tape_of(nblocks):
        # a few files, the first one made of very many small data blocks: the number of blocks, not the number of files, drives
        # the reader (extraction then writes three files only)
        blocks = [(16, 0, b"BIG     BIN" + bytes([2, 0, 0]), b"")] + [(16, 1, bytes([i % 251]) * 5, b"") for i in range(nblocks)] + [(16, 0xFF, b"", b"")]
        for i in range(2):
            blocks += [(16, 0, b"F%07d" % i + b"BIN" + bytes([2, 0, 0]), b""), (16, 1, b"x" * 40, b""), (16, 0xFF, b"", b"")]
        return T.py_render(b"", blocks)

    def cpu(tool, args, work):
        r = P.run_sandboxed(tool, args, work, os.path.join(ctx.fresh_dir(), "log"), cpu_s=120, timeout=400)
        return r

    n = 30000 if not ctx.thorough else 60000
    times = {}
    for k in (n, 2 * n):
        raw = tape_of(k)
        for act, args in (("list", ["-t", "big.k7"]), ("extract", ["-x", "--into", "out", "big.k7"])):
            work = ctx.fresh_dir()
            with open(os.path.join(work, "big.k7"), "wb") as f:
                f.write(raw)
            r = cpu("moto_tar", args, work)
            times[(act, k)] = (r["cpu"] if r["cpu"] is not None else r["wall"], r["killed"], len(raw))
    for act in ("list", "extract"):
        t1, k1, b1 = times[(act, n)]
        t2, k2, b2 = times[(act, 2 * n)]
        case = {"action": act, "bytes": [b1, b2], "cpu": [round(t1, 2), round(t2, 2)]}
        st.see(case, nontrivial=True)
        res.count(f"scaling:{act}:ratio={min(9, round(t2 / max(t1, 0.05)))}")
        # interpreter start-up is about 0.1 s: a linear reader stays far below 1 s for these sizes; quadratic growth shows as ratio ~4
        if k1 or k2 or (t2 > 1.5 and t2 > 3.2 * max(t1, 0.3)):
            res.violate("scaling", f"{act} of a tape twice as long takes far more than twice the time (not proportional to the archive size)", case,
                        {"cpu_n": t1, "cpu_2n": t2}, {"clause": "terminates", "action": act})


def check_confined_tape(res, case, out, target):
    after = P.tree(out["arena"])
    bad = []
    for k in set(out["mid"]) | set(after):
        if out["mid"].get(k) != after.get(k):
            rel = k
            if rel.rstrip("/") + "/" == target or (rel.startswith(target) and "/" not in rel[len(target):].rstrip("/")):
                continue
            bad.append(rel)
    for kind, path in out["extract"]["events"]:
        if kind == "X":
            continue
        if kind == "W" and os.path.isdir(path):
            continue
        rel = os.path.relpath(os.path.realpath(path), os.path.realpath(out["arena"]))
        if rel.startswith(".."):
            bad.append("OUTSIDE-ARENA:" + path)
        elif not (rel + "/" == target or (rel.startswith(target) and "/" not in rel[len(target):])):
            bad.append("ATTEMPT:" + rel)
    if bad:
        res.violate("tape_mutations", "a file was created or modified outside the destination directory", case, sorted(set(bad))[:6], {"clause": "confined"})
    if out["mid"].get("work/h.k7") != after.get("work/h.k7"):
        res.violate("tape_mutations", "the archive itself was modified", case, None, {"clause": "archive_modified"})
