"""C02 — disk archive round trip (.sd and .fd): create, then list/extract, is lossless."""
import os

from common import drv
import disklib as D
import diskcase as K
import tapelib as T

LEVEL_TEXT = ("Lean theorems (Props/C02.lean) about the disk model (chain walk over linked statuses, sector addressing, "
              "size formula); tie: create -> list -> extract of both real tools compared with the compiled model (status, stdout, "
              "image bytes, extracted files) and checked against the sources.")

TOF = ["BASIC", "DATA", "MODULE", "TEXT"]


def expect_strings(name):
    kind, flag, ext = D.disk_kind(name)
    tod = ("ASCII" if flag == 0xFF else "TOKEN") if kind == 0 else ("ASCII" if flag == 0xFF else "BINARY")
    return TOF[kind], tod


def gen_items(rng, big=False):
    items = []
    used = set()
    n = rng.choice([0, 1, 2, 3, 5, 9])
    for _ in range(n):
        if rng.random() < 0.15:
            items.append(("eos",))
            continue
        name = D.gen_disk_name(rng, used, dashed=True)
        size = rng.choice(D.DISK_SIZES + [rng.randint(0, 6000)])
        if big and rng.random() < 0.5:
            size = rng.choice([312000, 320280, 320281, 318240, 330000, 160000, 2040 * 79])
        items.append(("file", name, T.content_for(rng, size) if size < 50000 else (rng.randbytes(size) if rng.random() < 0.7 else bytes([rng.getrandbits(8)]) * size)))
    if rng.random() < 0.12:
        import diskengine as E
        items.insert(rng.randrange(len(items) + 1), ("file", rng.choice(E.TOO_LONG), T.content_for(rng, rng.choice([0, 1, 300]))))
    return items


def one_case(ctx, res, stream, fl, verbose, items):
    st = res.stream(stream)
    sc = K.Scenario(ctx, fl)
    srcs = []
    by_name = {}
    for it in items:
        if it[0] == "eos":
            srcs.append(ctx.rng.choice(["--eos", "--EOS", "--Eos"]))
        else:
            srcs.append(sc.put_source(it[1], it[2]))
            n, e, _, _, _ = T.split_source(it[1])
            by_name[f"{n}.{D.disk_kind(it[1])[2]}"] = (it[1], it[2])
    status, out = sc.run("-c", verbose, srcs)
    raw = sc.archive_bytes()
    case = {"flavour": fl, "verbose": verbose, "items": [("eos",) if i[0] == "eos" else (i[1], len(i[2])) for i in items]}
    st.see(case, nontrivial=any(i[0] == "file" and len(i[2]) > 0 for i in items))
    res.count(f"flavour={fl}")
    for i in items:
        if i[0] == "file":
            res.count("size_class=" + ("0" if len(i[2]) == 0 else "<=255" if len(i[2]) <= 255 else "<=2040" if len(i[2]) <= 2040 else "<=50k" if len(i[2]) <= 50000 else "huge"))
    ans = drv([D.model_create(sc.blobs, fl, verbose, sc.archive, srcs, sc.world)])
    mo = D.parse_disk_outcome(ans[0])
    K.compare_outcome(res, stream, st, case, "create", status, out, raw, mo)
    if status != "ok0" or raw is None:
        res.violate(stream, "create failed", case, {"status": status, "out": out[-300:]}, {"clause": "create_status"})
        return
    rep = K.parse_report(out, verbose)
    stored = K.stored_per_side(rep)
    # list and extract
    status_l, out_l = sc.run("-t", True)
    # one case in three extracts over the results of an earlier extraction of other versions of the same files — longer, shorter, of
    # the same length, empty: what is extracted must still be the stored bytes (seed C02d: a destination opened without truncation)
    stale = None
    if ctx.rng.random() < 0.34:
        stale = {}
        for side, names in stored.items():
            for nm in names:
                if nm in by_name and "/" not in nm and "\x00" not in nm and nm not in (".", ".."):
                    c = by_name[nm][1]
                    stale[f"side{side}/{nm}"] = ctx.rng.choice([c + b"STALE TAIL " * 40, c[: len(c) // 2], bytes(len(c)), b"", c + b"\x1a"])
        res.count("extract_over_earlier_results")
    status_x, out_x, snap = K.extract_tree(sc, verbose, stale=stale)
    ml, mx = drv([D.model_list(sc.blobs, fl, True, raw), D.model_extract(sc.blobs, fl, verbose, sc.archive, None, raw)])
    ml, mx = D.parse_disk_outcome(ml), D.parse_disk_outcome(mx)
    K.compare_outcome(res, stream, st, case, "list", status_l, out_l, None, ml)
    if mx is not None:
        st.compared += 1
        if (status_x, out_x) != (mx["status"], mx["out"]) or dict(mx["writes"]) != snap:
            res.disagree(stream, dict(case, action="extract"), {"status": mx["status"], "files": sorted(dict(mx["writes"]))},
                         {"status": status_x, "files": sorted(snap)})
    if status_l != "ok0" or status_x != "ok0":
        res.violate(stream, "list/extract failed on a created image", case, {"list": status_l, "extract": status_x}, {"clause": "read_status"})
        return
    want_tree = {}
    for side, names in stored.items():
        for nm in names:
            if nm not in by_name:
                res.violate(stream, "reported a stored file that is not a source", case, nm, {"clause": "report_names"})
                continue
            want_tree[f"side{side}/{nm}"] = by_name[nm][1]
    if snap != want_tree:
        bad = sorted(k for k in set(snap) | set(want_tree) if snap.get(k) != want_tree.get(k))
        res.violate(stream, "extracted tree differs from the files reported stored", case, {"differing": bad[:6]}, {"clause": "extract_bytes"})
    rl = K.parse_report(out_l, True)
    listed = {s["side"]: [(f["name"].rstrip() + "." + f["ext"].rstrip(), f["tof"], f["tod"], int(f["bytes"])) for f in s["files"]] for s in rl["sections"]}
    want_list = {side: [(nm,) + expect_strings(by_name[nm][0]) + (len(by_name[nm][1]),) for nm in names if nm in by_name] for side, names in stored.items()}
    for side in range(4):
        if listed.get(side, []) != want_list.get(side, []):
            res.violate(stream, "listing differs from the files reported stored (name, kind, size)", case,
                        {"side": side, "listed": listed.get(side, [])[:5], "want": want_list.get(side, [])[:5]}, {"clause": "list_facts"})
            break


def run(ctx, res):
    res.rule = ("source lists with pairwise distinct 8.3 names (1..8 / 0..3 characters, any case, ',a' on BAS, auto.bat), sizes 0, 1, "
                "254..256, 2039..2041 (block boundary), 4080/4081, tens of KB, a full side (320280) and beyond, --eos anywhere, both "
                "flavours, quiet and verbose; non-trivial = at least one non-empty file; distinct by (flavour, mode, names, sizes)")
    rng = ctx.rng
    fixed = [
        ("fd", False, [("file", "a.bas", b"x" * 11), ("file", "b.bas,a", b"y" * 300), ("eos",), ("file", "noext", b""), ("file", "auto.bat", b"z" * 2041)]),
        ("sd", True, [("file", "empty.dat", b""), ("file", "one.bin", b"\x01"), ("file", "t.txt", b"t" * 255), ("file", "u.TXT", b"u" * 256)]),
        ("fd", True, [("file", "full.dat", b"F" * 320280), ("file", "next.dat", b"n" * 10)]),
        ("sd", False, [("eos",), ("eos",), ("file", "s2.bas", b"q" * 2040), ("eos",), ("file", "s3.bin", b"r" * 2295)]),
    ]
    for fl, v, items in fixed:
        one_case(ctx, res, "fixed", fl, v, items)
    res.sample({"flavour": "fd", "items": [("a.bas", 11), ("b.bas,a", 300), ("eos",), ("noext", 0), ("auto.bat", 2041)]})
    for i in range(ctx.n(45, 700)):
        items = gen_items(rng, big=(i % 12 == 0))
        one_case(ctx, res, "random", rng.choice(["fd", "sd"]), rng.random() < 0.5, items)
        if i == 1:
            res.sample({"items": [("eos",) if it[0] == "eos" else (it[1], len(it[2])) for it in items]})
    # every block of a side as the FIRST block of a file: k blocks of filler (one or two files), then a short file, then one more
    ks = list(range(0, 157)) if ctx.thorough else [0, 1, 2, 37, 38, 39, 40, 78, 154, 155, 156]
    st = res.stream("first_block_sweep", exhaustive=True)
    for k in ks:
        items = []
        if k > 0:
            k1 = rng.randint(1, k) if rng.random() < 0.5 else k
            items.append(("file", "fill1.dat", bytes([k % 200 + 1]) * (2040 * k1 - rng.randint(0, 2039))))
            if k1 < k:
                items.append(("file", "fill2.bin", bytes([k % 100 + 7]) * (2040 * (k - k1) - rng.randint(0, 2039))))
        if rng.random() < 0.3:
            items.insert(0, ("eos",))
        items.append(("file", "tail.txt", T.content_for(rng, rng.choice([1, 100, 255, 2040, rng.randint(1, 2040)]))))
        items.append(("file", "next.bas", T.content_for(rng, rng.choice([0, 1, 3000]))))
        one_case(ctx, res, st.name, "fd" if k % 3 else "sd", k % 2 == 0, items)
        res.count(f"first_block_of_tail={k + 1 if k < 39 else k + 3}")
    top = 4100 if ctx.thorough else 0
    if top:
        st = res.stream(f"all_sizes_0..{top}", exhaustive=True)
        for n in range(0, top + 1, 1):
            if n % 8 == 0:
                one_case(ctx, res, st.name, "fd" if n % 16 else "sd", False, [("file", "f.dat", bytes([n % 251]) * n), ("file", "g.bin", bytes(n + 1) if n < 3000 else b"")])
    else:
        st = res.stream("boundary_sizes", exhaustive=True)
        for n in [0, 1, 254, 255, 256, 509, 510, 511, 2039, 2040, 2041, 2294, 2295, 2296, 4079, 4080, 4081]:
            one_case(ctx, res, st.name, "fd" if n % 2 else "sd", False, [("file", "f.dat", bytes([n % 251]) * n), ("file", "g.bin", b"g" * (n + 1))])
