"""C14 — tokenizing a listing never loses, duplicates or reorders program text."""
import itertools

from common import drv
import baslib as B

LEVEL_TEXT = ("Lean theorems (Props/C14.lean): serialisation of every keyword decodes back to the keyword (finite, whole table), "
              "decode distributes over closed segments, and the tokenizer steps preserve 'decode(done ++ cand) ++ bucket = text so "
              "far'; tie/oracle: arbitrary printable listings, all adjacent keyword pairs, small-scope exhaustive strings, through "
              "the real moto_lst2bas vs the compiled model, decoded by the Lean detokenizer and compared with the source.")

PRINTABLE = [chr(c) for c in range(32, 127)]


def run(ctx, res):
    res.rule = ("numbered listings over printable ASCII incl. keyword-after-keyword runs (GOTO, GOSUB, ONERRORGOTO), identifiers "
                "embedding keywords (TOTO, SCORE, FORK), quotes, apostrophes, REM/DATA tails, last line with and without newline; "
                "non-trivial = holds a letter; distinct by text")
    rng = ctx.rng
    kws = list(B.keywords())
    CL = {"lossless"}
    fixed = ["10 GOTO 10\n", "20 TOTO=1\n", "30 ON ERROR GOTO 5\n", "40 ONERRORGOTO5\n", "50 IFA=1THENPRINT\"x\"ELSEGOSUB100\n", "60 X=1",
             "70 SCORE=SCORE+1:FORK=1TO10\n", "80 REM it's a test: print \"a\n", "90 DATA 1,2,\"three\",FOUR\n", "100 'comment goto\n",
             "110 print\"a\"\"b\"c\n", "120 A$=LEFT$(B$,3)+MID$(C$,1,2)\n", "57\n", "130  two spaces\n", "140 ELSE:ELSE\n", "150 a:else b\n"]
    st = res.stream("fixed")
    for t in fixed:
        status, bas = B.lst2bas(ctx, t)
        st.see(t)
        B.check_program(res, "fixed", st, {"text": t}, t, status, bas, CL)
    res.sample({"text": fixed[0]})
    st = res.stream("random_printable")
    for i in range(ctx.n(400, 6000)):
        lines = []
        for k in range(rng.choice([1, 1, 2, 4])):
            r = rng.random()
            if r < 0.4:
                body = "".join(rng.choice(PRINTABLE) for _ in range(rng.choice([0, 1, 5, 20, 60]) if rng.random() < 0.95 else rng.choice([250, 256, 300, 700])))
            else:
                body = "".join(rng.choice(kws + ["A", "X1", " ", " ", "\"", ":", "10", "to", "Go", "$", "(", ")", "'"]) for _ in range(rng.choice([1, 2, 4, 9]) if rng.random() < 0.95 else rng.choice([60, 130])))
            lines.append(f"{rng.randint(1, 65535)}{rng.choice([' ', ' ', ''])}{body}")
        text = "\n".join(lines) + ("\n" if rng.random() < 0.8 else "")
        status, bas = B.lst2bas(ctx, text)
        st.see(text, nontrivial=any(c.isalpha() for c in text))
        B.check_program(res, "random_printable", st, {"text": text}, text, status, bas, CL)
        if i == 2:
            res.sample({"text": text})
    # all ordered pairs of keywords run together, with and without a follower
    st = res.stream("keyword_pairs", exhaustive=True)
    pairs = list(itertools.product(kws, repeat=2))
    if not ctx.thorough:
        pairs = pairs[ctx.seed % 7::7]
        st.exhaustive = False
    for i in range(0, len(pairs), 60):
        chunk = pairs[i:i + 60]
        text = "".join(f"{k + 1} {a}{b}{rng.choice(['', '1', 'X', ' Y'])}\n" for k, (a, b) in enumerate(chunk))
        status, bas = B.lst2bas(ctx, text)
        st.see(text)
        B.check_program(res, "keyword_pairs", st, {"pairs": [a + b for a, b in chunk][:5]}, text, status, bas, CL)
    # small scope: all strings up to length L over a 9-symbol alphabet
    L = 5 if ctx.thorough else 4
    st = res.stream(f"exhaustive_len<={L}", exhaustive=True)
    sym = ["T", "O", "G", "N", "E", "R", " ", "\"", "1"]
    bodies = ["".join(t) for k in range(L + 1) for t in itertools.product(sym, repeat=k)]
    for i in range(0, len(bodies), 500):
        chunk = bodies[i:i + 500]
        text = "".join(f"{k + 1} {b}\n" for k, b in enumerate(chunk))
        status, bas = B.lst2bas(ctx, text)
        st.see(text)
        B.check_program(res, st.name, st, {"bodies": chunk[:4]}, text, status, bas, CL)


def fuzz_oracle(ctx, res, data):
    """the property's oracles on an input found by the coverage-guided search (tools/fuzz_diff.py, target tokenize)"""
    text = "".join(chr(b & 0x7F) for b in data)
    if "\x00" in text:
        return
    st = res.stream("fuzz_tokenize")
    status, bas = B.lst2bas(ctx, text)
    B.check_program(res, "fuzz_tokenize", st, {"text": text}, text, status, bas, {"structure", "lossless"})

