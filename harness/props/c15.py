"""C15 — ASCII BASIC conversion round-trips listings line for line."""
import itertools
import os

from common import cps, hx, unhx, drv, run_cli

LEVEL_TEXT = ("Lean theorems (Props/C15.lean): listing->ASCII BASIC has the stated shape and is 7-bit; ASCII BASIC->listing "
              "equals the non-empty-lines specification for every byte file and both line endings, never an empty line; "
              "the round trip returns the normalised non-blank lines. Tie: differential CLI runs of moto_lst2bas and "
              "moto_bas2lst on generated texts / byte files, exhaustive over a 4-symbol alphabet.")

CHARS = list("AZaz09 \t\"$:") + ["\x0b", "\x0c", "\x1c", "\x1f", "\x85", "\xa0", "\u2028", "\u3000", "é", "€", "\x7f", "\x00",
                                  "\x80", "\x81", "\xff", "\u0100"]   # the first code points that are not 7-bit


LST_NAMES = [("prog.", "lst", ",a"), ("PROG.", "LST", ",A"), ("my.prog.v2.", "Lst", ",a"), (".", "lst", ",A"), ("a b.", "lsT", ",a")]


def lst2bas(ctx, text):
    from moto_lst2bas.lst2bas import ListingToBasicCli
    d = ctx.fresh_dir()
    # the name of the listing varies too (case of the extension, more dots, a dot-file): the converter finds the
    # extension after the LAST dot, in either case, and writes <name minus 3 characters>bas
    stem, ext, suffix = LST_NAMES[(len(text) + sum(map(ord, text[:8]))) % len(LST_NAMES)]
    p = os.path.join(d, stem + ext)
    with open(p, "wb") as f:
        f.write(text.encode("utf-8"))
    bas = os.path.join(d, stem + "bas")
    if len(text) % 4 == 1:
        # an older, longer result at the destination is replaced
        with open(bas, "wb") as f:
            f.write(b"\rOLDER RESULT " * 400)
    status, _ = run_cli(ListingToBasicCli().run, [p + suffix])
    data = open(bas, "rb").read() if os.path.exists(bas) else None
    return status, data, d


BAS_NAMES = [("conv.", "bas", ",a"), ("CONV.", "BAS", ",A"), ("my.prog.v2.", "Bas", ",a"), ("a b.", "baS", ",A"), ("dir.bas/in.", "bas", ",a")]
NEIGHBOURS = [b"\r10 A", b"\r10 A\r", b"20 B\n", b"", b"X"]     # with and without a final separator: state must not leak into the next file


def bas2lst(ctx, data, dos, d=None):
    """one ASCII BASIC file through the CLI; its name varies (case of extension and of the ,a option, more dots, a directory
    whose name ends in .bas) and, one time out of three, another file is converted by the same command before or after it"""
    from moto_bas2lst.bas2lst import BasicToListingCli
    d = d or ctx.fresh_dir()
    h = len(data) + sum(data[:16])
    stem, ext, suffix = BAS_NAMES[h % len(BAS_NAMES)]
    p = os.path.join(d, stem + ext)
    os.makedirs(os.path.dirname(p), exist_ok=True)
    with open(p, "wb") as f:
        f.write(data)
    argv = [p + suffix]
    other = None
    if h % 3 == 0:
        other = os.path.join(d, "neighbour.bas")
        odata = NEIGHBOURS[h % len(NEIGHBOURS)]
        with open(other, "wb") as f:
            f.write(odata)
        argv = [other + ",a", p + suffix] if h % 2 else [p + suffix, other + ",a"]
    lst = os.path.join(d, stem + "lst")
    if h % 4 == 2:
        with open(lst, "wb") as f:
            f.write(b"older, longer listing\n" * 300)
    status, _ = run_cli(BasicToListingCli().run, argv + (["--dos"] if dos else []))
    out = open(lst, "rb").read() if os.path.exists(lst) else None
    if other is not None and status == "ok0":
        eol = b"\r\n" if dos else b"\n"
        want = b"".join(l + eol for l in odata.replace(b"\r", b"\n").split(b"\n") if l)
        got = open(other[:-3] + "lst", "rb").read() if os.path.exists(other[:-3] + "lst") else None
        if got != want:
            return "NeighbourFileWrong", out
    return status, out


def text_case(ctx, res, stream, text):
    st = res.stream(stream)
    status, bas, d = lst2bas(ctx, text)
    dos = ctx.rng.random() < 0.5
    m, rt = drv([f"conv.toascii {cps(text)}", f"spec.roundtrip {1 if dos else 0} {cps(text)}"])
    case = {"text": text, "dos": dos}
    st.see(case, nontrivial=("\n" in text or "\r" in text) and any(ord(c) > 32 for c in text))
    st.compared += 1
    res.count("nonascii" if any(ord(c) > 127 for c in text) else "ascii")
    if status != "ok0" or bas is None or bas != unhx(m):
        res.disagree(stream, case, m, [status, None if bas is None else bas.hex()])
    if status != "ok0" or bas is None:
        res.violate(stream, "conversion failed", case, status, {"clause": "status"})
        return
    if not bas.startswith(b"\r") or any(b >= 128 for b in bas) or not bas.endswith(b"\r"):
        res.violate(stream, "ASCII BASIC file is not CR-framed 7-bit", case, bas.hex(), {"clause": "seven_bit_cr"})
    status2, lst = bas2lst(ctx, bas, dos)
    if status2 != "ok0" or lst is None:
        res.violate(stream, "back conversion failed", case, status2, {"clause": "status"})
    elif lst != unhx(rt):
        res.violate(stream, "round trip does not return the non-blank normalised lines", case,
                    {"impl": lst.hex(), "spec": rt}, {"clause": "roundtrip"})


def bytes_cases(ctx, res, stream, datas, dos):
    st = res.stream(stream)
    outs = [bas2lst(ctx, d, dos) for d in datas]
    k = 1 if dos else 0
    ans = drv([x for d in datas for x in (f"conv.tolisting {k} {hx(d)}", f"spec.tolisting {k} {hx(d)}")])
    eol = b"\r\n" if dos else b"\n"
    for i, d in enumerate(datas):
        status, out = outs[i]
        m, s = ans[2 * i], ans[2 * i + 1]
        case = {"data": d.hex(), "dos": dos}
        st.see(case, nontrivial=(b"\r" in d or b"\n" in d) and any(b not in (10, 13) for b in d))
        st.compared += 1
        if status != "ok0" or out is None or out != unhx(m):
            res.disagree(stream, case, m, [status, None if out is None else out.hex()])
        if status != "ok0" or out is None:
            res.violate(stream, "conversion failed", case, status, {"clause": "status"})
            continue
        if out != unhx(s):
            res.violate(stream, "listing is not the file's non-empty lines", case, {"impl": out.hex(), "spec": s}, {"clause": "to_listing"})
        else:
            parts = out.split(eol)
            if parts[-1] != b"" or any(p == b"" for p in parts[:-1]):
                res.violate(stream, "an empty or unterminated line was emitted", case, out.hex(), {"clause": "empty_line"})


def gen_text(rng):
    lines = []
    for _ in range(rng.choice([0, 1, 2, 4, 7])):
        k = rng.choice([0, 0, 1, 3, 8, 20]) if rng.random() < 0.97 else rng.choice([254, 255, 256, 257, 300, 1000])   # DATA lines can be long
        l = "".join(rng.choice(CHARS) for _ in range(k))
        l += rng.choice(["", "", " ", "  \t", "\x0c", "\xa0", "\x1f"])
        lines.append(l)
    eol = rng.choice(["\n", "\n", "\r\n", "\r"])
    t = eol.join(lines)
    if lines and rng.random() < 0.7:
        t += eol
    if rng.random() < 0.1:
        t = t.replace(eol, rng.choice(["\n", "\r\n", "\r"]), 1)
    return t


def run(ctx, res):
    res.rule = ("text listings with blank lines, trailing blanks/tabs/FF/NBSP, non-ASCII characters, missing final newline and "
                "CR/LF/CRLF mixes; ASCII BASIC byte files with any mix of CR and LF; --dos on/off; non-trivial = has a line "
                "break and a printable character; distinct by content")
    import baslib
    baslib.conv_cli_stream(ctx, res, ctx.n(120, 1500))
    fixed = ["10 PRINT\n20 END\n", "", "\n\n", "a  \nb\t\n", "é10 Aé\n", "x", "a\r\nb\rc\n", "  \n \x0c\n10 A\xa0\n", "a\u2028b\n", "10 A\x1f\n\x1c\n"]
    for t in fixed:
        text_case(ctx, res, "fixed", t)
    res.sample({"text": fixed[6]})
    for i in range(ctx.n(800, 6000)):
        t = gen_text(ctx.rng)
        text_case(ctx, res, "texts", t)
        if i == 5:
            res.sample({"text": t})
    datas = []
    for _ in range(ctx.n(800, 6000)):
        k = ctx.rng.choice([0, 1, 2, 5, 12, 40])
        if ctx.rng.random() < 0.6:
            datas.append(bytes(ctx.rng.choice([13, 10, 13, 10, 65, 32, 34, 0, 200, 255, 9]) for _ in range(k)))
        else:
            # "any ASCII BASIC file": every byte value, control characters (1A, the end-of-file mark of other systems, 1B, 7F) included
            datas.append(bytes(ctx.rng.choice([13, 10, 0x1A, 0x1B, 0x7F, 4, 3, ctx.rng.randrange(256), ctx.rng.randrange(256), ctx.rng.randrange(32, 127)]) for _ in range(k)))
    bytes_cases(ctx, res, "byte_files", datas[: len(datas) // 2], False)
    bytes_cases(ctx, res, "byte_files", datas[len(datas) // 2:], True)
    res.sample({"data": datas[3].hex()})
    # long files: every buffer boundary a reader could use (2^k up to 64 KiB) falls on a separator, just after one, or just before one
    long = []
    for w in ([3, 63, 127, 255, 4095] if not ctx.thorough else [1, 3, 7, 15, 31, 63, 127, 255, 511, 1023, 2047, 4095, 8191]):
        for sep in (b"\r", b"\n", b"\r\n"):
            width = w + 1 - len(sep)
            if width < 1:
                continue
            unit = bytes([65 + w % 26]) * width + sep
            total = ctx.rng.choice([8300, 8300, 16500, 66000]) if ctx.thorough else 8300
            body = unit * (total // len(unit) + 2)
            for shift in ([0, 1] if not ctx.thorough else [0, 1, 2, len(unit) - 1]):
                long.append(b"Z" * shift + body)
    long.append(b"".join(b"%d REM %s\r" % (10 * (i + 1), b"*" * 55) for i in range(70)))
    bytes_cases(ctx, res, "long_files", long[::2], False)
    bytes_cases(ctx, res, "long_files", long[1::2], True)
    text_case(ctx, res, "long_files", "".join("%d REM %s\n" % (10 * (i + 1), "*" * (63 - len(str(10 * (i + 1))) - 5)) for i in range(140)))
    L = 9 if ctx.thorough else 6
    st = res.stream(f"exhaustive_bytes_len<={L}", exhaustive=True)
    allb = [bytes(t) for k in range(L + 1) for t in itertools.product([13, 10, 65, 32], repeat=k)]
    for dos in (False, True):
        for i in range(0, len(allb), 20000):
            bytes_cases(ctx, res, st.name, allb[i:i + 20000], dos)
