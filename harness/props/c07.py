"""C07 — any well-formed third-party disk image is listed and extracted exactly."""
import os

import disklib as D
import diskcase as K
import diskengine as E

LEVEL_TEXT = ("Lean theorems (Props/C07.lean) about the reader model (walk over a linked chain returns the chain, sector addressing, "
              "size formula, load side counts); tie/oracle: images emitted by an independent writer (Python twin checked byte-identical "
              "to Lean's Spec.Dos.render) over side counts, allocation permutations, chain lengths 1..157, last-block sectors 1..8, "
              "last-sector bytes 0..255, deleted entries, all catalog sectors, fillers; real list/extract vs model vs abstract files.")

CL = {"read_status", "extract_exact", "list_exact", "report_parse"}


def one_image(ctx, res, stream, fl, asides, blobs, twin):
    raw = E.render_image(ctx, blobs, asides, fl, check_twin=twin, res=res, stream=stream)
    sc = K.Scenario(ctx, fl)
    with open(os.path.join(sc.dir, sc.archive), "wb") as f:
        f.write(raw)
    case = {"flavour": fl, "sides": len(asides), "files": [len(a["files"]) for a in asides], "deleted": [len(a["deleted"]) for a in asides],
            "chains": [[len(f["chain"]) for f in a["files"]][:6] for a in asides]}
    st = res.stream(stream)
    st.see((raw[:0], case, hash(raw)), nontrivial=any(a["files"] for a in asides))
    res.count(f"sides={len(asides)}")
    res.count(f"flavour={fl}")
    E.check_read_reports(ctx, res, stream, sc, raw, CL, case)


def run(ctx, res):
    res.rule = ("images from an independent writer: emulator images of 1, 2 or 4 sides and 4-sided SDDrive images, blocks allocated in "
                "any order, chain lengths 1..157, last-block sector counts 1..8, last-sector byte counts 0..255, deleted entries "
                "(arbitrary stale bytes), entries in all 14 catalog sectors, filler bytes; non-trivial = at least one live file; "
                "distinct by image bytes")
    rng = ctx.rng
    blobs = D.Blobs(ctx)
    # fixed: a deleted entry with a stale first-block byte >= 160 next to live files; last sector 0 and 255 bytes
    a = {"files": [{"slot": 5, "name": b"LIVE    ", "ext": b"BAS", "kind": 0, "flag": 0, "chain": [7, 3, 150], "lastSectors": 1, "lastBytes": 0, "content": b"L" * (255 * 16)},
                   {"slot": 111, "name": b"Z       ", "ext": b"   ", "kind": 9, "flag": 0xFF, "chain": [1], "lastSectors": 8, "lastBytes": 255, "content": b"Z" * (255 * 8)}],
         "deleted": [(0, bytes([0]) + b"LDNAME BAS" + bytes([0, 0, 0xFF, 0, 1]) + bytes(16)), (6, bytes([0]) + bytes([0xC8] * 31))],
         "reserved": [0, 40, 41, 100], "filler": 0xE5, "tableTail": 0xFF, "recPad": 0, "byte0": 0}
    one_image(ctx, res, "fixed", "fd", [a], blobs, True)
    res.sample({"files": ["LIVE.BAS chain [7,3,150] lastSectors 1 lastBytes 0", "Z. chain [1] 8 sectors 255 bytes"], "deleted_first_block": [255, 200]})
    # fixed: one file owning all 157 allocatable blocks (shuffled), and a side split 79 + 78
    allb = [b for b in range(160) if b not in (0, 40, 41)]
    sh = allb[:]
    rng.shuffle(sh)
    big = {"files": [{"slot": 111, "name": b"WHOLE   ", "ext": b"DAT", "kind": 1, "flag": 0, "chain": sh, "lastSectors": 5, "lastBytes": 77,
                      "content": bytes(range(256)) * ((255 * (8 * 156 + 4) + 77) // 256) + bytes(range((255 * (8 * 156 + 4) + 77) % 256))}],
           "deleted": [], "reserved": [0, 40, 41], "filler": 0xE5, "tableTail": 0, "recPad": 0xFF, "byte0": 0}
    sh2 = allb[:]
    rng.shuffle(sh2)
    two = {"files": [{"slot": 0, "name": b"HALF1   ", "ext": b"BIN", "kind": 2, "flag": 0, "chain": sh2[:79], "lastSectors": 8, "lastBytes": 255, "content": b"\x11" * (255 * 8 * 79)},
                     {"slot": 56, "name": b"HALF2   ", "ext": b"BIN", "kind": 2, "flag": 0, "chain": sh2[79:], "lastSectors": 1, "lastBytes": 1, "content": b"\x22" * (255 * 8 * 77 + 1)}],
           "deleted": [], "reserved": [0, 40, 41], "filler": 0, "tableTail": 0xFF, "recPad": 0, "byte0": 0}
    one_image(ctx, res, "fixed", "fd", [big, two], blobs, True)
    for i in range(ctx.n(24, 500)):
        fl = rng.choice(["fd", "fd", "fd", "sd"])
        n = 4 if fl == "sd" else rng.choice([1, 2, 4])
        asides = [E.gen_aside(rng) for _ in range(n)]
        one_image(ctx, res, "random", fl, asides, blobs, twin=(i % 3 == 0))
    if ctx.thorough:
        st = res.stream("grid_chain_x_lastSectors_x_lastBytes", exhaustive=True)
        for n in (1, 2, 3, 8, 79, 156, 157):
            for ls in range(1, 9):
                for lb in (0, 1, 127, 254, 255):
                    avail = [b for b in range(160) if b not in (0, 40, 41)]
                    rng.shuffle(avail)
                    size = 255 * (8 * (n - 1) + ls - 1) + lb
                    a = {"files": [{"slot": rng.randrange(112), "name": b"GRID    ", "ext": b"DAT", "kind": 1, "flag": 0, "chain": avail[:n], "lastSectors": ls,
                                    "lastBytes": lb, "content": bytes([n % 251]) * size}], "deleted": [], "reserved": [0, 40, 41], "filler": 0xE5,
                         "tableTail": 0, "recPad": 0xFF, "byte0": 0}
                    one_image(ctx, res, st.name, "fd", [a], blobs, False)
