"""C03 — created tapes conform to the MO5 .k7 format as read by an independent decoder."""
import os

from common import cps, hx, drv
import tapelib as T

LEVEL_TEXT = ("Lean theorems (Props/C03.lean) about the injector model: frame/length/checksum laws, chunking, leader layout, "
              "kind/mode table, image = reference encoding + zero padding. Tie: created archives are compared with the compiled "
              "model, with the Lean reference encoder Spec.K7.tape and decoded by an independent strict Python decoder.")

LONG = ["LONGFILENAME.EXTENSION", "verylongname9.bas", "n.basic", "abcdefghi", "a.b.c.d", "name.bas,a", "UPPERlower12.csv", "x.CSV", "nine_char.txt", "e.", "twelvechars_.bas,A"]


def one_case(ctx, res, stream, files, verbose):
    st = res.stream(stream)
    d = ctx.fresh_dir()
    srcs, world = [], []
    for name, content in files:
        path = T.split_source(name)[4]
        with open(os.path.join(d, path), "wb") as f:
            f.write(content)
        srcs.append(name)
        world.append((path, content))
    status, out = T.tar(["-c"] + (["-v"] if verbose else []) + ["t.k7"] + srcs, cwd=d)
    ap = os.path.join(d, "t.k7")
    tape = open(ap, "rb").read() if os.path.exists(ap) else None
    spec = [T.split_source(s)[:4] + (c,) for s, (_, c) in zip(srcs, files)]
    ans = drv([f"tape.inject {'v' if verbose else 'q'} {cps('t.k7')} {len(srcs)} " + " ".join(cps(s) for s in srcs)
               + "".join(f" {cps(p)} {hx(c)}" for p, c in world), "k7.tape " + T.sfile_args(spec)])
    mo = T.parse_outcome(ans[0])
    case = {"files": [(n, len(c)) for n, c in files], "verbose": verbose}
    st.see(case, nontrivial=len(files) > 0)
    if mo is None:
        st.unmodelled += 1
    else:
        st.compared += 1
    res.count(f"files={min(len(files), 9)}")
    if any(len(T.split_source(n)[0]) > 8 or len(T.split_source(n)[1]) > 3 for n, _ in files):
        res.count("overlong_name")
    impl_writes = [("t.k7", tape)] if tape is not None else []
    if mo is not None and (status, out, impl_writes) != (mo["status"], mo["out"], mo["writes"]):
        res.disagree(stream, case, {"status": mo["status"], "out": mo["out"]}, {"status": status, "out": out})
    if status != "ok0" or tape is None:
        res.violate(stream, "create failed although the sources fit", case, {"status": status}, {"clause": "create_status"})
        return
    if len(tape) != 21504:
        res.violate(stream, "archive is not 21504 bytes", case, len(tape), {"clause": "length"})
    if tape.hex() != ans[1]:
        res.violate(stream, "archive is not the reference .k7 encoding", case,
                    {"first_diff": next((i for i, (a, b) in enumerate(zip(tape, bytes.fromhex(ans[1]))) if a != b), -1)}, {"clause": "format"})
    dec, err = T.strict_decode(tape)
    if dec is None:
        res.violate(stream, "independent decoder rejects the archive: " + err, case, err, {"clause": "decoder"})
    else:
        want = [((n + " " * 8)[:8].encode(), (e + " " * 3)[:3].encode(), k, m, c) for n, e, k, m, c in spec]
        if dec != want:
            res.violate(stream, "decoded files differ from the sources", case,
                        {"decoded": [(a, b, k, m, len(c)) for a, b, k, m, c in dec][:4], "want": [(a, b, k, m, len(c)) for a, b, k, m, c in want][:4]}, {"clause": "decoder_files"})


def frontier_case(ctx, res, files):
    """around the capacity: whether create accepts is C09's question; whatever archive it writes must be a .k7"""
    stream = "capacity_frontier"
    st = res.stream(stream)
    d = ctx.fresh_dir()
    srcs, world = [], []
    for name, content in files:
        with open(os.path.join(d, name), "wb") as f:
            f.write(content)
        srcs.append(name)
        world.append((name, content))
    status, out = T.tar(["-c", "t.k7"] + srcs, cwd=d)
    ap = os.path.join(d, "t.k7")
    tape = open(ap, "rb").read() if os.path.exists(ap) else None
    ans = drv([f"tape.inject q {cps('t.k7')} {len(srcs)} " + " ".join(cps(s) for s in srcs) + "".join(f" {cps(p)} {hx(c)}" for p, c in world)])
    mo = T.parse_outcome(ans[0])
    case = {"files": [(n, len(c)) for n, c in files], "enc_size": T.enc_size([c for _, c in files])}
    st.see(case)
    if mo is None:
        st.unmodelled += 1
    else:
        st.compared += 1
    impl_writes = [("t.k7", tape)] if tape is not None else []
    if mo is not None and (status, out, impl_writes) != (mo["status"], mo["out"], mo["writes"]):
        res.disagree(stream, case, {"status": mo["status"], "out": mo["out"]}, {"status": status, "out": out})
    if tape is None:
        return
    if len(tape) != 21504:
        res.violate(stream, "archive is not 21504 bytes", case, len(tape), {"clause": "length"})
        return
    dec, err = T.strict_decode(tape)
    if dec is None:
        res.violate(stream, "independent decoder rejects the archive: " + err, case, err, {"clause": "decoder"})
    else:
        spec = [T.split_source(n)[:4] + (c,) for n, c in files]
        want = [((n + " " * 8)[:8].encode(), (e + " " * 3)[:3].encode(), k, m, c) for n, e, k, m, c in spec]
        if dec != want:
            res.violate(stream, "decoded files differ from the sources", case, {"decoded": len(dec), "want": len(want)}, {"clause": "decoder_files"})


def run(ctx, res):
    res.rule = ("source lists accepted by create, including names longer than 8.3, every kind (BAS, BAS,a, CSV, other), contents of "
                "all size classes and checksum-wrap payloads; non-trivial = at least one file; distinct by names, sizes, contents")
    rng = ctx.rng
    fixed = [[("a.bas", b"x"), ("b.bas,a", b"y" * 254), ("c.csv", b"z" * 255), ("d", b""), ("LONGFILENAME.EXTENSION", b"q" * 300)],
             [("sum.bin", bytes([k]) * 3) for k in ()] or [("w%d.bin" % k, bytes([k, 256 - k if k else 0])) for k in (0, 1, 128, 255)],
             [("twelvechars_.bas,A", b"\r10 A\r")]]
    for files in fixed:
        one_case(ctx, res, "fixed", files, False)
    res.sample({"files": [(n, len(c)) for n, c in fixed[0]]})
    for i in range(ctx.n(150, 2500)):
        used = set()
        files = []
        budget = 21000
        for _ in range(rng.choice([0, 1, 2, 3, 6, 10])):
            if rng.random() < 0.3:
                name = rng.choice(LONG)
                if T.catalog_name(name) in used or any(T.split_source(name)[4] == T.split_source(n)[4] for n, _ in files):
                    continue
                used.add(T.catalog_name(name))
            else:
                name = T.gen_name(rng, used)
                if any(T.split_source(name)[4] == T.split_source(n)[4] for n, _ in files):
                    continue
            size = rng.choice(T.SIZES + [rng.randint(0, 2500)])
            if T.enc_size([bytes(size)]) > budget:
                continue
            c = T.content_for(rng, size)
            budget -= T.enc_size([c])
            files.append((name, c))
        one_case(ctx, res, "random", files, rng.random() < 0.3)
        if i == 4:
            res.sample({"files": [(n, len(c)) for n, c in files]})
    import props.c09 as C09
    for target in (range(21480, 21520) if ctx.thorough else range(21498, 21510)):
        for _ in range(3 if ctx.thorough else 1):
            nfiles = rng.choice([1, 2, 3])
            contents = C09.tuned(rng, target, nfiles, rng.choice([0, nfiles - 1]))
            if contents is not None:
                frontier_case(ctx, res, [(f"f{i}.bin", c) for i, c in enumerate(contents)])
    st = res.stream("checksum_wrap_0..255", exhaustive=True)
    for k in range(256):
        one_case(ctx, res, st.name, [("s%d.bin" % k, bytes([k])), ("t.bin", bytes([k, 255, 1]))], False)
