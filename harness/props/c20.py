"""C20 — archive creation is a pure function of its sources; reading modifies nothing."""
import os
import shutil

import disklib as D
import diskengine as E
import tapelib as T
import proc as P

LEVEL_TEXT = ("Lean theorems (Props/C20.lean): the archive written by the model's create depends on the world only through the contents "
              "of the sources, not on verbosity nor on the archive path; list has no write effect, extract writes only under the "
              "destination; tie/oracle: paired real runs (twice, quiet/verbose, relative/absolute/dotted-directory paths, target "
              "absent/present) must give byte-identical archives, and archives and sources are hashed and mtime-checked around reads.")


def make_sources(d, files, sub=""):
    os.makedirs(os.path.join(d, sub), exist_ok=True)
    for name, content in files:
        with open(os.path.join(d, sub, T.split_source(name)[4]), "wb") as f:
            f.write(content)


def create(kind, d, arc, srcs, verbose):
    v = ["-v"] if verbose else []
    if kind == "k7":
        return T.tar(["-c"] + v + [arc] + srcs, cwd=d)
    return D.dar(kind, ["-c"] + v + [arc, "--"] + srcs, cwd=d)


def run(ctx, res):
    res.rule = ("source lists of C01/C02 x {run twice, quiet/verbose, cwd-relative / absolute / dotted-directory paths, target absent / "
                "present with arbitrary old bytes}; archives x {list, extract} repeated; non-trivial = at least one file; distinct by case")
    rng = ctx.rng
    st = res.stream("paired_create")
    for i in range(ctx.n(24, 400)):
        kind = rng.choice(["k7", "fd", "sd", "k7"])
        used = set()
        files = []
        for _ in range(rng.choice([0, 1, 2, 4])):
            name = T.gen_name(rng, used) if kind == "k7" else D.gen_disk_name(rng, used)
            if any(T.split_source(name)[4].lower() == T.split_source(n)[4].lower() for n, _ in files):
                continue
            files.append((name, T.content_for(rng, rng.choice([0, 1, 254, 255, 300, 1800, 2040, 2041, 4080, 5000]))))
        case = {"kind": kind, "files": [(n, len(c)) for n, c in files]}
        st.see(case, nontrivial=len(files) > 0)
        variants = {}
        layouts = ["plain", "again", "verbose", "subdir", "dotted", "absolute", "old_target_short", "old_target_long", "old_archive"]
        for lay in layouts:
            d = ctx.fresh_dir()
            arc = "out." + kind
            sub = {"subdir": "src", "dotted": "my.dir/v1.2"}.get(lay, "")
            make_sources(d, files, sub)
            if lay == "absolute":
                srcs = [os.path.join(d, n) for n, _ in files]
            else:
                srcs = [os.path.join(sub, n) if sub else n for n, _ in files]
            if lay == "old_target_short":
                open(os.path.join(d, arc), "wb").write(b"old")
            if lay == "old_target_long":
                open(os.path.join(d, arc), "wb").write(bytes([0xAA]) * 3000000)
            if lay == "old_archive":
                # a genuine older archive of the same kind, made from other (larger) sources, sits at the target path
                od = os.path.join(d, "older")
                os.makedirs(od)
                with open(os.path.join(od, "older1.dat"), "wb") as f:
                    f.write(bytes([0x5A]) * 6000)
                with open(os.path.join(od, "older2.bin"), "wb") as f:
                    f.write(bytes(range(256)) * 9)
                create(kind, d, arc, ["older/older1.dat", "older/older2.bin"], False)
            before = P.tree(d)
            status, out = create(kind, d, arc, srcs, lay == "verbose")
            after = P.tree(d)
            changed = sorted(k for k in set(before) | set(after) if before.get(k) != after.get(k) and k != arc)
            if changed:
                res.violate("paired_create", "create altered a source file or created another file", dict(case, layout=lay), changed[:5], {"clause": "sources_untouched"})
            variants[lay] = (status, after.get(arc, (None,))[0])
        ref = variants["plain"]
        if ref[0] != "ok0":
            res.violate("paired_create", "create failed", case, ref[0], {"clause": "status"})
            continue
        for lay, v in variants.items():
            if v != ref:
                res.violate("paired_create", f"the archive differs when created with variant '{lay}'", dict(case, layout=lay),
                            {"status": v[0], "first_diff": None if v[1] is None else next((k for k, (a, b) in enumerate(zip(v[1], ref[1])) if a != b), "length")},
                            {"clause": "pure_function", "variant": lay})
        res.count(f"kind={kind}")
        if i == 0:
            res.sample({"kind": kind, "files": case["files"], "variants": layouts})
        # reading modifies nothing
        d = ctx.fresh_dir()
        arc = "rd." + kind
        make_sources(d, files)
        create(kind, d, arc, [n for n, _ in files], False)
        os.utime(os.path.join(d, arc), ns=(10**18, 10**18))
        before = P.tree(d)
        for rep in range(2):
            for action in (["-t"], ["-t", "-v"], ["-x", "--into", "xout"], ["-x", "-v", "--into", "xout"]):
                if kind == "k7":
                    T.tar(action + [arc], cwd=d)
                else:
                    D.dar(kind, action + [arc], cwd=d)
        after = P.tree(d)
        changed = sorted(k for k in set(before) | set(after) if before.get(k) != after.get(k) and not k.startswith("xout"))
        if changed:
            res.violate("paired_create", "list/extract altered the archive or a source file", case, changed[:5], {"clause": "read_only"})
