"""C20 — archive creation is a pure function of its sources; reading modifies nothing."""
import os
import shutil

import disklib as D
import diskengine as E
import tapelib as T
import proc as P
from common import cps, drv

LEVEL_TEXT = ("Lean theorems (Props/C20.lean): the archive written by the model's create depends on the world only through the contents "
              "of the sources, not on verbosity nor on the archive path; list has no write effect, extract writes only under the "
              "destination; tie/oracle: paired real runs (twice, quiet/verbose, relative/absolute/dotted-directory paths, target "
              "absent/present) must give byte-identical archives, and archives and sources are hashed and mtime-checked around reads.")


def make_sources(d, files, sub=""):
    os.makedirs(os.path.join(d, sub), exist_ok=True)
    for name, content in files:
        with open(os.path.join(d, sub, T.split_source(name)[4]), "wb") as f:
            f.write(content)


def create(kind, d, arc, srcs, verbose):
    v = ["-v"] if verbose else []
    if kind == "k7":
        return T.tar(["-c"] + v + [arc] + srcs, cwd=d)
    return D.dar(kind, ["-c"] + v + [arc, "--"] + srcs, cwd=d)


def self_member(ctx, res):
    """an archive holding a member that carries the archive's own name: extraction must leave the archive as it is
    (reading modifies nothing), wherever the destination makes the member's path the archive's path"""
    rng = ctx.rng
    st = res.stream("self_member")
    # (kind, archive path relative to the run directory, source names in order, the member that is named like the archive)
    shapes = [("k7", "GAMES.K7", ["intro.bas", "games.k7", "after.dat"]), ("k7", "arc/TAPE.K7", ["tape.k7"]), ("k7", "A.K7", ["x.bin", "a.k7"]),
              ("sd", "side0/DISK.SD", ["first.dat", "disk.sd"]), ("fd", "side0/IMG.FD", ["img.fd", "other.bin"]), ("fd", "side0/X.FD", ["x.fd"]),
              # near misses: the member carries the archive's name in another letter case, or the archive sits elsewhere than where
              # the member goes: nothing is refused, the member is written, the archive stays
              ("k7", "games.k7", ["intro.bas", "games.k7"]), ("k7", "Tape.K7", ["tape.k7"]), ("fd", "side0/img.fd", ["img.fd"]),
              ("sd", "side1/DISK.SD", ["disk.sd"])]
    for i in range(ctx.n(10, 60)):
        kind, arc, names = shapes[i % len(shapes)]
        near_miss = os.path.basename(arc) != os.path.basename(arc).upper() or arc.startswith("side1/")
        # destinations: (label, argv for --into, cwd-relative?, does the member land on the archive?)
        for lay in ("onto", "onto_dot", "onto_abs", "elsewhere", "onto_symlink", "onto_hardlink"):
            d = ctx.fresh_dir()
            os.makedirs(os.path.join(d, os.path.dirname(arc)) if os.path.dirname(arc) else d, exist_ok=True)
            files = [(n, T.content_for(rng, rng.choice([1, 200, 300, 2100]))) for n in names]
            src = os.path.join(d, "src")
            os.makedirs(src)
            for n, c in files:
                open(os.path.join(src, n), "wb").write(c)
            create(kind, d, arc, [os.path.join("src", n) for n, _ in files], False)
            shutil.rmtree(src)
            apath = os.path.join(d, arc)
            raw = open(apath, "rb").read()
            adir = os.path.dirname(arc)
            linked = lay in ("onto_symlink", "onto_hardlink")
            if lay == "onto_symlink":
                # the archive is named through a symbolic link to its directory (or, in the run directory, to the run directory)
                os.symlink(adir if adir else ".", os.path.join(d, "alias"))
                aliased = os.path.join("alias", os.path.basename(arc))
            if lay == "onto_hardlink":
                # the archive is read under another name that is a hard link to the file a member would be written to
                aliased = os.path.join(adir, "OTHER.BIN") if adir else "OTHER.BIN"
                os.link(apath, os.path.join(d, aliased))
            if kind == "k7":
                # a tape member lands in the destination itself
                into, a = {"onto": (None, arc), "onto_dot": ("./" + adir if adir else ".", arc), "onto_abs": (None, apath),
                           "elsewhere": ("out", arc), "onto_symlink": (adir if adir else ".", aliased) if linked else None,
                           "onto_hardlink": (None, aliased) if linked else None}[lay]
            else:
                # a disk member lands in destination/sideN: the archive sits in side0/ of the run directory
                into, a = {"onto": (".", arc), "onto_dot": ("side0/..", "./" + arc), "onto_abs": (d, apath), "elsewhere": ("out", arc),
                           "onto_symlink": (".", aliased) if linked else None, "onto_hardlink": (".", aliased) if linked else None}[lay]
            argv = ["-x"] + (["--into", into] if into is not None else []) + [a]
            case = {"kind": kind, "archive": a, "into": into, "members": names, "layout": lay, "near_miss": near_miss}
            st.see(case, nontrivial=True)
            os.utime(apath, ns=(10**18, 10**18))
            before = P.tree(d)
            status, out = (T.tar(argv, cwd=d) if kind == "k7" else D.dar(kind, argv, cwd=d))
            after = P.tree(d)
            if after.get(arc) != before.get(arc):
                res.violate("self_member", "extract replaced the archive it was reading by one of its members", case,
                            {"status": status, "archive_len_before": len(raw), "archive_len_after": None if after.get(arc) is None else len(after[arc][0])},
                            {"clause": "read_only", "layout": lay, "kind": kind})
            if (lay == "elsewhere" or (near_miss and lay not in ("onto_hardlink",))) and status != "ok0":
                res.violate("self_member", "extract failed although no member is the archive", case, status, {"clause": "status"})
            # the model on the same bytes: same status, and none of its writes is the archive
            if kind == "k7":
                mo = T.parse_outcome(drv([f"tape.extract q {cps(a)} {'~' if into is None else cps(into)} {raw.hex()}"])[0])
            else:
                blobs = D.Blobs(ctx)
                mo = D.parse_disk_outcome(drv([D.model_extract(blobs, kind, False, a, into, raw)])[0])
            if linked:
                mo = None   # symbolic and hard links are outside the model's lexical `samePath` (DESIGN S3): oracle only
            if mo is not None:
                st.compared += 1
                wrote = sorted(k for k in after if after[k] is not None and before.get(k) != after[k])
                mwrote = sorted(os.path.relpath(os.path.normpath(os.path.join(d, p)), d) for p, _ in mo["writes"])
                if mo["status"] != status or (wrote != mwrote and after.get(arc) == before.get(arc)):
                    res.disagree("self_member", case, {"status": mo["status"], "writes": mwrote}, {"status": status, "writes": wrote})
            res.count(f"self_member:{kind}:{lay}:{status}")


def source_is_archive(ctx, res):
    """a source argument that is the archive's own path (disk archivers; the tape archiver's case is in C09): the run must fail
    without touching any file — the source keeps its bytes — wherever the argument stands, also behind four end-of-side markers"""
    st = res.stream("source_is_archive")
    rng = ctx.rng
    for fl in ("fd", "sd"):
        for mode in ("create", "add"):
            for spelling in ("plain", "dotslash", "abs", "option_a", "option_A", "abs_vs_relative", "relative_vs_abs", "symlink", "hardlink", "through_parent"):
                for position in ("first", "middle", "last", "after_four_eos"):
                    d = ctx.fresh_dir()
                    arc = "img." + fl
                    apath = os.path.join(d, arc)
                    blobs = D.Blobs(ctx)
                    others = [("one.dat", T.content_for(rng, 300)), ("two.bas", T.content_for(rng, 2041))]
                    for n, c in others:
                        open(os.path.join(d, n), "wb").write(c)
                    if mode == "add":
                        D.dar(fl, ["-c", arc, "one.dat"], cwd=d)
                    else:
                        open(apath, "wb").write(b"an older file at the archive's path" * 9)
                    pre = open(apath, "rb").read()
                    if spelling in ("symlink", "hardlink"):
                        # the source is another name of the archive's file
                        (os.symlink if spelling == "symlink" else os.link)(arc if spelling == "symlink" else apath, os.path.join(d, "alias.dat"))
                    src = {"plain": arc, "dotslash": "./" + arc, "abs": apath, "option_a": arc + ",a", "option_A": arc + ",A",
                           "abs_vs_relative": apath, "relative_vs_abs": arc, "symlink": "alias.dat", "hardlink": "alias.dat",
                           # out of the working directory and back in through its name: the same place, seen only by resolving against it
                           "through_parent": f"../{os.path.basename(d)}/{arc}"}[spelling]
                    clean = src[:-2] if spelling in ("option_a", "option_A") else src
                    names = [n for n, _ in others]
                    srcs = {"first": [src] + names, "middle": [names[0], src, names[1]], "last": names + [src],
                            "after_four_eos": names + ["--eos"] * 4 + [src]}[position]
                    world = [(n, c) for n, c in others] + [(clean, pre)]
                    before = P.tree(d)
                    # the model compares paths lexically, both relative or both absolute (DESIGN S3): the absolute spelling of the
                    # source goes with the absolute spelling of the archive
                    arc_arg = apath if spelling in ("abs", "relative_vs_abs") else arc
                    # a relative and an absolute spelling of one place, and links, are outside the model's lexical comparison: oracle only
                    unmodelled = spelling in ("abs_vs_relative", "relative_vs_abs", "symlink", "hardlink", "through_parent")
                    status, out = D.dar(fl, ["-c" if mode == "create" else "-r", arc_arg] + srcs, cwd=d)
                    after = P.tree(d)
                    case = {"flavour": fl, "mode": mode, "spelling": spelling, "position": position}
                    st.see(case, nontrivial=True)
                    res.count(f"source_is_archive:{mode}:{position}:{status}")
                    changed = sorted(k for k in set(before) | set(after) if ((k in before) != (k in after) or before.get(k) != after.get(k)))
                    if status == "ok0" or changed:
                        res.violate("source_is_archive", "a source that is the archive itself was overwritten (or the run claimed success)", case,
                                    {"status": status, "changed": changed}, {"clause": "sources_untouched", "mode": mode, "position": position})
                    if mode == "create":
                        req = D.model_create(blobs, fl, False, arc_arg, srcs, world)
                    else:
                        req = D.model_add(blobs, fl, False, arc_arg, pre, srcs, world)
                    mo = None if unmodelled else D.parse_disk_outcome(drv([req])[0])
                    if mo is not None:
                        st.compared += 1
                        if mo["status"] != status or bool(mo["writes"]) != bool(changed):
                            res.disagree("source_is_archive", case, {"status": mo["status"], "wrote": bool(mo["writes"])}, {"status": status, "changed": changed})


def sources_untouched_with_into(ctx, res):
    """create / add with --into D and, among the sources, the file that D/<archive> names (and the file <archive> names): whatever
    the tool makes of --into for these actions (known finding K1 of C19), no action ever alters a source file — every source
    keeps its bytes unless the run fails without writing anything at all (oracle only)"""
    st = res.stream("sources_untouched_with_into")
    for kind in ("k7", "fd", "sd"):
        for mode in ("create", "add"):
            if kind == "k7" and mode == "add":
                continue
            for which in ("under_into",):
                for position in (0, 1, 2):
                    d = ctx.fresh_dir()
                    arc = "notes." + kind
                    os.makedirs(os.path.join(d, "out"))
                    open(os.path.join(d, "a.dat"), "wb").write(b"a" * 300)
                    open(os.path.join(d, "b.bas"), "wb").write(b"10 REM\r")
                    run1 = (lambda argv: T.tar(argv, cwd=d)) if kind == "k7" else (lambda argv: D.dar(kind, argv, cwd=d))
                    # genuine archives at both places (for --add the one that is updated must exist)
                    run1(["-c", arc, "a.dat"])
                    shutil.copy(os.path.join(d, arc), os.path.join(d, "out", arc))
                    srcs = ["a.dat", "b.bas"]
                    srcs.insert(position, os.path.join("out", arc))
                    before = P.tree(d)
                    status, out = run1(["-c" if mode == "create" else "-r", "--into", "out", arc] + srcs)
                    after = P.tree(d)
                    case = {"kind": kind, "mode": mode, "sources": srcs, "into": "out"}
                    st.see(case, nontrivial=True)
                    st.unmodelled += 1
                    res.count(f"sources_untouched_with_into:{kind}:{mode}:{status}")
                    altered = [n for n in srcs if before.get(n) != after.get(n)]
                    if altered:
                        res.violate("sources_untouched_with_into", "a source file was altered", case, {"status": status, "altered": altered}, {"clause": "sources_untouched", "mode": mode})


def run(ctx, res):
    self_member(ctx, res)
    source_is_archive(ctx, res)
    sources_untouched_with_into(ctx, res)
    res.rule = ("source lists of C01/C02 x {run twice, quiet/verbose, cwd-relative / absolute / dotted-directory paths, target absent / "
                "present with arbitrary old bytes}; archives x {list, extract} repeated; non-trivial = at least one file; distinct by case")
    rng = ctx.rng
    st = res.stream("paired_create")
    for i in range(ctx.n(24, 400)):
        kind = rng.choice(["k7", "fd", "sd", "k7"])
        used = set()
        files = []
        for _ in range(rng.choice([0, 1, 2, 4])):
            name = T.gen_name(rng, used) if kind == "k7" else D.gen_disk_name(rng, used)
            if any(T.split_source(name)[4].lower() == T.split_source(n)[4].lower() for n, _ in files):
                continue
            files.append((name, T.content_for(rng, rng.choice([0, 1, 254, 255, 300, 1800, 2040, 2041, 4080, 5000]))))
        case = {"kind": kind, "files": [(n, len(c)) for n, c in files]}
        st.see(case, nontrivial=len(files) > 0)
        variants = {}
        layouts = ["plain", "again", "verbose", "subdir", "dotted", "absolute", "old_target_short", "old_target_long", "old_archive", "accented_dir", "blank_dir", "case_growing_dir"]
        for lay in layouts:
            d = ctx.fresh_dir()
            arc = "out." + kind
            sub = {"subdir": "src", "dotted": "my.dir/v1.2", "accented_dir": "donn\u00e9es/\u00e9t\u00e9", "blank_dir": "my files/v 2,a",
                   # directory names whose upper / lower case has another length (ß -> SS, the ligature fi -> FI, İ -> i + combining dot):
                   # an index computed on the converted path is not an index into the path (seed C20d)
                   "case_growing_dir": "Stra\u00dfe.x/\ufb01les \u0130"}.get(lay, "")
            make_sources(d, files, sub)
            if lay == "absolute":
                srcs = [os.path.join(d, n) for n, _ in files]
            else:
                srcs = [os.path.join(sub, n) if sub else n for n, _ in files]
            if lay == "old_target_short":
                open(os.path.join(d, arc), "wb").write(b"old")
            if lay == "old_target_long":
                open(os.path.join(d, arc), "wb").write(bytes([0xAA]) * 3000000)
            if lay == "old_archive":
                # a genuine older archive of the same kind, made from other (larger) sources, sits at the target path
                od = os.path.join(d, "older")
                os.makedirs(od)
                with open(os.path.join(od, "older1.dat"), "wb") as f:
                    f.write(bytes([0x5A]) * 6000)
                with open(os.path.join(od, "older2.bin"), "wb") as f:
                    f.write(bytes(range(256)) * 9)
                create(kind, d, arc, ["older/older1.dat", "older/older2.bin"], False)
            before = P.tree(d)
            status, out = create(kind, d, arc, srcs, lay == "verbose")
            after = P.tree(d)
            changed = sorted(k for k in set(before) | set(after) if ((k in before) != (k in after) or before.get(k) != after.get(k)) and k != arc)
            if changed:
                res.violate("paired_create", "create altered a source file or created another file", dict(case, layout=lay), changed[:5], {"clause": "sources_untouched"})
            variants[lay] = (status, after.get(arc, (None,))[0])
        ref = variants["plain"]
        if ref[0] != "ok0":
            res.violate("paired_create", "create failed", case, ref[0], {"clause": "status"})
            continue
        for lay, v in variants.items():
            if v != ref:
                res.violate("paired_create", f"the archive differs when created with variant '{lay}'", dict(case, layout=lay),
                            {"status": v[0], "first_diff": None if v[1] is None else next((k for k, (a, b) in enumerate(zip(v[1], ref[1])) if a != b), "length")},
                            {"clause": "pure_function", "variant": lay})
        res.count(f"kind={kind}")
        if i == 0:
            res.sample({"kind": kind, "files": case["files"], "variants": layouts})
        # reading modifies nothing
        d = ctx.fresh_dir()
        arc = "rd." + kind
        make_sources(d, files)
        create(kind, d, arc, [n for n, _ in files], False)
        os.utime(os.path.join(d, arc), ns=(10**18, 10**18))
        before = P.tree(d)
        seen = {}
        for rep in range(2):
            for action in (["-t"], ["-t", "-v"], ["-x", "--into", "xout"], ["-x", "-v", "--into", "xout"]):
                if kind == "k7":
                    r = T.tar(action + [arc], cwd=d)
                else:
                    r = D.dar(kind, action + [arc], cwd=d)
                # reading twice gives the same status and the same report; the files extracted are the sources
                if r[0] != "ok0" or seen.setdefault(tuple(action), r) != r:
                    res.violate("paired_create", "reading the same archive again gives another status or report", case,
                                {"action": action, "first": seen[tuple(action)][0], "now": r[0]}, {"clause": "read_repeatable"})
        after = P.tree(d)
        changed = sorted(k for k in set(before) | set(after) if ((k in before) != (k in after) or before.get(k) != after.get(k)) and not k.startswith("xout"))
        if changed:
            res.violate("paired_create", "list/extract altered the archive or a source file", case, changed[:5], {"clause": "read_only"})
