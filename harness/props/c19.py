"""C19 — every documented command starts, checks its arguments, writes where documented."""
import os
import shutil
import subprocess

from common import PY, REPO
import proc as P
import argvlib

LEVEL_TEXT = ("Lean theorems (Props/C19.lean) over the generated CLI description: every documented package and every declared console "
              "script resolves, no tool allows abbreviations, archivers have the required exclusive action group; extract of the models "
              "writes under --into when given and beside the archive otherwise. PARTIAL: interpreter start-up and argparse itself are "
              "outside the model; the configuration space of the property is finite and is enumerated exhaustively at process level "
              "(both tiers), with the directory tree diffed before and after every run.")

TOOLS = ["moto_tar", "moto_sdar", "moto_fdar", "moto_nl", "moto_prettier", "moto_bas2lst", "moto_lst2bas"]
ARCHIVERS = {"moto_tar": "k7", "moto_sdar": "sd", "moto_fdar": "fd"}


def declared_scripts():
    import tomllib
    proj = tomllib.load(open(os.path.join(REPO, "pyproject.toml"), "rb"))
    return proj.get("project", {}).get("scripts", {})


def invoke(kind, tool, args, cwd, target=None, stdin=b""):
    """kind 'module': python3 -m tool ; kind 'script': what the generated console script does"""
    if kind == "module":
        cmd = [PY, "-B", "-m", tool]
    else:
        mod, func = target.split(":")
        cmd = [PY, "-B", "-c", f"import sys; from {mod} import {func}; sys.exit({func}())"]
    try:
        p = subprocess.run(cmd + list(args), cwd=cwd, env=P.env(), capture_output=True, timeout=120, input=stdin)
        return p.returncode, p.stdout.decode(errors="replace"), p.stderr.decode(errors="replace")
    except subprocess.TimeoutExpired:
        try:  # loaded machine: once more with a long guard before calling it a hang
            p = subprocess.run(cmd + list(args), cwd=cwd, env=P.env(), capture_output=True, timeout=600, input=stdin)
            return p.returncode, p.stdout.decode(errors="replace"), p.stderr.decode(errors="replace")
        except subprocess.TimeoutExpired:
            return -999, "", "timeout"


def fresh_world(ctx, tool):
    d = ctx.fresh_dir()
    with open(os.path.join(d, "a.bas"), "wb") as f:
        f.write(b"10 PRINT\r")
    with open(os.path.join(d, "b.dat"), "wb") as f:
        f.write(b"data" * 100)
    with open(os.path.join(d, "p.lst"), "w") as f:
        f.write("10 PRINT \"A\"\nPRINT\n")
    with open(os.path.join(d, "p.txt"), "w") as f:
        f.write("10 PRINT \"A\"\n")
    with open(os.path.join(d, "q.bas"), "wb") as f:
        f.write(b"\r10 A\r")
    if tool in ("moto_sdar", "moto_fdar"):
        # genuine archives of the *other* flavour, of a tape and without extension, under names the tool must refuse:
        # a tool that forgets the check for one action would read them happily
        for name, mod in (("real.sd", "moto_sdar"), ("real.fd", "moto_fdar")):
            subprocess.run([PY, "-B", "-m", mod, "-c", name, "b.dat"], cwd=d, env=P.env(), capture_output=True, timeout=300)
        shutil.copy(os.path.join(d, "real.fd" if tool == "moto_fdar" else "real.sd"), os.path.join(d, "real"))
        shutil.copy(os.path.join(d, "real.fd" if tool == "moto_fdar" else "real.sd"), os.path.join(d, "real.k7"))
    return d


def run(ctx, res):
    argvlib.argv_stream(ctx, res)
    res.rule = ("all tools x {python -m, declared console script} x {--help, no action, conflicting actions, unknown option, "
                "abbreviated option, wrong extension}; archivers x {create, add, list, extract} x {with, without --into} x {first, "
                "repeated extraction}; every configuration is run once (exhaustive), non-trivial, distinct by configuration")
    scripts = declared_scripts()
    st = res.stream("argument_errors", exhaustive=True)
    jobs = []
    for tool in TOOLS:
        kinds = [("module", None)] + ([("script", scripts[tool])] if tool in scripts else [])
        for kind, target in kinds:
            cfgs = [("help", ["--help"]), ("help_short", ["-h"]), ("unknown_option", ["--bogus", "x"]), ("abbreviated_option", None)]
            # an unknown option in a command line that is otherwise complete and valid: nothing else can be the reason of a refusal
            valid = {"moto_tar": ["-c", "arc.k7", "b.dat"], "moto_sdar": ["-c", "arc.sd", "b.dat"], "moto_fdar": ["-c", "arc.fd", "b.dat"],
                     "moto_nl": ["p.lst"], "moto_prettier": ["p.lst"], "moto_bas2lst": ["q.bas,a"], "moto_lst2bas": ["p.lst"]}[tool]
            for opt in ("--bogus", "-z", "--force", "--list-all"):
                cfgs += [(f"unknown_option_in_valid_line:{opt}:first", [opt] + valid), (f"unknown_option_in_valid_line:{opt}:last", valid + [opt])]
                if tool in ARCHIVERS:
                    cfgs += [(f"unknown_option_in_valid_line:{opt}:before_sources", valid[:2] + [opt] + valid[2:]),
                             (f"unknown_option_with_extract:{opt}", ["-x", opt, valid[1]]), (f"unknown_option_with_list:{opt}", ["-t", valid[1], opt])]
            if tool in ARCHIVERS:
                ext = ARCHIVERS[tool]
                cfgs += [("no_action", [f"arc.{ext}"]), ("no_action_with_sources", [f"arc.{ext}", "b.dat"]),
                         ("conflicting_actions", ["-c", "-t", f"arc.{ext}", "b.dat"]), ("conflicting_long", ["--create", "--extract", f"arc.{ext}"]),
                         ("abbreviated_option", ["--crea", f"arc.{ext}", "b.dat"]), ("no_arguments", [])]
                if tool != "moto_tar":
                    wrong = {"sd": "fd", "fd": "sd"}[ext]
                    cfgs += [("wrong_extension", ["-c", f"arc.{wrong}", "b.dat"]), ("wrong_extension_k7", ["-c", "arc.k7", "b.dat"]),
                             ("no_extension", ["-c", "arc", "b.dat"]), ("wrong_extension_list", ["-t", f"arc.{wrong}"]),
                             ("wrong_extension_extract", ["-x", f"real.{wrong}"]), ("wrong_extension_extract_k7", ["-x", "real.k7"]),
                             ("wrong_extension_extract_into", ["-x", "--into", "dest", f"real.{wrong}"]),
                             ("wrong_extension_add", ["-r", f"real.{wrong}", "b.dat"]), ("no_extension_extract", ["-x", "real"]),
                             ("wrong_extension_long_actions", ["--extract", f"real.{wrong}"]),
                             ("wrong_extension_create_into_absent", ["-c", "--into", "newdir", f"arc.{wrong}", "b.dat"]),
                             ("wrong_extension_add_into_absent", ["-r", "--into", "newdir", f"real.{wrong}", "b.dat"]),
                             ("no_extension_create_into_absent", ["--create", "--into", "newdir/deeper", "arc", "b.dat"])]
                # (7) an unknown option next to list / extract of an archive that exists
                for opt in ("--bogus", "-z", "--force"):
                    cfgs += [(f"unknown_option_with_extract_of_existing:{opt}", ["-x", opt, f"real.{ext}"]), (f"unknown_option_with_list_of_existing:{opt}", ["-t", f"real.{ext}", opt]),
                             (f"unknown_option_with_add_to_existing:{opt}", ["-r", f"real.{ext}", opt, "b.dat"])]
            elif tool == "moto_nl":
                cfgs += [("abbreviated_option", ["--line-incr", "5", "p.lst"]), ("bad_int", ["-i", "abc", "p.lst"])]
            elif tool == "moto_bas2lst":
                cfgs += [("abbreviated_option", ["--do", "q.bas,a"]), ("wrong_extension", ["p.txt"]), ("wrong_extension_a", ["p.txt,a"])]
            elif tool == "moto_lst2bas":
                cfgs += [("wrong_extension", ["p.txt"]), ("no_extension", ["plain"]), ("wrong_extension_a", ["p.txt,a"])]
            for name, args in cfgs:
                if args is None:
                    continue
                jobs.append((tool, kind, target, name, args))

    def do(job):
        tool, kind, target, name, args = job
        d = fresh_world(ctx, tool)
        before = P.tree(d)
        rc, out, err = invoke(kind, tool, args, d, target)
        return job, rc, out, err, before, P.tree(d)

    for (tool, kind, target, name, args), rc, out, err, before, after in P.parallel(do, jobs):
        case = {"tool": tool, "invocation": kind, "config": name, "args": args}
        st.see(case)
        res.count(f"config={name}")
        if "ModuleNotFoundError" in err or "ImportError" in err:
            res.violate("argument_errors", "the command does not start", case, err[-300:], {"clause": "starts"})
            continue
        if name.startswith("help"):
            if rc != 0 or "usage" not in out.lower():
                res.violate("argument_errors", "--help does not answer with status 0", case, {"rc": rc, "err": err[-200:]}, {"clause": "help"})
        elif rc == 0:
            res.violate("argument_errors", "an argument error is accepted with status 0", case, {"out": out[-200:]}, {"clause": "rejects"})
        if before != after:
            ch = sorted(k for k in set(before) | set(after) if ((k in before) != (k in after) or before.get(k) != after.get(k)))
            res.violate("argument_errors", "a file was created or modified although the arguments are wrong", case, ch[:5], {"clause": "no_effect"})
    res.sample({"tool": "moto_sdar", "invocation": "module", "config": "wrong_extension", "args": ["-c", "arc.fd", "b.dat"]})

    # archive names: accepted exactly when what follows the last dot is the flavour's extension, in either case
    from common import drv, cps, run_cli
    import disklib as D
    st = res.stream("archive_names", exhaustive=True)
    names = ["a.sd", "a.SD", "a.Sd", "a.sD", "a.fd", "a.FD", "a.Fd", "a.sdx", "a.s", "a.d", "a", "a.", ".sd", ".fd", "a.b.sd", "a.sd.bak", "a.sd.", "a..sd",
             "dir.sd/a", "dir.x/a.fd", "a.sd ", "a. sd", "a.k7", "sd", "fd", "a.dsk", "a.SDD", "x.y.z.FD"]
    for fl in ("sd", "fd"):
        answers = drv([f"disk.archivename {fl} {cps(n)}" for n in names])
        good = ctx.fresh_dir()
        with open(os.path.join(good, "b.dat"), "wb") as f:
            f.write(b"data")
        assert run_cli(D.cli(fl).run, ["-c", "good." + fl, "b.dat"], cwd=good)[0] == "ok0"
        genuine = open(os.path.join(good, "good." + fl), "rb").read()
        for n, ans in zip(names, answers):
            d = ctx.fresh_dir()
            # a genuine archive of this flavour sits under the name: a tool that accepts the name lists it (status 0); a tool that
            # refuses it ends with a non-zero status — whatever the way it reports the refusal — and the listing is not printed
            os.makedirs(os.path.dirname(os.path.join(d, n)) or d, exist_ok=True)
            with open(os.path.join(d, n), "wb") as f:
                f.write(genuine)
            status, out = run_cli(D.cli(fl).run, ["-t", n], cwd=d)
            accepted = status == "ok0" and "B.DAT" in out
            case = {"flavour": fl, "archive": n}
            st.see(case)
            st.compared += 1
            if (ans == "accepted") != accepted:
                res.disagree("archive_names", case, ans, status)
            # the same name through --create, against the model of run() (the action behind the check of the name): same verdict, and a
            # refused name leaves nothing behind
            d2 = ctx.fresh_dir()
            with open(os.path.join(d2, "b.dat"), "wb") as f:
                f.write(b"data")
            os.makedirs(os.path.dirname(os.path.join(d2, n)) or d2, exist_ok=True)
            before2 = P.tree(d2)
            status_c, _ = run_cli(D.cli(fl).run, ["-c", n, "b.dat"], cwd=d2)
            after2 = P.tree(d2)
            blobs = D.Blobs(ctx)
            mo = D.parse_disk_outcome(drv([D.model_create(blobs, fl, False, n, ["b.dat"], [("b.dat", b"data")])])[0])
            if mo is not None:
                st.compared += 1
                if (mo["status"] == "ok0") != (status_c == "ok0") or bool(mo["writes"]) != (after2 != before2):
                    res.disagree("archive_names", dict(case, action="create"), {"status": mo["status"], "wrote": bool(mo["writes"])}, {"status": status_c, "changed": after2 != before2})
            base = n.rsplit(".", 1)
            want = len(base) == 2 and base[1].lower() == fl
            if not want and (status_c == "ok0" or after2 != before2):
                res.violate("archive_names", "a creation under a wrong archive name succeeded or left something behind", dict(case, action="create"),
                            {"status": status_c, "changed": sorted(set(after2) ^ set(before2))[:4]}, {"clause": "archive_name_create"})
            if want != accepted:
                res.violate("archive_names", "an archive name with the wrong extension is accepted (or a right one refused)", case, status, {"clause": "archive_name"})

    # placement
    st = res.stream("placement", exhaustive=True)
    for tool, ext in ARCHIVERS.items():
        kinds = [("module", None)] + ([("script", scripts[tool])] if tool in scripts else [])
        for kind, target in kinds:
            for sub in ("", "sub", "."):
                d = fresh_world(ctx, tool)
                if sub == "sub":
                    os.makedirs(os.path.join(d, sub))
                # "." : the archive is named by its extension alone (".sd"): still an archive of that type
                arc = f".{ext}" if sub == "." else (os.path.join(sub, f"arc.{ext}") if sub else f"arc.{ext}")
                case = {"tool": tool, "invocation": kind, "archive": arc}
                st.see(dict(case, step="create"))
                srcs = ["a.bas", "b.dat"] if tool == "moto_tar" else ["--", "a.bas", "b.dat"]
                rc, out, err = invoke(kind, tool, (["--create"] if sub == "sub" else ["-c"]) + [arc] + srcs, d, target)
                if rc != 0 or not os.path.exists(os.path.join(d, arc)):
                    res.violate("placement", "create does not write the archive at the designated path", case, {"rc": rc, "err": err[-300:]}, {"clause": "create_placement"})
                    continue
                snap = P.tree(d)
                # list: no effect, with and without --into
                for into in (None, "dest"):
                    a = (["--list"] if into else ["-t"]) + (["--into", into] if into else []) + [arc]
                    rc, out, err = invoke(kind, tool, a, d, target)
                    st.see(dict(case, step="list", into=into))
                    if rc != 0:
                        res.violate("placement", "list fails", dict(case, into=into), err[-300:], {"clause": "list_status"})
                    if P.tree(d) != snap:
                        res.violate("placement", "list created or modified files", dict(case, into=into), None, {"clause": "list_no_effect"})
                # extract default: beside the archive
                rc, out, err = invoke(kind, tool, ["-x", arc], d, target)
                st.see(dict(case, step="extract"))
                base = os.path.join(d, sub)
                want = ["A.BAS", "B.DAT"]
                places = [os.path.join(base, n) for n in want] if tool == "moto_tar" else [os.path.join(base, "side0", n) for n in want]
                if rc != 0 or not all(os.path.exists(p) for p in places):
                    res.violate("placement", "extract does not place its outputs beside the archive", case, {"rc": rc, "err": err[-300:], "tree": sorted(P.tree(d))[:12]}, {"clause": "extract_default_placement"})
                else:
                    # repeated extraction overwrites earlier results
                    # earlier results: one shorter, one of the very length of the member but with other bytes; the long option name this time
                    with open(places[0], "wb") as f:
                        f.write(b"stale" if sub != "sub" else b"10 PRINT\r" + b"20 REM a later, longer version\r" * 40)     # shorter / longer than the member
                    with open(places[1], "wb") as f:
                        f.write(b"ATAD" * 100)
                    rc, out, err = invoke(kind, tool, ["--extract", arc], d, target)
                    st.see(dict(case, step="re-extract"))
                    if rc != 0 or open(places[0], "rb").read() != b"10 PRINT\r" or open(places[1], "rb").read() != b"data" * 100:
                        res.violate("placement", "extracting again does not overwrite the earlier results", case, {"rc": rc, "err": err[-300:]}, {"clause": "reextract"})
                # extract --into
                rc, out, err = invoke(kind, tool, ["-x", "--into", "dest/deep", arc], d, target)
                st.see(dict(case, step="extract --into"))
                places = [os.path.join(d, "dest/deep", n) for n in want] if tool == "moto_tar" else [os.path.join(d, "dest/deep", "side0", n) for n in want]
                if rc != 0 or not all(os.path.exists(p) for p in places):
                    res.violate("placement", "extract --into does not place its outputs under the given directory", case, {"rc": rc, "err": err[-300:], "tree": sorted(P.tree(d))[:12]}, {"clause": "extract_into_placement"})
                else:
                    with open(places[0], "wb") as f:
                        f.write(b"10 TNIRP\r")          # same length as the member, other bytes
                    with open(places[1], "wb") as f:
                        f.write(b"" if sub != "." else b"data" * 100 + b"tail of a longer, older file" * 50)
                    rc, out, err = invoke(kind, tool, ["--extract", "--verbose", "--into", "dest/deep", arc], d, target)
                    st.see(dict(case, step="re-extract --into"))
                    if rc != 0 or open(places[0], "rb").read() != b"10 PRINT\r" or open(places[1], "rb").read() != b"data" * 100:
                        res.violate("placement", "extracting again under --into does not overwrite the earlier results", case, {"rc": rc, "err": err[-300:]}, {"clause": "reextract"})
                # the same with absolute paths: the archive named absolutely and no --into (outputs beside the archive, nothing under the
                # working directory), then --into given absolutely (outputs there)
                if sub == "sub":
                    other = ctx.fresh_dir()           # the working directory of these runs: elsewhere
                    for p in ([os.path.join(base, n) for n in want] if tool == "moto_tar" else [os.path.join(base, "side0", n) for n in want]):
                        if os.path.exists(p):
                            os.remove(p)
                    before_other = P.tree(other)
                    rc, out, err = invoke(kind, tool, ["-x", os.path.join(d, arc)], other, target)
                    st.see(dict(case, step="extract, absolute archive"))
                    placed = [os.path.join(base, n) for n in want] if tool == "moto_tar" else [os.path.join(base, "side0", n) for n in want]
                    if rc != 0 or not all(os.path.exists(p) for p in placed) or P.tree(other) != before_other:
                        res.violate("placement", "extract does not place its outputs beside the archive", dict(case, archive="<absolute>/" + arc),
                                    {"rc": rc, "err": err[-300:], "beside": [os.path.exists(p) for p in placed], "cwd": sorted(P.tree(other))[:8]}, {"clause": "extract_default_placement"})
                    absinto = os.path.join(ctx.fresh_dir(), "abs", "out")
                    before_other = P.tree(other)
                    rc, out, err = invoke(kind, tool, ["-x", "--into", absinto, os.path.join(d, arc)], other, target)
                    st.see(dict(case, step="extract --into absolute"))
                    placed = [os.path.join(absinto, n) for n in want] if tool == "moto_tar" else [os.path.join(absinto, "side0", n) for n in want]
                    if rc != 0 or not all(os.path.exists(p) for p in placed) or P.tree(other) != before_other:
                        res.violate("placement", "extract --into does not place its outputs under the given directory", dict(case, into="<absolute>"),
                                    {"rc": rc, "err": err[-300:], "under_into": [os.path.exists(p) for p in placed], "cwd": sorted(P.tree(other))[:8]}, {"clause": "extract_into_placement"})
                # create / add --into: the manuals say the archive goes under the directory
                for action in (["-c"], ["-r"]) if tool != "moto_tar" else (["-c"],):
                    d2 = fresh_world(ctx, tool)
                    os.makedirs(os.path.join(d2, "outdir"))
                    if action == ["-r"]:
                        shutil.copy(os.path.join(d, arc), os.path.join(d2, f"new.{ext}"))
                        shutil.copy(os.path.join(d, arc), os.path.join(d2, "outdir", f"new.{ext}"))
                    before = P.tree(d2)
                    rc, out, err = invoke(kind, tool, action + ["--into", "outdir", f"new.{ext}"] + (["b.dat"] if tool == "moto_tar" else ["--", "b.dat"]), d2, target)
                    after = P.tree(d2)
                    st.see(dict(case, step=" ".join(action) + " --into"))
                    under = before.get(f"outdir/new.{ext}") != after.get(f"outdir/new.{ext}")
                    beside = before.get(f"new.{ext}") != after.get(f"new.{ext}")
                    if rc != 0 or not under or beside:
                        res.violate("placement", "create/add --into does not place the archive under the given directory",
                                    dict(case, action=action[0]), {"rc": rc, "written_under_into": under, "written_at_given_path": beside},
                                    # the recorded finding K1 is exactly this: status 0, --into ignored, the archive written at the path given;
                                    # a crash, an archive written nowhere or in both places is another violation
                                    {"clause": "create_into_placement", "mode": "into_ignored" if rc == 0 and beside and not under else "other"})
    res.sample({"tool": "moto_tar", "archive": "sub/arc.k7", "steps": ["create", "list", "extract", "re-extract", "extract --into"]})

    # "starts under python3 -m <tool>": with nothing but the standard library on the path (no site-packages: the project declares no
    # dependency) and under every interpreter of this machine that satisfies the declared `requires-python`
    st = res.stream("clean_interpreters", exhaustive=True)
    import re
    import tomllib
    proj = tomllib.load(open(os.path.join(REPO, "pyproject.toml"), "rb")).get("project", {})
    m = re.match(r"\s*>=\s*(\d+)\.(\d+)", proj.get("requires-python", ">= 3.0"))
    floor = (int(m.group(1)), int(m.group(2))) if m else (3, 0)
    declared_deps = proj.get("dependencies", [])
    interps = []
    for cand in [PY] + [x for mnr in range(8, 16) for x in (f"/usr/bin/python3.{mnr}", f"/usr/local/bin/python3.{mnr}")]:
        if not os.path.exists(cand) or os.path.realpath(cand) in [os.path.realpath(i) for i, _ in interps]:
            continue
        try:
            v = subprocess.run([cand, "-S", "-c", "import sys; print(sys.version_info[0], sys.version_info[1])"], capture_output=True, timeout=60)
            ver = tuple(map(int, v.stdout.split()))
        except Exception:
            continue
        if v.returncode == 0 and ver >= floor:
            interps.append((cand, ver))
    res.count("interpreters_tried", len(interps))
    for py, ver in interps:
        flags = ["-S", "-B"] if not declared_deps else ["-B"]
        for tool in TOOLS:
            d = fresh_world(ctx, "none")
            with open(os.path.join(d, "n.lst"), "w") as f:
                f.write("10 PRINT \"A\"\n20 GOTO 10\n")
            runs = [("help", ["--help"])]
            if tool in ARCHIVERS:
                runs += [("create", ["-c", "t." + ARCHIVERS[tool], "a.bas", "b.dat"]), ("list", ["-t", "-v", "t." + ARCHIVERS[tool]]), ("extract", ["-x", "--into", "o", "t." + ARCHIVERS[tool]])]
            else:
                runs += [("convert", {"moto_nl": ["p.lst"], "moto_prettier": ["p.lst"], "moto_bas2lst": ["q.bas,a"], "moto_lst2bas": ["n.lst"]}[tool])]
            for name, args in runs:
                try:
                    pr = subprocess.run([py] + flags + ["-m", tool] + args, cwd=d, env=P.env(), capture_output=True, timeout=300)
                    rc, err = pr.returncode, pr.stderr.decode(errors="replace")
                except subprocess.TimeoutExpired:
                    rc, err = -999, "timeout"
                case = {"tool": tool, "python": "%d.%d" % ver, "site_packages": bool(declared_deps), "run": name}
                st.see(case)
                if rc != 0:
                    res.violate("clean_interpreters", "the command does not start (or fails) under an interpreter the project declares it supports, with the declared dependencies only",
                                case, err[-300:], {"clause": "starts"})
    # failures of a run must reach the caller as a non-zero exit status, whichever way the tool is started
    st = res.stream("failure_status", exhaustive=True)
    for tool, ext in ARCHIVERS.items():
        kinds = [("module", None)] + ([("script", scripts[tool])] if tool in scripts else [])
        for kind, target in kinds:
            d = fresh_world(ctx, tool)
            with open(os.path.join(d, "big.dat"), "wb") as f:
                f.write(b"B" * 30000)
            with open(os.path.join(d, f"broken.{ext}"), "wb") as f:
                f.write(b"\x3c\x5a not an archive " * 7)
            cfgs = [("missing_archive_list", ["-t", f"absent.{ext}"]), ("missing_archive_extract", ["-x", f"absent.{ext}"])]
            if tool == "moto_tar":
                cfgs += [("does_not_fit", ["-c", "t.k7", "big.dat"]), ("missing_source", ["-c", "t.k7", "a.bas", "absent.dat"])]
            else:
                cfgs += [("broken_archive_list", ["-t", f"broken.{ext}"]), ("broken_archive_add", ["-r", f"broken.{ext}", "b.dat"]),
                         ("missing_archive_add", ["-r", f"absent.{ext}", "b.dat"])]
            for name, args in cfgs:
                before = P.tree(d)
                rc, out, err = invoke(kind, tool, args, d, target)
                after = P.tree(d)
                case = {"tool": tool, "invocation": kind, "config": name, "args": args}
                st.see(case)
                if rc == 0:
                    res.violate("failure_status", "a failed run ends with status 0", case, {"out": out[-200:], "err": err[-200:]}, {"clause": "rejects"})
                if before != after:
                    ch = sorted(k for k in set(before) | set(after) if ((k in before) != (k in after) or before.get(k) != after.get(k)))
                    res.violate("failure_status", "a failed run created or modified a file", case, ch[:5], {"clause": "no_effect"})
