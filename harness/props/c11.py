"""C11 — both disk flavours hold the same disk; load/save is identity; geometry is fixed."""
import os

from common import drv, hx, unhx, REPO
import disklib as D
import diskcase as K
import diskengine as E

LEVEL_TEXT = ("Lean theorems (Props/C11.lean): setPayload never changes the sector length and overwrites a prefix; save length for "
              "both flavours; sd save = fd save with FF interleaved; load then save is the identity on payloads; tie/oracle: the same "
              "sources through moto_sdar and moto_fdar, no-op adds over tool-made / independent / bundled images, and the library "
              "setter DiskSector.dataOfPayload for every length 0..600.")


def run(ctx, res):
    res.rule = ("source lists x {sd, fd}; valid images through a no-op add; library-level payload assignments of every length 0..600 "
                "at sectors of both flavours; non-trivial = offers a file or assigns a non-empty payload; distinct by case")
    rng = ctx.rng
    from moto_lib.fs_disk.image import DiskSector, DiskTrack, TypeOfDiskImage
    st = res.stream("setter_lengths_0..600", exhaustive=True)
    reqs, cases = [], []
    for fl, t in (("fd", TypeOfDiskImage.EMULATOR_FLOPPY_IMAGE), ("sd", TypeOfDiskImage.SDDRIVE_FLOPPY_IMAGE)):
        size = 512 if fl == "sd" else 256
        for n in range(0, 601):
            init = bytes((7 * k + n) % 256 for k in range(size))
            v = bytes((k * 3 + 1) % 256 for k in range(n))
            sec = DiskSector(init, typeOfDiskImage=t)
            before = sec.dataOfSector
            sec.dataOfPayload = v
            after = sec.dataOfSector
            case = {"flavour": fl, "assigned_length": n}
            st.see(case, nontrivial=n > 0)
            st.compared += 1
            reqs.append(f"disk.setpayload {hx(before[:256])} {hx(v)}")
            cases.append((case, after, v, before))
    ans = drv(reqs)
    for (case, after, v, before), a in zip(cases, ans):
        if unhx(a) != after[:256]:
            res.disagree(st.name, case, a[:80], after[:40].hex())
        if len(after) != len(before):
            res.violate(st.name, "a payload assignment changed the sector length", case, {"before": len(before), "after": len(after)}, {"clause": "setter_length"})
        elif after[:min(len(v), 256)] != v[:256] or after[min(len(v), 256):] != before[min(len(v), 256):]:
            res.violate(st.name, "a payload assignment did not overwrite exactly the payload prefix", case, {}, {"clause": "setter_prefix"})
    res.sample({"flavour": "sd", "assigned_length": 600})
    # a track built from sectors keeps its 16 x size layout after assignments
    # same sources through both tools
    for i in range(ctx.n(10, 200)):
        used = set()
        items = [it for it in E.gen_items(rng, used, shape=rng.choice(["few", "eos_mix", "big", "one", "many"])) if it[0] != "missing"]
        raws = {}
        for fl in ("fd", "sd"):
            sc = K.Scenario(ctx, fl)
            raws[fl] = E.run_step(ctx, res, "both_flavours", sc, "create", False, items, None, {"geometry"}, {"flavour": fl, "pair": i})
        if raws["fd"] is None or raws["sd"] is None:
            continue
        want = b"".join(raws["fd"][k * 256:(k + 1) * 256] + b"\xff" * 256 for k in range(len(raws["fd"]) // 256))
        if raws["sd"] != want:
            res.violate("both_flavours", "the .sd image is not the .fd image with 256 FF after every sector",
                        {"items": [("eos",) if it[0] == "eos" else (it[1], len(it[2])) for it in items][:6]},
                        {"first_diff": next((k for k, (a, b) in enumerate(zip(raws["sd"], want)) if a != b), None)}, {"clause": "flavours"})
        if i == 0:
            res.sample({"items": [("eos",) if it[0] == "eos" else (it[1], len(it[2])) for it in items][:6]})
    # no-op add is the identity (fd: byte for byte; sd: payload identical, FF padding)
    blobs = D.Blobs(ctx)
    pres = []
    for fl in ("fd", "sd"):
        p = os.path.join(REPO, "tests", "data", f"10_lsystem_mo5__2023-10-14.{fl}")
        if os.path.exists(p):
            pres.append((fl, open(p, "rb").read(), "bundled"))
    for i in range(ctx.n(6, 80)):
        fl = rng.choice(["fd", "sd"])
        pres.append((fl, E.render_image(ctx, blobs, [E.gen_aside(rng) for _ in range(4)], fl, check_twin=False), "independent writer"))
    for fl, pre, origin in pres:
        if fl == "sd" and rng.random() < 0.5:
            # arbitrary bytes in the upper half of the slots of a third-party .sd
            b = bytearray(pre)
            for k in range(0, len(b) // 512, 97):
                b[k * 512 + 300] = 0x42
            pre = bytes(b)
        sc = K.Scenario(ctx, fl)
        with open(os.path.join(sc.dir, sc.archive), "wb") as f:
            f.write(pre)
        E.run_step(ctx, res, "noop_add", sc, "add", False, [], pre, {"noop_identity", "geometry"}, {"flavour": fl, "pre_image": origin}, tool_made=False)
    # side counts: emulator images hold 1, 2 or 4 sides, SDDrive images 4; anything else is refused, whatever it contains
    st = res.stream("side_counts", exhaustive=True)
    side = D.raw_of_sides([D.blank_formatted_side()], "fd")
    side_sd = D.raw_of_sides([D.blank_formatted_side()], "sd")
    for fl, one in (("fd", side), ("sd", side_sd)):
        for k in range(0, 7):
            for extra in (0, 1, len(one) // 2):
                raw = one * k + one[:extra]
                if len(raw) == 0:
                    continue
                sc = K.Scenario(ctx, fl)
                with open(os.path.join(sc.dir, sc.archive), "wb") as f:
                    f.write(raw)
                status, out = sc.run("-t", False)
                mo = D.parse_disk_outcome(drv([D.model_list(sc.blobs, fl, False, raw)])[0])
                case = {"flavour": fl, "whole_sides": k, "extra_bytes": extra}
                st.see(case)
                st.compared += 1
                if mo is not None and (status, out if status == "ok0" else "") != (mo["status"], mo["out"] if mo["status"] == "ok0" else ""):
                    res.disagree(st.name, case, mo["status"], status)
                n = min(k, 4)
                valid = (n in (1, 2, 4) if fl == "fd" else n == 4) and not (n < 4 and extra > 0)
                if valid != (status == "ok0"):
                    res.violate(st.name, "an image with a side count the format does not allow is accepted (or an allowed one refused)", case,
                                {"status": status}, {"clause": "side_count"})
