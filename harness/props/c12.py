"""C12 — what the tools print is what the archive contains (names, order, sizes, counts)."""
import os

from common import drv, cps, hx
import disklib as D
import diskcase as K
import diskengine as E
import tapelib as T

LEVEL_TEXT = ("Lean theorems (Props/C12.lean) about the listener models (tape: size = sum of payloads, block count, ordinal; disk: "
              "counters = number of end-of-file events, plural rule, blocks formula equals the chain length written); tie/oracle: "
              "reports of create/add/list/extract, quiet and verbose, parsed into facts and compared with the independent decoding "
              "of the archive, and create's report with list's.")


def tape_case(ctx, res, files, verbose=True):
    st = res.stream("tape")
    d = ctx.fresh_dir()
    for n, c in files:
        with open(os.path.join(d, T.split_source(n)[4]), "wb") as f:
            f.write(c)
    srcs = [n for n, _ in files]
    sc, oc = T.tar(["-c", "-v", "t.k7"] + srcs, cwd=d)
    sl, ol = T.tar(["-t", "-v", "t.k7"], cwd=d)
    sq, oq = T.tar(["-t", "t.k7"], cwd=d)
    case = {"files": [(n, len(c)) for n, c in files]}
    st.see(case, nontrivial=len(files) > 0)
    if sc != "ok0" or sl != "ok0":
        res.violate("tape", "create/list failed", case, {"create": sc, "list": sl}, {"clause": "status"})
        return
    first = 1
    lines_c, lines_l = oc.splitlines(), ol.splitlines()
    if len(lines_c) != len(files) or len(lines_l) != len(files) or len(oq.splitlines()) != len(files):
        res.violate("tape", "a file does not appear exactly once", case, {"create": len(lines_c), "list": len(lines_l)}, {"clause": "once"})
        return
    for (n, c), lc, ll in zip(files, lines_c, lines_l):
        nb = (len(c) + 253) // 254
        want = [f"#{first}", f"{len(c)} octets", f"{nb} blocks."]
        if not T.tape_facts_ok(lc.split("\t")[3:], first, len(c), nb) or not T.tape_facts_ok(ll.split("\t")[3:], first, len(c), nb):
            res.violate("tape", "verbose size / blocks / position wrong", case, {"create": lc, "list": ll, "want": want}, {"clause": "tape_facts"})
        if lc != ll:
            res.violate("tape", "create and list report the same file differently", case, {"create": lc, "list": ll}, {"clause": "create_eq_list"})
        if lc.split("\t")[0] != T.catalog_name(n) or ll.split("\t")[0] != T.catalog_name(n):
            res.violate("tape", "a file is not reported under its catalog name", case,
                        {"create": lc.split("\t")[0], "list": ll.split("\t")[0], "catalog": T.catalog_name(n)}, {"clause": "catalog_name"})
        first += nb + 2


def run(ctx, res):
    res.rule = ("archives and source lists of C01/C02/C07 x {create, add, list, extract} x {quiet, verbose}; every printed name, count, "
                "plural, size, block count and percentage is compared with the independent decoding; non-trivial = at least one file")
    rng = ctx.rng
    # past failures first (F18): names and extensions longer than the catalog fields, reported as stored
    tape_case(ctx, res, [("a.data", b"x" * 300), ("verylongnamenoext", b""), ("longfilename.bas", b"10 REM\n"), ("ninechars.csvx", b"1;2\n")])
    tape_case(ctx, res, [("x.basic", b"y" * 254)])
    for i in range(ctx.n(40, 600)):
        used = set()
        files = [(T.gen_name(rng, used), T.content_for(rng, rng.choice(T.SIZES + [rng.randint(0, 2000)]))) for _ in range(rng.choice([0, 1, 2, 5]))]
        tape_case(ctx, res, files)
    res.sample({"tape_files": [("a.bas", 254), ("b", 255)]})
    CLU = {"report_counts", "report_sections"}
    CLR = {"report_counts", "list_exact", "report_parse", "read_status"}
    for i in range(ctx.n(14, 300)):
        fl = rng.choice(["fd", "fd", "sd"])
        sc = K.Scenario(ctx, fl)
        used = set()
        verbose = rng.random() < 0.7
        items = E.gen_items(rng, used, shape=rng.choice(["one", "few", "eos_mix", "big", "many"]))
        raw = E.run_step(ctx, res, "disk_update", sc, "create", verbose, items, None, CLU, {"flavour": fl})
        if raw is not None and rng.random() < 0.6:
            raw2 = E.run_step(ctx, res, "disk_update", sc, "add", verbose, E.gen_items(rng, used), raw, CLU, {"flavour": fl})
            raw = raw2 or raw
        if raw is not None:
            E.check_read_reports(ctx, res, "disk_read", sc, raw, CLR, {"flavour": fl, "after": "tool history"})
            # create's report and list's report give the same size and block count for the same file
            if i == 0:
                res.sample({"items": [("eos",) if it[0] == "eos" else (it[1], len(it[2]) if it[0] == "file" else "missing") for it in items][:6]})
    blobs = D.Blobs(ctx)
    for i in range(ctx.n(8, 150)):
        fl = rng.choice(["fd", "sd"])
        asides = [E.gen_aside(rng) for _ in range(4 if fl == "sd" else rng.choice([1, 2, 4]))]
        raw = E.render_image(ctx, blobs, asides, fl, check_twin=False)
        sc = K.Scenario(ctx, fl)
        with open(os.path.join(sc.dir, sc.archive), "wb") as f:
            f.write(raw)
        res.stream("disk_read").see((hash(raw),), nontrivial=True)
        E.check_read_reports(ctx, res, "disk_read", sc, raw, CLR, {"flavour": fl, "after": "independent writer", "files": [len(a["files"]) for a in asides]})
