"""C04 — created disk images conform to the Thomson DOS layout (independent decoder/fsck)."""
from common import drv
import disklib as D
import diskcase as K
import diskengine as E

LEVEL_TEXT = ("Lean theorems (Props/C04.lean): geometry of save for both flavours, FF padding of SDDrive slots, initFileSystem "
              "yields a side accepted by the independent checker Spec.Dos.fsck, kind/flag dispatch table, 32-byte entry layout. "
              "Tie/oracle: created images are compared with the model and decoded by two independent readers written from the "
              "layout description (Lean Spec.Dos and a Python twin) which must agree with each other and with the sources.")


def one_case(ctx, res, stream, fl, verbose, items):
    sc = K.Scenario(ctx, fl)
    if ctx.rng.random() < 0.25:
        # an older, longer file already sits where the image is created (seed C04d: a destination opened without truncation keeps its tail):
        # what is created must still be exactly 4 x 80 x 16 sectors
        import os
        size = (1310720 if fl == "fd" else 2621440) + ctx.rng.choice([1, 256, 512, 4096, 700000])
        with open(os.path.join(sc.dir, sc.archive), "wb") as f:
            f.write(bytes([ctx.rng.choice([0x00, 0xE5, 0xAA])]) * size)
        res.count("created_over_a_longer_file")
    raw = E.run_step(ctx, res, stream, sc, "create", verbose, items, None,
                     {"geometry", "fsck", "stored_match", "usage_sum"}, {"flavour": fl})
    if raw is None:
        return
    st = res.stream(stream)
    # the two independent decoders must agree, and the Lean fsck must accept every side
    sides = D.sides_of(raw, fl)
    reqs = [f"dos.fsck {fl} 1 {sc.blobs.put(raw)} {i}" for i in range(4)]
    ans = drv(reqs)
    for i in range(4):
        if ans[i] != "true":
            res.violate(stream, f"Lean Spec.Dos.fsck rejects side {i}", {"flavour": fl, "items": [(x[1], len(x[2])) if x[0] == 'file' else x for x in items]}, ans[i], {"clause": "fsck"})
        lf = D.lean_files(sc.blobs, fl, raw, i)
        pf = D.py_files(sides[i])
        if lf is None or pf is None or [(a[0], a[1], a[2], a[3], a[4], a[5], a[6], a[7], a[8]) for a in lf] != [tuple(b) for b in pf]:
            res.disagree(stream, {"side": i}, "Lean Spec.Dos.files", "differs from the Python twin decoder")
    res.count(f"flavour={fl}")


def run(ctx, res):
    res.rule = ("source lists of every size class incl. empty files, block-boundary sizes and a full side, every documented kind "
                "(auto.bat, bas, bas,a, bin, txt, other), --eos, both flavours; non-trivial = at least one file; distinct by case")
    rng = ctx.rng
    fixed = [("fd", [("file", "auto.bat", b"A" * 3), ("file", "p.bas", b"B" * 255), ("file", "q.bas,a", b"C" * 256), ("file", "m.bin", b"D" * 2040),
                     ("file", "t.txt", b"E" * 2041), ("file", "d.dat", b""), ("file", "noext", b"F")]),
             ("sd", [("file", "full.dat", b"G" * 320280)]),
             ("sd", [])]
    for fl, items in fixed:
        one_case(ctx, res, "fixed", fl, False, items)
    res.sample({"flavour": "fd", "items": [("auto.bat", 3), ("p.bas", 255), ("q.bas,a", 256), ("m.bin", 2040), ("t.txt", 2041), ("d.dat", 0), ("noext", 1)]})
    for i in range(ctx.n(25, 500)):
        used = set()
        items = E.gen_items(rng, used, shape=rng.choice(["one", "few", "few", "eos_mix", "big", "many"] if i % 9 else ["many"]))
        items = [it for it in items if it[0] != "missing"]
        one_case(ctx, res, "random", rng.choice(["fd", "fd", "sd"]), rng.random() < 0.5, items)
        if i == 0:
            res.sample({"items": [("eos",) if it[0] == "eos" else (it[1], len(it[2])) for it in items][:8]})
