"""C01 — tape archive round trip: create, then list/extract, returns every file intact."""
import os
import shutil

from common import cps, hx, drv
import tapelib as T

LEVEL_TEXT = ("Lean theorems (Props/C01.lean) over the model of the tape injector, reader, extractor and enumerator; tie by "
              "differential CLI runs create/list/extract compared with the compiled model (status, stdout, archive bytes, "
              "files written) and by the format oracle Spec.K7.tape evaluated on the real archive.")


def gen_case(rng, max_files=12):
    n = rng.choice([0, 1, 1, 2, 3, 5, 8, max_files])
    used = set()
    files = []
    budget = 21504 - 1
    for i in range(n):
        name = T.gen_name(rng, used)
        room = budget - 35 - 21 - 21
        if room < 0:
            break
        size = rng.choice(T.SIZES + [rng.randint(0, 3000), rng.randint(0, 600)])
        if rng.random() < 0.05:
            size = rng.randint(0, 20000)
        while T.enc_size([bytes(size)]) > budget:
            size //= 2
        content = T.content_for(rng, size)
        budget -= T.enc_size([content])
        files.append((name, content))
    return files


def one_case(ctx, res, stream, files, verbose, layout):
    st = res.stream(stream)
    d = ctx.fresh_dir()
    srcdir = d
    prefix = ""
    if layout in ("subdir", "dotted"):
        sub = "src" if layout == "subdir" else "my.dir"
        srcdir = os.path.join(d, sub)
        os.makedirs(srcdir)
        prefix = sub + "/"
    elif layout == "absolute":
        prefix = d + "/"
    srcs = []
    world = []
    for name, content in files:
        path_on_disk = T.split_source(name)[4]
        with open(os.path.join(srcdir, path_on_disk), "wb") as f:
            f.write(content)
        srcs.append(prefix + name)
        world.append((prefix + path_on_disk, content))
    archive = "arc.k7" if layout != "absolute" else os.path.join(d, "arc.k7")
    v = ["-v"] if verbose else []
    status, out = T.tar(["-c"] + v + [archive] + srcs, cwd=d)
    apath = os.path.join(d, "arc.k7")
    tape = open(apath, "rb").read() if os.path.exists(apath) else None
    spec = [(T.split_source(s)[0], T.split_source(s)[1], T.split_source(s)[2], T.split_source(s)[3], c) for s, (_, c) in zip(srcs, files)]
    req = [f"tape.inject {'v' if verbose else 'q'} {cps(archive)} {len(srcs)} " + " ".join(cps(s) for s in srcs)
           + "".join(f" {cps(p)} {hx(c)}" for p, c in world),
           "k7.tape " + T.sfile_args(spec)]
    case = {"files": [(n, len(c)) for n, c in files], "verbose": verbose, "layout": layout,
            "contents_hex": [c.hex() for _, c in files] if sum(len(c) for _, c in files) < 2000 else "(large)"}
    st.see(case, nontrivial=len(files) > 0 and any(len(c) > 0 for _, c in files))
    res.count(f"files={min(len(files), 9)}")
    res.count(f"layout={layout}")
    for _, c in files:
        res.count("size%254=" + {0: "0", 1: "1", 253: "253"}.get(len(c) % 254, "other") if len(c) else "size=0")
    ans = drv(req)
    mo = T.parse_outcome(ans[0])
    impl_writes = [(archive, tape)] if tape is not None else []
    if mo is None:
        st.unmodelled += 1          # a name outside the modelled domain (S3): the oracles below still judge the real run
    else:
        st.compared += 1
    if mo is not None and (status, out, impl_writes) != (mo["status"], mo["out"], mo["writes"]):
        res.disagree(stream, case, {"status": mo["status"], "out": mo["out"]}, {"status": status, "out": out, "tape_equal": impl_writes == mo["writes"]})
    if status != "ok0" or tape is None:
        res.violate(stream, "create failed although the sources fit", case, {"status": status, "out": out}, {"clause": "create_status"})
        return
    if tape.hex() != ans[1]:
        res.violate(stream, "archive is not the .k7 encoding of the sources", case, {"first_diff": next((i for i, (a, b) in enumerate(zip(tape, bytes.fromhex(ans[1]))) if a != b), len(tape))}, {"clause": "format"})
    expected_names = [f"{n[:8]}.{e[:3]}" for n, e, _, _, _ in spec]
    # list
    status_l, out_l = T.tar(["-t"] + v + [archive], cwd=d)
    # extract in a clean directory
    x = ctx.fresh_dir()
    shutil.copy(apath, os.path.join(x, "arc.k7"))
    xarchive = "arc.k7" if layout != "absolute" else os.path.join(x, "arc.k7")
    status_x, out_x = T.tar(["-x"] + v + [xarchive], cwd=x)
    snap = T.snapshot(x)
    snap.pop("arc.k7", None)
    k = "v" if verbose else "q"
    ml, mx = drv([f"tape.list {k} {tape.hex()}", f"tape.extract {k} {cps(xarchive)} ~ {tape.hex()}"])
    ml, mx = T.parse_outcome(ml), T.parse_outcome(mx)
    if ml is not None:
        st.compared += 2
        if (status_l, out_l) != (ml["status"], ml["out"]):
            res.disagree(stream, dict(case, action="list"), ml, {"status": status_l, "out": out_l})
        mwrites = {os.path.relpath(os.path.join(x, p), x) if not os.path.isabs(p) else os.path.relpath(p, x): c for p, c in mx["writes"]}
        if (status_x, out_x) != (mx["status"], mx["out"]) or mwrites != snap:
            res.disagree(stream, dict(case, action="extract"), {"status": mx["status"], "out": mx["out"], "files": sorted(mwrites)},
                         {"status": status_x, "out": out_x, "files": sorted(snap)})
    if status_l != "ok0" or status_x != "ok0":
        res.violate(stream, "list/extract failed on a created archive", case, {"list": status_l, "extract": status_x}, {"clause": "read_status"})
        return
    listed = [l.split("\t")[0] for l in out_l.splitlines()]
    if listed != expected_names:
        res.violate(stream, "listing does not name exactly the files, in order", case, {"listed": listed, "expected": expected_names}, {"clause": "list_names"})
    expected_files = {n: c for n, (_, c) in zip(expected_names, files)}
    if snap != expected_files:
        bad = [n for n in set(snap) | set(expected_files) if snap.get(n) != expected_files.get(n)]
        res.violate(stream, "extracted files differ from the sources", case, {"differing": sorted(bad)[:5]}, {"clause": "extract_bytes"})
    if out_x != out_l:
        res.violate(stream, "extract and list report differently", case, {"list": out_l, "extract": out_x}, {"clause": "list_extract_agree"})


def run(ctx, res):
    res.rule = ("lists of 0..12 files with pairwise distinct 8.3 ASCII names (any case, with/without extension, ',a' marker), sizes on "
                "and around multiples of 254, contents zero/FF/random/marker-imitating/checksum-wrapping, quiet and verbose, archive "
                "and sources by relative, sub-directory, dotted-directory or absolute path; non-trivial = at least one non-empty "
                "file; distinct by (names, sizes, contents, mode, layout)")
    rng = ctx.rng
    fixed = [
        [("a.bas", b"10 PRINT\r"), ("B.BAS,A", b"\r10 A\r"), ("c.csv", b"1,2"), ("noext", b"xyz"), ("d.bin", b"")],
        [("empty", b"")],
        [],
        [("marker.bin", b"\x01" * 16 + b"\x3c\x5a\x01\x05abc" + b"\x01\x01\x01\x3c\x5a" * 60)],
        [("k254.dat", bytes(range(254))), ("k508.dat", bytes(508)), ("k255.dat", b"\xff" * 255)],
        [("eofimit.bin", b"\x01\x01\x01\x3c\x5a\xff\x02\x00" * 40)],
    ]
    for i, files in enumerate(fixed):
        one_case(ctx, res, "fixed", files, verbose=bool(i % 2), layout=["cwd", "absolute", "subdir", "dotted"][i % 4])
    res.sample({"files": [(n, len(c)) for n, c in fixed[0]]})
    for i in range(ctx.n(120, 2500)):
        files = gen_case(rng)
        one_case(ctx, res, "random", files, verbose=rng.random() < 0.5, layout=rng.choice(["cwd", "cwd", "absolute", "subdir", "dotted"]))
        if i == 2:
            res.sample({"files": [(n, len(c)) for n, c in files]})
    # every single-file length in a range (exhaustive sweep of the chunk boundaries)
    top = 1100 if ctx.thorough else 520
    st = res.stream(f"all_lengths_0..{top}", exhaustive=True)
    for n in range(0, top + 1, 1 if ctx.thorough else 1):
        if not ctx.thorough and n > 260 and n % 254 not in (0, 1, 2, 252, 253):
            continue
        one_case(ctx, res, st.name, [("f.bin", T.content_for(rng, n))], verbose=bool(n % 2), layout="cwd")
