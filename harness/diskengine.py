"""history engine for the disk properties: runs create/add steps with the real tools, compares every
step with the model, decodes the image with the independent readers and evaluates the clauses a
property asks for."""
import os
import shutil

from common import drv
import disklib as D
import diskcase as K
import tapelib as T

TOF = ["BASIC", "DATA", "MODULE", "TEXT"]


def blocks_needed(n):
    sectors = max(1, (n + 254) // 255)
    return (sectors + 7) // 8


def side_state(side):
    """(free block ids, free slot count, decoded files) of one side by the independent reader; None if unreadable"""
    tab = side[20 * 16 + 1][1:161]
    free = [b for b in range(160) if tab[b] == 0xFF]
    slots = 0
    for k in range(14):
        sec = side[20 * 16 + 2 + k]
        for j in range(8):
            if sec[32 * j] in (0, 0xFF):
                slots += 1
    return free, slots, D.py_files(side)


def reference_placement(sides, items, start_formatted=True):
    """the placement rule of the property (C10), replayed independently on the decoded pre-image:
    -> (per_side_new: {side: [(catalog name, kind, flag, content)]}, too_big: [(side, name)], dropped: [names], final cursor)"""
    free = []
    slots = []
    for s in sides:
        f, sl, _ = side_state(s)
        # the two blocks of track 20 hold the table and the catalog: never handed out, also when a side that was never
        # formatted shows them as free
        free.append(len([b for b in f if b not in (40, 41)]))
        slots.append(sl)
    cur = 0
    placed = {0: [], 1: [], 2: [], 3: []}
    too_big = []
    dropped = []
    skipped = []
    for it in items:
        if cur >= 4:
            if it[0] == "file":
                dropped.append(it[1])
            continue
        if it[0] == "eos":
            cur += 1
            continue
        if it[0] == "missing":
            skipped.append(it[1])
            continue
        name, content = it[1], it[2]
        stem, ext, _, _, _ = T.split_source(name)
        kind, flag, sext = D.disk_kind(name)
        if len(stem) > 8 or len(ext) > 3 or not (stem + ext).isascii():
            skipped.append(name)
            continue
        need = blocks_needed(len(content))
        done = False
        while cur < 4:
            if free[cur] >= need and slots[cur] >= 1:
                free[cur] -= need
                slots[cur] -= 1
                placed[cur].append((f"{stem}.{sext}", kind, flag, content))
                done = True
                break
            too_big.append((cur, f"{stem}.{sext}"))
            cur += 1
        if not done:
            dropped.append(name)
    return placed, too_big, dropped, skipped, cur


def shown(b):
    """the 8+3 name bytes as the tools show them: control characters are replaced by 'x' (INVALID_CHAR of catalog.py)"""
    return bytes(0x78 if c < 0x20 else c for c in b).decode("latin1")


def decoded_key(f):
    """(name.ext stripped, kind, flag, content) of a decoded file"""
    return (shown(f[1]).rstrip() + "." + shown(f[2]).rstrip(), f[3], f[4], f[8])


def run_step(ctx, res, stream, sc, mode, verbose, items, pre_raw, clauses, case_base, tool_made=True):
    """one invocation; returns the new raw image (or None when the tool failed)"""
    st = res.stream(stream)
    fl = sc.fl
    srcs = []
    for it in items:
        if it[0] == "eos":
            srcs.append("--eos")
        elif it[0] == "missing":
            srcs.append(it[1])
        else:
            srcs.append(sc.put_source(it[1], it[2]))
    case = dict(case_base, mode=mode, verbose=verbose,
                items=[("eos",) if i[0] == "eos" else (i[1], "missing") if i[0] == "missing" else (i[1], len(i[2])) for i in items])
    status, out = sc.run("-c" if mode == "create" else "-r", verbose, srcs)
    raw = sc.archive_bytes()
    if mode == "create":
        req = D.model_create(sc.blobs, fl, verbose, sc.archive, srcs, sc.world)
    else:
        req = D.model_add(sc.blobs, fl, verbose, sc.archive, pre_raw, srcs, sc.world)
    mo = D.parse_disk_outcome(drv([req])[0])
    K.compare_outcome(res, stream, st, case, mode, status, out, raw if status == "ok0" else None, mo)
    st.see(case, nontrivial=any(i[0] == "file" for i in items))
    if status != "ok0" or raw is None:
        res.violate(stream, f"{mode} failed", case, {"status": status, "out": out[-400:]}, {"clause": "status"})
        return None
    sides = D.sides_of(raw, fl)
    if mode == "create":
        pre_sides = [D.blank_formatted_side() for _ in range(4)]
    else:
        pre_sides = D.sides_of(pre_raw, fl)
    rep = K.parse_report(out, verbose)
    placed, too_big, dropped, skipped, cursor = reference_placement(pre_sides, items)

    def V(clause, msg, detail):
        if clause in clauses:
            res.violate(stream, msg, case, detail, {"clause": clause})

    # geometry
    slot = 512 if fl == "sd" else 256
    if len(raw) != 4 * 1280 * slot:
        V("geometry", "image length is not 4 x 80 x 16 sectors", len(raw))
        return raw
    elif fl == "sd" and any(raw[k * 512 + 256:(k + 1) * 512] != b"\xff" * 256 for k in range(0, 5120, 37)):
        V("geometry", "upper half of an SDDrive slot is not all FF", None)
    # consistency by the independent checker
    for i, s in enumerate(sides):
        pre_ok = D.py_fsck(pre_sides[i], strict=False) is None
        why = D.py_fsck(s, strict=tool_made)
        if why is not None and (pre_ok or placed[i]):
            V("fsck", f"side {i} is not a consistent file system: {why}", {"side": i, "why": why})
            return raw
    # decoded files: old ones intact, new ones = what the rule places there = what the report says
    for i, s in enumerate(sides):
        old = D.py_files(pre_sides[i])
        new = D.py_files(s)
        if old is None or new is None:
            continue
        old_by_slot = {f[0]: f for f in old}
        new_by_slot = {f[0]: f for f in new}
        for sl, f in old_by_slot.items():
            g = new_by_slot.get(sl)
            if g is None or (g[1], g[2], g[3], g[4], g[7], g[8]) != (f[1], f[2], f[3], f[4], f[7], f[8]):
                V("old_files", "a previously stored file changed or vanished", {"side": i, "slot": sl, "name": f[1].decode("latin1")})
                break
        added = [decoded_key(new_by_slot[sl]) for sl in sorted(new_by_slot) if sl not in old_by_slot]
        want = placed[i]
        # catalog order of additions follows slot order only when free slots are contiguous; compare as multisets then order by report
        if sorted(added) != sorted(want):
            only_image = [(a[0], a[1], a[2], len(a[3])) for a in added if a not in want][:4]
            only_rule = [(a[0], a[1], a[2], len(a[3])) for a in want if a not in added][:4]
            V("placement", "files added to the side differ from the placement rule", {"side": i, "only_in_image": only_image, "only_by_rule": only_rule, "added": [(a[0], len(a[3])) for a in added][:6], "want": [(a[0], len(a[3])) for a in want][:6]})
            V("stored_match", "files added to the side differ from the sources offered", {"side": i, "only_in_image": only_image, "only_by_rule": only_rule, "added": [(a[0], len(a[3])) for a in added][:6], "want": [(a[0], len(a[3])) for a in want][:6]})
        for a in added:
            nm = a[0]
        # report section of this side
        secs = [x for x in rep["sections"] if x["side"] == i]
        rep_ok = [f["name"].rstrip() + "." + f["ext"].rstrip() for x in secs for f in x["files"] if f.get("res") not in ("too big", "ignored")]
        rep_big = [f["name"].rstrip() + "." + f["ext"].rstrip() for x in secs for f in x["files"] if f.get("res") == "too big"]
        if rep_ok != [w[0] for w in want]:
            V("report_sections", "report section does not list exactly the files stored on the side", {"side": i, "report": rep_ok[:8], "image": [w[0] for w in want][:8]})
        if rep_big != [n for (sd_, n) in too_big if sd_ == i]:
            V("report_sections", "too-big announcements differ from the placement rule", {"side": i, "report": rep_big, "want": [n for (sd_, n) in too_big if sd_ == i]})
        # frame condition (C06)
        if "frame" in clauses and old is not None:
            pre_tab = pre_sides[i][20 * 16 + 1][1:161]
            for b in range(160):
                if pre_tab[b] != 0xFF and b not in (40, 41):
                    for s8 in range(8):
                        k = (b // 2) * 16 + 8 * (b % 2) + s8
                        if pre_sides[i][k] != s[k]:
                            V("frame", "a sector of a block that was in use or reserved was modified", {"side": i, "block": b, "sector": s8})
                            break
            new_blocks = {b for sl in new_by_slot if sl not in old_by_slot for b in new_by_slot[sl][5]}
            pb, nb = pre_sides[i][20 * 16 + 1], s[20 * 16 + 1]
            # the frame clause is about blocks "in use or reserved before the addition"; on a side that was never formatted the
            # table shows the two blocks of track 20 (the table and the catalog themselves) as free, and the first file stored
            # there makes them reserved (C05: they are never handed to a file): that change, and only that one, is admitted
            never_formatted = pre_tab[40] == 0xFF and pre_tab[41] == 0xFF
            for j in range(256):
                if never_formatted and want and (j - 1) in (40, 41) and nb[j] == 0xFE:
                    continue
                if pb[j] != nb[j] and (j - 1) not in new_blocks:
                    V("frame", "a byte of the allocation table not describing an added file changed", {"side": i, "offset": j, "was": pb[j], "now": nb[j]})
                    break
            new_slots = {sl for sl in new_by_slot if sl not in old_by_slot}
            for sl in range(112):
                k = 20 * 16 + 2 + sl // 8
                a, bb = pre_sides[i][k][32 * (sl % 8): 32 * (sl % 8) + 32], s[k][32 * (sl % 8): 32 * (sl % 8) + 32]
                if a != bb and sl not in new_slots:
                    V("frame", "a catalog entry not describing an added file changed", {"side": i, "slot": sl})
                    break
        # refusal changes nothing (C05)
        if not want and old is not None:
            if pre_sides[i][20 * 16 + 1] != s[20 * 16 + 1] or pre_sides[i][20 * 16 + 2: 20 * 16 + 16] != s[20 * 16 + 2: 20 * 16 + 16]:
                V("refusal_noop", "a side that stored nothing has a different table or catalog", {"side": i})
        # usage
        tab = s[20 * 16 + 1][1:161]
        fr = sum(1 for x in tab if x == 0xFF)
        rs = sum(1 for x in tab if x == 0xFE)
        if new is not None and fr + rs + sum(len(f[5]) for f in new) != 160 and D.py_fsck(s, strict=False) is None:
            V("usage_sum", "free + used + reserved differs from 160", {"side": i})
    # report counts (C12)
    if "report_counts" in clauses:
        check_update_report(res, stream, case, rep, placed, verbose, V)
    if not items and mode == "add" and raw != (pre_raw if fl == "fd" else normalise_sd(pre_raw)):
        V("noop_identity", "adding nothing changed the image", {"first_diff": next((k for k, (a, b) in enumerate(zip(raw, pre_raw)) if a != b), None)})
    return raw


def normalise_sd(raw):
    out = bytearray(raw)
    for k in range(len(raw) // 512):
        out[k * 512 + 256:(k + 1) * 512] = b"\xff" * 256
    return bytes(out)


def check_update_report(res, stream, case, rep, placed, verbose, V):
    tot_files = 0
    tot_blocks = 0
    for sec in rep["sections"]:
        i = sec["side"]
        want = placed.get(i, [])
        oks = [f for f in sec["files"] if f.get("res") not in ("too big", "ignored")]
        c = sec["count"]
        n = len(want)
        if c is None:
            V("report_counts", "side section without a count line", {"side": i})
            continue
        got_n = 0 if c.get("n") is None else int(c["n"])
        if got_n != n or (c.get("n") is not None and (c["s"] == "s") != (n != 1)):
            V("report_counts", "per-side file count or its plural is wrong", {"side": i, "printed": c, "stored": n})
        if verbose:
            blocks = sum(blocks_needed(len(w[3])) for w in want)
            if int(c["blocks"]) != blocks or (c["ks"] == "s") != (blocks != 1) or c["pct"] != f"{blocks / 160:.1%}":
                V("report_counts", "per-side block count, plural or percentage is wrong", {"side": i, "printed": c, "blocks": blocks})
            for f, w in zip(oks, want):
                if int(f["bytes"]) != len(w[3]) or int(f["blocks"]) != blocks_needed(len(w[3])) or (f["bs"] == "s") != (len(w[3]) != 1) or (f["ks"] == "s") != (blocks_needed(len(w[3])) != 1):
                    V("report_counts", "verbose size or block count of a file is wrong", {"side": i, "file": w[0], "printed": f, "bytes": len(w[3])})
                kind, flag = w[1], w[2]
                tod = ("ASCII" if flag == 0xFF else "TOKEN") if kind == 0 else ("ASCII" if flag == 0xFF else "BINARY")
                if (f["tof"], f["tod"]) != (TOF[kind], tod):
                    V("report_counts", "verbose kind of a file is wrong", {"side": i, "file": w[0], "printed": (f["tof"], f["tod"])})
            tot_blocks += blocks
        tot_files += n
    t = rep["total"]
    if t is None or "n" not in t:
        V("report_counts", "no TOTAL line", t)
    else:
        if int(t["n"]) != tot_files or (t["s"] == "s") != (tot_files != 1):
            V("report_counts", "total file count or plural is wrong", {"printed": t, "stored": tot_files})
        if verbose and (int(t["blocks"]) != tot_blocks or (t["ks"] == "s") != (tot_blocks != 1)):
            V("report_counts", "total block count or plural is wrong", {"printed": t, "blocks": tot_blocks})


def check_read_reports(ctx, res, stream, sc, raw, clauses, case):
    """list / extract (quiet and verbose) of an image against the independent decoding of it"""
    st = res.stream(stream)
    fl = sc.fl
    sides = D.sides_of(raw, fl)
    decoded = [D.py_files(s) for s in sides]
    outs = {}
    for key, action, verbose in (("t", "-t", False), ("tv", "-t", True)):
        outs[key] = sc.run(action, verbose)
    xs = {}
    for key, verbose in (("x", False), ("xv", True)):
        xs[key] = K.extract_tree(sc, verbose)
    reqs = [D.model_list(sc.blobs, fl, False, raw), D.model_list(sc.blobs, fl, True, raw),
            D.model_extract(sc.blobs, fl, False, sc.archive, None, raw), D.model_extract(sc.blobs, fl, True, sc.archive, None, raw)]
    ans = [D.parse_disk_outcome(a) for a in drv(reqs)]
    for key, mo in zip(("t", "tv"), ans[:2]):
        K.compare_outcome(res, stream, st, case, "list" + key, outs[key][0], outs[key][1], None, mo)
    for key, mo in zip(("x", "xv"), ans[2:]):
        if mo is None:
            st.unmodelled += 1
            continue
        st.compared += 1
        if (xs[key][0], xs[key][1] if xs[key][0] == "ok0" else "") != (mo["status"], mo["out"] if mo["status"] == "ok0" else "") or dict(mo["writes"]) != xs[key][2]:
            res.disagree(stream, dict(case, action="extract" + key), {"status": mo["status"], "out": mo["out"][:800], "files": sorted(dict(mo["writes"]))[:8]},
                         {"status": xs[key][0], "out": xs[key][1][:800], "files": sorted(xs[key][2])[:8]})

    def V(clause, msg, detail):
        if clause in clauses:
            res.violate(stream, msg, case, detail, {"clause": clause})

    if any(d is None for d in decoded):
        return
    if any(v[0] != "ok0" for v in outs.values()) or any(v[0] != "ok0" for v in xs.values()):
        V("read_status", "list/extract failed on a well-formed image", {k: v[0] for k, v in list(outs.items()) + list(xs.items())})
        return
    want_tree = {}
    for i, fs in enumerate(decoded):
        for f in fs:
            want_tree[f"side{i}/" + decoded_key(f)[0]] = f[8]
    for key in ("x", "xv"):
        if xs[key][2] != want_tree:
            bad = sorted(k for k in set(xs[key][2]) | set(want_tree) if xs[key][2].get(k) != want_tree.get(k))
            V("extract_exact", "extract does not write exactly the live files' bytes", {"differing": bad[:6]})
    for key, verbose in (("t", False), ("tv", True), ("x", False), ("xv", True)):
        text = outs[key][1] if key in outs else xs[key][1]
        rep = K.parse_report(text, verbose)
        if rep["junk"]:
            V("report_parse", "unparseable report line", rep["junk"][:3])
        if [s["side"] for s in rep["sections"]] != list(range(len(sides))):
            V("list_exact", "report does not have one section per side", [s["side"] for s in rep["sections"]])
            continue
        tf = tb = 0
        for i, sec in enumerate(rep["sections"]):
            fs = decoded[i]
            names = [f["name"].rstrip() + "." + f["ext"].rstrip() for f in sec["files"]]
            if names != [decoded_key(f)[0] for f in fs]:
                V("list_exact", "report does not name exactly the live files of the side, in catalog order", {"side": i, "report": names[:8], "image": [decoded_key(f)[0] for f in fs][:8]})
                continue
            if verbose:
                for pf, f in zip(sec["files"], fs):
                    kind = f[3] if f[3] in (0, 1, 2, 3) else 1
                    tod = ("ASCII" if f[4] == 0xFF else "TOKEN") if kind == 0 else ("ASCII" if f[4] == 0xFF else "BINARY")
                    if (pf["tof"], pf["tod"]) != (TOF[kind], tod):
                        V("list_exact", "recorded kind is not reported", {"side": i, "file": names, "printed": (pf["tof"], pf["tod"])})
                    if int(pf["bytes"]) != len(f[8]) or int(pf["blocks"]) != len(f[5]):
                        V("list_exact", "true size / block count is not reported", {"side": i, "printed": (pf["bytes"], pf["blocks"]), "true": (len(f[8]), len(f[5]))})
                    if (pf["bs"] == "s") != (len(f[8]) != 1) or (pf["ks"] == "s") != (len(f[5]) != 1):
                        V("report_counts", "singular/plural disagrees with the number", {"side": i, "printed": pf})
                c = sec["count"]
                nb = sum(len(f[5]) for f in fs)
                tab = sides[i][20 * 16 + 1][1:161]
                rs = sum(1 for x in tab if x == 0xFE)
                us = sum(1 for x in tab if x not in (0xFE, 0xFF))
                if c is None:
                    V("report_counts", "no count line", {"side": i})
                else:
                    n = 0 if c.get("n") is None else int(c["n"])
                    if n != len(fs) or (c.get("n") is not None and (c["s"] == "s") != (n != 1)):
                        V("report_counts", "per-side file count wrong", {"side": i, "printed": c, "files": len(fs)})
                    if key == "tv":
                        if (int(c["res"]), int(c["used"])) != (rs, us) or c["pct"] != f"{(rs + us) / 160:.1%}":
                            V("report_counts", "listing usage line wrong", {"side": i, "printed": c, "reserved": rs, "used": us})
                    else:
                        if int(c["blocks"]) != nb or c["pct"] != f"{nb / 160:.1%}" or (c["ks"] == "s") != (nb != 1):
                            V("report_counts", "per-side block count / percentage wrong", {"side": i, "printed": c, "blocks": nb})
                tb += nb
            elif key == "x":
                c = sec["count"]
                if c is None or int(c["n"]) != len(fs) or (c["s"] == "s") != (len(fs) != 1):
                    V("report_counts", "per-side file count wrong", {"side": i, "printed": c, "files": len(fs)})
            tf += len(fs)
        if key in ("x", "xv"):
            t = rep["total"]
            if t is None or "n" not in t or int(t["n"]) != tf or (t["s"] == "s") != (tf != 1):
                V("report_counts", "total file count wrong", {"printed": t, "files": tf})
            elif verbose and (int(t["blocks"]) != tb or (t["ks"] == "s") != (tb != 1)):
                V("report_counts", "total block count wrong", {"printed": t, "blocks": tb})
    return decoded


# --------------------------------------------------------------------------------------------
# generators
# --------------------------------------------------------------------------------------------

def gen_items(rng, used, shape=None, free_hint=157):
    """one batch: list of ('file', name, content) | ('eos',) | ('missing', name)"""
    shape = shape or rng.choice(["one", "few", "few", "eos_mix", "many", "big", "overflow", "fill_exact"])
    items = []

    paths = set()

    def f(size):
        name = None
        if used and rng.random() < 0.12:
            # a name the image (or this batch) already holds, offered again — the newer version of a stored file, the commonest use
            # of --add: both are kept (distinct names are a premise of C02 only); spelled so that it is another host file than any
            # other source of this batch
            key = rng.choice(sorted(used))
            for cand in () if not all(32 <= ord(ch) < 127 for ch in key) else (key.lower(), key, key.title(), key.swapcase()):
                if (T.catalog_name(cand) == key and T.split_source(cand)[4] not in paths and not cand.startswith("-") and len(T.split_source(cand)[1]) <= 3
                        and T.split_source(cand)[4] not in ("", ".", "..") and "/" not in cand and "\x00" not in cand):
                    name = cand
                    break
        if name is None:
            name = D.gen_disk_name(rng, used, dashed=True)
        if T.split_source(name)[4] in paths:
            name = D.gen_disk_name(rng, used)
        paths.add(T.split_source(name)[4])
        c = T.content_for(rng, size) if size < 30000 else (rng.randbytes(size) if rng.random() < 0.7 else bytes([rng.getrandbits(8)]) * size)
        return ("file", name, c)

    if shape == "one":
        items.append(f(rng.choice(D.DISK_SIZES)))
    elif shape == "few":
        for _ in range(rng.choice([2, 3, 5])):
            items.append(f(rng.choice(D.DISK_SIZES + [rng.randint(0, 9000)])))
    elif shape == "eos_mix":
        for _ in range(rng.choice([2, 4, 6])):
            items.append(("eos",) if rng.random() < 0.35 else f(rng.choice(D.DISK_SIZES)))
    elif shape == "many":
        for _ in range(rng.choice([113, 120])):
            items.append(f(rng.choice([0, 1, 300])))
    elif shape == "big":
        items.append(f(rng.choice([2040 * 20, 2040 * 78, 2040 * 79 + 1, 320280, 320281, 2040 * free_hint, 2040 * free_hint + 1])))
        items.append(f(rng.choice([0, 2041, 100000])))
    elif shape == "fill_exact":
        # leave exactly 0, 1 or 2 free blocks on the side, then small files that land in the very last blocks
        left = rng.choice([0, 1, 1, 2])
        items.append(f(2040 * (free_hint - left) - rng.choice([0, 0, 1, 254])))
        for _ in range(rng.choice([1, 2, 3])):
            items.append(f(rng.choice([0, 1, 100, 2040, 2041])))
    elif shape == "overflow":
        items.append(f(330000))
        items.append(f(10))
    if rng.random() < 0.08:
        items.insert(rng.randrange(len(items) + 1), ("missing", "nothere.bin"))
    if rng.random() < 0.12:
        # refused before anything is read from the side: name longer than 8, extension longer than 3
        items.insert(rng.randrange(len(items) + 1), ("file", rng.choice(TOO_LONG), T.content_for(rng, rng.choice([0, 1, 300]))))
    if rng.random() < 0.10:
        # refused as well: the catalog stores 7-bit names
        items.insert(rng.randrange(len(items) + 1), ("file", rng.choice(NOT_ASCII), T.content_for(rng, rng.choice([0, 1, 300]))))
    return items


NOT_ASCII = ["\u00e9.dat", "na\u00efve.bas", "\u00f1", "a.b\u00e9", "caf\u00e9.bin", "\u0416.txt", "x\u20ac.bas,a", "\U0001F600.dat"]
TOO_LONG = ["ninechars.bas", "toolongname.bin", "a.abcd", "longextension.text", "x.bas,ab", "123456789", "noext_but_long", "ab.c.defg"]


def gen_aside(rng, nfiles=None, weird=True, full_catalog=False):
    """abstract description of a well-formed third-party side (for the independent writer);
    full_catalog: 112 live one-block files scattered over the side, so that the free blocks are fragmented and any added
    file is refused for lack of a catalog entry after its blocks were taken"""
    reserved = [0, 40, 41] if rng.random() < 0.7 else sorted({40, 41} | set(rng.sample(range(160), rng.choice([1, 3, 10]))))
    avail = [b for b in range(160) if b not in reserved]
    rng.shuffle(avail) if rng.random() < 0.8 else None
    slots = list(range(112))
    if rng.random() < 0.7:
        rng.shuffle(slots)
    nfiles = rng.choice([0, 1, 2, 4, 9, 20]) if nfiles is None else nfiles
    if full_catalog:
        nfiles = 112
        rng.shuffle(avail)
    files = []
    names = set()
    for _ in range(nfiles):
        if not avail:
            break
        n = min(len(avail), rng.choice([1, 1, 1, 2, 3, 8, 30, 79]))
        if rng.random() < 0.04:
            n = min(len(avail), 157)
        if full_catalog:
            n = 1
        chain = [avail.pop() for _ in range(n)]
        ls = rng.choice([1, 2, 3, 4, 5, 6, 7, 8, 8])
        lb = rng.choice([0, 1, 127, 254, 255, rng.randint(0, 255)])
        size = 255 * (8 * (n - 1) + ls - 1) + lb
        while True:
            nm = "".join(rng.choice("ABCDEFGHIJKLMNOPQRSTUVWXYZ0123456789_-") for _ in range(rng.choice([1, 4, 8])))
            ex = rng.choice(["BAS", "BIN", "DAT", "TXT", "", "A", "Z9"])
            if weird and rng.random() < 0.3:
                # what another system may have written: lower-case letters, blanks, dots, commas, punctuation — shown and extracted as stored
                nm = "".join(rng.choice("abcdefghijklmnopqrstuvwxyzABCXYZ019 .,!#$%&'()+;=@[]^{}~:\"\\<>?|\x7f") for _ in range(rng.choice([1, 3, 5, 8])))
                ex = rng.choice(["bas", "Bas", "txt", "dat", "a b", "x,y", "b", "", "BIN", "é"[:0] + "z9"])
                if nm.strip() in ("", ".", "..") or nm != nm.rstrip() or nm.startswith("-"):
                    continue
            if (nm, ex) not in names:
                names.add((nm, ex))
                break
        content = T.content_for(rng, size) if size < 20000 else (rng.randbytes(size) if rng.random() < 0.7 else bytes([rng.getrandbits(8)]) * size)
        nb, eb = bytearray((nm + " " * 8)[:8].encode()), bytearray((ex + "   ")[:3].encode())
        if weird and rng.random() < 0.2:
            # a control character in one of the eleven name bytes (another system may have left it): shown and extracted as 'x'
            pos = rng.choice([0, 1, 7, 8, 9, 10, 10, rng.randrange(11)])
            (nb if pos < 8 else eb)[pos if pos < 8 else pos - 8] = rng.choice([1, 7, 13, 27, 31])
            if (shown(bytes(nb)).rstrip(), shown(bytes(eb)).rstrip()) in {(shown(x["name"]).rstrip(), shown(x["ext"]).rstrip()) for x in files}:
                nb, eb = bytearray((nm + " " * 8)[:8].encode()), bytearray((ex + "   ")[:3].encode())
        files.append({"slot": slots.pop(), "name": bytes(nb), "ext": bytes(eb),
                      # the kind and flag bytes another system may have left: kinds beyond 0..3 read as data, any flag but FF as binary / tokenized
                      "kind": rng.choice([0, 1, 2, 3]) if not weird or rng.random() < 0.8 else rng.choice([4, 7, 9, 128, 250, 255]),
                      "flag": rng.choice([0, 0xFF]) if not weird or rng.random() < 0.8 else rng.choice([1, 0x7F, 0x80, 0xFE]), "chain": chain, "lastSectors": ls, "lastBytes": lb,
                      "content": content})
    deleted = []
    for _ in range(0 if full_catalog else rng.choice([0, 0, 1, 3, 7])):
        if not slots:
            break
        raw = bytearray(rng.getrandbits(8) for _ in range(32)) if weird and rng.random() < 0.5 else bytearray(b"OLDFILE BAS" + bytes([0, 0, rng.choice([5, 200, 0xFF, 0xC8]), 0, 9]) + b"\x00" * 16)
        raw[0] = 0
        deleted.append((slots.pop(), bytes(raw)))
    return {"files": files, "deleted": deleted, "reserved": reserved, "filler": rng.choice([0xE5, 0, 0xFF, 0x55]),
            "tableTail": rng.choice([0, 0xFF, 7]), "recPad": rng.choice([0, 0xFF, 0x20]), "byte0": rng.choice([0, 0, 0xFF])}


def render_image(ctx, blobs, asides, fl, check_twin=True, res=None, stream=None):
    """bytes of an image whose sides are rendered by the independent writer; Lean's render must agree with the Python twin"""
    sides = [D.py_render(a) for a in asides]
    if check_twin:
        reqs = []
        outs = []
        for a in asides:
            outp = blobs.out()
            outs.append(outp)
            reqs.append(D.render_args(blobs, a, outp))
        answers = drv(reqs)
        if res is not None:
            res.count("asides_rendered_by_lean", len(answers))
            res.count("asides_satisfying_wfDescB", sum(1 for x in answers if x == "ok wf"))
        if any(x != "ok wf" for x in answers):
            # the generator left the domain of C07.independent_writer_is_read_exactly: a defect of the generator, not of the tool
            raise AssertionError("gen_aside produced a description that Spec.Dos.wfDescB rejects: " + repr(answers))
        for k, outp in enumerate(outs):
            if open(outp, "rb").read() != b"".join(sides[k]):
                if res is not None:
                    res.disagree(stream, {"aside": k}, "Lean Spec.Dos.render", "differs from the Python twin writer")
    return D.raw_of_sides(sides, fl)
