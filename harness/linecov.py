"""which lines of the anchored source files did the in-process runs of a check execute?

Uses sys.monitoring (Python >= 3.12): every line location fires once and is then disabled, so the cost is negligible.
The result goes into the evidence file: it says how much of the code the correspondence streams of this run actually
drove through the real implementation (sub-process runs — C18, C19 — are not seen)."""
import os
import sys


class LineCov:
    def __init__(self, root):
        self.root = os.path.realpath(root) + os.sep
        self.hit = {}
        self.on = False
        self.tool = None

    def start(self):
        mon = getattr(sys, "monitoring", None)
        if mon is None:
            return
        try:
            self.tool = mon.COVERAGE_ID
            mon.use_tool_id(self.tool, "moto-verif-linecov")
        except ValueError:
            return
        mon.register_callback(self.tool, mon.events.LINE, self._line)
        mon.set_events(self.tool, mon.events.LINE)
        self.on = True

    def _line(self, code, line):
        fn = code.co_filename
        if fn.startswith(self.root) or os.path.realpath(fn).startswith(self.root):
            self.hit.setdefault(os.path.realpath(fn), set()).add(line)
        return sys.monitoring.DISABLE

    def stop(self):
        if self.on:
            mon = sys.monitoring
            mon.set_events(self.tool, 0)
            mon.register_callback(self.tool, mon.events.LINE, None)
            mon.free_tool_id(self.tool)
            self.on = False

    @staticmethod
    def executable_lines(path):
        """line numbers that carry code, from the compiled code objects (docstrings and def/class headers excluded
        when they are the only thing on their line at module import time is not attempted: import-time lines count)"""
        try:
            src = open(path).read()
            top = compile(src, path, "exec")
        except (OSError, SyntaxError):
            return set()
        out = set()
        stack = [top]
        while stack:
            co = stack.pop()
            for _, _, ln in co.co_lines():
                if ln is not None and ln > 0:
                    out.add(ln)
            for c in co.co_consts:
                if hasattr(c, "co_lines"):
                    stack.append(c)
        return out

    def report(self, files):
        """files: paths relative to the repository root (anchors of the property)"""
        if not self.on and not self.hit:
            return {"available": False}
        rep = {"available": True, "files": {}}
        tot_e = tot_h = 0
        for rel in files:
            path = os.path.realpath(os.path.join(self.root, rel))
            if not path.endswith(".py") or not os.path.exists(path):
                continue
            ex = self.executable_lines(path)
            hit = self.hit.get(path, set()) & ex
            miss = sorted(ex - hit)
            tot_e += len(ex)
            tot_h += len(hit)
            rep["files"][rel] = {"executable": len(ex), "executed": len(hit), "not_executed": ranges(miss)}
        rep["executable"] = tot_e
        rep["executed"] = tot_h
        return rep


def ranges(nums):
    out = []
    i = 0
    while i < len(nums):
        j = i
        while j + 1 < len(nums) and nums[j + 1] == nums[j] + 1:
            j += 1
        out.append(str(nums[i]) if i == j else f"{nums[i]}-{nums[j]}")
        i = j + 1
    return ",".join(out)
