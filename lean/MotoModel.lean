import MotoModel.Model.Py
import MotoModel.Model.LineTools
