import MotoModel.Model.Py
import MotoModel.Model.LineTools
import MotoModel.Spec.LineTools
import MotoModel.Model.Tape
import MotoModel.Spec.K7
import MotoModel.Spec.Names
import MotoModel.Model.DiskCli
import MotoModel.Spec.Dos
import MotoModel.Model.Basic
import MotoModel.Spec.BasicRef
import MotoModel.Model.Argparse
import MotoModel.Model.ConvCli
open Moto

def hexVal (c : Char) : Nat :=
  if '0' ≤ c ∧ c ≤ '9' then c.toNat - 48
  else if 'a' ≤ c ∧ c ≤ 'f' then c.toNat - 87
  else if 'A' ≤ c ∧ c ≤ 'F' then c.toNat - 55 else 0

/-- "-" is the empty byte string -/
def unhex (s : String) : List Nat :=
  if s == "-" then [] else
  let rec go : List Char → List Nat
    | a :: b :: rest => (hexVal a * 16 + hexVal b) :: go rest
    | _ => []
  go s.toList

def hexDigit (n : Nat) : Char := if n < 10 then Char.ofNat (48 + n) else Char.ofNat (87 + n)

def hex (bs : List Nat) : String :=
  if bs.isEmpty then "-" else
  String.ofList (bs.flatMap fun b => [hexDigit (b / 16 % 16), hexDigit (b % 16)])

/-- code points travel as comma-separated decimals; "-" is empty -/
def uncp (s : String) : List Nat :=
  if s == "-" then [] else (s.splitOn ",").map String.toNat!

def cp (l : List Nat) : String :=
  if l.isEmpty then "-" else ",".intercalate (l.map toString)

def errName : PyErr → String
  | .valueError _ => "ValueError"
  | .indexError => "IndexError"
  | .typeError => "TypeError"
  | .overflowError => "OverflowError"
  | .unicodeError => "UnicodeDecodeError"
  | .nameError => "UnboundLocalError"
  | .attributeError => "AttributeError"
  | .osError k => k

def showStatus : Tape.Status → String
  | .ret n => s!"ok{n}"
  | .raised e => errName e

/-- `status|out lines|mkdirs|writes` -/
def showOutcome (o : Tape.Outcome) : String :=
  showStatus o.status ++ "|" ++ ";".intercalate (o.out.map cp) ++ "|" ++ ";".intercalate (o.mkdirs.map cp)
    ++ "|" ++ ";".intercalate (o.writes.map fun (p, b) => cp p ++ ">" ++ hex b)

def worldOf : List String → List (Str × Option Bytes)
  | p :: c :: rest => (uncp p, if c == "missing" then none else some (unhex c)) :: worldOf rest
  | _ => []

def lookupWorld (w : List (Str × Option Bytes)) (p : Str) : Option Bytes :=
  match w.find? (fun e => e.1 == p) with
  | some (_, c) => c
  | none => none

def tworldOf : List String → List (Str × Option Conv.Listing)
  | p :: c :: rest => (uncp p, if c == "missing" then none else if c == "undecodable" then some .undecodable else some (.text (uncp c))) :: tworldOf rest
  | _ => []

def lookupText (w : List (Str × Option Conv.Listing)) (p : Str) : Option Conv.Listing :=
  match w.find? (fun e => e.1 == p) with
  | some (_, c) => c
  | none => none

/-- `status|writes` of a converter run -/
def showConv (o : Conv.Out) : String :=
  (match o.err with | none => "ok0" | some e => errName e) ++ "|" ++ ";".intercalate (o.writes.map fun (p, b) => cp p ++ ">" ++ hex b)

def sfilesOf : List String → List Spec.K7.SFile
  | n :: e :: k :: m :: c :: rest => ⟨uncp n, uncp e, k.toNat!, m.toNat!, unhex c⟩ :: sfilesOf rest
  | _ => []

def wblocksOf : List String → List Spec.K7.WBlock
  | l :: t :: p :: g :: rest => ⟨l.toNat!, t.toNat!, unhex p, unhex g⟩ :: wblocksOf rest
  | _ => []

/-- leader blocks whose name/extension bytes are not ASCII are outside the modelled domain -/
def tapeModelled (tape : Bytes) : Bool :=
  (Tape.readAll tape).all fun raw =>
    !(raw.getD 0 1 == Gen.Tape.typeLeader) || (slice raw 2 13).all (· < 128)

def showVal : Argparse.Val → String
  | .none => "N"
  | .bool b => if b then "T" else "F"
  | .str s => "S" ++ cp s
  | .int i => "I" ++ toString i
  | .list l => "L" ++ "/".intercalate (l.map cp)

/-- `help` | `error` | `ok dest=value;… | extras` (destinations sorted by the harness) -/
def showArgOut : Argparse.Out → String
  | .help => "help"
  | .error => "error"
  | .ok ns extras => "ok " ++ ";".intercalate (ns.map fun (k, v) => cp k ++ "=" ++ showVal v) ++ " | " ++ "/".intercalate (extras.map cp)

/-- code points beyond ASCII whose Python `upper()` is ASCII (ß ı ſ and the ligatures ﬀ … ﬆ): the tools store such a name under
    its ASCII upper-case; the model's `upper` maps a–z only and takes the name for a non-ascii one — outside the modelled domain -/
def upperLeavesAscii (s : Str) : Bool := s.any (fun c => c == 223 || c == 305 || c == 383 || (64256 ≤ c && c ≤ 64262))

/-- a relative path that climbs above the directory it starts from (`../x/f`): whether it comes back to the same place depends on
    the name of the working directory, which the lexical `samePath` of the model does not know — outside the modelled domain -/
def climbsOut (p : Str) : Bool := p.head? != some 47 && (normComponents p).head? == some [46, 46]

def pathsModelled (ps : List Str) : Bool := !(ps.any upperLeavesAscii) && !(ps.any climbsOut)

def srcPairs : List String → List (Bool × Str)
  | f :: t :: rest => (f == "1", uncp t) :: srcPairs rest
  | _ => []

def handle (args : List String) : String :=
  match args with
  | "argv.parse" :: tool :: level :: rest =>
    (match Gen.Cli.tools.find? (fun t => t.name == uncp tool) with
     | none => "bad-tool"
     | some t =>
       let argv := rest.map uncp
       -- outside the modelled domain: code points beyond ASCII or control characters (Unicode digits, white space and
       -- upper-casing are Python's), a parser shape the sequential match is not exact for
       if argv.any (fun a => a.any (fun c => c < 32 || c > 126)) || !Argparse.wellShaped t then "unmodelled"
       else showArgOut (if level == "known" then Argparse.parseKnown t argv else Argparse.cliParse t argv))
  | ["ping"] => "pong"
  | "conv.lst2bas" :: n :: rest =>
      let srcs := (rest.take n.toNat!).map uncp
      let w := tworldOf (rest.drop n.toNat!)
      -- outside the modelled domain: source names beyond ASCII (`upper()` is Python's), a listing beyond ASCII given to the
      -- tokenizing conversion (C13 / C14 are about ASCII listings)
      if srcs.any (fun s => s.any (· ≥ 128)) || srcs.any (fun s => match lookupText w s with | some (.text t) => t.any (· ≥ 128) | _ => false)
      then "unmodelled" else showConv (Conv.lst2basRun (lookupText w) srcs)
  | "conv.bas2lst" :: dos :: n :: rest =>
      let srcs := (rest.take n.toNat!).map uncp
      let w := worldOf (rest.drop n.toNat!)
      if srcs.any (fun s => s.any (· ≥ 128)) then "unmodelled" else showConv (Conv.bas2lstRun (lookupWorld w) (dos == "1") srcs)
  | ["names.tape", src] =>
      let t := Spec.Names.tapeSource (uncp src)
      " ".intercalate [cp t.name, cp t.ext, toString t.kind, toString t.mode, cp t.path]
  | ["names.disk", src] =>
      let t := Spec.Names.diskSource (uncp src)
      " ".intercalate [cp t.name, cp t.ext, cp t.extWithOption, cp t.path]
  | "spec.nl" :: s :: i :: w :: files =>
      ";".intercalate ((Spec.specNl s.toNat! i.toNat! w.toNat! none ((files.map uncp).flatMap readlines)).map cp)
  | ["spec.tolisting", d, b] => hex (Spec.specToListing (if d == "1" then [13, 10] else [10]) (unhex b))
  | ["spec.roundtrip", d, t] =>
      hex ((((readlines (uncp t)).map (fun l => (rstripBy isSpacePy l).filter (· < 128))).filter (· ≠ [])).flatMap
        (· ++ (if d == "1" then [13, 10] else [10])))
  | ["spec.upper", t] => cp (Spec.specUpper false (uncp t))
  | "tape.inject" :: v :: archive :: n :: rest =>
      let srcs := (rest.take n.toNat!).map uncp
      let w := worldOf (rest.drop n.toNat!)
      if pathsModelled (uncp archive :: srcs) then showOutcome (Tape.inject (lookupWorld w) (v == "v") (uncp archive) srcs) else "unmodelled"
  | ["tape.list", v, t] =>
      let tape := unhex t
      if tapeModelled tape then showOutcome (Tape.enumerate (v == "v") tape) else "unmodelled"
  | ["tape.extract", v, archive, into, t] =>
      let tape := unhex t
      if tapeModelled tape && pathsModelled (uncp archive :: (if into == "~" then [] else [uncp into])) then
        showOutcome (Tape.extract (v == "v") (uncp archive) (if into == "~" then none else some (uncp into)) tape)
      else "unmodelled"
  | ["tape.blocks", t] => ";".intercalate ((Tape.readAll (unhex t)).map hex)
  | "k7.tape" :: rest => hex (Spec.K7.tape (sfilesOf rest))
  | "k7.encsize" :: rest => toString (Spec.K7.encSize (sfilesOf rest))
  | "k7.render" :: pre :: rest => hex (Spec.K7.render (unhex pre) (wblocksOf rest))
  | ["bas.convert", t] =>
      -- C13 / C14 are about ASCII listings: beyond ASCII the tool writes UTF-8 bytes and Python's upper-casing, the model one byte per code point
      if (uncp t).any (· ≥ 128) then "unmodelled"
      else (match Basic.convert (uncp t) with | some b => hex b | none => "ValueError")
  | ["bas.body", t] => hex (Basic.encodeBody (uncp t))
  | ["bas.ref", t] => (if Spec.BasicRef.delimited (uncp t) then "1" else "0") ++ " " ++ hex (Spec.BasicRef.encodeRef (uncp t))
  | ["bas.program", f] =>
      (match Spec.BasicRef.parseProgram (unhex f) with
       | none => "bad"
       | some p => ";".intercalate (p.lines.map fun r => s!"{r.2.1}:{hex r.2.2}:{cp (Spec.BasicRef.decode false r.2.2)}"))
  | ["prettier", t] => ";".intercalate ((prettierText (uncp t)).map cp)
  | "nl2" :: s :: i :: w :: rest =>
      -- sources as pairs `<0|1> <text>`: 1 = standard input (no newline translation)
      ";".intercalate ((nlRunSrc ⟨s.toNat!, i.toNat!, w.toNat!⟩ (srcPairs rest)).map cp)
  | "spec.nl2" :: s :: i :: w :: rest =>
      ";".intercalate ((Spec.specNl s.toNat! i.toNat! w.toNat! none ((srcPairs rest).flatMap (fun p => sourceLines p.1 p.2))).map cp)
  | "prettier2" :: rest => ";".intercalate ((prettierSrc (srcPairs rest)).map cp)
  | "nl" :: s :: i :: w :: files =>
      ";".intercalate ((nlRun ⟨s.toNat!, i.toNat!, w.toNat!⟩ (files.map uncp)).map cp)
  | ["conv.toascii", t] => hex (toAsciiBasic (uncp t))
  | ["conv.tolisting", d, b] => hex (toListing (d == "1") (unhex b))
  | _ => "bad-op"

/-- `status|out text|mkdirs|writes`; big contents go to files `<prefix>.<k>` -/
def showDiskOutcome (o : Tape.Outcome) (prefixPath : String) : String × List (String × List Nat) :=
  let text := o.out.foldl (· ++ ·) []
  if text.contains 0 then ("unmodelled", []) else
  let files := (List.range o.writes.length).map fun k => (prefixPath ++ "." ++ toString k, (o.writes.getD k ([], [])).2)
  let ws := (List.range o.writes.length).map fun k => cp (o.writes.getD k ([], [])).1 ++ ">@" ++ prefixPath ++ "." ++ toString k
  (showStatus o.status ++ "|" ++ cp text ++ "|" ++ ";".intercalate (o.mkdirs.map cp) ++ "|" ++ ";".intercalate ws, files)

def flavourOf (s : String) : Disk.Flavour := if s == "sd" then .sd else .fd

def sideOfRaw (fl : Disk.Flavour) (raw : List Nat) (i : Nat) : Spec.Dos.Side :=
  Disk.sectorsOf fl Disk.sectorsPerSide (raw.drop (i * Disk.sizeOfSide fl))

def showDFile (f : Spec.Dos.DFile) (prefixPath : String) (k : Nat) : String × (String × List Nat) :=
  (s!"{f.slot},{hex f.name},{hex f.ext},{f.kind},{f.flag},{cp f.chain},{f.lastSectors},{f.lastBytes},@{prefixPath}.{k}",
   (prefixPath ++ "." ++ toString k, f.content))

def afilesOf (blob : String → List Nat) : Nat → List String → List Spec.Dos.AFile × List String
  | 0, rest => ([], rest)
  | n + 1, slot :: name :: ext :: kind :: flag :: chain :: ls :: lb :: content :: rest =>
    let (fs, r) := afilesOf blob n rest
    (⟨slot.toNat!, unhex name, unhex ext, kind.toNat!, flag.toNat!, uncp chain, ls.toNat!, lb.toNat!, blob content⟩ :: fs, r)
  | _, rest => ([], rest)

def deletedOf : Nat → List String → List (Nat × List Nat) × List String
  | 0, rest => ([], rest)
  | n + 1, slot :: raw :: rest => let (ds, r) := deletedOf n rest; ((slot.toNat!, unhex raw) :: ds, r)
  | _, rest => ([], rest)

def handleDisk (blob : String → List Nat) (args : List String) : String × List (String × List Nat) :=
  match args with
  | "disk.create" :: fl :: v :: archive :: outp :: n :: rest =>
      let srcs := (rest.take n.toNat!).map uncp
      let w := (worldOf' (rest.drop n.toNat!))
      if pathsModelled (uncp archive :: srcs) then showDiskOutcome (Disk.runCreate (flavourOf fl) (lookupWorld w) (v == "v") (uncp archive) srcs) outp
      else ("unmodelled", [])
  | "disk.add" :: fl :: v :: archive :: pre :: outp :: n :: rest =>
      let srcs := (rest.take n.toNat!).map uncp
      let w := (worldOf' (rest.drop n.toNat!))
      if pathsModelled (uncp archive :: srcs) then showDiskOutcome (Disk.runAdd (flavourOf fl) (lookupWorld w) (v == "v") (uncp archive) (blob pre) srcs) outp
      else ("unmodelled", [])
  | ["disk.list", fl, v, pre] => showDiskOutcome (Disk.list (flavourOf fl) (v == "v") (blob pre)) "/dev/null"
  | ["disk.extract", fl, v, archive, into, pre, outp] =>
      if pathsModelled (uncp archive :: (if into == "~" then [] else [uncp into])) then
        showDiskOutcome (Disk.runExtract (flavourOf fl) (v == "v") (uncp archive) (if into == "~" then none else some (uncp into)) (blob pre)) outp
      else ("unmodelled", [])
  | ["disk.archivename", fl, archive] =>
      ((match Disk.checkArchiveName (flavourOf fl) (uncp archive) with | .ok _ => "accepted" | .error _ => "refused"), [])
  | ["disk.setpayload", sec, v] => (hex (Disk.setPayload (blob sec) (blob v)), [])
  | ["dos.fsck", fl, strict, pre, i] => (toString (Spec.Dos.fsck (strict == "1") (sideOfRaw (flavourOf fl) (blob pre) i.toNat!)), [])
  | ["dos.files", fl, pre, i, outp] =>
      match Spec.Dos.files (sideOfRaw (flavourOf fl) (blob pre) i.toNat!) with
      | none => ("none", [])
      | some fs =>
        let rows := (List.range fs.length).map fun k => showDFile (fs.getD k default) outp k
        (";".intercalate (rows.map (·.1)), rows.map (·.2))
  | "dos.render" :: outp :: filler :: tail :: recPad :: byte0 :: reserved :: nf :: rest =>
      let (fs, rest) := afilesOf blob nf.toNat! rest
      let (ds, _) := match rest with
        | nd :: r => deletedOf nd.toNat! r
        | [] => ([], [])
      let a : Spec.Dos.ASide := ⟨fs, ds, uncp reserved, filler.toNat!, tail.toNat!, recPad.toNat!, byte0.toNat!⟩
      -- the answer also says whether the description satisfies the hypotheses of C07.independent_writer_is_read_exactly
      ((if Spec.Dos.wfDescB a then "ok wf" else "ok notwf"), [(outp, (Spec.Dos.render a).flatten)])
  | _ => ("bad-op", [])
where
  worldOf' : List String → List (Str × Option Bytes)
    | p :: c :: rest => (uncp p, if c == "missing" then none else some (blob c)) :: worldOf' rest
    | _ => []

def toBytes (l : List Nat) : ByteArray := ByteArray.mk (l.map UInt8.ofNat).toArray

partial def loop (h : IO.FS.Stream) (out : IO.FS.Stream) : IO Unit := do
  let line ← h.getLine
  if line.isEmpty then return ()
  let l := String.ofList (line.toList.filter (fun c => c != (Char.ofNat 10) && c != (Char.ofNat 13)))
  let args := l.splitOn " "
  -- arguments of the form @path are byte strings read from files
  let mut blobs : List (String × List Nat) := []
  for a in args do
    if a.startsWith "@" && !(blobs.any (·.1 == a)) then
      let data ← IO.FS.readBinFile (a.drop 1).toString
      blobs := (a, data.toList.map (·.toNat)) :: blobs
  let blob := fun (a : String) => if a.startsWith "@" then (match blobs.find? (·.1 == a) with | some (_, d) => d | none => []) else unhex a
  let cmd := args.headD ""
  let (ans, files) := if cmd.startsWith "disk." || cmd.startsWith "dos." then handleDisk blob args else (handle args, [])
  for (p, d) in files do
    if p != "/dev/null" && !p.startsWith "/dev/null." then IO.FS.writeBinFile p (toBytes d)
  out.putStrLn ans
  out.flush
  loop h out

def main : IO Unit := do
  let out ← IO.getStdout
  loop (← IO.getStdin) out
  out.flush
