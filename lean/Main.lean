import MotoModel.Model.Py
import MotoModel.Model.LineTools
import MotoModel.Spec.LineTools
import MotoModel.Model.Tape
import MotoModel.Spec.K7
open Moto

def hexVal (c : Char) : Nat :=
  if '0' ≤ c ∧ c ≤ '9' then c.toNat - 48
  else if 'a' ≤ c ∧ c ≤ 'f' then c.toNat - 87
  else if 'A' ≤ c ∧ c ≤ 'F' then c.toNat - 55 else 0

/-- "-" is the empty byte string -/
def unhex (s : String) : List Nat :=
  if s == "-" then [] else
  let rec go : List Char → List Nat
    | a :: b :: rest => (hexVal a * 16 + hexVal b) :: go rest
    | _ => []
  go s.toList

def hexDigit (n : Nat) : Char := if n < 10 then Char.ofNat (48 + n) else Char.ofNat (87 + n)

def hex (bs : List Nat) : String :=
  if bs.isEmpty then "-" else
  String.ofList (bs.flatMap fun b => [hexDigit (b / 16 % 16), hexDigit (b % 16)])

/-- code points travel as comma-separated decimals; "-" is empty -/
def uncp (s : String) : List Nat :=
  if s == "-" then [] else (s.splitOn ",").map String.toNat!

def cp (l : List Nat) : String :=
  if l.isEmpty then "-" else ",".intercalate (l.map toString)

def errName : PyErr → String
  | .valueError _ => "ValueError"
  | .indexError => "IndexError"
  | .typeError => "TypeError"
  | .overflowError => "OverflowError"
  | .unicodeError => "UnicodeDecodeError"
  | .nameError => "UnboundLocalError"
  | .attributeError => "AttributeError"
  | .osError k => k

def showStatus : Tape.Status → String
  | .ret n => s!"ok{n}"
  | .raised e => errName e

/-- `status|out lines|mkdirs|writes` -/
def showOutcome (o : Tape.Outcome) : String :=
  showStatus o.status ++ "|" ++ ";".intercalate (o.out.map cp) ++ "|" ++ ";".intercalate (o.mkdirs.map cp)
    ++ "|" ++ ";".intercalate (o.writes.map fun (p, b) => cp p ++ ">" ++ hex b)

def worldOf : List String → List (Str × Option Bytes)
  | p :: c :: rest => (uncp p, if c == "missing" then none else some (unhex c)) :: worldOf rest
  | _ => []

def lookupWorld (w : List (Str × Option Bytes)) (p : Str) : Option Bytes :=
  match w.find? (fun e => e.1 == p) with
  | some (_, c) => c
  | none => none

def sfilesOf : List String → List Spec.K7.SFile
  | n :: e :: k :: m :: c :: rest => ⟨uncp n, uncp e, k.toNat!, m.toNat!, unhex c⟩ :: sfilesOf rest
  | _ => []

def wblocksOf : List String → List Spec.K7.WBlock
  | l :: t :: p :: g :: rest => ⟨l.toNat!, t.toNat!, unhex p, unhex g⟩ :: wblocksOf rest
  | _ => []

/-- leader blocks whose name/extension bytes are not ASCII are outside the modelled domain -/
def tapeModelled (tape : Bytes) : Bool :=
  (Tape.readAll tape).all fun raw =>
    !(raw.getD 0 1 == Gen.Tape.typeLeader) || (slice raw 2 13).all (· < 128)

def handle (args : List String) : String :=
  match args with
  | ["ping"] => "pong"
  | "spec.nl" :: s :: i :: w :: files =>
      ";".intercalate ((Spec.specNl s.toNat! i.toNat! w.toNat! none ((files.map uncp).flatMap readlines)).map cp)
  | ["spec.tolisting", d, b] => hex (Spec.specToListing (if d == "1" then [13, 10] else [10]) (unhex b))
  | ["spec.roundtrip", d, t] =>
      hex ((((readlines (uncp t)).map (fun l => (rstripBy isSpacePy l).filter (· < 128))).filter (· ≠ [])).flatMap
        (· ++ (if d == "1" then [13, 10] else [10])))
  | ["spec.upper", t] => cp (Spec.specUpper false (uncp t))
  | "tape.inject" :: v :: archive :: n :: rest =>
      let srcs := (rest.take n.toNat!).map uncp
      let w := worldOf (rest.drop n.toNat!)
      showOutcome (Tape.inject (lookupWorld w) (v == "v") (uncp archive) srcs)
  | ["tape.list", v, t] =>
      let tape := unhex t
      if tapeModelled tape then showOutcome (Tape.enumerate (v == "v") tape) else "unmodelled"
  | ["tape.extract", v, archive, into, t] =>
      let tape := unhex t
      if tapeModelled tape then
        showOutcome (Tape.extract (v == "v") (uncp archive) (if into == "~" then none else some (uncp into)) tape)
      else "unmodelled"
  | ["tape.blocks", t] => ";".intercalate ((Tape.readAll (unhex t)).map hex)
  | "k7.tape" :: rest => hex (Spec.K7.tape (sfilesOf rest))
  | "k7.encsize" :: rest => toString (Spec.K7.encSize (sfilesOf rest))
  | "k7.render" :: pre :: rest => hex (Spec.K7.render (unhex pre) (wblocksOf rest))
  | ["prettier", t] => ";".intercalate ((prettierText (uncp t)).map cp)
  | "nl" :: s :: i :: w :: files =>
      ";".intercalate ((nlRun ⟨s.toNat!, i.toNat!, w.toNat!⟩ (files.map uncp)).map cp)
  | ["conv.toascii", t] => hex (toAsciiBasic (uncp t))
  | ["conv.tolisting", d, b] => hex (toListing (d == "1") (unhex b))
  | _ => "bad-op"

partial def loop (h : IO.FS.Stream) (out : IO.FS.Stream) : IO Unit := do
  let line ← h.getLine
  if line.isEmpty then return ()
  let l := String.ofList (line.toList.filter (fun c => c != (Char.ofNat 10) && c != (Char.ofNat 13)))
  out.putStrLn (handle (l.splitOn " "))
  loop h out

def main : IO Unit := do
  let out ← IO.getStdout
  loop (← IO.getStdin) out
  out.flush
