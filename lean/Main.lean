import MotoModel.Model.Py
import MotoModel.Model.LineTools
import MotoModel.Spec.LineTools
open Moto

def hexVal (c : Char) : Nat :=
  if '0' ≤ c ∧ c ≤ '9' then c.toNat - 48
  else if 'a' ≤ c ∧ c ≤ 'f' then c.toNat - 87
  else if 'A' ≤ c ∧ c ≤ 'F' then c.toNat - 55 else 0

/-- "-" is the empty byte string -/
def unhex (s : String) : List Nat :=
  if s == "-" then [] else
  let rec go : List Char → List Nat
    | a :: b :: rest => (hexVal a * 16 + hexVal b) :: go rest
    | _ => []
  go s.toList

def hexDigit (n : Nat) : Char := if n < 10 then Char.ofNat (48 + n) else Char.ofNat (87 + n)

def hex (bs : List Nat) : String :=
  if bs.isEmpty then "-" else
  String.ofList (bs.flatMap fun b => [hexDigit (b / 16 % 16), hexDigit (b % 16)])

/-- code points travel as comma-separated decimals; "-" is empty -/
def uncp (s : String) : List Nat :=
  if s == "-" then [] else (s.splitOn ",").map String.toNat!

def cp (l : List Nat) : String :=
  if l.isEmpty then "-" else ",".intercalate (l.map toString)

def handle (args : List String) : String :=
  match args with
  | ["ping"] => "pong"
  | "spec.nl" :: s :: i :: w :: files =>
      ";".intercalate ((Spec.specNl s.toNat! i.toNat! w.toNat! none ((files.map uncp).flatMap readlines)).map cp)
  | ["spec.tolisting", d, b] => hex (Spec.specToListing (if d == "1" then [13, 10] else [10]) (unhex b))
  | ["spec.roundtrip", d, t] =>
      hex ((((readlines (uncp t)).map (fun l => (rstripBy isSpacePy l).filter (· < 128))).filter (· ≠ [])).flatMap
        (· ++ (if d == "1" then [13, 10] else [10])))
  | ["spec.upper", t] => cp (Spec.specUpper false (uncp t))
  | ["prettier", t] => ";".intercalate ((prettierText (uncp t)).map cp)
  | "nl" :: s :: i :: w :: files =>
      ";".intercalate ((nlRun ⟨s.toNat!, i.toNat!, w.toNat!⟩ (files.map uncp)).map cp)
  | ["conv.toascii", t] => hex (toAsciiBasic (uncp t))
  | ["conv.tolisting", d, b] => hex (toListing (d == "1") (unhex b))
  | _ => "bad-op"

partial def loop (h : IO.FS.Stream) (out : IO.FS.Stream) : IO Unit := do
  let line ← h.getLine
  if line.isEmpty then return ()
  let l := String.ofList (line.toList.filter (fun c => c != (Char.ofNat 10) && c != (Char.ofNat 13)))
  out.putStrLn (handle (l.splitOn " "))
  loop h out

def main : IO Unit := do
  let out ← IO.getStdout
  loop (← IO.getStdin) out
  out.flush
