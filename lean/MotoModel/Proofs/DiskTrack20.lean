/-
  What a create/add batch leaves alone on track 20 besides the catalog entries and the statuses: the first sector of the track
  (it belongs to reserved block 40 and is neither the table nor the catalog) and, in the table's sector, byte 0 and bytes 161..255
  — whoever wrote them (the bytes the defect F12 used to zero).
-/
import MotoModel.Proofs.DiskUntouched
namespace Moto.Disk
open Moto

/-- byte 0 and bytes 161..255 of a table sector -/
def edgeOf (sec : Bytes) : Bytes × Bytes := (sec.take 1, sec.drop 161)

/-- the table sector of the side has these edge bytes -/
def TableEdge (e : Bytes × Bytes) (sd : Side) : Prop := edgeOf (getSector sd batTrack batSector) = e

theorem setBat_edge (sd : Side) (bat : List Nat) (hw : C11.WFSide sd) (hb : bat.length = 160) :
    edgeOf (getSector (setBat sd bat) batTrack batSector) = edgeOf (getSector sd batTrack batSector) := by
  rw [setBat_sector sd bat hw hb]
  have hidx : idx batTrack batSector < sd.length := by rw [hw.1]; decide
  have hm : getSector sd batTrack batSector ∈ sd := by
    unfold getSector
    rw [List.getD_eq_getElem?_getD, List.getElem?_eq_getElem hidx]; simp
  have hl := hw.2 _ hm
  generalize getSector sd batTrack batSector = sec at hl
  unfold edgeOf
  have h1 : (sec.take 1).length = 1 := by rw [List.length_take]; omega
  congr 1
  · rw [List.append_assoc, List.take_left' h1]
  · have : (sec.take 1 ++ bat).length = 161 := by rw [List.length_append, h1, hb]
    rw [List.drop_left' this]

theorem tableEdge_preserved (e : Bytes × Bytes) : SidePreserved (TableEdge e) := by
  intro sd bat own inv h0 content name ext kind flag hname
  unfold TableEdge at h0 ⊢
  rw [writeFile_unfold sd bat content name ext kind flag inv.hbat inv.not_free40.1 inv.not_free40.2]
  by_cases hfit : (chosen bat (reqBlocks content.length)).length < reqBlocks content.length
  · rw [if_pos hfit]; exact h0
  · rw [if_neg hfit]
    obtain ⟨h40, h41⟩ := inv.not_free40
    obtain ⟨hwmid, hbmid, hnblen, hframe⟩ := mid_facts sd bat content inv.wf inv.hbat h40 h41 hfit
    have hblen := getBat_length sd bat inv.hbat
    obtain ⟨_, hfree⟩ := chosen_props bat hblen h40 h41 (reqBlocks content.length)
    have hmid0 : edgeOf (getSector (midSide sd bat content) batTrack batSector) = e := by
      unfold midSide
      rw [setBat_edge _ _ (writeSectors_wf _ _ _ _ _ inv.wf) hnblen]
      have hsame : getSector (writeSectors (chosen bat (reqBlocks content.length)) content (reqSectors content.length) 0 sd) batTrack batSector
          = getSector sd batTrack batSector := by
        have hnd := chosen_nodup bat (reqBlocks content.length)
        obtain ⟨hb1, _, _, _, hS, _, _⟩ := size_law content.length
        have hflen : (chosen bat (reqBlocks content.length)).length = reqBlocks content.length := by
          have := chosen_length_le bat (reqBlocks content.length); omega
        have hspec := (writeSectors_spec _ hnd content (reqSectors content.length) 0 sd (by omega)
          (fun j _ h2 => by
            rw [inv.wf.1]; unfold flatOf
            have hj8 : j / 8 < (chosen bat (reqBlocks content.length)).length := by omega
            have hm : (chosen bat (reqBlocks content.length)).getD (j / 8) 0 ∈ chosen bat (reqBlocks content.length) := by
              rw [List.getD_eq_getElem?_getD, List.getElem?_eq_getElem hj8]; simp
            have := (hfree _ hm).1
            omega)).1
        unfold getSector
        apply hspec
        intro j _ hj he
        unfold flatOf at he
        have hj8 : j / 8 < (chosen bat (reqBlocks content.length)).length := by omega
        have hm : (chosen bat (reqBlocks content.length)).getD (j / 8) 0 ∈ chosen bat (reqBlocks content.length) := by
          rw [List.getD_eq_getElem?_getD, List.getElem?_eq_getElem hj8]; simp
        obtain ⟨_, h40', h41', _⟩ := hfree _ hm
        have hi : idx batTrack batSector = 321 := rfl
        rw [hi] at he
        have := Nat.mod_lt j (show 0 < 8 by omega)
        omega
      rw [hsame]; exact h0
    cases hf : findSlot (newBat bat content) (slots (midSide sd bat content)) with
    | error e' => exact hmid0
    | ok o =>
      cases o with
      | none =>
        show edgeOf (getSector (fullSide sd bat content) batTrack batSector) = e
        unfold fullSide
        rw [setBat_edge _ _ hwmid (by rw [fold_free_length]; exact hnblen)]
        exact hmid0
      | some p =>
        obtain ⟨s, st⟩ := p
        show edgeOf (getSector (doneSide sd bat content name ext kind flag s st) batTrack batSector) = e
        obtain ⟨data, hmem⟩ := findSlot_mem _ _ _ _ hf
        obtain ⟨hs2, _⟩ := slots_sector_range _ _ _ _ hmem
        unfold doneSide
        rw [putSector_other _ _ _ _ _ _ (by unfold idx batSector; omega)]
        exact hmid0

/-- the first sector of track 20 holds `v` -/
def KeptFirst20 (v : Bytes) (sd : Side) : Prop := sd.getD 320 [] = v

theorem first20_preserved (v : Bytes) : SidePreserved (KeptFirst20 v) := by
  intro sd bat own inv hv content name ext kind flag hname
  unfold KeptFirst20 at hv ⊢
  rw [writeFile_unfold sd bat content name ext kind flag inv.hbat inv.not_free40.1 inv.not_free40.2]
  by_cases hfit : (chosen bat (reqBlocks content.length)).length < reqBlocks content.length
  · rw [if_pos hfit]; exact hv
  · rw [if_neg hfit]
    obtain ⟨hf40, hf41⟩ := inv.not_free40
    obtain ⟨hwmid, hbmid, hnblen, hframe⟩ := mid_facts sd bat content inv.wf inv.hbat hf40 hf41 hfit
    have hmid : (midSide sd bat content).getD 320 [] = v := by
      rw [hframe 320 (by
        intro b' hb' hr
        have h40 : b' = 40 := by omega
        subst h40
        have := (chosen_free bat _ 40 hb').2
        rw [hf40] at this; cases this) (by omega)]
      exact hv
    cases hf : findSlot (newBat bat content) (slots (midSide sd bat content)) with
    | error e => exact hmid
    | ok o =>
      cases o with
      | none =>
        show (fullSide sd bat content).getD 320 [] = v
        unfold fullSide setBat
        rw [putSector_flat_other _ _ _ _ _ (by unfold idx batTrack batSector; have : Gen.Disk.sectorsPerTrack = 16 := rfl; rw [this]; omega)]
        exact hmid
      | some p =>
        obtain ⟨s', st⟩ := p
        show (doneSide sd bat content name ext kind flag s' st).getD 320 [] = v
        obtain ⟨data, hmem⟩ := findSlot_mem _ _ _ _ hf
        obtain ⟨hs2, hs15⟩ := slots_sector_range _ _ _ _ hmem
        unfold doneSide
        rw [putSector_flat_other _ _ _ _ _ (by unfold idx batTrack; have : Gen.Disk.sectorsPerTrack = 16 := rfl; rw [this]; omega)]
        exact hmid

/-- a whole create/add batch keeps, on every side, the first sector of track 20 and the edge bytes of the table sector -/
theorem batch_keeps_track20_rest (w : Tape.World) (verbose : Bool) (img : Image) (srcs : List Str)
    (himg : ImgOk img) (hs : ∀ src ∈ srcs, CleanSrc src) :
    ∃ st, performCore w verbose img srcs = .ok st ∧ ImgOk st.img
      ∧ ∀ k, k < 4 → (st.img.getD k []).getD 320 [] = (img.getD k []).getD 320 []
          ∧ edgeOf (getSector (st.img.getD k []) batTrack batSector) = edgeOf (getSector (img.getD k []) batTrack batSector) := by
  obtain ⟨st, hst, hok⟩ := performCore_ok w verbose img srcs himg hs
  refine ⟨st, hst, hok, ?_⟩
  intro k hk
  let P : Nat → Side → Prop := fun j sd =>
    KeptFirst20 ((img.getD j []).getD 320 []) sd ∧ TableEdge (edgeOf (getSector (img.getD j []) batTrack batSector)) sd
  have hP : ∀ j, SidePreserved (P j) := by
    intro j sd bat1 own inv hp content name ext kind flag hname
    exact ⟨first20_preserved _ sd bat1 own inv hp.1 content name ext kind flag hname,
           tableEdge_preserved _ sd bat1 own inv hp.2 content name ext kind flag hname⟩
  have h0 : ImgAllI P img := by
    intro j _
    exact ⟨rfl, rfl⟩
  obtain ⟨st2, hst2, _, hp2⟩ := performCore_presI hP w verbose img srcs himg h0 hs
  rw [hst] at hst2
  cases hst2
  exact hp2 k hk

end Moto.Disk
