/-
  The section of the report in which a file is announced stored is the side where it is stored.
-/
import MotoModel.Proofs.DiskEvents
import MotoModel.Proofs.DiskPlace
namespace Moto.Disk
open Moto Moto.Tape

/-- the files announced stored, each with the side of the section it is announced in
    (`s` = side of the section open at the beginning of the list) -/
def storedOn : Nat → List LEv → List (Nat × FileEv)
  | _, [] => []
  | _, .beginSide i :: r => storedOn i r
  | s, .endFile ev :: r => (s, ev) :: storedOn s r
  | s, _ :: r => storedOn s r

/-- the side of the section open after a list of events -/
def sideAfter : Nat → List LEv → Nat
  | s, [] => s
  | _, .beginSide i :: r => sideAfter i r
  | s, _ :: r => sideAfter s r

theorem storedOn_append (s : Nat) (a b : List LEv) : storedOn s (a ++ b) = storedOn s a ++ storedOn (sideAfter s a) b := by
  induction a generalizing s with
  | nil => rfl
  | cons e r ih =>
    cases e <;> simp only [List.cons_append, storedOn, sideAfter, ih, List.cons_append]

theorem sideAfter_append (s : Nat) (a b : List LEv) : sideAfter s (a ++ b) = sideAfter (sideAfter s a) b := by
  induction a generalizing s with
  | nil => rfl
  | cons e r ih => cases e <;> simp only [List.cons_append, sideAfter, ih]

/-- **one file**: its announcement as stored appears in the section of the first side, from the
    cursor on, that can take it — which is where the placement rule stores it — and the section
    open afterwards is that side; if no side can take it, it is never announced stored and the last
    section opened is side 3 -/
theorem fileEvents_section (name ext : Str) (kind flag : Nat) (data : Bytes) (hname : ∀ c ∈ name, c ≠ 0xFF) :
    ∀ (fuel : Nat) (img : Image) (cur : Nat), ImgOk img → 4 ≤ cur + fuel → cur < 4 →
      (∃ k, cur ≤ k ∧ k < 4 ∧ ImgFits img k data.length ∧ (∀ k', cur ≤ k' → k' < k → ¬ ImgFits img k' data.length)
          ∧ storedOn cur (fileEvents name ext kind flag data fuel img cur) = [(k, evOf name ext kind flag data)]
          ∧ sideAfter cur (fileEvents name ext kind flag data fuel img cur) = k)
      ∨ ((∀ k', cur ≤ k' → k' < 4 → ¬ ImgFits img k' data.length)
          ∧ storedOn cur (fileEvents name ext kind flag data fuel img cur) = []
          ∧ sideAfter cur (fileEvents name ext kind flag data fuel img cur) = 3) := by
  intro fuel
  induction fuel with
  | zero => intro img cur _ hf hc; omega
  | succ fuel ih =>
    intro img cur h hf hc
    simp only [fileEvents]
    rw [if_neg (by omega)]
    obtain ⟨bat, own, inv⟩ := h.2 cur hc
    have hiff := writeFile_ok_iff inv data name ext kind flag
    rcases writeFile_inv inv data name ext kind flag hname with ⟨sd', i0, hw, _, _, inv', _⟩ | ⟨sd', msg, hw, inv', _⟩
    · rw [hw]
      left
      exact ⟨cur, Nat.le_refl _, hc, ⟨bat, inv.hbat, hiff.mp ⟨sd', hw⟩⟩, fun k' h1 h2 => by omega, rfl, rfl⟩
    · rw [hw]
      dsimp only
      have hnofit : ¬ ImgFits img cur data.length := by
        rintro ⟨bat2, hb2, hfit⟩
        rw [inv.hbat] at hb2
        cases hb2
        obtain ⟨sd3, h3⟩ := hiff.mpr hfit
        rw [hw] at h3; cases h3
      have himg : ImgOk (img.set cur sd') := h.set _ _ ⟨_, _, inv'⟩
      obtain ⟨u, hu⟩ := usageOfSide_ok himg cur hc
      rw [hu]
      dsimp only
      by_cases hn : cur + 1 ≥ 4
      · rw [if_pos hn]
        right
        refine ⟨?_, rfl, ?_⟩
        · intro k' h1 h2
          have : k' = cur := by omega
          rw [this]; exact hnofit
        · simp only [List.append_nil, sideAfter]; omega
      · rw [if_neg hn]
        have hrec := ih (img.set cur sd') (cur + 1) himg (by omega) (by omega)
        simp only [List.cons_append, List.nil_append, storedOn, sideAfter]
        rcases hrec with ⟨k, hk1, hk4, hfit, hfirst, hst, hsa⟩ | ⟨hno, hst, hsa⟩
        · left
          have hne : cur ≠ k := by omega
          refine ⟨k, by omega, hk4, (ImgFits_set_other _ _ _ _ _ hne).mp hfit, ?_, hst, hsa⟩
          intro k' h1 h2
          by_cases hk' : k' = cur
          · rw [hk']; exact hnofit
          · intro hf'
            exact hfirst k' (by omega) h2 ((ImgFits_set_other _ _ _ _ _ (fun e => hk' e.symm)).mpr hf')
        · right
          refine ⟨?_, hst, hsa⟩
          intro k' h1 h2
          by_cases hk' : k' = cur
          · rw [hk']; exact hnofit
          · intro hf'
            exact hno k' (by omega) h2 ((ImgFits_set_other _ _ _ _ _ (fun e => hk' e.symm)).mpr hf')

/-- **announced where stored**: the file is announced stored in the section of side `k` exactly
    when the image receives it on side `k` (in a slot that held nothing, with its whole content);
    otherwise it is announced nowhere and no slot of any side changes -/
theorem announced_where_stored (name ext : Str) (kind flag : Nat) (data : Bytes) (hname : ∀ c ∈ name, c ≠ 0xFF)
    (st : Inj) (h : ImgOk st.img) (hc : st.cur < 4) :
    ∃ st', injWriteFile name ext kind flag data 4 st = .ok st' ∧
      ((∃ k i0 r, k < 4 ∧ i0 < 112
          ∧ storedOn st.cur (fileEvents name ext kind flag data 4 st.img st.cur) = [(k, evOf name ext kind flag data)]
          ∧ imgFileAt st.img k i0 = none ∧ imgFileAt st'.img k i0 = some (r, data) ∧ st'.cur = k
          ∧ sideAfter st.cur (fileEvents name ext kind flag data 4 st.img st.cur) = k)
       ∨ (storedOn st.cur (fileEvents name ext kind flag data 4 st.img st.cur) = []
          ∧ ∀ k j, k < 4 → j < 112 → imgFileAt st'.img k j = imgFileAt st.img k j)) := by
  obtain ⟨st', hst', hplace⟩ := injWriteFile_place name ext kind flag data hname 4 st h (by omega)
  refine ⟨st', hst', ?_⟩
  rcases fileEvents_section name ext kind flag data hname 4 st.img st.cur h (by omega) hc with
    ⟨k, hk1, hk4, hfit, hfirst, hstored, hsa⟩ | ⟨hno, hstored, _⟩
  · rcases hplace with ⟨k2, hk21, hk24, hfit2, hfirst2, hcur, i0, r, hi0, hnone, hnew⟩ | ⟨hno2, _, _⟩
    · have hkk : k = k2 := by
        apply Classical.byContradiction
        intro hne
        rcases Nat.lt_or_gt_of_ne hne with hlt | hgt
        · exact hfirst2 k hk1 hlt hfit
        · exact hfirst k2 hk21 hgt hfit2
      subst hkk
      exact Or.inl ⟨k, i0, r, hk4, hi0, hstored, hnone, hnew, hcur, hsa⟩
    · exact absurd hfit (hno2 k hk1 hk4)
  · rcases hplace with ⟨k2, hk21, hk24, hfit2, _⟩ | ⟨_, _, hall⟩
    · exact absurd hfit2 (hno k2 hk21 hk24)
    · exact Or.inr ⟨hstored, hall⟩

/-- an announcement `(k, ev)` is honoured by the pair of images `(a, b)`: side `k` of `b` holds, in a
    slot where `a` held nothing, a file whose size and block count are the announced ones -/
def Honoured (a b : Image) (p : Nat × FileEv) : Prop :=
  p.1 < 4 ∧ ∃ j r c, j < 112 ∧ imgFileAt a p.1 j = none ∧ imgFileAt b p.1 j = some (r, c)
    ∧ p.2.bytes = c.length ∧ p.2.blocks = reqBlocks c.length
    ∧ ∃ kind flag, IsRecordOf r p.2.name p.2.ext kind flag c.length

theorem Honoured.mono {a a' b b' : Image} {p : Nat × FileEv} (h : Honoured a b p) (ha : Keeps a' a) (hb : Keeps b b') : Honoured a' b' p := by
  obtain ⟨hk, j, r, c, hj, hnone, hnew, h1, h2, h3⟩ := h
  refine ⟨hk, j, r, c, hj, ?_, hb p.1 j _ hk hj hnew, h1, h2, h3⟩
  cases hq : imgFileAt a' p.1 j with
  | none => rfl
  | some f => have := ha p.1 j f hk hj hq; rw [hnone] at this; cases this

/-- one source argument: what it announces is honoured, and the section open afterwards is the
    side of the cursor -/
theorem injFile_sections (w : Tape.World) (src : Str) (hsrc : CleanSrc src) (st : Inj) (h : ImgOk st.img) (hc : st.cur < 4) :
    ∃ st' b, injFile w src st = .ok (st', b) ∧ ImgOk st'.img ∧ Keeps st.img st'.img
      ∧ (∀ p ∈ storedOn st.cur (srcEvents w src st.img st.cur), Honoured st.img st'.img p)
      ∧ (st'.cur < 4 → sideAfter st.cur (srcEvents w src st.img st.cur) = st'.cur)
      ∧ (b = false → st'.cur = st.cur) := by
  obtain ⟨st', b, hf, hok, hkeep, _⟩ := injFile_step w src hsrc st h
  refine ⟨st', b, hf, hok, hkeep, ?_⟩
  unfold injFile at hf
  unfold srcEvents
  have hname := splitSource_name_clean src hsrc
  dsimp only at hf ⊢
  cases hw : w (splitSource src).2.2.2 with
  | none =>
    rw [hw] at hf; dsimp only at hf; cases hf
    exact ⟨by intro p hp; simp [storedOn] at hp, fun _ => rfl, fun _ => rfl⟩
  | some data =>
    rw [hw] at hf
    dsimp only at hf ⊢
    split at hf
    · rename_i h8; rw [if_pos h8]; cases hf
      exact ⟨by intro p hp; simp [storedOn] at hp, fun _ => rfl, fun _ => rfl⟩
    · rename_i h8
      rw [if_neg h8]
      split at hf
      · rename_i h3; rw [if_pos h3]; cases hf
        exact ⟨by intro p hp; simp [storedOn] at hp, fun _ => rfl, fun _ => rfl⟩
      · rename_i h3
        rw [if_neg h3]
        split at hf
        · rename_i ha; rw [if_pos ha]; cases hf
          exact ⟨by intro p hp; simp [storedOn] at hp, fun _ => rfl, fun _ => rfl⟩
        · rename_i ha
          rw [if_neg ha]
          obtain ⟨s2, hs2, hcase⟩ := announced_where_stored (splitSource src).1
            (dispatch (splitSource src).1 (splitSource src).2.1 (splitSource src).2.2.1).2.2
            (dispatch (splitSource src).1 (splitSource src).2.1 (splitSource src).2.2.1).1
            (dispatch (splitSource src).1 (splitSource src).2.1 (splitSource src).2.2.1).2.1 data hname st h hc
          rw [hs2] at hf
          cases hf
          rcases hcase with ⟨k, i0, r, hk4, hi0, hstored, hnone, hnew, hcur, hsa⟩ | ⟨hstored, hall⟩
          · refine ⟨?_, fun _ => by rw [hsa, hcur], fun hb => by cases hb⟩
            intro p hp
            rw [hstored] at hp
            simp only [List.mem_singleton] at hp
            subst hp
            refine ⟨hk4, i0, r, data, hi0, hnone, hnew, rfl, (reqBlocks_formula data.length).symm,
              (dispatch (splitSource src).1 (splitSource src).2.1 (splitSource src).2.2.1).1,
              (dispatch (splitSource src).1 (splitSource src).2.1 (splitSource src).2.2.1).2.1, ?_⟩
            show IsRecordOf r (splitSource src).1 (dispatch (splitSource src).1 (splitSource src).2.1 (splitSource src).2.2.1).2.2 _ _ data.length
            -- the entry bytes: the one slot that changed holds the record of this file
            obtain ⟨s3, hs3, _, hone⟩ := injWriteFile_step (splitSource src).1
              (dispatch (splitSource src).1 (splitSource src).2.1 (splitSource src).2.2.1).2.2
              (dispatch (splitSource src).1 (splitSource src).2.1 (splitSource src).2.2.1).1
              (dispatch (splitSource src).1 (splitSource src).2.1 (splitSource src).2.2.1).2.1 data hname 4 st h
            rw [hs2] at hs3
            cases hs3
            rcases hone with hsame | ⟨k3, i3, hk3, hi3, _, ⟨r3, hr3, hrec3⟩, hrest3⟩
            · rw [hsame k i0 hk4 hi0, hnone] at hnew; cases hnew
            · have hki : k = k3 ∧ i0 = i3 := by
                apply Classical.byContradiction
                intro hne
                have := hrest3 k i0 hk4 hi0 hne
                rw [this, hnone] at hnew; cases hnew
              rw [← hki.1, ← hki.2, hnew] at hr3
              cases hr3
              exact hrec3
          · refine ⟨by intro p hp; rw [hstored] at hp; simp at hp, ?_, fun hb => by cases hb⟩
            intro hlt
            -- nothing stored: the cursor ran past the last side
            exfalso
            obtain ⟨st3, hst3, hpl⟩ := injWriteFile_place (splitSource src).1
              (dispatch (splitSource src).1 (splitSource src).2.1 (splitSource src).2.2.1).2.2
              (dispatch (splitSource src).1 (splitSource src).2.1 (splitSource src).2.2.1).1
              (dispatch (splitSource src).1 (splitSource src).2.1 (splitSource src).2.2.1).2.1 data hname 4 st h (by omega)
            rw [hs2] at hst3
            cases hst3
            rcases hpl with ⟨k, _, hk4, _, _, _, i0, r, hi0, hnone, hnew⟩ | ⟨_, h4, _⟩
            · rw [hall k i0 hk4 hi0, hnone] at hnew; cases hnew
            · omega

theorem injLoop_sections (w : Tape.World) : ∀ (srcs : List Str) (st : Inj), (∀ src ∈ srcs, CleanSrc src) → ImgOk st.img → st.cur < 4 →
    ∃ st', injLoop w srcs st = .ok st' ∧ ImgOk st'.img ∧ Keeps st.img st'.img
      ∧ ∀ p ∈ storedOn st.cur (loopEvents w srcs st.img st.cur), Honoured st.img st'.img p := by
  intro srcs
  induction srcs with
  | nil => intro st _ h _; exact ⟨st, rfl, h, Keeps.refl _, by intro p hp; simp [loopEvents, storedOn] at hp⟩
  | cons src rest ih =>
    intro st hs h hc
    simp only [injLoop, loopEvents]
    split
    · obtain ⟨u, hu⟩ := usageOfSide_any h st.cur
      rw [hu]
      dsimp only
      split
      · exact ⟨_, rfl, h, Keeps.refl _, by intro p hp; simp [storedOn] at hp⟩
      · rename_i h4
        obtain ⟨st', h1, h2, h3, h5⟩ := ih { st with cur := st.cur + 1, l := onBeginOfSide (onEndOfSide st.l u) (st.cur + 1) }
          (fun s hm => hs s (by simp [hm])) h (by dsimp only; omega)
        exact ⟨st', h1, h2, h3, by intro p hp; simp only [storedOn] at hp; exact h5 p hp⟩
    · obtain ⟨s1, b, hf, hok, hkeep, hhon, hside, hb⟩ := injFile_sections w src (hs src (by simp)) st h hc
      rw [hf, injFile_next w src st s1 b hf]
      dsimp only
      split
      · rename_i hq
        refine ⟨s1, rfl, hok, hkeep, ?_⟩
        intro p hp
        rw [List.append_nil] at hp
        exact hhon p hp
      · rename_i hq
        have hc1 : s1.cur < 4 := by
          cases b with
          | false => rw [hb rfl]; exact hc
          | true => simp at hq; exact hq
        obtain ⟨st', h1, h2, h3, h5⟩ := ih s1 (fun s hm => hs s (by simp [hm])) hok hc1
        refine ⟨st', h1, h2, hkeep.trans h3, ?_⟩
        intro p hp
        rw [storedOn_append, hside hc1] at hp
        rcases List.mem_append.mp hp with hp1 | hp2
        · exact (hhon p hp1).mono (Keeps.refl _) h3
        · exact (h5 p hp2).mono hkeep (Keeps.refl _)

theorem tailEvents_storedOn : ∀ (fuel : Nat) (img : Image) (cur s : Nat), storedOn s (tailEvents fuel img cur) = [] := by
  intro fuel
  induction fuel with
  | zero => intro img cur s; rfl
  | succ fuel ih =>
    intro img cur s
    simp only [tailEvents]
    split
    · cases usageOfSide img (cur + 1) with
      | error e => rfl
      | ok u => simp only [storedOn]; exact ih img (cur + 1) (cur + 1)
    · rfl

/-- **C10/C12 (the sections of a create/add report)**: every file the report announces stored in
    the section of side `k` is, in the image the batch leaves, on side `k` — in a slot that held
    nothing before the batch — with the announced size and block count -/
theorem batch_sections (w : Tape.World) (verbose : Bool) (img : Image) (srcs : List Str)
    (himg : ImgOk img) (hs : ∀ src ∈ srcs, CleanSrc src) :
    ∃ st, performCore w verbose img srcs = .ok st ∧ ImgOk st.img
      ∧ ∀ p ∈ storedOn 0 (batchEvents w srcs img), Honoured img st.img p := by
  obtain ⟨st, hst, hok, _, _⟩ := performCore_files w verbose img srcs himg hs
  refine ⟨st, hst, hok, ?_⟩
  -- the image at the end of the batch is the image at the end of the sources loop
  obtain ⟨s1, hl, hok1, hkeep1, hhon⟩ := injLoop_sections w srcs { img := img, cur := 0, l := mute } hs himg (by show 0 < 4; omega)
  have himgeq : st.img = s1.img := by
    have hcore := C20.injLoop_core w w srcs (fun _ _ => rfl)
      { img := img, cur := 0, l := onBeginOfSide { processing := 2, verbose := verbose } 0 } ⟨img, 0, mute⟩ rfl
    unfold performCore at hst
    dsimp only at hst
    cases hl2 : injLoop w srcs { img := img, cur := 0, l := onBeginOfSide { processing := 2, verbose := verbose } 0 } with
    | error e => rw [hl2] at hst; cases hst
    | ok s2 =>
      rw [hl2] at hst hcore
      rw [hl] at hcore
      simp only [Except.map, Except.ok.injEq, C20.core, Prod.mk.injEq] at hcore
      dsimp only at hst
      split at hst
      · cases hu : usageOfSide s2.img s2.cur with
        | error e => rw [hu] at hst; cases hst
        | ok u =>
          rw [hu] at hst
          dsimp only at hst
          cases ht : injTail 4 { s2 with l := onEndOfSide s2.l u } with
          | error e => rw [ht] at hst; cases hst
          | ok s3 =>
            rw [ht] at hst
            cases hst
            obtain ⟨s4, h4, h5⟩ := injTail_ok 4 { s2 with l := onEndOfSide s2.l u } (by
              have := injLoop_ok w srcs { img := img, cur := 0, l := onBeginOfSide { processing := 2, verbose := verbose } 0 } hs himg
              obtain ⟨x, hx, hxo⟩ := this
              rw [hl2] at hx; cases hx; exact hxo)
            rw [ht] at h4
            cases h4
            rw [h5]
            exact hcore.1
      · cases hst; exact hcore.1
  rw [himgeq]
  intro p hp
  unfold batchEvents at hp
  rw [storedOn_append] at hp
  rcases List.mem_append.mp hp with hp1 | hp2
  · exact hhon p hp1
  · exfalso
    revert hp2
    cases loopNext w srcs img with
    | none => simp [storedOn]
    | some q =>
      obtain ⟨i1, c1⟩ := q
      dsimp only
      split
      · cases usageOfSide i1 c1 with
        | error e => simp [storedOn]
        | ok u => simp [storedOn, tailEvents_storedOn]
      · simp [storedOn]

end Moto.Disk
