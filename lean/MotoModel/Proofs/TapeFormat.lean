/-
  The raw blocks of the model are the frames of the format description (Spec.K7).
-/
import MotoModel.Proofs.TapeLoop
namespace Moto.Tape
open Moto

theorem foldl_mod_sum (p : Bytes) : ∀ a : Nat,
    p.foldl (fun s b => (s + b) % 256) (a % 256) = (a + p.sum) % 256 := by
  induction p with
  | nil => intro a; simp
  | cons b bs ih =>
    intro a
    simp only [List.foldl_cons, List.sum_cons]
    have := ih (a % 256 + b)
    rw [this]
    omega

theorem checksum_eq_cks (p : Bytes) : checksum p = Spec.K7.cks p := by
  unfold checksum Spec.K7.cks
  have := foldl_mod_sum p 0
  simp only [Nat.zero_mod, Nat.zero_add] at this
  rw [this]

theorem buildFromData_eq_frame (ty : Nat) (p : Bytes) : buildFromData ty p = Spec.K7.frame ty p := by
  simp [buildFromData, Spec.K7.frame, checksum_eq_cks]

theorem buildEmpty_eq_frame (ty : Nat) : buildEmpty ty = Spec.K7.frame ty [] := by
  simp [buildEmpty, Spec.K7.frame, Spec.K7.cks]

theorem pad_length (n : Nat) (s : Str) : (Spec.K7.pad n s).length = n := by
  simp [Spec.K7.pad]

/-- the 14 payload bytes of a leader block: name field, extension field, kind, mode -/
theorem leader_data (d : Desc) :
    leaderBlock d = buildFromData Gen.Tape.typeLeader
      (Spec.K7.pad 8 (upper d.name) ++ Spec.K7.pad 3 (upper d.ext) ++ [d.kind % 256, (d.mode / 256) % 256, d.mode % 256]) := by
  unfold leaderBlock
  dsimp only
  congr 1
  have h8 := pad_length 8 (upper d.name)
  have h3 := pad_length 3 (upper d.ext)
  show ((((sliceAssign (sliceAssign (List.replicate 14 0) 0 8 (Spec.K7.pad 8 (upper d.name))) 8 11 (Spec.K7.pad 3 (upper d.ext))).set 11 _).set 12 _).set 13 _) = _
  generalize Spec.K7.pad 8 (upper d.name) = n8 at h8 ⊢
  generalize Spec.K7.pad 3 (upper d.ext) = e3 at h3 ⊢
  have s1 : sliceAssign (List.replicate 14 0) 0 8 n8 = n8 ++ List.replicate 6 0 := by
    have := sliceAssign_tail ([] : Bytes) n8 0 14
    simp only [List.nil_append, List.length_nil, Nat.zero_add, h8] at this
    exact this
  have s2 : sliceAssign (n8 ++ List.replicate 6 0) 8 11 e3 = n8 ++ e3 ++ List.replicate 3 0 := by
    have := sliceAssign_tail n8 e3 0 6
    simp only [h8, h3] at this
    exact this
  rw [s1, s2]
  have hl : (n8 ++ e3).length = 11 := by simp [h8, h3]
  generalize n8 ++ e3 = a at hl ⊢
  simp [List.replicate, hl]

theorem fileRaw_eq_frames (d : Desc) (data : Bytes) :
    fileRaw d data = (Spec.K7.fileBlocks ⟨upper d.name, upper d.ext, d.kind % 256, d.mode % 65536, data⟩).map
      (fun b => Spec.K7.frame b.1 b.2) := by
  unfold fileRaw Spec.K7.fileBlocks
  simp only [List.map_cons, List.map_append, List.map_map, List.map_nil]
  rw [leader_data, buildFromData_eq_frame, dataBlocks_eq_chunks]
  have e0 : Gen.Tape.typeLeader = 0 := rfl
  have e1 : Gen.Tape.typeData = 1 := rfl
  have e2 : Gen.Tape.typeEof = 255 := rfl
  have m1 : d.mode / 256 % 256 = d.mode % 65536 / 256 := by omega
  have m2 : d.mode % 256 = d.mode % 65536 % 256 := by omega
  simp only [Spec.K7.leaderPayload, Spec.K7.chunks254, e0, e1, e2, m1, ← m2, buildEmpty_eq_frame]
  congr 2
  apply List.map_congr_left
  intro c _
  simp [buildFromData_eq_frame]

theorem laidOut_eq_encode (bs : List (Nat × Bytes)) (hm : Gen.Tape.writeMarker = Spec.K7.sync) :
    laidOut (bs.map (fun b => Spec.K7.frame b.1 b.2)) = Spec.K7.encodeBlocks bs := by
  simp [laidOut, Spec.K7.encodeBlocks, hm, List.flatMap_map]

end Moto.Tape
