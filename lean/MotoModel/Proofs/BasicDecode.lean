/-
  The detokenizer `Spec.BasicRef.decode` over the segments the tokenizer emits.
-/
import MotoModel.Model.Basic
import MotoModel.Spec.BasicRef
import MotoModel.Props.C13
namespace Moto.Basic
open Moto Moto.Spec

abbrev D := BasicRef.decode

/-- `x` is a closed segment from literal state `b` to `b'`: decoding distributes over what
    follows, provided the follower does not start with the second byte of ELSE -/
def Closed (b : Bool) (x : Bytes) (b' : Bool) : Prop :=
  ∀ y : Bytes, y.head? ≠ some 0x8F → D b (x ++ y) = D b x ++ D b' y

theorem closed_nil (b : Bool) : Closed b [] b := by
  intro y _; simp [D, BasicRef.decode]

theorem closed_append {b b' b'' : Bool} {x y : Bytes} (hx : Closed b x b') (hy : Closed b' y b'')
    (hh : y.head? ≠ some 0x8F) : Closed b (x ++ y) b'' := by
  intro z hz
  have hyz : (y ++ z).head? ≠ some 0x8F := by
    cases y with
    | nil => simpa using hz
    | cons a as => simpa using hh
  rw [List.append_assoc, hx (y ++ z) hyz, hy z hz, hx y hh, List.append_assoc]

/-- one character inside a literal -/
theorem closed_lit_char (c : Nat) : Closed true [c] (c != 34) := by
  intro y _; simp [D, BasicRef.decode]

theorem decode_lit_char (c : Nat) : D true [c] = [c] := by simp [D, BasicRef.decode]

/-- a quote outside a literal opens one -/
theorem closed_quote_open : Closed false [34] true := by
  intro y _; simp [D, BasicRef.decode]

/-- generic byte outside a literal, not the first byte of a two-byte pattern -/
theorem decode_other (b : Nat) (r : Bytes) (h1 : ¬ (b = 58 ∧ r.head? = some 143)) (h2 : ¬ (b = 255 ∧ r ≠ [])) :
    D false (b :: r) = if b = 34 then b :: D true r
      else if b ≥ 128 then (BasicRef.keywordOf b).getD [0] ++ D false r else b :: D false r := by
  apply BasicRef.decode.eq_5
  · intro r1 hb hr; apply h1; subst hr; exact ⟨hb, rfl⟩
  · intro x r1 hb hr; apply h2; subst hr; exact ⟨hb, by simp⟩

/-- an ASCII character other than the quote, outside a literal -/
theorem closed_plain (c : Nat) (h : c < 128) (hq : c ≠ 34) : Closed false [c] false := by
  intro y hy
  have e1 : D false ([c] ++ y) = c :: D false y := by
    show D false (c :: y) = _
    rw [decode_other c y (by intro ⟨_, hh⟩; exact hy hh) (by intro ⟨hh, _⟩; omega)]
    simp [hq]; omega
  have e2 : D false [c] = [c] := by
    rw [decode_other c [] (by simp) (by simp)]
    simp [hq, D, BasicRef.decode]; omega
  rw [e1, e2]; rfl

theorem decode_plain (c : Nat) (h : c < 128) (hq : c ≠ 34) : D false [c] = [c] := by
  rw [decode_other c [] (by simp) (by simp)]
  simp [hq, D, BasicRef.decode]; omega

/-- the three shapes a keyword's bytes can take, with what the reverse lookup gives -/
def tokenShape (k : Str) : Bool :=
  match tokenBytes k with
  | [v] => v ≥ 0x80 && v != 0xFF && v != 0x8F && BasicRef.keywordOf v == some k
  | [0x3A, 0x8F] => k == BasicRef.elseKw
  | [0xFF, x] => BasicRef.keywordOf (0xFF00 + x) == some k
  | _ => false

theorem all_token_shapes : ∀ e ∈ Gen.Tokens.tokens, tokenShape e.1 = true := by decide +kernel

theorem shape_cases (k : Str) (h : tokenShape k = true) :
    (∃ v, tokenBytes k = [v] ∧ v ≥ 0x80 ∧ v ≠ 0xFF ∧ v ≠ 0x8F ∧ BasicRef.keywordOf v = some k)
    ∨ (tokenBytes k = [0x3A, 0x8F] ∧ k = BasicRef.elseKw)
    ∨ (∃ x, tokenBytes k = [0xFF, x] ∧ BasicRef.keywordOf (0xFF00 + x) = some k) := by
  unfold tokenShape at h
  split at h
  · rename_i v hv
    simp only [Bool.and_eq_true, decide_eq_true_eq, bne_iff_ne, ne_eq, beq_iff_eq] at h
    exact Or.inl ⟨v, hv, h.1.1.1, h.1.1.2, h.1.2, h.2⟩
  · rename_i hv
    exact Or.inr (Or.inl ⟨hv, by simpa using h⟩)
  · rename_i x hv
    exact Or.inr (Or.inr ⟨x, hv, by simpa using h⟩)
  · cases h

theorem isToken_mem (k : Str) (h : isToken k = true) : ∃ e ∈ Gen.Tokens.tokens, e.1 = k := by
  unfold isToken tokenOf at h
  cases hf : Gen.Tokens.tokens.find? (fun e => e.1 == k) with
  | none => simp [hf] at h
  | some e =>
    have := List.find?_some hf
    exact ⟨e, List.mem_of_find?_eq_some hf, by simpa using this⟩

/-- **token segments**: the bytes of a keyword decode to the keyword and are closed -/
theorem closed_token (k : Str) (h : isToken k = true) :
    Closed false (tokenBytes k) false ∧ D false (tokenBytes k) = k ∧ (tokenBytes k).head? ≠ some 0x8F ∧ tokenBytes k ≠ [] := by
  obtain ⟨e, he, rfl⟩ := isToken_mem k h
  rcases shape_cases e.1 (all_token_shapes e he) with ⟨v, hb, h80, hff, h8f, hk⟩ | ⟨hb, hk⟩ | ⟨x, hb, hk⟩
  · rw [hb]
    have h3a : v ≠ 0x3A := by omega
    have hq : v ≠ 34 := by omega
    have e2 : D false [v] = e.1 := by
      rw [decode_other v [] (by simp) (by simp)]
      simp [hq, h80, hk, D, BasicRef.decode]
    refine ⟨?_, e2, by simpa using h8f, by simp⟩
    intro y _
    show D false (v :: y) = _
    rw [decode_other v y (by intro ⟨hh, _⟩; exact h3a hh) (by intro ⟨hh, _⟩; exact hff hh), e2]
    simp [hq, h80, hk]
  · rw [hb]
    refine ⟨?_, ?_, by simp, by simp⟩
    · intro y _; simp [D, BasicRef.decode, hk]
    · simp [D, BasicRef.decode, hk]
  · rw [hb]
    refine ⟨?_, ?_, by simp, by simp⟩
    · intro y _; simp [D, BasicRef.decode, hk]
    · simp [D, BasicRef.decode, hk]

/-- plain ASCII text without quote is a closed segment that decodes to itself -/
theorem closed_text (t : Str) (h : ∀ c ∈ t, c < 128 ∧ c ≠ 34) : Closed false t false ∧ D false t = t := by
  induction t with
  | nil => exact ⟨closed_nil false, by simp [D, BasicRef.decode]⟩
  | cons c cs ih =>
    have hc := h c (by simp)
    obtain ⟨ic, id⟩ := ih (fun x hx => h x (by simp [hx]))
    have hhead : cs.head? ≠ some 0x8F := by
      cases cs with
      | nil => simp
      | cons a as => have := (h a (by simp)).1; simp; omega
    have hcl := closed_append (closed_plain c hc.1 hc.2) ic hhead
    refine ⟨by simpa using hcl, ?_⟩
    have := closed_plain c hc.1 hc.2 cs hhead
    simp only [List.cons_append, List.nil_append] at this
    rw [this, decode_plain c hc.1 hc.2, id]; rfl

/-- text inside a literal (no quote) decodes to itself and stays inside -/
theorem closed_lit_text (t : Str) (h : 34 ∉ t) : Closed true t true ∧ D true t = t := by
  induction t with
  | nil => exact ⟨closed_nil true, by simp [D, BasicRef.decode]⟩
  | cons c cs ih =>
    have hc : c ≠ 34 := by intro e; apply h; simp [e]
    obtain ⟨ic, id⟩ := ih (by intro e; apply h; simp [e])
    have hne : (c != 34) = true := by simpa using hc
    constructor
    · intro y hy
      have := ic y hy
      simp only [List.cons_append, D] at this ⊢
      simp only [BasicRef.decode, hne, this]
      simp
    · simp only [D] at id ⊢
      simp only [BasicRef.decode, hne, id]

end Moto.Basic
