/-
  From the naming rule to the printed name: for a source whose stem and extension are plain printable characters that fit the
  8 + 3 fields, the name `--list` prints and `--extract` writes (`diskName`: read back from the eleven name bytes of the entry
  the tool writes) is `NAME.EXT`.
-/
import MotoModel.Proofs.DiskOrder
import MotoModel.Proofs.Names
namespace Moto.Disk
open Moto Moto.Tape

/-- printable, not a blank: 0x21..0x7E -/
def Plain (s : Str) : Prop := ∀ c ∈ s, 0x21 ≤ c ∧ c ≤ 0x7E

def inv (c : Nat) : Nat := if c < 0x20 then Gen.Disk.invalidChar else c

theorem map_inv_id (s : Str) (h : ∀ c ∈ s, 0x20 ≤ c) : s.map (fun c => if c < 0x20 then Gen.Disk.invalidChar else c) = s := by
  induction s with
  | nil => rfl
  | cons x xs ih =>
    have hx := h x (by simp)
    simp only [List.map_cons]
    rw [if_neg (by omega), ih (fun c hc => h c (by simp [hc]))]

theorem isSpace_plain (c : Nat) (h : 0x21 ≤ c ∧ c ≤ 0x7E) : isSpace c = false := by
  unfold isSpace
  have : ∀ w ∈ Gen.Py.whitespace, w ≤ 0x20 ∨ 0x7F ≤ w := by decide
  cases hc : Gen.Py.whitespace.contains c with
  | false => rfl
  | true =>
    have hm : c ∈ Gen.Py.whitespace := by simpa using hc
    have := this c hm
    omega

theorem isSpace_32 : isSpace 32 = true := by decide

/-- right-trimming a plain word followed by blanks gives the word back -/
theorem rstrip_padded (s : Str) (k : Nat) (h : Plain s) : rstripBy isSpace (s ++ List.replicate k 32) = s := by
  unfold rstripBy
  rw [List.reverse_append, List.reverse_replicate]
  have hdrop : ∀ (k : Nat) (t : Str), (List.replicate k 32 ++ t).dropWhile isSpace = t.dropWhile isSpace := by
    intro k
    induction k with
    | zero => intro t; rfl
    | succ n ih => intro t; simp only [List.replicate_succ, List.cons_append, List.dropWhile_cons, isSpace_32, if_true, ih]
  rw [hdrop]
  cases hs : s.reverse with
  | nil => simp [List.reverse_eq_nil_iff.mp hs]
  | cons x xs =>
    have hx : x ∈ s := by rw [← List.mem_reverse, hs]; simp
    simp only [List.dropWhile_cons, isSpace_plain x (h x hx)]
    rw [← hs]; simp

theorem bytesFromStr_short (s : Str) (n : Nat) (h : s.length ≤ n) : bytesFromStr s n = s ++ List.replicate (n - s.length) 32 := by
  unfold bytesFromStr
  by_cases he : s.length ≥ n
  · have : s.length = n := by omega
    rw [if_pos he, this, Nat.sub_self]; simp [← this]
  · rw [if_neg he]; rfl

theorem upper_plain (s : Str) (h : Plain s) : Plain (upper s) := by
  intro c hc
  unfold upper at hc
  obtain ⟨x, hx, rfl⟩ := List.mem_map.mp hc
  have := h x hx
  unfold upperC; split <;> omega

theorem upper_length (s : Str) : (upper s).length = s.length := by simp [upper]

/-- the first eleven bytes of a decoded 32-byte entry: its name and extension fields, control characters replaced -/
theorem recordOfBytes_fields (data : Bytes) (h : 11 ≤ data.length) :
    slice (recordOfBytes data) 0 8 = (slice data 0 8).map (fun c => if c < 0x20 then Gen.Disk.invalidChar else c)
    ∧ slice (recordOfBytes data) 8 11 = (slice data 8 11).map (fun c => if c < 0x20 then Gen.Disk.invalidChar else c) := by
  have h8 : (slice data 0 8).length = 8 := by simp [slice]; omega
  have h3 : (slice data 8 11).length = 3 := by simp [slice]; omega
  have key : (recordOfBytes data).take 11
      = (slice data 0 8 ++ slice data 8 11).map (fun c => if c < 0x20 then Gen.Disk.invalidChar else c) := by
    unfold recordOfBytes
    dsimp only
    rw [take_set_of_le _ 11 15 _ (by omega), take_set_of_le _ 11 14 _ (by omega), take_set_of_le _ 11 13 _ (by omega),
      take_set_of_le _ 11 12 _ (by omega), take_set_of_le _ 11 11 _ (by omega)]
    rw [h8, h3]
    generalize slice data 0 8 = nm at h8 ⊢
    generalize slice data 8 11 = ex at h3 ⊢
    match nm, h8 with
    | [a, b, c, d, e, f, g, i], _ =>
      match ex, h3 with
      | [x, y, z], _ => simp [sliceAssign, List.replicate]
  constructor
  · rw [← slice_of_take _ 0 8 11 (by omega), key, List.map_append]
    unfold slice
    simp only [List.drop_zero, Nat.sub_zero]
    rw [List.take_left' (by rw [List.length_map]; exact h8)]
  · rw [← slice_of_take _ 8 11 11 (by omega), key, List.map_append]
    unfold slice
    rw [List.drop_left' (by rw [List.length_map]; exact h8), List.take_of_length_le (by rw [List.length_map]; simp only [List.length_take]; omega)]

/-- **the printed name of a plain 8.3 name is `NAME.EXT`** -/
theorem fileName_of_newRecord (name ext : Str) (hn : Plain name) (he : Plain ext) (hn8 : name.length ≤ 8) (he3 : ext.length ≤ 3)
    (k f first lb : Nat) :
    fileNameOf ⟨1, recordOfBytes (newRecord name ext k f first lb), []⟩ = upper name ++ [46] ++ upper ext := by
  have hlen : 11 ≤ (newRecord name ext k f first lb).length := by rw [newRecord_length]; omega
  obtain ⟨f8, f3⟩ := recordOfBytes_fields _ hlen
  have hfields : (bytesFromStr (upper name) 8 ++ bytesFromStr (upper ext) 3).map (fun c => if c < 0x20 then Gen.Disk.invalidChar else c)
      = bytesFromStr (upper name) 8 ++ bytesFromStr (upper ext) 3 := by
    apply map_inv_id
    intro c hc
    rw [bytesFromStr_short _ 8 (by rw [upper_length]; exact hn8), bytesFromStr_short _ 3 (by rw [upper_length]; exact he3)] at hc
    simp only [List.mem_append, List.mem_replicate] at hc
    rcases hc with (h | h) | (h | h)
    · exact Nat.le_trans (by omega) (upper_plain name hn c h).1
    · omega
    · exact Nat.le_trans (by omega) (upper_plain ext he c h).1
    · omega
  have hs8 : slice (newRecord name ext k f first lb) 0 8 = bytesFromStr (upper name) 8 := by
    unfold newRecord
    dsimp only
    rw [hfields]
    unfold slice
    simp only [List.drop_zero, Nat.sub_zero, List.append_assoc]
    rw [List.take_left' (bytesFromStr_length _ 8)]
  have hs3 : slice (newRecord name ext k f first lb) 8 11 = bytesFromStr (upper ext) 3 := by
    unfold newRecord
    dsimp only
    rw [hfields]
    unfold slice
    simp only [List.append_assoc]
    rw [List.drop_left' (bytesFromStr_length _ 8)]
    rw [List.take_left' (bytesFromStr_length _ 3)]
  unfold fileNameOf
  dsimp only
  rw [f8, f3, hs8, hs3]
  rw [map_inv_id _ (by
      intro c hc
      rw [bytesFromStr_short _ 8 (by rw [upper_length]; exact hn8)] at hc
      simp only [List.mem_append, List.mem_replicate] at hc
      rcases hc with h | h
      · exact Nat.le_trans (by omega) (upper_plain name hn c h).1
      · omega),
    map_inv_id _ (by
      intro c hc
      rw [bytesFromStr_short _ 3 (by rw [upper_length]; exact he3)] at hc
      simp only [List.mem_append, List.mem_replicate] at hc
      rcases hc with h | h
      · exact Nat.le_trans (by omega) (upper_plain ext he c h).1
      · omega)]
  rw [bytesFromStr_short _ 8 (by rw [upper_length]; exact hn8), bytesFromStr_short _ 3 (by rw [upper_length]; exact he3),
    rstrip_padded _ _ (upper_plain name hn), rstrip_padded _ _ (upper_plain ext he)]


/-! ### the extension an entry is stored under -/

theorem forced_rows : ∀ r ∈ Gen.Disk.processors, ∀ x, r.2.2.2 = some x → r.1 = Tape.str "BAS,A" ∧ x = Tape.str "BAS" := by decide
theorem default_not_forced : Gen.Disk.defaultProcessor.2.2 = none := rfl

/-- the kind table forces an extension for the key `BAS,A` only (`BAS`): the stored extension is the extension, or `BAS` when
    the extension with its option is `BAS,A` -/
theorem dispatch_stored_ext (n e w : Str) :
    (dispatch n e w).2.2 = e ∨ (w = Tape.str "BAS,A" ∧ (dispatch n e w).2.2 = Tape.str "BAS") := by
  unfold dispatch
  dsimp only
  cases hf : Gen.Disk.processors.find? (fun r => r.1 == n ++ [46] ++ e) with
  | some r =>
    simp only
    obtain ⟨k, kk, ff, forced⟩ := r
    cases hfo : forced with
    | none => left; simp
    | some x =>
      exfalso
      have hm := List.mem_of_find?_eq_some hf
      have hk : k = n ++ [46] ++ e := by simpa using List.find?_some hf
      have := (forced_rows _ hm x (by simp [hfo])).1
      simp only at this
      rw [hk] at this
      have h46 : 46 ∈ Tape.str "BAS,A" := by rw [← this]; simp
      revert h46; decide
  | none =>
    simp only
    cases hw : Gen.Disk.processors.find? (fun r => r.1 == w) with
    | none => left; simp [default_not_forced]
    | some r =>
      simp only
      obtain ⟨k, kk, ff, forced⟩ := r
      cases hfo : forced with
      | none => left; simp
      | some x =>
        right
        have hm := List.mem_of_find?_eq_some hw
        have hk : k = w := by simpa using List.find?_some hw
        have := forced_rows _ hm x (by simp [hfo])
        simp only at this
        exact ⟨by rw [← hk]; exact this.1, by simp [this.2]⟩

open Moto.Spec.Names in
/-- a source given with `bas,a`: the extension without the option is `BAS` -/
theorem diskSource_ext_of_basA (src : Str) (h : (diskSource src).extWithOption = Tape.str "BAS,A") : (diskSource src).ext = Tape.str "BAS" := by
  obtain ⟨pre, base, rfl, hp, hb⟩ := path_split src
  unfold diskSource at h ⊢
  rw [baseName_split pre base hp hb] at h ⊢
  rcases rfind_split 46 base with ⟨_, hno⟩ | ⟨i, _, p, post, hsplit, _, hpost⟩
  · rw [stemExt_nodot base hno] at h
    simp only at h
    exact absurd h (by decide)
  · have hse : stemExt base = (p, some post) := by rw [hsplit]; exact stemExt_dot p post hpost
    rw [hse] at h ⊢
    simp only at h ⊢
    have hl : post.length = 5 := by
      have := congrArg List.length h
      simpa [upper, Tape.str] using this
    have hopt : hasOption (pre ++ base) = true := by
      unfold hasOption
      have hrev : ((pre ++ base).reverse.take 2).reverse = post.drop 3 := by
        rw [List.take_reverse, List.reverse_reverse, hsplit]
        have : pre ++ (p ++ 46 :: post) = (pre ++ p ++ [46]) ++ post := by simp
        rw [this, List.length_append, hl, List.drop_append]
        have e1 : (pre ++ p ++ [46]).length + 5 - 2 - (pre ++ p ++ [46]).length = 3 := by omega
        rw [e1, List.drop_of_length_le (by omega)]; rfl
      rw [hrev]
      have : upper (post.drop 3) = (upper post).drop 3 := by simp [upper, List.map_drop]
      rw [this, h]
      decide
    rw [if_pos hopt]
    have : upper post.dropLast.dropLast = (upper post).dropLast.dropLast := by
      simp [upper, List.dropLast_eq_take, List.map_take]
    rw [this, h]
    decide

open Moto.Spec.Names in
/-- **the stored extension of a source is its extension (without the option)** -/
theorem dispatch_of_diskSource (src : Str) :
    (dispatch (diskSource src).name (diskSource src).ext (diskSource src).extWithOption).2.2 = (diskSource src).ext := by
  rcases dispatch_stored_ext (diskSource src).name (diskSource src).ext (diskSource src).extWithOption with h | ⟨hw, hb⟩
  · exact h
  · rw [hb, diskSource_ext_of_basA src hw]

end Moto.Disk
