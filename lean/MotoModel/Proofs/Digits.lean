/-
  Decimal numerals: `int(str(n)) = n`, the shape of `str(n)`, and how a line that starts with a numeral is cut.
  Used by C13 / C14 (line numbers of a listing) and C16 (numbers written by moto_nl).
-/
import MotoModel.Model.Py
import MotoModel.Spec.LineTools
namespace Moto

theorem digits_lt10 (n : Nat) (h : n < 10) : digits n = [48 + n] := by
  rw [digits]; simp [h]

theorem digits_ge10 (n : Nat) (h : ¬ n < 10) : digits n = digits (n / 10) ++ [48 + n % 10] := by
  rw [digits]; simp [h]

theorem digits_all_digit (n : Nat) : ∀ c ∈ digits n, isDigit c = true := by
  induction n using Nat.strongRecOn with
  | _ n ih =>
    intro c hc
    by_cases h : n < 10
    · rw [digits_lt10 n h] at hc
      simp only [List.mem_cons, List.not_mem_nil, or_false] at hc
      subst hc
      simp [isDigit]; omega
    · rw [digits_ge10 n h] at hc
      rcases List.mem_append.mp hc with hc | hc
      · exact ih (n / 10) (by omega) c hc
      · simp only [List.mem_cons, List.not_mem_nil, or_false] at hc
        subst hc
        simp [isDigit]; omega

theorem parseNat_append (a : Str) (d : Nat) : parseNat (a ++ [d]) = parseNat a * 10 + (d - 48) := by
  simp [parseNat, List.foldl_append]

/-- `int(str(n)) = n` -/
theorem parseNat_digits (n : Nat) : parseNat (digits n) = n := by
  induction n using Nat.strongRecOn with
  | _ n ih =>
    by_cases h : n < 10
    · rw [digits_lt10 n h]; simp [parseNat]
    · rw [digits_ge10 n h, parseNat_append, ih (n / 10) (by omega)]; omega

theorem digits_ne_nil (n : Nat) : digits n ≠ [] := by
  by_cases h : n < 10
  · rw [digits_lt10 n h]; simp
  · rw [digits_ge10 n h]; simp

/-- the numeral of a positive number starts with one of 1..9 -/
theorem digits_head_pos (n : Nat) (hn : 0 < n) : ∃ c r, digits n = c :: r ∧ 49 ≤ c ∧ c ≤ 57 := by
  induction n using Nat.strongRecOn with
  | _ n ih =>
    by_cases h : n < 10
    · exact ⟨48 + n, [], digits_lt10 n h, by omega, by omega⟩
    · obtain ⟨c, r, hd, h1, h2⟩ := ih (n / 10) (by omega) (by omega)
      exact ⟨c, r ++ [48 + n % 10], by rw [digits_ge10 n h, hd]; rfl, h1, h2⟩

theorem takeWhileB_all_append {p : Nat → Bool} : ∀ (a : Str) (c : Nat) (r : Str), (∀ x ∈ a, p x = true) → p c = false →
    (a ++ c :: r).takeWhile p = a
  | [], c, r, _, hc => by simp [List.takeWhile_cons, hc]
  | x :: xs, c, r, ha, hc => by
    simp only [List.cons_append, List.takeWhile_cons, ha x (by simp), if_true]
    rw [takeWhileB_all_append xs c r (fun y hy => ha y (by simp [hy])) hc]

theorem takeWhileB_all {p : Nat → Bool} : ∀ (a : Str), (∀ x ∈ a, p x = true) → a.takeWhile p = a
  | [], _ => rfl
  | x :: xs, ha => by
    simp only [List.takeWhile_cons, ha x (by simp), if_true]
    rw [takeWhileB_all xs (fun y hy => ha y (by simp [hy]))]

/-- the leading numeral of `str(n)` followed by a character that is not a digit is `str(n)` -/
theorem takeWhile_digits (n c : Nat) (r : Str) (hc : isDigit c = false) :
    (digits n ++ c :: r).takeWhile isDigit = digits n :=
  takeWhileB_all_append _ c r (digits_all_digit n) hc

/-! ### the specification's reading of a numeral (Spec/LineTools.lean) -/

open Moto.Spec in
theorem digitRun_eq_takeWhile : ∀ (l : Str), digitRun l = l.takeWhile isDigit
  | [] => rfl
  | c :: r => by
    simp only [digitRun, List.takeWhile_cons, isDigit]
    by_cases h : 48 ≤ c ∧ c ≤ 57
    · rw [if_pos h, digitRun_eq_takeWhile r]
      simp [h.1, h.2]
    · rw [if_neg h]
      have : (decide (48 ≤ c) && decide (c ≤ 57)) = false := by
        simp only [Bool.and_eq_false_iff, decide_eq_false_iff_not]
        by_cases h1 : 48 ≤ c
        · right; exact fun h2 => h ⟨h1, h2⟩
        · left; exact h1
      simp [this]

open Moto.Spec in
theorem decimal_append (xs : Str) (d : Nat) : decimalFromLast (xs ++ [d]) = decimalFromLast xs + (d - 48) * 10 ^ xs.length := by
  induction xs with
  | nil => simp [decimalFromLast]
  | cons x r ih =>
    simp only [List.cons_append, decimalFromLast, ih, List.length_cons, Nat.pow_succ]
    rw [Nat.mul_add, ← Nat.mul_assoc, Nat.mul_comm 10 (d - 48), Nat.mul_assoc, Nat.mul_comm 10 (10 ^ r.length)]
    omega

open Moto.Spec in
theorem foldl_horner : ∀ (ds : Str) (a : Nat),
    ds.foldl (fun a d => a * 10 + (d - 48)) a = a * 10 ^ ds.length + decimalFromLast ds.reverse
  | [], a => by simp [decimalFromLast]
  | d :: r, a => by
    simp only [List.foldl_cons, List.reverse_cons, List.length_cons]
    rw [foldl_horner r, decimal_append, List.length_reverse, Nat.pow_succ, Nat.add_mul, Nat.mul_assoc, Nat.mul_comm 10 (10 ^ r.length)]
    omega

open Moto.Spec in
theorem parseNat_eq_decimal (ds : Str) : parseNat ds = decimalFromLast ds.reverse := by
  unfold parseNat
  rw [foldl_horner]; simp


end Moto
