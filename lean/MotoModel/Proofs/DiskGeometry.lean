/-
  C11 — both disk flavours hold the same disk; load/save is identity; geometry is fixed.
-/
import MotoModel.Model.DiskCli
namespace Moto.C11
open Moto Moto.Disk

theorem payload_size : Gen.Disk.payloadSizeFd = 256 ∧ Gen.Disk.payloadSizeSd = 256 := ⟨rfl, rfl⟩
theorem sector_sizes : sectorSize .fd = 256 ∧ sectorSize .sd = 512 := ⟨rfl, rfl⟩
theorem geometry : Gen.Disk.tracksPerSide = 80 ∧ Gen.Disk.sectorsPerTrack = 16 ∧ sectorsPerSide = 1280 := ⟨rfl, rfl, rfl⟩
theorem side_sizes : sizeOfSide .fd = 327680 ∧ sizeOfSide .sd = 655360 := ⟨rfl, rfl⟩
theorem sd_padding : Gen.Disk.sdPadding = List.replicate 256 0xFF := by decide +kernel

/-- **C11 (setter keeps the length)**: assigning a payload of *any* length never moves a sector
    boundary. -/
theorem setPayload_length (sec v : Bytes) (h : 256 ≤ sec.length) : (setPayload sec v).length = sec.length := by
  unfold setPayload sliceAssign
  have : Gen.Disk.payloadSizeFd = 256 := rfl
  simp only [this]
  split <;> simp <;> omega

/-- … and overwrites exactly the first min(|v|, 256) bytes -/
theorem setPayload_eq (sec v : Bytes) :
    setPayload sec v = v.take 256 ++ sec.drop (min v.length 256) := by
  unfold setPayload sliceAssign
  have : Gen.Disk.payloadSizeFd = 256 := rfl
  simp only [this]
  by_cases h : v.length < 256
  · simp only [h, if_true]
    have h1 : v.take v.length = v := List.take_of_length_le (Nat.le_refl _)
    have h2 : v.take 256 = v := List.take_of_length_le (by omega)
    have h3 : min v.length 256 = v.length := by omega
    simp [h1, h2, h3]
  · simp only [h, if_false]
    have h3 : min v.length 256 = 256 := by omega
    simp [h3]

/-- what the archivers assign is never longer than a sector payload -/
theorem tool_assignments_le_256 (content : Bytes) (i : Nat) : (slice content (i * 255) (i * 255 + 255)).length ≤ 256 := by
  simp [slice]; omega

/-! ### save -/

/-- well-formed geometry of an image in memory -/
def WFSide (sd : Side) : Prop := sd.length = 1280 ∧ ∀ s ∈ sd, s.length = 256
def WFImage (img : Image) : Prop := ∀ sd ∈ img, WFSide sd

theorem flatMap_length_const {α} (l : List α) (f : α → Bytes) (k : Nat) (h : ∀ x ∈ l, (f x).length = k) :
    (l.flatMap f).length = l.length * k := by
  induction l with
  | nil => simp
  | cons x xs ih =>
    simp only [List.flatMap_cons, List.length_append, List.length_cons]
    rw [h x (by simp), ih (fun y hy => h y (by simp [hy]))]
    rw [Nat.add_mul]; omega

/-- **C11 (fixed geometry)**: the archive length is sides x 80 x 16 x sector size, whatever was stored -/
theorem save_length (fl : Flavour) (img : Image) (h : WFImage img) :
    (save fl img).length = img.length * (1280 * sectorSize fl) := by
  unfold save
  apply flatMap_length_const
  intro sd hsd
  obtain ⟨h1, h2⟩ := h sd hsd
  rw [flatMap_length_const sd _ (sectorSize fl), h1]
  intro sec hsec
  have := h2 sec hsec
  cases fl
  · simp [this]; rfl
  · simp only [List.length_append, this]
    have : Gen.Disk.sdPadding.length = 256 := by decide +kernel
    rw [this]; rfl

/-- **C11 (flavours)**: the .sd archive is the .fd archive with the 256-byte FF padding after
    every sector: both are laid out from the same sector payloads. -/
theorem save_fd_payloads (img : Image) : save .fd img = img.flatten.flatten := by
  simp [save, List.flatMap_def, List.flatten_flatten]

theorem save_sd_interleave (img : Image) : save .sd img = img.flatten.flatMap (· ++ Gen.Disk.sdPadding) := by
  simp only [save]
  induction img with
  | nil => rfl
  | cons sd rest ih =>
    simp only [List.flatMap_cons, List.flatten_cons, List.flatMap_append, ih]

/-- the model is flavour-agnostic above load/save: both tools compute the same sides from the
    same sources, and differ only in how `save` lays the sectors out -/
theorem create_same_sides (w : Tape.World) (verbose : Bool) (a1 a2 : Str) (srcs : List Str) :
    ((create .fd w verbose a1 srcs).writes = [] ∧ (create .sd w verbose a2 srcs).writes = []) ∨
    ∃ img, (create .fd w verbose a1 srcs).writes = [(a1, save .fd img)] ∧ (create .sd w verbose a2 srcs).writes = [(a2, save .sd img)] := by
  unfold create performOn
  split
  · left; exact ⟨rfl, rfl⟩
  · cases performCore w verbose _ srcs with
    | error e => left; exact ⟨rfl, rfl⟩
    | ok st => right; exact ⟨st.img, rfl, rfl⟩

/-! ### load then save -/

theorem sectorsOf_fd_flatten (n : Nat) : ∀ raw : Bytes, 256 * n ≤ raw.length →
    (sectorsOf .fd n raw).flatten = raw.take (256 * n) := by
  induction n with
  | zero => intro raw _; simp [sectorsOf]
  | succ n ih =>
    intro raw h
    have e1 : Gen.Disk.payloadSizeFd = 256 := rfl
    have e2 : sectorSize .fd = 256 := rfl
    simp only [sectorsOf, List.flatten_cons, e1, e2]
    rw [ih (raw.drop 256) (by rw [List.length_drop]; omega)]
    have : 256 * (n + 1) = 256 + 256 * n := by omega
    rw [this, List.take_add]

theorem sectorsOf_wf (fl : Flavour) (n : Nat) : ∀ raw : Bytes, sectorSize fl * n ≤ raw.length →
    (sectorsOf fl n raw).length = n ∧ ∀ s ∈ sectorsOf fl n raw, s.length = 256 := by
  induction n with
  | zero => intro raw _; simp [sectorsOf]
  | succ n ih =>
    intro raw h
    have hs : 256 ≤ sectorSize fl := by cases fl <;> decide
    have e1 : Gen.Disk.payloadSizeFd = 256 := rfl
    rw [Nat.mul_add, Nat.mul_one] at h
    obtain ⟨h1, h2⟩ := ih (raw.drop (sectorSize fl)) (by rw [List.length_drop]; omega)
    constructor
    · simp [sectorsOf, h1]
    · intro s hs'
      simp only [sectorsOf, List.mem_cons] at hs'
      rcases hs' with h' | h'
      · rw [h', e1, List.length_take]; omega
      · exact h2 s h'

theorem pieces_flatten (k : Nat) : ∀ (n : Nat) (raw : Bytes), raw.length = k * n →
    ((List.range n).map (fun i => (raw.drop (k * i)).take k)).flatten = raw := by
  intro n
  induction n with
  | zero => intro raw h; simp at h; simp [h]
  | succ n ih =>
    intro raw h
    rw [List.range_succ_eq_map, List.map_cons, List.map_map, List.flatten_cons]
    rw [Nat.mul_add, Nat.mul_one] at h
    have := ih (raw.drop k) (by rw [List.length_drop, h]; omega)
    have e : ((fun i => (raw.drop (k * i)).take k) ∘ Nat.succ) = fun i => ((raw.drop k).drop (k * i)).take k := by
      funext i; simp [Nat.mul_succ, Nat.add_comm]
    rw [e, this]
    simp

/-- **C11 (load/save identity, emulator flavour)**: a valid .fd of 1, 2 or 4 sides is saved back
    byte for byte when nothing is stored. -/
theorem load_save_fd (raw : Bytes) (img : Image) (n : Nat) (hn : n = 1 ∨ n = 2 ∨ n = 4)
    (hlen : raw.length = 327680 * n) (h : load .fd raw = .ok img) : save .fd img = raw := by
  unfold load at h
  have hs : sizeOfSide .fd = 327680 := rfl
  have hne : ¬ (raw.length = 0) := by rcases hn with h | h | h <;> omega
  have hdiv : raw.length / 327680 = n := by rw [hlen]; simp
  have hmin : min n 4 = n := by rcases hn with h | h | h <;> omega
  simp only [hne, if_false, hs, hdiv, hmin] at h
  have hbad : (n == 0 || n == 3) = false := by rcases hn with h | h | h <;> subst h <;> rfl
  have hint : ¬ (n < 4 ∧ n * 327680 < raw.length) := by rw [Nat.mul_comm]; omega
  simp only [hbad, Bool.false_eq_true, if_false, hint] at h
  cases h
  rw [save_fd_payloads]
  have hside : ∀ i ∈ List.range n, (sectorsOf .fd sectorsPerSide (raw.drop (i * 327680))).flatten
      = (raw.drop (327680 * i)).take 327680 := by
    intro i hi
    have hi' : i < n := by simpa using hi
    rw [Nat.mul_comm i 327680]
    have := sectorsOf_fd_flatten 1280 (raw.drop (327680 * i)) (by
      rw [List.length_drop, hlen]; omega)
    exact this
  rw [List.flatten_flatten, List.map_map]
  have hm : (List.range n).map (List.flatten ∘ fun i => sectorsOf .fd sectorsPerSide (raw.drop (i * 327680)))
      = (List.range n).map (fun i => (raw.drop (327680 * i)).take 327680) :=
    List.map_congr_left (fun i hi => hside i hi)
  rw [hm]
  exact pieces_flatten 327680 n raw hlen

/-- non-vacuity: the hypotheses of `save_length` hold for a blank image -/
example : WFSide blankSide := by
  constructor
  · decide +kernel
  · intro s hs; simp [blankSide] at hs; rw [hs.2]; decide +kernel

end Moto.C11
