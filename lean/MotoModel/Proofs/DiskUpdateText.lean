/-
  The report of a create/add batch as a closed text: four sections (sides 0..3), each made of the
  lines of its items (stored file, refused file, note) and closed by the count of its stored files;
  then the totals.
-/
import MotoModel.Proofs.DiskPerSide
namespace Moto.Disk
open Moto Moto.Tape

/-- what can happen inside the section of a side -/
inductive Item where
  | stored (ev : FileEv)
  | refused (ev : FileEv) (msg : Str)
  | note (msg : Str)

def itemEvents : Item → List LEv
  | .stored ev => [.beginFile ev, .endFile ev]
  | .refused ev m => [.beginFile ev, .abort m]
  | .note m => [.before m]

/-- the start of a file's line, before "ok" / the sizes / the reason of a refusal -/
def fileHead (v : Bool) (ev : FileEv) : Str :=
  if !v then str "  " ++ rstripBy isSpace ev.name ++ [46] ++ rstripBy isSpace ev.ext ++ str "..."
  else str "  " ++ ev.name ++ [46] ++ ev.ext ++ str "  " ++ padRight ev.tof 8 ++ padRight ev.tod 8 ++ str "......"

def itemText (v : Bool) : Item → Str
  | .stored ev => fileText 2 v ev
  | .refused ev m => fileHead v ev ++ m ++ [10]
  | .note m => str "  " ++ m ++ [10]

def storedOf : List Item → List FileEv
  | [] => []
  | .stored ev :: r => ev :: storedOf r
  | _ :: r => storedOf r

theorem storedOf_append (a b : List Item) : storedOf (a ++ b) = storedOf a ++ storedOf b := by
  induction a with
  | nil => rfl
  | cons x r ih => cases x <;> simp [storedOf, ih]

structure Sec where
  side : Nat
  items : List Item
  u : Usage

def flatSec (s : Sec) : List LEv := .beginSide s.side :: (s.items.flatMap itemEvents ++ [.endSide s.u])

def blocksOf (evs : List FileEv) : Nat := (evs.map (·.blocks)).sum

/-- the text of one section -/
def secText (v : Bool) (sidesBefore : Nat) (s : Sec) : Str :=
  beginText 2 v sidesBefore s.side ++ s.items.flatMap (itemText v)
    ++ endText 2 v (storedOf s.items).length (blocksOf (storedOf s.items)) s.u

def secsText (v : Bool) : Nat → List Sec → Str
  | _, [] => []
  | n, s :: r => secText v n s ++ secsText v (n + 1) r

def allStored (secs : List Sec) : List FileEv := secs.flatMap fun s => storedOf s.items

/-- one item through the listener, from the start of a line -/
theorem item_step (l : DL) (hnl : l.needNL = false) (hp : l.processing = 2) (it : Item) :
    play l (itemEvents it) =
      { l with filesOne := l.filesOne + (storedOf [it]).length, filesAll := l.filesAll + (storedOf [it]).length,
               blocksOne := l.blocksOne + blocksOf (storedOf [it]), blocksAll := l.blocksAll + blocksOf (storedOf [it]),
               out := l.out ++ itemText l.verbose it } := by
  cases it with
  | stored ev =>
    simp only [itemEvents, play, List.foldl, playOne]
    rw [file_step l hnl ev, hp]
    simp [storedOf, blocksOf, itemText]
  | refused ev m =>
    obtain ⟨p, v, nl, sides, f1, fa, b1, ba, rn, out⟩ := l
    simp only at hnl hp
    subst hnl hp
    simp only [itemEvents, play, List.foldl, playOne, storedOf, blocksOf, itemText, fileHead]
    unfold onAbortFile onBeginOfFile DL.retLine DL.put DL.print
    cases v <;> simp [List.append_assoc]
  | note m =>
    obtain ⟨p, v, nl, sides, f1, fa, b1, ba, rn, out⟩ := l
    simp only at hnl hp
    subst hnl hp
    simp only [itemEvents, play, List.foldl, playOne, storedOf, blocksOf, itemText]
    unfold onBeforeBeginOfFile DL.print
    simp [List.append_assoc]

theorem items_step : ∀ (items : List Item) (l : DL), l.needNL = false → l.processing = 2 →
    play l (items.flatMap itemEvents) =
      { l with filesOne := l.filesOne + (storedOf items).length, filesAll := l.filesAll + (storedOf items).length,
               blocksOne := l.blocksOne + blocksOf (storedOf items), blocksAll := l.blocksAll + blocksOf (storedOf items),
               out := l.out ++ items.flatMap (itemText l.verbose) } := by
  intro items
  induction items with
  | nil => intro l _ _; obtain ⟨p, v, nl, sides, f1, fa, b1, ba, rn, out⟩ := l; simp [play, storedOf, blocksOf]
  | cons it r ih =>
    intro l hnl hp
    rw [List.flatMap_cons, play_append, item_step l hnl hp it]
    obtain ⟨p, v, nl, sides, f1, fa, b1, ba, rn, out⟩ := l
    simp only at hnl hp
    subst hnl hp
    rw [ih _ rfl rfl]
    have h1 : storedOf (it :: r) = storedOf [it] ++ storedOf r := storedOf_append [it] r
    simp only [h1, List.length_append, blocksOf, List.map_append, List.sum_append, List.flatMap_cons, List.append_assoc]
    congr 1 <;> omega

/-- the listener after one whole section -/
theorem sec_step (l : DL) (hnl : l.needNL = false) (hr : l.resetNext = false) (hp : l.processing = 2) (s : Sec) :
    play l (flatSec s) =
      { l with sides := l.sides + 1, filesOne := (storedOf s.items).length, blocksOne := blocksOf (storedOf s.items),
               filesAll := l.filesAll + (storedOf s.items).length, blocksAll := l.blocksAll + blocksOf (storedOf s.items),
               out := l.out ++ secText l.verbose l.sides s } := by
  unfold flatSec
  show play (playOne l (.beginSide s.side)) _ = _
  rw [play_append]
  simp only [playOne]
  rw [beginOfSide_step l hnl hr s.side]
  obtain ⟨p, v, nl, sides, f1, fa, b1, ba, rn, out⟩ := l
  simp only at hnl hr hp
  subst hnl hr hp
  rw [items_step _ _ rfl rfl]
  simp only [play, List.foldl, playOne]
  rw [endOfSide_step _ rfl]
  simp [secText, List.append_assoc]

theorem secs_step (v : Bool) : ∀ (secs : List Sec) (l : DL), l.needNL = false → l.resetNext = false → l.processing = 2 → l.verbose = v →
    (play l (secs.flatMap flatSec)).out = l.out ++ secsText v l.sides secs
    ∧ (play l (secs.flatMap flatSec)).sides = l.sides + secs.length
    ∧ (play l (secs.flatMap flatSec)).filesAll = l.filesAll + (allStored secs).length
    ∧ (play l (secs.flatMap flatSec)).blocksAll = l.blocksAll + blocksOf (allStored secs)
    ∧ (play l (secs.flatMap flatSec)).needNL = false
    ∧ (play l (secs.flatMap flatSec)).processing = 2
    ∧ (play l (secs.flatMap flatSec)).verbose = v := by
  intro secs
  induction secs with
  | nil => intro l h1 h2 h3 h4; simp [play, secsText, allStored, blocksOf, h1, h3, h4]
  | cons s r ih =>
    intro l h1 h2 h3 h4
    rw [List.flatMap_cons, play_append, sec_step l h1 h2 h3 s]
    obtain ⟨p, v', nl, sides, f1, fa, b1, ba, rn, out⟩ := l
    simp only at h1 h2 h3 h4
    subst h1 h2 h3 h4
    obtain ⟨o, sd, fa', ba', nl, pr, vb⟩ := ih (DL.mk 2 v' false (sides + 1) (storedOf s.items).length (fa + (storedOf s.items).length)
      (blocksOf (storedOf s.items)) (ba + blocksOf (storedOf s.items)) false (out ++ secText v' sides s)) rfl rfl rfl rfl
    refine ⟨?_, ?_, ?_, ?_, nl, pr, vb⟩
    · rw [o]; simp [secsText, List.append_assoc]
    · rw [sd]; simp; omega
    · rw [fa']; simp [allStored, List.flatMap_cons]; omega
    · rw [ba']; simp [allStored, List.flatMap_cons, blocksOf]; omega


/-! ## the grammar of the events of a batch -/

/-- `Trace c evs c'`: from inside the open section of side `c`, the events `evs` are a well-bracketed
    run that ends inside the open section of side `c'` (`c' < 4`) or after the fourth side was
    closed (`c' = 4`) -/
inductive Trace : Nat → List LEv → Nat → Prop where
  | nil (c : Nat) : Trace c [] c
  | stored (c : Nat) (ev : FileEv) (r : List LEv) (c' : Nat) : c < 4 → Trace c r c' → Trace c (.beginFile ev :: .endFile ev :: r) c'
  | note (c : Nat) (m : Str) (r : List LEv) (c' : Nat) : c < 4 → Trace c r c' → Trace c (.before m :: r) c'
  | refusedLast (ev : FileEv) (m : Str) (u : Usage) : Trace 3 [.beginFile ev, .abort m, .endSide u] 4
  | refused (c : Nat) (ev : FileEv) (m : Str) (u : Usage) (r : List LEv) (c' : Nat) : c + 1 < 4 → Trace (c + 1) r c' →
      Trace c (.beginFile ev :: .abort m :: .endSide u :: .beginSide (c + 1) :: r) c'
  | closeLast (u : Usage) : Trace 3 [.endSide u] 4
  | close (c : Nat) (u : Usage) (r : List LEv) (c' : Nat) : c + 1 < 4 → Trace (c + 1) r c' → Trace c (.endSide u :: .beginSide (c + 1) :: r) c'

theorem Trace.append {a b c : Nat} {x y : List LEv} (h1 : Trace a x b) (h2 : Trace b y c) : Trace a (x ++ y) c := by
  induction h1 with
  | nil c => exact h2
  | stored c ev r c' hc _ ih => exact .stored c ev _ _ hc (ih h2)
  | note c m r c' hc _ ih => exact .note c m _ _ hc (ih h2)
  | refusedLast ev m u =>
    cases h2 with
    | nil => exact .refusedLast ev m u
    | stored _ _ _ _ hc => omega
    | note _ _ _ _ hc => omega
    | refused _ _ _ _ _ _ hc => omega
    | close _ _ _ _ hc => omega
  | refused c ev m u r c' hc _ ih => exact .refused c ev m u _ _ hc (ih h2)
  | closeLast u =>
    cases h2 with
    | nil => exact .closeLast u
    | stored _ _ _ _ hc => omega
    | note _ _ _ _ hc => omega
    | refused _ _ _ _ _ _ hc => omega
    | close _ _ _ _ hc => omega
  | close c u r c' hc _ ih => exact .close c u _ _ hc (ih h2)

theorem Trace.le {c c' : Nat} {evs : List LEv} (h : Trace c evs c') : c ≤ 4 → c' ≤ 4 := by
  induction h with
  | nil c => exact id
  | stored c ev r c' hc _ ih => exact ih
  | note c m r c' hc _ ih => exact ih
  | refusedLast ev m u => intro _; omega
  | refused c ev m u r c' hc _ ih => intro _; exact ih (by omega)
  | closeLast u => intro _; omega
  | close c u r c' hc _ ih => intro _; exact ih (by omega)

theorem fileEvents_trace (name ext : Str) (kind flag : Nat) (data : Bytes) :
    ∀ (fuel : Nat) (st st' : Inj), injWriteFile name ext kind flag data fuel st = .ok st' →
      Trace st.cur (fileEvents name ext kind flag data fuel st.img st.cur) st'.cur := by
  intro fuel
  induction fuel with
  | zero => intro st st' h; simp only [injWriteFile] at h; cases h; exact .nil _
  | succ fuel ih =>
    intro st st' h
    simp only [injWriteFile] at h
    simp only [fileEvents]
    by_cases hc : st.cur ≥ 4
    · rw [if_pos hc] at h ⊢; cases h; exact .nil _
    · rw [if_neg hc] at h ⊢
      cases hw : writeFile (st.img.getD st.cur []) data name ext kind flag with
      | ok sd => rw [hw] at h; dsimp only at h ⊢; cases h; exact .stored _ _ _ _ (by omega) (.nil _)
      | raised e sd =>
        rw [hw] at h
        cases e with
        | valueError m =>
          dsimp only at h ⊢
          cases hu : usageOfSide (st.img.set st.cur sd) st.cur with
          | error e => rw [hu] at h; cases h
          | ok u =>
            rw [hu] at h
            dsimp only at h ⊢
            by_cases h4 : st.cur + 1 ≥ 4
            · rw [if_pos h4] at h ⊢; cases h
              have : st.cur = 3 := by omega
              simp only [this, List.append_nil]
              exact .refusedLast _ _ _
            · rw [if_neg h4] at h ⊢
              have := ih _ st' h
              exact .refused _ _ _ _ _ _ (by omega) this
        | indexError => cases h
        | typeError => cases h
        | overflowError => cases h
        | unicodeError => cases h
        | nameError => cases h
        | attributeError => cases h
        | osError k => cases h

theorem srcEvents_trace (w : Tape.World) (src : Str) (st st' : Inj) (b : Bool) (hc : st.cur < 4) (h : injFile w src st = .ok (st', b)) :
    Trace st.cur (srcEvents w src st.img st.cur) st'.cur := by
  unfold injFile at h
  unfold srcEvents
  dsimp only at h ⊢
  cases hw : w (splitSource src).2.2.2 with
  | none => rw [hw] at h; dsimp only at h ⊢; cases h; exact .note _ _ _ _ hc (.nil _)
  | some data =>
    rw [hw] at h
    dsimp only at h ⊢
    split at h
    · rename_i h8; rw [if_pos h8]; cases h; exact .note _ _ _ _ hc (.nil _)
    · rename_i h8
      rw [if_neg h8]
      split at h
      · rename_i h3; rw [if_pos h3]; cases h; exact .note _ _ _ _ hc (.nil _)
      · rename_i h3
        rw [if_neg h3]
        split at h
        · rename_i ha; rw [if_pos ha]; cases h; exact .note _ _ _ _ hc (.nil _)
        · rename_i ha
          rw [if_neg ha]
          cases hi : injWriteFile (splitSource src).1 (dispatch (splitSource src).1 (splitSource src).2.1 (splitSource src).2.2.1).2.2
            (dispatch (splitSource src).1 (splitSource src).2.1 (splitSource src).2.2.1).1
            (dispatch (splitSource src).1 (splitSource src).2.1 (splitSource src).2.2.1).2.1 data 4 st with
          | error e => rw [hi] at h; cases h
          | ok s2 =>
            rw [hi] at h
            cases h
            exact fileEvents_trace _ _ _ _ _ 4 st _ hi

theorem loopEvents_trace (w : Tape.World) : ∀ (srcs : List Str) (st st' : Inj), st.cur < 4 → injLoop w srcs st = .ok st' →
    Trace st.cur (loopEvents w srcs st.img st.cur) st'.cur := by
  intro srcs
  induction srcs with
  | nil => intro st st' _ h; simp only [injLoop] at h; cases h; exact .nil _
  | cons src rest ih =>
    intro st st' hc h
    simp only [injLoop] at h
    simp only [loopEvents]
    split at h
    · rename_i he
      rw [if_pos he]
      cases hu : usageOfSide st.img st.cur with
      | error e => rw [hu] at h; cases h
      | ok u =>
        rw [hu] at h
        dsimp only at h ⊢
        split at h
        · rename_i h4; rw [if_pos h4]; cases h
          have : st.cur = 3 := by omega
          simp only [this]
          exact .closeLast _
        · rename_i h4
          rw [if_neg h4]
          have := ih _ st' (by dsimp only; omega) h
          exact .close _ _ _ _ (by omega) this
    · rename_i he
      rw [if_neg he]
      cases hf : injFile w src st with
      | error e => rw [hf] at h; cases h
      | ok r =>
        obtain ⟨s1, p⟩ := r
        rw [hf] at h
        dsimp only at h
        have ht := srcEvents_trace w src st s1 p hc hf
        rw [injFile_next w src st s1 p hf]
        dsimp only
        split at h
        · rename_i hq; rw [if_pos hq]; cases h; rw [List.append_nil]; exact ht
        · rename_i hq
          rw [if_neg hq]
          have hc1 : s1.cur < 4 := by
            cases p with
            | true => simp at hq; exact hq
            | false =>
              -- not processed: the cursor did not move
              unfold injFile at hf
              dsimp only at hf
              cases hw : w (splitSource src).2.2.2 with
              | none => rw [hw] at hf; dsimp only at hf; cases hf; exact hc
              | some data =>
                rw [hw] at hf
                dsimp only at hf
                split at hf
                · cases hf; exact hc
                · split at hf
                  · cases hf; exact hc
                  · split at hf
                    · cases hf; exact hc
                    · revert hf
                      cases injWriteFile (splitSource src).1 (dispatch (splitSource src).1 (splitSource src).2.1 (splitSource src).2.2.1).2.2
                        (dispatch (splitSource src).1 (splitSource src).2.1 (splitSource src).2.2.1).1
                        (dispatch (splitSource src).1 (splitSource src).2.1 (splitSource src).2.2.1).2.1 data 4 st with
                      | error e => intro hf; cases hf
                      | ok s2 => intro hf; cases hf
          exact ht.append (ih s1 st' hc1 h)

theorem tailEvents_trace {img : Image} (himg : ImgOk img) : ∀ (fuel c : Nat) (u : Usage), c < 4 → 3 ≤ c + fuel →
    Trace c (.endSide u :: tailEvents fuel img c) 4 := by
  intro fuel
  induction fuel with
  | zero =>
    intro c u hc hf
    have : c = 3 := by omega
    subst this
    exact .closeLast u
  | succ fuel ih =>
    intro c u hc hf
    simp only [tailEvents]
    by_cases h4 : c + 1 < 4
    · rw [if_pos h4]
      obtain ⟨u', hu'⟩ := usageOfSide_any himg (c + 1)
      rw [hu']
      exact .close c u _ _ h4 (ih (c + 1) u' h4 (by omega))
    · rw [if_neg h4]
      have : c = 3 := by omega
      subst this
      exact .closeLast u

/-- **the events of a batch are four well-bracketed sections** -/
theorem batchEvents_trace (w : Tape.World) (img : Image) (srcs : List Str)
    (himg : ImgOk img) (hs : ∀ src ∈ srcs, CleanSrc src) : Trace 0 (batchEvents w srcs img) 4 := by
  obtain ⟨s1, hl, hok1, _, _⟩ := injLoop_sections w srcs { img := img, cur := 0, l := mute } hs himg (by show 0 < 4; omega)
  have ht := loopEvents_trace w srcs _ s1 (by show 0 < 4; omega) hl
  have hle := ht.le (by show 0 ≤ 4; omega)
  unfold batchEvents
  have hnext : loopNext w srcs img = some (s1.img, s1.cur) := by
    unfold loopNext; rw [hl]
  rw [hnext]
  dsimp only at ht ⊢
  by_cases hc : s1.cur < 4
  · rw [if_pos hc]
    obtain ⟨u, hu⟩ := usageOfSide_any hok1 s1.cur
    rw [hu]
    exact ht.append (tailEvents_trace hok1 4 s1.cur u hc (by omega))
  · rw [if_neg hc, List.append_nil]
    have : s1.cur = 4 := by omega
    rw [this] at ht
    exact ht


/-- a well-bracketed run that closes the fourth side, continued from an open section of side `c`
    holding `its`, is a list of whole sections for the sides `c, c+1, …, 3` -/
theorem Trace.sections {c c' : Nat} {evs : List LEv} (h : Trace c evs c') : ∀ (its : List Item), c' = 4 → c < 4 →
    ∃ secs : List Sec, .beginSide c :: (its.flatMap itemEvents ++ evs) = secs.flatMap flatSec
      ∧ secs.map (·.side) = List.range' c (4 - c) := by
  induction h with
  | nil c => intro its h4 hc; omega
  | stored c ev r c' hc _ ih =>
    intro its h4 _
    obtain ⟨secs, h1, h2⟩ := ih (its ++ [.stored ev]) h4 hc
    exact ⟨secs, by rw [← h1]; simp [List.flatMap_append, itemEvents], h2⟩
  | note c m r c' hc _ ih =>
    intro its h4 _
    obtain ⟨secs, h1, h2⟩ := ih (its ++ [.note m]) h4 hc
    exact ⟨secs, by rw [← h1]; simp [List.flatMap_append, itemEvents], h2⟩
  | refusedLast ev m u =>
    intro its _ _
    exact ⟨[⟨3, its ++ [.refused ev m], u⟩], by simp [flatSec, List.flatMap_append, itemEvents], rfl⟩
  | refused c ev m u r c' hc _ ih =>
    intro its h4 _
    obtain ⟨secs, h1, h2⟩ := ih [] h4 hc
    refine ⟨⟨c, its ++ [.refused ev m], u⟩ :: secs, ?_, ?_⟩
    · rw [List.flatMap_cons, ← h1]; simp [flatSec, List.flatMap_append, itemEvents]
    · rw [List.map_cons, h2]
      have : 4 - c = (4 - (c + 1)) + 1 := by omega
      rw [this, List.range'_succ]
  | closeLast u =>
    intro its _ _
    exact ⟨[⟨3, its, u⟩], by simp [flatSec], rfl⟩
  | close c u r c' hc _ ih =>
    intro its h4 _
    obtain ⟨secs, h1, h2⟩ := ih [] h4 hc
    refine ⟨⟨c, its, u⟩ :: secs, ?_, ?_⟩
    · rw [List.flatMap_cons, ← h1]; simp [flatSec]
    · rw [List.map_cons, h2]
      have : 4 - c = (4 - (c + 1)) + 1 := by omega
      rw [this, List.range'_succ]

/-- the announcements of whole sections, tagged with the side of their section -/
theorem storedOn_sections : ∀ (secs : List Sec) (s : Nat),
    storedOn s (secs.flatMap flatSec) = secs.flatMap fun sec => (storedOf sec.items).map fun ev => (sec.side, ev) := by
  have hitems : ∀ (its : List Item) (s : Nat) (r : List LEv),
      storedOn s (its.flatMap itemEvents ++ r) = (storedOf its).map (fun ev => (s, ev)) ++ storedOn s r := by
    intro its
    induction its with
    | nil => intro s r; rfl
    | cons it rest ih =>
      intro s r
      cases it <;> simp [itemEvents, storedOn, storedOf, ih]
  have hsec : ∀ (sec : Sec) (s : Nat) (r : List LEv),
      storedOn s (flatSec sec ++ r) = (storedOf sec.items).map (fun ev => (sec.side, ev)) ++ storedOn sec.side r := by
    intro sec s r
    unfold flatSec
    simp only [List.cons_append, storedOn, List.append_assoc]
    rw [hitems]
    simp only [List.cons_append, List.nil_append, storedOn]
  intro secs
  induction secs with
  | nil => intro s; rfl
  | cons sec rest ih =>
    intro s
    rw [List.flatMap_cons, List.flatMap_cons, hsec, ih]

theorem announcedOn_sections (k : Nat) : ∀ (secs : List Sec), (secs.map (·.side)).Nodup → ∀ sec ∈ secs, sec.side = k →
    announcedOn k (secs.flatMap fun sec => (storedOf sec.items).map fun ev => (sec.side, ev)) = (storedOf sec.items).length := by
  have hzero : ∀ (secs : List Sec), (∀ s ∈ secs, s.side ≠ k) →
      announcedOn k (secs.flatMap fun sec => (storedOf sec.items).map fun ev => (sec.side, ev)) = 0 := by
    intro secs h
    unfold announcedOn
    rw [List.countP_eq_zero]
    intro p hp
    simp only [List.mem_flatMap, List.mem_map] at hp
    obtain ⟨s, hs, ev, _, rfl⟩ := hp
    simp; exact h s hs
  have hone : ∀ (s : Sec), announcedOn s.side ((storedOf s.items).map fun ev => (s.side, ev)) = (storedOf s.items).length := by
    intro s
    unfold announcedOn
    rw [List.countP_map]
    simp [Function.comp_def]
  intro secs
  induction secs with
  | nil => intro _ sec hm; cases hm
  | cons s rest ih =>
    intro hnd sec hm hk
    rw [List.flatMap_cons, announcedOn_append]
    simp only [List.map_cons, List.nodup_cons, List.mem_map, not_exists, not_and] at hnd
    rcases List.mem_cons.mp hm with rfl | hin
    · rw [hzero rest (fun s' hs' he => hnd.1 s' hs' (he.trans hk.symm)), ← hk, hone]; rfl
    · have hne : s.side ≠ k := fun he => hnd.1 sec hin (hk.trans he.symm)
      have : announcedOn k ((storedOf s.items).map fun ev => (s.side, ev)) = 0 := by
        unfold announcedOn
        rw [List.countP_eq_zero]
        intro p hp
        simp only [List.mem_map] at hp
        obtain ⟨ev, _, rfl⟩ := hp
        simp; exact hne
      rw [this, Nat.zero_add]
      exact ih hnd.2 sec hin hk

/-- the whole text of a create/add report -/
def updateText (v : Bool) (secs : List Sec) : Str :=
  secsText v 0 secs ++ doneText 2 v secs.length (allStored secs).length (blocksOf (allStored secs))

/-- **the report of a create/add batch, as a closed text**: on a consistent image, whatever the
    batch, there are four sections — for the sides 0, 1, 2, 3 in this order — such that what is
    printed is exactly their text followed by the totals; each section is closed by the count of
    the files stored in it, and this count is the number of files the image gained on that side -/
theorem update_report_text (w : Tape.World) (verbose : Bool) (img : Image) (srcs : List Str)
    (himg : ImgOk img) (hs : ∀ src ∈ srcs, CleanSrc src) :
    ∃ st secs, performCore w verbose img srcs = .ok st ∧ ImgOk st.img
      ∧ (onDone st.l).out = updateText verbose secs
      ∧ secs.map (·.side) = [0, 1, 2, 3]
      ∧ (∀ sec ∈ secs, (storedOf sec.items).length = newOn img st.img sec.side)
      ∧ secs.flatMap flatSec = LEv.beginSide 0 :: batchEvents w srcs img := by
  obtain ⟨st, hst, hok, hcnt⟩ := batch_count w verbose img srcs himg hs
  obtain ⟨secs, hflat, hsides⟩ := (batchEvents_trace w img srcs himg hs).sections [] rfl (by omega)
  simp only [List.flatMap_nil, List.nil_append] at hflat
  have hsides' : secs.map (·.side) = [0, 1, 2, 3] := by rw [hsides]; decide
  refine ⟨st, secs, hst, hok, ?_, hsides', ?_, hflat.symm⟩
  · have hl := performCore_events w verbose img srcs st hst
    have hplay : st.l = play { processing := 2, verbose := verbose } (secs.flatMap flatSec) := by
      rw [hl, ← hflat]; rfl
    obtain ⟨o, sd, fa, ba, nl, pr, vb⟩ := secs_step verbose secs { processing := 2, verbose := verbose } rfl rfl rfl rfl
    rw [← hplay] at o sd fa ba nl pr vb
    rw [onDone_step st.l nl, o, pr, vb, sd, fa, ba]
    simp [updateText]
  · intro sec hm
    have hk : sec.side < 4 := by
      have : sec.side ∈ secs.map (·.side) := List.mem_map_of_mem hm
      rw [hsides'] at this
      simp at this; omega
    rw [← hcnt sec.side hk]
    have : storedOn 0 (batchEvents w srcs img) = storedOn 0 (secs.flatMap flatSec) := by rw [← hflat]; rfl
    rw [this, storedOn_sections]
    exact (announcedOn_sections sec.side secs (by rw [hsides']; decide) sec hm rfl).symm

end Moto.Disk
