/-
  `moto_tar --create` for *any* world and *any* source list: never a partial or oversized tape.
-/
import MotoModel.Proofs.TapeLoop
namespace Moto.Tape
open Moto

theorem writeBlock_len (t t' : TapeW) (raw : Bytes) (h : writeBlock t raw = some t') (hp : t.pos ≤ t.buf.length) :
    t'.buf.length = t.buf.length ∧ t'.pos ≤ t'.buf.length := by
  unfold writeBlock at h
  dsimp only at h
  split at h
  · cases h
  · split at h
    · cases h
    · cases h
      dsimp only
      rename_i h1 h2
      have e : (sliceAssign (sliceAssign t.buf t.pos (t.pos + Gen.Tape.writeMarker.length) Gen.Tape.writeMarker)
          (t.pos + Gen.Tape.writeMarker.length) (t.pos + Gen.Tape.writeMarker.length + raw.length) raw).length = t.buf.length := by
        unfold sliceAssign
        simp only [List.length_append, List.length_take, List.length_drop]
        omega
      exact ⟨e, by rw [e]; omega⟩

theorem writeData_len : ∀ (fuel : Nat) (t : TapeW) (l : Listener) (data : Bytes) (t' : TapeW) (l' : Listener),
    writeData fuel t l data = some (t', l') → t.pos ≤ t.buf.length → t'.buf.length = t.buf.length ∧ t'.pos ≤ t'.buf.length := by
  intro fuel
  induction fuel with
  | zero => intro t l data t' l' h hp; simp only [writeData] at h; cases h; exact ⟨rfl, hp⟩
  | succ fuel ih =>
    intro t l data t' l' h hp
    simp only [writeData] at h
    split at h
    · cases h; exact ⟨rfl, hp⟩
    · cases hw : writeBlock t (buildFromData Gen.Tape.typeData (data.take (if data.length < 254 then data.length else 254))) with
      | none => rw [hw] at h; cases h
      | some t1 =>
        rw [hw] at h
        dsimp only at h
        obtain ⟨e1, p1⟩ := writeBlock_len t t1 _ hw hp
        cases hl : onDataBlock l (buildFromData Gen.Tape.typeData (data.take (if data.length < 254 then data.length else 254))) with
        | error e => rw [hl] at h; cases h
        | ok l1 =>
          rw [hl] at h
          dsimp only at h
          obtain ⟨e2, p2⟩ := ih t1 l1 _ t' l' h p1
          exact ⟨e2.trans e1, p2⟩

theorem injectOne_len (w : World) (t : TapeW) (l : Listener) (src : Str) (t' : TapeW) (l' : Listener) (line : Str)
    (h : injectOne w t l src = .ok t' l' line) (hp : t.pos ≤ t.buf.length) : t'.buf.length = t.buf.length ∧ t'.pos ≤ t'.buf.length := by
  unfold injectOne at h
  generalize classify src = cl at h
  obtain ⟨d, path⟩ := cl
  dsimp only at h
  cases h1 : writeBlock t (leaderBlock d) with
  | none => rw [h1] at h; cases h
  | some t1 =>
    rw [h1] at h
    dsimp only at h
    obtain ⟨e1, p1⟩ := writeBlock_len t t1 _ h1 hp
    cases hw : w path with
    | none => rw [hw] at h; cases h
    | some data =>
      rw [hw] at h
      dsimp only at h
      cases h2 : writeData data.length t1 (onBeginFileBlock l d) data with
      | none => rw [h2] at h; cases h
      | some r =>
        obtain ⟨t2, l2⟩ := r
        rw [h2] at h
        dsimp only at h
        obtain ⟨e2, p2⟩ := writeData_len _ _ _ _ _ _ h2 p1
        cases h3 : writeBlock t2 (buildEmpty Gen.Tape.typeEof) with
        | none => rw [h3] at h; cases h
        | some t3 =>
          rw [h3] at h
          dsimp only at h
          obtain ⟨e3, p3⟩ := writeBlock_len t2 t3 _ h3 p2
          cases h4 : onEndBlock l2 with
          | error e => rw [h4] at h; cases h
          | ok r4 =>
            obtain ⟨line4, l3⟩ := r4
            rw [h4] at h
            dsimp only at h
            cases h
            exact ⟨e3.trans (e2.trans e1), p3⟩

/-- whatever the world and the sources: the loop ends either with status 0 and a tape of the length it started
    with, or with another status and no tape -/
theorem injectLoop_any (w : World) (archive : Str) (srcs : List Str) : ∀ (t : TapeW) (l : Listener) (out : List Str), t.pos ≤ t.buf.length →
    ((injectLoop w archive t l out srcs).1 = .ret 0 ∧ ∃ t', (injectLoop w archive t l out srcs).2.2 = some t' ∧ t'.buf.length = t.buf.length)
    ∨ ((injectLoop w archive t l out srcs).1 ≠ .ret 0 ∧ (injectLoop w archive t l out srcs).2.2 = none) := by
  induction srcs with
  | nil => intro t l out _; left; exact ⟨rfl, t, rfl, rfl⟩
  | cons s rest ih =>
    intro t l out hp
    simp only [injectLoop]
    cases refusal archive s with
    | some e => right; exact ⟨by simp, rfl⟩
    | none =>
      dsimp only
      cases hone : injectOne w t l s with
      | overflow => right; exact ⟨by simp, rfl⟩
      | missing => right; exact ⟨by simp, rfl⟩
      | ok t1 l1 line =>
        dsimp only
        obtain ⟨e1, p1⟩ := injectOne_len w t l s t1 l1 line hone hp
        rcases ih t1 l1 (out ++ [line]) p1 with ⟨h1, t', h2, h3⟩ | h
        · left; exact ⟨h1, t', h2, h3.trans e1⟩
        · right; exact h

end Moto.Tape
