/-
  Helper lemmas about the tape writer (`Tape.writeBlock`, the injector loops).
-/
import MotoModel.Model.Tape
import MotoModel.Spec.K7
namespace Moto.Tape
open Moto

theorem sliceAssign_tail {α} (a v : List α) (z : α) (n : Nat) :
    sliceAssign (a ++ List.replicate n z) a.length (a.length + v.length) v
      = a ++ v ++ List.replicate (n - v.length) z := by
  unfold sliceAssign
  have hmax : max a.length (a.length + v.length) = a.length + v.length := by omega
  rw [hmax]
  simp [List.drop_append, List.drop_replicate]

/-- the tape holds `w` followed by blank bytes up to `N`, and the cursor is after `w` -/
structure Written (N : Nat) (t : TapeW) (w : Bytes) : Prop where
  buf : t.buf = w ++ List.replicate (N - w.length) Gen.Tape.blankByte
  pos : t.pos = w.length
  le : w.length ≤ N

theorem written_blank : Written Gen.Tape.tapeSize blank [] := by
  constructor <;> simp [blank]

theorem Written.buf_length {N t w} (h : Written N t w) : t.buf.length = N := by
  rw [h.buf]; simp; have := h.le; omega

/-- `writeBlock` succeeds exactly when marker and block end strictly before the end of the tape -/
theorem writeBlock_some {N t w} (h : Written N t w) (raw : Bytes)
    (hfit : w.length + Gen.Tape.writeMarker.length + raw.length < N) :
    ∃ t', writeBlock t raw = some t' ∧ Written N t' (w ++ Gen.Tape.writeMarker ++ raw) := by
  have hlen := h.buf_length
  unfold writeBlock
  simp only [hlen, h.pos]
  have h1 : ¬ (w.length + Gen.Tape.writeMarker.length ≥ N) := by omega
  have h2 : ¬ (w.length + Gen.Tape.writeMarker.length + raw.length ≥ N) := by omega
  simp only [h1, h2, if_false]
  refine ⟨_, rfl, ?_⟩
  constructor
  · simp only
    rw [h.buf, sliceAssign_tail]
    have e : w.length + Gen.Tape.writeMarker.length = (w ++ Gen.Tape.writeMarker).length := by simp
    rw [e, sliceAssign_tail]
    simp only [List.length_append, List.append_assoc]
    have : N - w.length - Gen.Tape.writeMarker.length - raw.length
        = N - (w.length + (Gen.Tape.writeMarker.length + raw.length)) := by omega
    rw [this]
  · simp [Nat.add_assoc]
  · simp; omega

theorem writeBlock_none {N t w} (h : Written N t w) (raw : Bytes)
    (hfit : ¬ (w.length + Gen.Tape.writeMarker.length + raw.length < N)) :
    writeBlock t raw = none := by
  have hlen := h.buf_length
  unfold writeBlock
  simp only [hlen, h.pos]
  by_cases h1 : w.length + Gen.Tape.writeMarker.length ≥ N
  · simp [h1]
  · have h2 : w.length + Gen.Tape.writeMarker.length + raw.length ≥ N := by omega
    simp [h1, h2]

/-- writing a list of raw blocks one after the other -/
def writeAll : TapeW → List Bytes → Option TapeW
  | t, [] => some t
  | t, b :: bs => match writeBlock t b with
    | none => none
    | some t' => writeAll t' bs

/-- bytes taken on the tape by a list of raw blocks -/
def totalLen (bs : List Bytes) : Nat := (bs.map (fun b => Gen.Tape.writeMarker.length + b.length)).sum

def laidOut (bs : List Bytes) : Bytes := bs.flatMap (fun b => Gen.Tape.writeMarker ++ b)

theorem totalLen_cons (b : Bytes) (bs : List Bytes) :
    totalLen (b :: bs) = Gen.Tape.writeMarker.length + b.length + totalLen bs := rfl

theorem laidOut_length (bs : List Bytes) : (laidOut bs).length = totalLen bs := by
  induction bs with
  | nil => rfl
  | cons b bs ih =>
    rw [totalLen_cons, ← ih]; simp [laidOut]; omega

theorem writeAll_some {N} (bs : List Bytes) : ∀ {t w}, Written N t w → w.length + totalLen bs < N →
    ∃ t', writeAll t bs = some t' ∧ Written N t' (w ++ laidOut bs) := by
  induction bs with
  | nil => intro t w h _; exact ⟨t, rfl, by simpa [laidOut] using h⟩
  | cons b bs ih =>
    intro t w h hfit
    rw [totalLen_cons] at hfit
    obtain ⟨t1, e1, h1⟩ := writeBlock_some h b (by omega)
    obtain ⟨t2, e2, h2⟩ := ih h1 (by simp only [List.length_append]; omega)
    refine ⟨t2, by simp [writeAll, e1, e2], ?_⟩
    simpa [laidOut, List.append_assoc] using h2

theorem writeAll_none {N} (bs : List Bytes) : ∀ {t w}, Written N t w → bs ≠ [] → ¬ (w.length + totalLen bs < N) →
    writeAll t bs = none := by
  induction bs with
  | nil => intro t w _ hne; exact absurd rfl hne
  | cons b bs ih =>
    intro t w h _ hfit
    rw [totalLen_cons] at hfit
    by_cases hb : w.length + Gen.Tape.writeMarker.length + b.length < N
    · obtain ⟨t1, e1, h1⟩ := writeBlock_some h b hb
      have hbs : bs ≠ [] := by
        intro he; subst he; simp [totalLen] at hfit; omega
      have := ih h1 hbs (by simp only [List.length_append]; omega)
      simp [writeAll, e1, this]
    · simp [writeAll, writeBlock_none h b hb]

end Moto.Tape
