/-
  The injector loops of the model, reduced to "write this list of raw blocks".
-/
import MotoModel.Proofs.TapeWrite
namespace Moto.Tape
open Moto

/-- data blocks written for one content (same fuel discipline as `writeData`) -/
def dataBlocks : Nat → Bytes → List Bytes
  | 0, _ => []
  | fuel + 1, data =>
    if data.isEmpty then [] else
    let n := if data.length < 254 then data.length else 254
    buildFromData Gen.Tape.typeData (data.take n) :: dataBlocks fuel (data.drop n)

theorem body_build (ty : Nat) (c : Bytes) : body (buildFromData ty c) = c := by
  simp [body, buildFromData]

/-- facts linking the listener before and after the data loop -/
structure DataStep (l l' : Listener) (blocks : List Bytes) : Prop where
  started : l'.started = true
  verbose : l'.verbose = l.verbose
  current : l'.current = l.current
  firstBlock : l'.firstBlock = l.firstBlock
  blockCount : l'.blockCount = l.blockCount + blocks.length
  blockIndex : l'.blockIndex = l.blockIndex + blocks.length
  fileSize : l'.fileSize = l.fileSize + (blocks.map (fun b => (body b).length)).sum

theorem writeData_writeAll (fuel : Nat) : ∀ (t : TapeW) (l : Listener) (data : Bytes), l.started = true →
    match writeData fuel t l data with
    | none => writeAll t (dataBlocks fuel data) = none
    | some (t', l') => writeAll t (dataBlocks fuel data) = some t' ∧ DataStep l l' (dataBlocks fuel data) := by
  induction fuel with
  | zero => intro t l data hs; simp [writeData, dataBlocks, writeAll]; exact ⟨hs, rfl, rfl, rfl, rfl, rfl, rfl⟩
  | succ fuel ih =>
    intro t l data hs
    by_cases he : data.isEmpty
    · simp [writeData, dataBlocks, he, writeAll]; exact ⟨hs, rfl, rfl, rfl, rfl, rfl, rfl⟩
    · simp only [writeData, dataBlocks, he, Bool.false_eq_true, if_false]
      generalize hn : (if data.length < 254 then data.length else 254) = n
      cases hw : writeBlock t (buildFromData Gen.Tape.typeData (data.take n)) with
      | none => simp [writeAll, hw]
      | some t1 =>
        have hod : onDataBlock l (buildFromData Gen.Tape.typeData (data.take n))
            = .ok { l with blockIndex := l.blockIndex + 1, blockCount := l.blockCount + 1,
                           fileSize := l.fileSize + (body (buildFromData Gen.Tape.typeData (data.take n))).length } := by
          simp [onDataBlock, hs]
        simp only [writeAll, hw]
        rw [hod]
        dsimp only
        have := ih t1 { l with blockIndex := l.blockIndex + 1, blockCount := l.blockCount + 1,
                               fileSize := l.fileSize + (body (buildFromData Gen.Tape.typeData (data.take n))).length }
                   (data.drop n) hs
        revert this
        cases writeData fuel t1 _ (data.drop n) with
        | none => intro h; exact h
        | some r =>
          obtain ⟨t', l'⟩ := r
          intro ⟨h1, h2⟩
          refine ⟨h1, ?_⟩
          constructor
          · exact h2.started
          · exact h2.verbose
          · exact h2.current
          · exact h2.firstBlock
          · rw [h2.blockCount]; simp; omega
          · rw [h2.blockIndex]; simp; omega
          · rw [h2.fileSize]; simp; omega

theorem dataBlocks_eq_chunks (fuel : Nat) : ∀ data : Bytes,
    dataBlocks fuel data = (Spec.K7.chunksFuel 253 fuel data).map (buildFromData Gen.Tape.typeData) := by
  induction fuel with
  | zero => intro data; rfl
  | succ fuel ih =>
    intro data
    by_cases he : data.isEmpty
    · simp [dataBlocks, Spec.K7.chunksFuel, he]
    · simp only [dataBlocks, Spec.K7.chunksFuel, he, Bool.false_eq_true, if_false, List.map_cons]
      by_cases hl : data.length < 254
      · have h1 : data.take data.length = data.take (253 + 1) := by
          rw [List.take_of_length_le (Nat.le_refl _), List.take_of_length_le (by omega)]
        have h2 : data.drop data.length = data.drop (253 + 1) := by
          rw [List.drop_of_length_le (Nat.le_refl _), List.drop_of_length_le (by omega)]
        simp only [hl, if_true, h1, h2, ih]
      · simp only [hl, if_false, ih]

theorem chunksFuel_flatten (n fuel : Nat) : ∀ l : Bytes, l.length ≤ fuel →
    (Spec.K7.chunksFuel n fuel l).flatten = l := by
  induction fuel with
  | zero => intro l h; have : l = [] := List.eq_nil_of_length_eq_zero (by omega); simp [Spec.K7.chunksFuel, this]
  | succ fuel ih =>
    intro l h
    by_cases he : l.isEmpty
    · have : l = [] := by simpa using he
      simp [Spec.K7.chunksFuel, this]
    · have hpos : 0 < l.length := by
        cases l with
        | nil => simp at he
        | cons a as => simp
      simp only [Spec.K7.chunksFuel, he, Bool.false_eq_true, if_false, List.flatten_cons]
      rw [ih (l.drop (n + 1)) (by simp; omega)]
      exact List.take_append_drop _ _

theorem chunksFuel_bounds (n fuel : Nat) : ∀ l : Bytes, ∀ c ∈ Spec.K7.chunksFuel n fuel l, 1 ≤ c.length ∧ c.length ≤ n + 1 := by
  induction fuel with
  | zero => intro l c hc; simp [Spec.K7.chunksFuel] at hc
  | succ fuel ih =>
    intro l c hc
    by_cases he : l.isEmpty
    · simp [Spec.K7.chunksFuel, he] at hc
    · have hpos : 0 < l.length := by
        cases l with
        | nil => simp at he
        | cons a as => simp
      simp only [Spec.K7.chunksFuel, he, Bool.false_eq_true, if_false, List.mem_cons] at hc
      rcases hc with h | h
      · subst h; simp; omega
      · exact ih _ c h

/-- sum of the payload sizes of the data blocks = size of the content -/
theorem dataBlocks_body_sum (data : Bytes) :
    ((dataBlocks data.length data).map (fun b => (body b).length)).sum = data.length := by
  rw [dataBlocks_eq_chunks]
  simp only [List.map_map]
  have : ((fun b => (body b).length) ∘ buildFromData Gen.Tape.typeData) = List.length := by
    funext c; simp [body_build]
  rw [this]
  have h := chunksFuel_flatten 253 data.length data (Nat.le_refl _)
  have := congrArg List.length h
  rw [List.length_flatten] at this
  exact this

/-- the raw blocks of one readable source: leader, data blocks, end block -/
def fileRaw (d : Desc) (data : Bytes) : List Bytes :=
  leaderBlock d :: (dataBlocks data.length data ++ [buildEmpty Gen.Tape.typeEof])

/-- listener right before the end-of-file line of a file whose leader is block `first` -/
def lineOf (verbose : Bool) (d : Desc) (first size count : Nat) : Str :=
  endLine { verbose := verbose, firstBlock := first, fileSize := size, blockCount := count } d

theorem endLine_congr (l : Listener) (d : Desc) :
    endLine l d = lineOf l.verbose d l.firstBlock l.fileSize l.blockCount := by
  simp [endLine, lineOf]

theorem writeAll_append (a b : List Bytes) (t : TapeW) :
    writeAll t (a ++ b) = (writeAll t a).bind (fun t' => writeAll t' b) := by
  induction a generalizing t with
  | nil => simp [writeAll]
  | cons x xs ih =>
    simp only [List.cons_append, writeAll]
    cases writeBlock t x with
    | none => simp
    | some t' => simp [ih]

/-- one source: the injector writes exactly `fileRaw`, or reports an overflow when they do not fit -/
theorem injectOne_spec (w : World) (t : TapeW) (l : Listener) (src : Str) (data : Bytes)
    (hr : w (classify src).2 = some data) :
    match writeAll t (fileRaw (classify src).1 data) with
    | none => injectOne w t l src = .overflow
    | some t' => ∃ l', injectOne w t l src = .ok t' l'
        (lineOf l.verbose (classify src).1 (l.blockIndex + 1) data.length (dataBlocks data.length data).length)
        ∧ l'.verbose = l.verbose
        ∧ l'.blockIndex = l.blockIndex + (fileRaw (classify src).1 data).length := by
  unfold injectOne fileRaw
  generalize classify src = cl at hr ⊢
  obtain ⟨d, path⟩ := cl
  simp only at hr ⊢
  simp only [writeAll]
  cases h1 : writeBlock t (leaderBlock d) with
  | none => simp
  | some t1 =>
    simp only [hr]
    have hd := writeData_writeAll data.length t1 (onBeginFileBlock l d) data rfl
    rw [writeAll_append]
    revert hd
    cases writeData data.length t1 (onBeginFileBlock l d) data with
    | none => intro hd; simp [hd]
    | some r =>
      obtain ⟨t2, l2⟩ := r
      intro ⟨hd1, hd2⟩
      simp only [hd1, Option.bind_some, writeAll]
      cases h3 : writeBlock t2 (buildEmpty Gen.Tape.typeEof) with
      | none => simp
      | some t3 =>
        have hcur : l2.current = some d := by rw [hd2.current]; rfl
        simp only [onEndBlock, hcur]
        refine ⟨{ l2 with blockIndex := l2.blockIndex + 1, current := none }, ?_, ?_, ?_⟩
        · congr 1
          rw [endLine_congr]
          simp only [hd2.verbose, hd2.firstBlock, hd2.fileSize, hd2.blockCount, onBeginFileBlock,
            dataBlocks_body_sum, Nat.zero_add]
        · simp [hd2.verbose, onBeginFileBlock]
        · simp [hd2.blockIndex, onBeginFileBlock]; omega

end Moto.Tape
