/-
  `writeSectors`: which flat sectors the data copy of `writeFile` touches, and with what.
-/
import MotoModel.Proofs.DiskFill
namespace Moto.Disk
open Moto

/-- flat index of the `j`-th data sector of a file stored on `blocks` -/
def flatOf (blocks : List Nat) (j : Nat) : Nat := 8 * blocks.getD (j / 8) 0 + j % 8

theorem flatOf_idx (blocks : List Nat) (j : Nat) :
    idx (blockTrack (blocks.getD (j / 8) 0)) (blockFirstSector (blocks.getD (j / 8) 0) + j % 8) = flatOf blocks j :=
  block_sectors_flat _ _ (Nat.mod_lt _ (by omega))

theorem getD_inj_of_nodup (l : List Nat) (h : l.Nodup) (i j : Nat) (hi : i < l.length) (hj : j < l.length)
    (he : l.getD i 0 = l.getD j 0) : i = j := (List.getD_inj hi hj h).mp he

/-- distinct data sectors of a file live at distinct places of the side -/
theorem flatOf_inj (blocks : List Nat) (h : blocks.Nodup) (i j : Nat) (hi : i / 8 < blocks.length) (hj : j / 8 < blocks.length)
    (he : flatOf blocks i = flatOf blocks j) : i = j := by
  unfold flatOf at he
  have hmi := Nat.mod_lt i (show 0 < 8 by omega)
  have hmj := Nat.mod_lt j (show 0 < 8 by omega)
  have hb : blocks.getD (i / 8) 0 = blocks.getD (j / 8) 0 := by omega
  have hd := getD_inj_of_nodup blocks h _ _ hi hj hb
  have hm : i % 8 = j % 8 := by omega
  have := Nat.div_add_mod i 8
  have := Nat.div_add_mod j 8
  omega

theorem writeSectors_length (blocks : List Nat) (content : Bytes) (k : Nat) : ∀ (i : Nat) (sd : Side),
    (writeSectors blocks content k i sd).length = sd.length := by
  induction k with
  | zero => intro i sd; rfl
  | succ k ih => intro i sd; simp only [writeSectors]; rw [ih, putSector_length]

theorem writeSectors_wf (blocks : List Nat) (content : Bytes) (k : Nat) : ∀ (i : Nat) (sd : Side), C11.WFSide sd →
    C11.WFSide (writeSectors blocks content k i sd) := by
  induction k with
  | zero => intro i sd h; exact h
  | succ k ih => intro i sd h; simp only [writeSectors]; exact ih _ _ (putSector_wf _ _ _ _ h)

/-- sectors outside the written range keep their bytes; sector `j` of the range receives slice `j` -/
theorem writeSectors_spec (blocks : List Nat) (hnd : blocks.Nodup) (content : Bytes) (k : Nat) :
    ∀ (i : Nat) (sd : Side), (i + k + 7) / 8 ≤ blocks.length → (∀ j, i ≤ j → j < i + k → flatOf blocks j < sd.length) →
      (∀ f, (∀ j, i ≤ j → j < i + k → flatOf blocks j ≠ f) → (writeSectors blocks content k i sd).getD f [] = sd.getD f [])
      ∧ (∀ j, i ≤ j → j < i + k →
          (writeSectors blocks content k i sd).getD (flatOf blocks j) []
            = setPayload (sd.getD (flatOf blocks j) []) (slice content (j * 255) (j * 255 + 255))) := by
  induction k with
  | zero =>
    intro i sd _ _
    exact ⟨fun f _ => rfl, fun j h1 h2 => by omega⟩
  | succ k ih =>
    intro i sd hlen hlt
    simp only [writeSectors]
    have hput : ∀ f, flatOf blocks i ≠ f →
        (putSector sd (blockTrack (blocks.getD (i / 8) 0)) (blockFirstSector (blocks.getD (i / 8) 0) + i % 8)
          (slice content (i * 255) (i * 255 + 255))).getD f [] = sd.getD f [] := by
      intro f hf
      exact putSector_flat_other _ _ _ _ _ (by rw [flatOf_idx]; exact hf)
    obtain ⟨ih1, ih2⟩ := ih (i + 1) (putSector sd _ _ (slice content (i * 255) (i * 255 + 255)))
      (by omega) (by intro j h1 h2; rw [putSector_length]; exact hlt j (by omega) (by omega))
    constructor
    · intro f hf
      rw [ih1 f (fun j h1 h2 => hf j (by omega) (by omega))]
      exact hput f (hf i (Nat.le_refl _) (by omega))
    · intro j h1 h2
      by_cases hji : j = i
      · subst hji
        rw [ih1 (flatOf blocks j) (fun j' h1' h2' => by
          intro he
          have := flatOf_inj blocks hnd j' j (by omega) (by omega) he
          omega)]
        have hi := hlt j (Nat.le_refl _) (by omega)
        unfold putSector getSector
        rw [flatOf_idx]
        exact getD_set_eq _ _ _ _ hi
      · rw [ih2 j (by omega) (by omega)]
        congr 1
        exact hput _ (by
          intro he
          have := flatOf_inj blocks hnd i j (by omega) (by omega) he
          omega)

end Moto.Disk
