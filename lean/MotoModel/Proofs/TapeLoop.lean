/-
  `injectLoop` / `inject` of the model as "lay out these raw blocks, or fail without effect".
-/
import MotoModel.Proofs.TapeInject
namespace Moto.Tape
open Moto

/-- every source is accepted (it is not the archive, its name is ascii) and designates a readable file -/
def AllReadable (w : World) (archive : Str) (srcs : List Str) : Prop := ∀ s ∈ srcs, refusal archive s = none ∧ ∃ data, w (classify s).2 = some data

def contentOf (w : World) (s : Str) : Bytes := (w (classify s).2).getD []

/-- raw blocks of one source -/
def rawOf (w : World) (s : Str) : List Bytes := fileRaw (classify s).1 (contentOf w s)

def allRaw (w : World) (srcs : List Str) : List Bytes := srcs.flatMap (rawOf w)

/-- the report of a successful creation; `bi` = blocks written before -/
def reportLines (w : World) (verbose : Bool) : Nat → List Str → List Str
  | _, [] => []
  | bi, s :: rest =>
    lineOf verbose (classify s).1 (bi + 1) (contentOf w s).length (dataBlocks (contentOf w s).length (contentOf w s)).length
      :: reportLines w verbose (bi + (rawOf w s).length) rest

def tooMuch : Str := str "Too much data, abort creation."

theorem totalLen_append (a b : List Bytes) : totalLen (a ++ b) = totalLen a + totalLen b := by
  simp [totalLen]

theorem laidOut_append (a b : List Bytes) : laidOut (a ++ b) = laidOut a ++ laidOut b := by
  simp [laidOut]

theorem fileRaw_ne_nil (d : Desc) (data : Bytes) : fileRaw d data ≠ [] := by simp [fileRaw]

theorem injectLoop_ok {N : Nat} (w : World) (archive : Str) (srcs : List Str) : ∀ (t : TapeW) (l : Listener) (out : List Str) (w0 : Bytes),
    AllReadable w archive srcs → Written N t w0 → w0.length + totalLen (allRaw w srcs) < N →
    ∃ t', injectLoop w archive t l out srcs = (.ret 0, out ++ reportLines w l.verbose l.blockIndex srcs, some t')
      ∧ Written N t' (w0 ++ laidOut (allRaw w srcs)) := by
  induction srcs with
  | nil => intro t l out w0 _ hw _; exact ⟨t, by simp [injectLoop, reportLines], by simpa [allRaw, laidOut] using hw⟩
  | cons s rest ih =>
    intro t l out w0 hr hw hfit
    obtain ⟨hacc, data, hdata⟩ := hr s (by simp)
    have hc : contentOf w s = data := by simp [contentOf, hdata]
    have hraw : rawOf w s = fileRaw (classify s).1 data := by simp [rawOf, hc]
    simp only [allRaw, List.flatMap_cons] at hfit ⊢
    rw [totalLen_append] at hfit
    obtain ⟨t1, e1, hw1⟩ := writeAll_some (rawOf w s) hw (by omega)
    have hspec := injectOne_spec w t l s data hdata
    rw [← hraw, e1] at hspec
    obtain ⟨l1, hone, hv, hbi⟩ := hspec
    obtain ⟨t2, e2, hw2⟩ := ih t1 l1 (out ++ [lineOf l.verbose (classify s).1 (l.blockIndex + 1) data.length (dataBlocks data.length data).length])
      (w0 ++ laidOut (rawOf w s)) (fun s' hs' => hr s' (by simp [hs'])) hw1
      (by rw [List.length_append, laidOut_length]; simp only [allRaw]; omega)
    refine ⟨t2, ?_, ?_⟩
    · simp only [injectLoop, hacc, hone, e2, reportLines, hc, hv, hbi, hraw, List.append_assoc, List.cons_append, List.nil_append]
    · rw [laidOut_append, ← List.append_assoc]; exact hw2

theorem injectLoop_overflow {N : Nat} (w : World) (archive : Str) (srcs : List Str) : ∀ (t : TapeW) (l : Listener) (out : List Str) (w0 : Bytes),
    AllReadable w archive srcs → Written N t w0 → srcs ≠ [] → ¬ (w0.length + totalLen (allRaw w srcs) < N) →
    ∃ out', injectLoop w archive t l out srcs = (.ret 1, out' ++ [tooMuch], none) := by
  induction srcs with
  | nil => intro _ _ _ _ _ _ h; exact absurd rfl h
  | cons s rest ih =>
    intro t l out w0 hr hw _ hfit
    obtain ⟨hacc, data, hdata⟩ := hr s (by simp)
    have hc : contentOf w s = data := by simp [contentOf, hdata]
    have hraw : rawOf w s = fileRaw (classify s).1 data := by simp [rawOf, hc]
    simp only [allRaw, List.flatMap_cons] at hfit
    rw [totalLen_append] at hfit
    have hspec := injectOne_spec w t l s data hdata
    by_cases hfile : w0.length + totalLen (rawOf w s) < N
    · obtain ⟨t1, e1, hw1⟩ := writeAll_some (rawOf w s) hw hfile
      rw [← hraw, e1] at hspec
      obtain ⟨l1, hone, _, _⟩ := hspec
      have hrest : rest ≠ [] := by
        intro h; subst h
        have : totalLen (List.flatMap (rawOf w) []) = 0 := rfl
        omega
      obtain ⟨out', e⟩ := ih t1 l1 (out ++ [lineOf l.verbose (classify s).1 (l.blockIndex + 1) data.length (dataBlocks data.length data).length])
        (w0 ++ laidOut (rawOf w s)) (fun s' hs' => hr s' (by simp [hs'])) hw1 hrest
        (by rw [List.length_append, laidOut_length]; simp only [allRaw]; omega)
      exact ⟨out', by simp only [injectLoop, hacc, hone, e]⟩
    · have := writeAll_none (rawOf w s) hw (by rw [hraw]; exact fileRaw_ne_nil _ _) hfile
      rw [← hraw, this] at hspec
      exact ⟨out, by simp only [injectLoop, hacc, hspec, tooMuch]⟩

theorem injectOne_ok_readable (w : World) (t : TapeW) (l : Listener) (s : Str) {t' l' line}
    (h : injectOne w t l s = .ok t' l' line) : ∃ data, w (classify s).2 = some data := by
  unfold injectOne at h
  generalize classify s = cl at h ⊢
  obtain ⟨d, path⟩ := cl
  simp only at h ⊢
  cases h1 : writeBlock t (leaderBlock d) with
  | none => simp [h1] at h
  | some t1 =>
    cases hw : w path with
    | none => simp [h1, hw] at h
    | some data => exact ⟨data, rfl⟩

/-- an unreadable source anywhere in the list: no archive, and never status 0 -/
theorem injectLoop_missing (w : World) (archive : Str) (srcs : List Str) : ∀ (t : TapeW) (l : Listener) (out : List Str),
    (∃ s ∈ srcs, w (classify s).2 = none) →
    (injectLoop w archive t l out srcs).2.2 = none ∧ (injectLoop w archive t l out srcs).1 ≠ .ret 0 := by
  induction srcs with
  | nil => intro _ _ _ ⟨s, hs, _⟩; simp at hs
  | cons s rest ih =>
    intro t l out ⟨s', hs', hm⟩
    simp only [injectLoop]
    cases refusal archive s with
    | some e => simp
    | none =>
    dsimp only
    cases hone : injectOne w t l s with
    | overflow => simp
    | missing => simp
    | ok t1 l1 line =>
      obtain ⟨data, hd⟩ := injectOne_ok_readable w t l s hone
      have : s' ∈ rest := by
        simp only [List.mem_cons] at hs'
        rcases hs' with h | h
        · subst h; rw [hd] at hm; cases hm
        · exact h
      exact ih t1 l1 (out ++ [line]) ⟨s', this, hm⟩

/-- a refused source anywhere in the list (it is the archive itself, or its name is not ascii): no archive,
    and never status 0 -/
theorem injectLoop_refused (w : World) (archive : Str) (srcs : List Str) : ∀ (t : TapeW) (l : Listener) (out : List Str),
    (∃ s ∈ srcs, refusal archive s ≠ none) →
    (injectLoop w archive t l out srcs).2.2 = none ∧ (injectLoop w archive t l out srcs).1 ≠ .ret 0 := by
  induction srcs with
  | nil => intro _ _ _ ⟨s, hs, _⟩; simp at hs
  | cons s rest ih =>
    intro t l out ⟨s', hs', hm⟩
    simp only [injectLoop]
    cases hr : refusal archive s with
    | some e => simp
    | none =>
      dsimp only
      have : s' ∈ rest := by
        simp only [List.mem_cons] at hs'
        rcases hs' with h | h
        · subst h; exact absurd hr hm
        · exact h
      cases hone : injectOne w t l s with
      | overflow => simp
      | missing => simp
      | ok t1 l1 line => exact ih t1 l1 (out ++ [line]) ⟨s', this, hm⟩

end Moto.Tape
