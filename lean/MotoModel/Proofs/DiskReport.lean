/-
  The report of the disk archivers as a stateless text: what the stateful listener prints for a
  file, for a side, for a whole listing / extraction.
-/
import MotoModel.Proofs.DiskByte0
namespace Moto.Disk
open Moto Moto.Tape

/-- the line printed for one file (listing: name only / name, kind, size, blocks;
    extracting or updating: with the progress dots and "ok") -/
def fileText (p : Nat) (v : Bool) (ev : FileEv) : Str :=
  if !v then
    str "  " ++ rstripBy isSpace ev.name ++ [46] ++ rstripBy isSpace ev.ext ++ (if p != 0 then str "..." ++ str "ok" else []) ++ [10]
  else
    str "  " ++ ev.name ++ [46] ++ ev.ext ++ str "  " ++ padRight ev.tof 8 ++ padRight ev.tod 8
      ++ (if p != 0 then str "......" else [])
      ++ (str "  " ++ padLeft (digits ev.bytes) 6 ++ str " Byte" ++ pluralOrSpace ev.bytes ++ str "    "
          ++ padLeft (digits ev.blocks) 3 ++ str " block" ++ pluralOrSpace ev.blocks) ++ [10]

/-- one file through the listener, from the start of a line: its line is appended, it counts once
    with its blocks, and the listener is at the start of a line again -/
theorem file_step (l : DL) (hnl : l.needNL = false) (ev : FileEv) :
    onEndOfFile (onBeginOfFile l ev) ev =
      { l with filesOne := l.filesOne + 1, filesAll := l.filesAll + 1, blocksOne := l.blocksOne + ev.blocks,
               blocksAll := l.blocksAll + ev.blocks, out := l.out ++ fileText l.processing l.verbose ev } := by
  obtain ⟨p, v, nl, sides, f1, fa, b1, ba, rn, out⟩ := l
  simp only at hnl
  subst hnl
  unfold onEndOfFile onBeginOfFile fileText DL.retLine DL.put DL.print
  cases v <;> by_cases hp : p = 0 <;> simp [hp, List.append_assoc]

/-- the listener after a run of files, from the start of a line -/
def afterFiles (l : DL) (evs : List FileEv) : DL :=
  { l with filesOne := l.filesOne + evs.length, filesAll := l.filesAll + evs.length,
           blocksOne := l.blocksOne + (evs.map (·.blocks)).sum, blocksAll := l.blocksAll + (evs.map (·.blocks)).sum,
           out := l.out ++ evs.flatMap (fileText l.processing l.verbose) }

theorem afterFiles_nil (l : DL) : afterFiles l [] = l := by
  obtain ⟨p, v, nl, sides, f1, fa, b1, ba, rn, out⟩ := l
  simp [afterFiles]

theorem afterFiles_cons (l : DL) (hnl : l.needNL = false) (ev : FileEv) (evs : List FileEv) :
    afterFiles (onEndOfFile (onBeginOfFile l ev) ev) evs = afterFiles l (ev :: evs) := by
  rw [file_step l hnl ev]
  obtain ⟨p, v, nl, sides, f1, fa, b1, ba, rn, out⟩ := l
  simp only [afterFiles, List.length_cons, List.map_cons, List.sum_cons, List.flatMap_cons, List.append_assoc]
  congr 1 <;> omega

theorem file_step_needNL (l : DL) (hnl : l.needNL = false) (ev : FileEv) : (onEndOfFile (onBeginOfFile l ev) ev).needNL = false := by
  rw [file_step l hnl ev]; exact hnl

/-- **the files of one side through the listener** (listing: `sidePath = none`; extraction: the
    directory of the side): each entry prints its line once, in catalog order, counts once with its
    blocks; extraction writes each file under the side's directory -/
theorem readEntries_report (sd : Side) (bat : List Nat) (sidePath : Option Str) : ∀ (entries : List Entry) (st : RdState),
    st.l.needNL = false → (∀ e ∈ entries, NiceRec e.rec16) →
    (∀ dir, sidePath = some dir → ∀ e ∈ entries, Tape.collides st.keep (pathJoin dir (fileNameOf e)) = false) →
    ∃ st', readEntries sd bat sidePath entries st = (st', none) ∧ st'.mkdirs = st.mkdirs ∧ st'.keep = st.keep
      ∧ st'.l = afterFiles st.l (entries.map (evOfEntry bat))
      ∧ st'.writes = st.writes ++ (match sidePath with
          | none => []
          | some dir => entries.map (fun e => (pathJoin dir (fileNameOf e), readFile sd bat e))) := by
  intro entries
  induction entries with
  | nil =>
    intro st _ _ _
    refine ⟨st, rfl, rfl, rfl, by rw [List.map_nil, afterFiles_nil], ?_⟩
    cases sidePath <;> simp
  | cons e rest ih =>
    intro st hnl hn hsafe
    obtain ⟨h128, h47, h0, hdot, hdd⟩ := hn e (by simp)
    have hrest : ∀ e' ∈ rest, NiceRec e'.rec16 := fun e' he' => hn e' (by simp [he'])
    simp only [readEntries]
    rw [if_neg (by rw [h128]; decide)]
    cases sidePath with
    | none =>
      dsimp only
      have hmono : ∀ S : RdState, S.mkdirs = st.mkdirs → S.keep = st.keep → S.writes = st.writes → S.l = onEndOfFile (onBeginOfFile st.l (evOfEntry bat e)) (evOfEntry bat e) →
          (∃ st', readEntries sd bat none rest S = (st', none) ∧ st'.mkdirs = S.mkdirs ∧ st'.keep = S.keep ∧ st'.l = afterFiles S.l (rest.map (evOfEntry bat))
            ∧ st'.writes = S.writes ++ []) →
          ∃ st', readEntries sd bat none rest S = (st', none) ∧ st'.mkdirs = st.mkdirs ∧ st'.keep = st.keep
            ∧ st'.l = afterFiles st.l ((e :: rest).map (evOfEntry bat)) ∧ st'.writes = st.writes ++ [] := by
        intro S hm hk hw hl ⟨st', h1, h2, h2', h3, h4⟩
        refine ⟨st', h1, by rw [h2, hm], by rw [h2', hk], ?_, by rw [h4, hw]⟩
        rw [h3, hl, List.map_cons, afterFiles_cons st.l hnl]
      exact hmono _ rfl rfl rfl rfl (ih _ (file_step_needNL st.l hnl _) hrest (fun d hd => by cases hd))
    | some dir =>
      dsimp only
      have hs0 := hsafe dir rfl e (by simp)
      rw [fileNameOf_rec e] at hs0 ⊢
      rw [if_neg (by rw [h47, h0]; decide), if_neg (by rw [hs0]; decide), if_neg (by simp [hdot, hdd])]
      have hmono : ∀ S : RdState, S.mkdirs = st.mkdirs → S.keep = st.keep →
          S.writes = st.writes ++ [(pathJoin dir (fileNameOf e), readFile sd bat e)] →
          S.l = onEndOfFile (onBeginOfFile st.l (evOfEntry bat e)) (evOfEntry bat e) →
          (∃ st', readEntries sd bat (some dir) rest S = (st', none) ∧ st'.mkdirs = S.mkdirs ∧ st'.keep = S.keep ∧ st'.l = afterFiles S.l (rest.map (evOfEntry bat))
            ∧ st'.writes = S.writes ++ rest.map (fun e => (pathJoin dir (fileNameOf e), readFile sd bat e))) →
          ∃ st', readEntries sd bat (some dir) rest S = (st', none) ∧ st'.mkdirs = st.mkdirs ∧ st'.keep = st.keep
            ∧ st'.l = afterFiles st.l ((e :: rest).map (evOfEntry bat))
            ∧ st'.writes = st.writes ++ (e :: rest).map (fun e => (pathJoin dir (fileNameOf e), readFile sd bat e)) := by
        intro S hm hk hw hl ⟨st', h1, h2, h2', h3, h4⟩
        refine ⟨st', h1, by rw [h2, hm], by rw [h2', hk], ?_, ?_⟩
        · rw [h3, hl, List.map_cons, afterFiles_cons st.l hnl]
        · rw [h4, hw]; simp
      exact hmono _ rfl rfl (by rw [readFileImpl_eq]; rfl) rfl
        (ih _ (file_step_needNL st.l hnl _) hrest (fun d hd e' he' => hsafe d hd e' (by simp [he'])))

/-! ### one side -/

/-- what is printed when a side begins: a separator after the first side (except in a quiet
    listing), then the side number -/
def beginText (p : Nat) (v : Bool) (sidesBefore i : Nat) : Str :=
  (if (v || p != 0) && decide (sidesBefore + 1 > 1) then str "---" ++ [10] else []) ++ (str "Side " ++ digits i ++ [10])

/-- what is printed when a side ends: nothing in a quiet listing; the file count when extracting
    or updating quietly; the count (or "empty") and the block usage in verbose mode -/
def endText (p : Nat) (v : Bool) (files blocks : Nat) (u : Usage) : Str :=
  if !v then
    if p != 0 then filesText files ++ [10] else []
  else
    (if files = 0 then str "empty" else filesText files)
      ++ (if p = 0 then
            str ", (" ++ digits u.reserved ++ str " + " ++ digits u.used ++ str ") block" ++ plural (u.reserved + u.used + u.free) ++ str " used ("
              ++ (if u.reserved + u.used + u.free = 160 then percent (u.reserved + u.used) else [0]) ++ str ")"
          else
            str ", " ++ digits blocks ++ str " block" ++ plural blocks ++ (if p = 1 then str " read (" else str " written (")
              ++ (if u.reserved + u.used + u.free = 160 then percent blocks else [0]) ++ str ")")
      ++ [10]

theorem beginOfSide_step (l : DL) (hnl : l.needNL = false) (hr : l.resetNext = false) (i : Nat) :
    onBeginOfSide l i = { l with sides := l.sides + 1, filesOne := 0, blocksOne := 0, out := l.out ++ beginText l.processing l.verbose l.sides i } := by
  obtain ⟨p, v, nl, sides, f1, fa, b1, ba, rn, out⟩ := l
  simp only at hnl hr
  subst hnl hr
  unfold onBeginOfSide beginText DL.retLine DL.print
  dsimp only
  by_cases hc : ((v || p != 0) && decide (sides + 1 > 1)) = true
  · simp only [Bool.false_eq_true, if_false, if_pos hc, List.append_assoc, List.nil_append]
  · simp only [Bool.false_eq_true, if_false, if_neg hc, List.append_assoc, List.nil_append]

theorem endOfSide_step (l : DL) (hnl : l.needNL = false) (u : Usage) :
    onEndOfSide l u = { l with out := l.out ++ endText l.processing l.verbose l.filesOne l.blocksOne u } := by
  obtain ⟨p, v, nl, sides, f1, fa, b1, ba, rn, out⟩ := l
  simp only at hnl
  subst hnl
  unfold onEndOfSide endText DL.retLine DL.print
  cases v
  · by_cases hp : p = 0 <;> simp [hp, List.append_assoc]
  · by_cases hp : p = 0
    · by_cases hf : f1 = 0 <;> simp [hp, hf, List.append_assoc]
    · by_cases hf : f1 = 0 <;> by_cases hp1 : p = 1 <;> simp [hp, hp1, hf, List.append_assoc]

/-- the events of one side: the live entries in catalog order, as the listener receives them -/
def sideEvents (bat : List Nat) (entries : List Entry) : List FileEv := entries.map (evOfEntry bat)

/-- the whole text of one side -/
def sideText (p : Nat) (v : Bool) (sidesBefore i : Nat) (evs : List FileEv) (u : Usage) : Str :=
  beginText p v sidesBefore i ++ evs.flatMap (fileText p v) ++ endText p v evs.length (evs.map (·.blocks)).sum u

/-- the listener after one whole side -/
def afterSide (l : DL) (i : Nat) (evs : List FileEv) (u : Usage) : DL :=
  { l with sides := l.sides + 1, filesOne := evs.length, blocksOne := (evs.map (·.blocks)).sum,
           filesAll := l.filesAll + evs.length, blocksAll := l.blocksAll + (evs.map (·.blocks)).sum,
           out := l.out ++ sideText l.processing l.verbose l.sides i evs u }

theorem side_step (l : DL) (hnl : l.needNL = false) (hr : l.resetNext = false) (i : Nat) (evs : List FileEv) (u : Usage) :
    onEndOfSide (afterFiles (onBeginOfSide l i) evs) u = afterSide l i evs u := by
  rw [beginOfSide_step l hnl hr i]
  obtain ⟨p, v, nl, sides, f1, fa, b1, ba, rn, out⟩ := l
  simp only at hnl hr
  subst hnl hr
  simp only [afterFiles]
  rw [endOfSide_step _ rfl u]
  simp [afterSide, sideText, List.append_assoc]

/-! ### all sides -/

def sideBat (sd : Side) : List Nat := match getBat sd with | .ok b => b | .error _ => []
def sideEntries (sd : Side) : List Entry := match listFiles sd with | .ok es => es | .error _ => []
/-- the files of a side as the listener is told about them, in catalog order -/
def sideEvs (sd : Side) : List FileEv := sideEvents (sideBat sd) (sideEntries sd)

def afterSides (l : DL) : List Side → Nat → DL
  | [], _ => l
  | sd :: rest, i => afterSides (afterSide l i (sideEvs sd) (computeUsage (sideBat sd))) rest (i + 1)

theorem afterSide_flags (l : DL) (i : Nat) (evs : List FileEv) (u : Usage) :
    (afterSide l i evs u).needNL = l.needNL ∧ (afterSide l i evs u).resetNext = l.resetNext
    ∧ (afterSide l i evs u).processing = l.processing ∧ (afterSide l i evs u).verbose = l.verbose := ⟨rfl, rfl, rfl, rfl⟩

theorem readSides_report (target : Option Str) : ∀ (sides : List Side) (i : Nat) (st : RdState),
    st.l.needNL = false → st.l.resetNext = false → (∀ sd ∈ sides, SideOk sd ∧ NiceSide sd) →
    (∀ t, target = some t → ∀ p ∈ sidesFiles t sides i, Tape.collides st.keep p.1 = false) →
    ∃ st', readSides target sides i st = (st', none) ∧ st'.l = afterSides st.l sides i := by
  intro sides
  induction sides with
  | nil => intro i st _ _ _ _; exact ⟨st, rfl, rfl⟩
  | cons sd rest ih =>
    intro i st hnl hr h hsafe
    obtain ⟨⟨bat, own, inv⟩, hn⟩ := h sd (by simp)
    have hsb : sideBat sd = bat := by unfold sideBat; rw [inv.hbat]
    have hse : sideEntries sd = (List.range 112).filterMap (entryAt sd own) := by unfold sideEntries; rw [listFiles_inv inv]
    simp only [readSides]
    rw [inv.hbat]
    dsimp only
    rw [listFiles_inv inv]
    dsimp only
    have hb := beginOfSide_step st.l hnl hr i
    have hnl1 : (onBeginOfSide st.l i).needNL = false := by rw [hb]; exact hnl
    have hmono : ∀ S : RdState, S.l = onBeginOfSide st.l i → S.keep = st.keep →
        (∃ S', readEntries sd bat (target.map fun d => pathJoin d (str "side" ++ digits i)) ((List.range 112).filterMap (entryAt sd own)) S = (S', none)
          ∧ S'.mkdirs = S.mkdirs ∧ S'.keep = S.keep ∧ S'.l = afterFiles S.l (((List.range 112).filterMap (entryAt sd own)).map (evOfEntry bat))
          ∧ S'.writes = S.writes ++ (match (target.map fun d => pathJoin d (str "side" ++ digits i)) with
              | none => []
              | some dir => ((List.range 112).filterMap (entryAt sd own)).map (fun e => (pathJoin dir (fileNameOf e), readFile sd bat e)))) →
        ∃ st', (match readEntries sd bat (target.map fun d => pathJoin d (str "side" ++ digits i)) ((List.range 112).filterMap (entryAt sd own)) S with
            | (st', some e) => (st', some e)
            | (st', none) => readSides target rest (i + 1) { st' with l := onEndOfSide st'.l (computeUsage bat) }) = (st', none)
          ∧ st'.l = afterSides st.l (sd :: rest) i := by
      intro S hS hK ⟨S', h1, _, hk', h3, _⟩
      rw [h1]
      dsimp only
      have hl : onEndOfSide S'.l (computeUsage bat) = afterSide st.l i (sideEvs sd) (computeUsage (sideBat sd)) := by
        rw [h3, hS, hsb]
        unfold sideEvs sideEvents
        rw [hsb, hse]
        exact side_step st.l hnl hr i _ _
      obtain ⟨st2, g1, g2⟩ := ih (i + 1) { S' with l := onEndOfSide S'.l (computeUsage bat) }
        (by dsimp only; rw [hl]; exact hnl) (by dsimp only; rw [hl]; exact hr) (fun s hs => h s (by simp [hs]))
        (by intro t ht p hp
            show Tape.collides S'.keep p.1 = false
            rw [hk', hK]
            apply hsafe t ht p
            simp only [sidesFiles, List.mem_append]
            exact Or.inr hp)
      refine ⟨st2, g1, ?_⟩
      rw [g2]
      dsimp only
      rw [hl]
      rfl
    cases target with
    | none =>
      exact hmono _ rfl rfl (readEntries_report sd bat none _ _ hnl1 (nice_entries inv hn) (fun d hd => by cases hd))
    | some d =>
      refine hmono _ rfl rfl (readEntries_report sd bat (some (pathJoin d (str "side" ++ digits i))) _ _ hnl1 (nice_entries inv hn) ?_)
      intro dir hdir e he
      cases hdir
      apply hsafe d rfl (pathJoin (pathJoin d (str "side" ++ digits i)) (fileNameOf e), readFile sd bat e)
      simp only [sidesFiles, List.mem_append]
      left
      rw [← entries_map_eq_sideFiles inv]
      exact List.mem_map_of_mem he

/-! ### the whole report of a listing / an extraction -/

/-- the text of the sides, one after the other -/
def reportSides (p : Nat) (v : Bool) : List Side → Nat → Nat → Str
  | [], _, _ => []
  | sd :: rest, sb, i => sideText p v sb i (sideEvs sd) (computeUsage (sideBat sd)) ++ reportSides p v rest (sb + 1) (i + 1)

def totalFiles (sides : List Side) : Nat := (sides.map fun sd => (sideEvs sd).length).sum
def totalBlocks (sides : List Side) : Nat := (sides.map fun sd => ((sideEvs sd).map (·.blocks)).sum).sum

theorem afterSides_facts : ∀ (sides : List Side) (l : DL) (i : Nat),
    (afterSides l sides i).out = l.out ++ reportSides l.processing l.verbose sides l.sides i
    ∧ (afterSides l sides i).filesAll = l.filesAll + totalFiles sides
    ∧ (afterSides l sides i).blocksAll = l.blocksAll + totalBlocks sides
    ∧ (afterSides l sides i).sides = l.sides + sides.length
    ∧ (afterSides l sides i).needNL = l.needNL ∧ (afterSides l sides i).processing = l.processing
    ∧ (afterSides l sides i).verbose = l.verbose := by
  intro sides
  induction sides with
  | nil => intro l i; simp [afterSides, reportSides, totalFiles, totalBlocks]
  | cons sd rest ih =>
    intro l i
    obtain ⟨h1, h2, h3, h4, h5, h6, h7⟩ := ih (afterSide l i (sideEvs sd) (computeUsage (sideBat sd))) (i + 1)
    simp only [afterSides]
    refine ⟨?_, ?_, ?_, ?_, ?_, ?_, ?_⟩
    · rw [h1]; simp [afterSide, reportSides, List.append_assoc]
    · rw [h2]; simp [afterSide, totalFiles]; omega
    · rw [h3]; simp [afterSide, totalBlocks]; omega
    · rw [h4]; simp [afterSide]; omega
    · rw [h5]; rfl
    · rw [h6]; rfl
    · rw [h7]; rfl

/-- the closing lines: nothing for a listing; separator, TOTAL and the totals otherwise -/
def doneText (p : Nat) (v : Bool) (sides files blocks : Nat) : Str :=
  if p != 0 && decide (sides > 0) then
    str "---" ++ [10] ++ (str "TOTAL" ++ [10])
      ++ (if !v then filesText files
          else filesText files ++ str ", " ++ digits blocks ++ str " block" ++ plural blocks ++ (if p = 1 then str " read" else str " written"))
      ++ [10]
  else []

theorem onDone_step (l : DL) (hnl : l.needNL = false) :
    (onDone l).out = l.out ++ doneText l.processing l.verbose l.sides l.filesAll l.blocksAll := by
  obtain ⟨p, v, nl, sides, f1, fa, b1, ba, rn, out⟩ := l
  simp only at hnl
  subst hnl
  unfold onDone doneText DL.retLine DL.print
  dsimp only
  by_cases hc : (p != 0 && decide (sides > 0)) = true
  · simp only [Bool.false_eq_true, if_false, if_pos hc]
    cases v <;> simp [List.append_assoc]
  · simp only [Bool.false_eq_true, if_false, if_neg hc, List.append_nil]

/-- the complete text of `--list` (p = 0) or `--extract` (p = 1) for an image -/
def readReport (p : Nat) (v : Bool) (img : Image) : Str :=
  reportSides p v img 0 0 ++ doneText p v img.length (totalFiles img) (totalBlocks img)

theorem finish_report (target : Option Str) (sides : List Side) (S : RdState) (hnl : S.l.needNL = false) (hr : S.l.resetNext = false)
    (h0 : S.l.sides = 0) (hf : S.l.filesAll = 0) (hb : S.l.blocksAll = 0)
    (hall : ∀ sd ∈ sides, SideOk sd ∧ NiceSide sd)
    (hsafe : ∀ t, target = some t → ∀ p ∈ sidesFiles t sides 0, Tape.collides S.keep p.1 = false) :
    (finishRead (readSides target sides 0 S)).out = [S.l.out ++ readReport S.l.processing S.l.verbose sides] := by
  obtain ⟨st', h1, h2⟩ := readSides_report target sides 0 S hnl hr hall hsafe
  obtain ⟨f1, f2, f3, f4, f5, f6, f7⟩ := afterSides_facts sides S.l 0
  rw [h1]
  simp only [finishRead]
  rw [h2, onDone_step _ (by rw [f5]; exact hnl), f1, f2, f3, f4, f6, f7, h0, hf, hb]
  simp [readReport, List.append_assoc]

/-- **`--list` of the archive of a consistent image** prints exactly `readReport 0` -/
theorem list_report (fl : Flavour) (verbose : Bool) (img : Image) (h : ImgOk img) (hn : ∀ k, k < 4 → NiceSide (img.getD k [])) :
    (list fl verbose (save fl img)).out = [readReport 0 verbose img] ∧ (list fl verbose (save fl img)).status = .ret 0 := by
  unfold list
  rw [load_save fl img h.wf h.1]
  dsimp only
  have hall : ∀ sd ∈ img, SideOk sd ∧ NiceSide sd := by
    intro sd hsd
    obtain ⟨i, hi, rfl⟩ := List.getElem_of_mem hsd
    have hi4 : i < 4 := by rw [← h.1]; exact hi
    have e : img.getD i [] = img[i] := by rw [List.getD_eq_getElem?_getD, List.getElem?_eq_getElem hi]; rfl
    exact ⟨e ▸ h.2 i hi4, e ▸ hn i hi4⟩
  constructor
  · rw [finish_report none img _ rfl rfl rfl rfl rfl hall (fun t ht => by cases ht)]
    simp
  · obtain ⟨st', h1, _⟩ := readSides_report none img 0 { l := { processing := 0, verbose := verbose } } rfl rfl hall (fun t ht => by cases ht)
    rw [h1]; rfl

/-- the first line of an extraction with `--into` -/
def intoText (into : Option Str) : Str :=
  match into with
  | some d => str "has into : " ++ d ++ [10]
  | none => []

/-- **`--extract` of the archive of a consistent image** prints exactly the `--into` line (if any)
    followed by `readReport 1` -/
theorem extract_report (fl : Flavour) (verbose : Bool) (archive : Str) (into : Option Str) (img : Image) (h : ImgOk img)
    (hn : ∀ k, k < 4 → NiceSide (img.getD k []))
    (hk : ∀ p ∈ sidesFiles (Tape.targetDirOf archive into) img 0, samePath p.1 archive = false) :
    (extract fl verbose archive into (save fl img)).out = [intoText into ++ readReport 1 verbose img] := by
  unfold extract
  rw [load_save fl img h.wf h.1]
  dsimp only
  have hall : ∀ sd ∈ img, SideOk sd ∧ NiceSide sd := by
    intro sd hsd
    obtain ⟨i, hi, rfl⟩ := List.getElem_of_mem hsd
    have hi4 : i < 4 := by rw [← h.1]; exact hi
    have e : img.getD i [] = img[i] := by rw [List.getD_eq_getElem?_getD, List.getElem?_eq_getElem hi]; rfl
    exact ⟨e ▸ h.2 i hi4, e ▸ hn i hi4⟩
  cases into with
  | none =>
    dsimp only
    rw [finish_report _ img _ rfl rfl rfl rfl rfl hall (fun t ht p hp => by cases ht; exact hk p hp)]
    simp [intoText]
  | some d =>
    dsimp only
    rw [finish_report _ img _ rfl rfl rfl rfl rfl hall (fun t ht p hp => by cases ht; exact hk p hp)]
    simp [intoText, DL.print, List.append_assoc]

/-! ### the lines of the report and the files of the image -/

/-- on a consistent side, the events are the live entries in catalog order -/
theorem sideEvs_inv {sd : Side} {bat : List Nat} {own : Nat → List Nat} (inv : SideInv sd bat own) :
    sideEvs sd = ((List.range 112).filterMap (entryAt sd own)).map (evOfEntry bat) := by
  unfold sideEvs sideEvents sideBat sideEntries
  rw [inv.hbat, listFiles_inv inv]

/-- one report line per extracted file, in the same order -/
theorem sideEvs_length_eq_files {sd : Side} {bat : List Nat} {own : Nat → List Nat} (inv : SideInv sd bat own) (dir : Str) :
    (sideEvs sd).length = (sideFiles sd dir).length := by
  rw [sideEvs_inv inv, ← entries_map_eq_sideFiles inv dir]
  simp

/-- **the size and block count printed for a file are those of the file**: the byte count is the
    length of the content the reader returns, the block count is the length of its chain, the name
    and extension are the catalog's -/
theorem event_facts {sd : Side} {bat : List Nat} {own : Nat → List Nat} (inv : SideInv sd bat own) (j : Nat) (hj : j < 112)
    (e : Entry) (he : entryAt sd own j = some e) :
    (evOfEntry bat e).bytes = (readFile sd bat e).length ∧ (evOfEntry bat e).blocks = (own j).length
    ∧ (evOfEntry bat e).name = slice e.rec16 0 8 ∧ (evOfEntry bat e).ext = slice e.rec16 8 11 := by
  unfold entryAt at he
  by_cases hl : liveB (slotData sd j) = true
  · rw [if_pos hl] at he
    cases he
    have hlive := (liveB_iff _).mp hl
    obtain ⟨_, u, h1, h8, hne, hlt, hlast⟩ := chain_facts inv j hj hlive
    have hlb := inv.lastb j hj hlive
    have hrl := recordOfBytes_lastBytes (slotData sd j) hlb
    unfold evOfEntry
    dsimp only
    refine ⟨?_, rfl, rfl, rfl⟩
    rw [readFile_length sd inv.wf bat ⟨1, recordOfBytes (slotData sd j), own j⟩ u h1 h8 hne hlt hlast
      (by unfold Entry.lastBytes; dsimp only; rw [hrl]; exact hlb)]
  · rw [if_neg hl] at he; cases he

end Moto.Disk
