/-
  Every delimited line is encoded like the reference encoder: the state of the tokenizer at the
  start and at the end of each word, and what each kind of separator does from there.
-/
import MotoModel.Proofs.BasicWords
namespace Moto.Basic
open Moto

/-! ### facts about the table (kernel evaluation over the whole table) -/

/-- separator of a word: special character, one-character token (operator), double quote -/
def isSepM (c : Nat) : Bool := isSpecial c || isToken [c] || c == 34

/-- no keyword of two characters or more contains a separator -/
theorem multi_no_sep : ∀ e ∈ Gen.Tokens.tokens, e.1.length ≥ 2 → ∀ c ∈ e.1, isSepM c = false := by decide +kernel

/-- keywords are made of characters that `upper` leaves alone -/
theorem token_chars_upper : ∀ e ∈ Gen.Tokens.tokens, ∀ c ∈ e.1, upperC c = c := by decide +kernel

theorem letters_not_tokens : ∀ c ∈ List.range 26, isToken [c + 65] = false := by decide +kernel

theorem quote_not_token : isToken [34] = false := by decide +kernel

/-- a sequence of two characters or more that contains a separator is no keyword -/
theorem not_token_of_sep (s : Str) (hl : s.length ≥ 2) (c : Nat) (hc : c ∈ s) (hs : isSepM c = true) : isToken s = false := by
  cases h : isToken s with
  | false => rfl
  | true =>
    obtain ⟨e, he, rfl⟩ := isToken_mem' s h
    have := multi_no_sep e he hl c hc
    rw [hs] at this; cases this

theorem token_upper (t : Nat) (h : isToken [t] = true) : upperC t = t := by
  obtain ⟨e, he, h1⟩ := isToken_mem' [t] h
  exact token_chars_upper e he t (by rw [h1]; simp)

/-- the upper case of a character that is no separator is no one-character token -/
theorem upper_not_token (ch : Nat) (h : isToken [ch] = false) : isToken [upperC ch] = false := by
  unfold upperC
  split
  · rename_i hr
    have : ch - 32 = (ch - 97) + 65 := by omega
    rw [this]
    exact letters_not_tokens (ch - 97) (by simp; omega)
  · exact h

theorem upper_not_special (ch : Nat) (h : isSpecial ch = false) : isSpecial (upperC ch) = false := by
  unfold upperC
  split
  · rename_i hr
    have hsc : Gen.Tokens.specialChars = [46, 44, 40, 41, 58, 59, 32] := by decide
    unfold isSpecial
    rw [hsc]
    simp only [List.contains_eq_mem, List.mem_cons, List.mem_nil_iff, or_false, decide_eq_false_iff_not]
    omega
  · exact h

/-! ### one character of a word -/

/-- a character that can be part of a word: not a quote, not special, and (in upper case) not a
    one-character token -/
def WordChar (c : Nat) : Prop := c ≠ 34 ∧ isSpecial c = false ∧ isToken [upperC c] = false

theorem parseChar_word (c : Ctx) (ch : Nat) (h : WordChar ch) : parseChar (c, false) ch = (appendAsToken c [upperC ch], false) := by
  unfold parseChar
  dsimp only
  rw [if_neg h.1]
  simp only [Bool.false_eq_true, if_false, h.2.1]

/-- the early-match branch cannot be taken: the fuel does not matter -/
theorem fuel_irrelevant (f : Nat) (c : Ctx) (inp : Str) (h : isToken c.bucket = false) :
    appendAsTokenFuel (f + 1) c inp = appendAsTokenFuel 1 c inp := by
  simp only [appendAsTokenFuel, h, Bool.false_eq_true, if_false]

/-- **the recursion of `appendAsToken` is at most one level deep**: after the early-match branch the
    pending text is empty, so the branch cannot be taken again — the model's fuel of 3 is never what
    stops it (any larger fuel gives the same context) -/
theorem appendAsToken_fuel_enough (k : Nat) (c : Ctx) (inp : Str) : appendAsTokenFuel (3 + k) c inp = appendAsToken c inp := by
  have one : ∀ (f : Nat), appendAsTokenFuel (f + 1 + 1) c inp
      = if isToken (c.seq ++ inp) then { c with seq := c.seq ++ inp, cand := tokenBytes (c.seq ++ inp), bucket := [] }
        else if isToken c.bucket then
          appendAsTokenFuel 1 { done := c.done ++ c.cand, cand := tokenBytes c.bucket, seq := c.bucket, bucket := [] } inp
        else if isToken inp then
          commit { (commit { c with seq := c.seq ++ inp }) with cand := (commit { c with seq := c.seq ++ inp }).cand ++ bytesFromUint ((tokenOf inp).getD 0) }
        else { c with seq := c.seq ++ inp, bucket := c.bucket ++ inp } := by
    intro f
    rw [appendAsTokenFuel]
    by_cases h1 : isToken (c.seq ++ inp) = true
    · simp only [h1, if_true]
    · by_cases h2 : isToken c.bucket = true
      · simp only [h1, h2, if_true, Bool.false_eq_true, if_false]
        cases f with
        | zero => rfl
        | succ f => exact fuel_irrelevant f _ inp empty_not_token
      · simp only [h1, h2, Bool.false_eq_true, if_false]
  unfold appendAsToken
  have e : 3 + k = (k + 1) + 1 + 1 := by omega
  rw [e, one (k + 1), show (3 : Nat) = 1 + 1 + 1 from rfl, one 1]

/-- the sequence read so far becomes a keyword: it replaces what was pending -/
theorem appendAsToken_match (c : Ctx) (inp : Str) (h1 : isToken (c.seq ++ inp) = true) :
    appendAsToken c inp = { c with seq := c.seq ++ inp, cand := tokenBytes (c.seq ++ inp), bucket := [] } := by
  unfold appendAsToken
  show appendAsTokenFuel (2 + 1) c inp = _
  rw [appendAsTokenFuel]
  simp only [h1, if_true]

/-- the pending text is a keyword: what was pending before it is committed, the keyword becomes
    the pending token, and the input is processed again -/
theorem appendAsToken_early (c : Ctx) (inp : Str) (h1 : isToken (c.seq ++ inp) = false) (h2 : isToken c.bucket = true) :
    appendAsToken c inp = appendAsToken { done := c.done ++ c.cand, cand := tokenBytes c.bucket, seq := c.bucket, bucket := [] } inp := by
  unfold appendAsToken
  show appendAsTokenFuel (2 + 1) c inp = _
  rw [appendAsTokenFuel]
  simp only [h1, h2, Bool.false_eq_true, if_false, if_true]
  rw [fuel_irrelevant 1 _ inp empty_not_token, ← fuel_irrelevant 2 _ inp empty_not_token]

/-- a one-character token met while nothing matches: everything pending is committed, then the token -/
theorem appendAsToken_spot (c : Ctx) (t : Nat) (h1 : isToken (c.seq ++ [t]) = false) (h2 : isToken c.bucket = false)
    (h3 : isToken [t] = true) :
    appendAsToken c [t] = { done := c.done ++ c.cand ++ c.bucket ++ tokenBytes [t], cand := [], seq := [], bucket := [] } := by
  unfold appendAsToken
  show appendAsTokenFuel (2 + 1) c [t] = _
  rw [appendAsTokenFuel]
  simp only [h1, h2, h3, Bool.false_eq_true, if_false, if_true]
  have hc : requiresColon [t] = false := by
    obtain ⟨e, he, h⟩ := isToken_mem' [t] h3
    have : ∀ e ∈ Gen.Tokens.tokens, e.1.length = 1 → requiresColon e.1 = false := by decide +kernel
    rw [← h]; exact this e he (by rw [h]; rfl)
  simp [commit, tokenBytes, hc, List.append_assoc]

/-! ### a run of characters that match nothing -/

theorem upper_cons (ch : Nat) (w : Str) : upper (ch :: w) = upperC ch :: upper w := rfl

theorem plain_run : ∀ (w : Str) (d C S B : Bytes), (∀ ch ∈ w, WordChar ch) →
    (∀ n, 0 < n → n ≤ w.length → isToken (S ++ (upper w).take n) = false) →
    (∀ n, n < w.length → isToken (B ++ (upper w).take n) = false) →
    w.foldl parseChar (⟨d, C, S, B⟩, false) = (⟨d, C, S ++ upper w, B ++ upper w⟩, false) := by
  intro w
  induction w with
  | nil => intro d C S B _ _ _; simp [upper]
  | cons ch rest ih =>
    intro d C S B hw h1 h2
    simp only [List.foldl_cons]
    have hch := hw ch (by simp)
    rw [parseChar_word _ ch hch]
    have e1 : isToken (S ++ [upperC ch]) = false := by
      have := h1 1 (by omega) (by simp)
      simpa [upper_cons] using this
    have e2 : isToken B = false := by
      have := h2 0 (by simp)
      simpa using this
    rw [appendAsToken_plain ⟨d, C, S, B⟩ [upperC ch] e1 e2 hch.2.2]
    rw [ih d C (S ++ [upperC ch]) (B ++ [upperC ch]) (fun c hc => hw c (by simp [hc]))]
    · simp [upper_cons, List.append_assoc]
    · intro n hn hl
      have := h1 (n + 1) (by omega) (by simp; omega)
      simpa [upper_cons, List.append_assoc] using this
    · intro n hl
      have := h2 (n + 1) (by simp; omega)
      simpa [upper_cons, List.append_assoc] using this


/-! ### the states at the start and at the end of a word -/

/-- at the start of a word nothing is pending, or exactly one operator is -/
def Start (c : Ctx) : Prop :=
  c.bucket = [] ∧ ((c.cand = [] ∧ c.seq = []) ∨ ∃ op, isToken [op] = true ∧ c.cand = tokenBytes [op] ∧ c.seq = [op])

/-- at the end of the word `W` read from the start state `c`: either `W` is a keyword already
    recognised (pending token, everything before it committed), or `W` is still pending text behind
    whatever was pending at the start -/
def WordEnd (c c' : Ctx) (W : Str) : Prop :=
  (isToken W = true ∧ c'.done = c.done ++ c.cand ∧ c'.cand = tokenBytes W ∧ c'.seq = W ∧ c'.bucket = [])
  ∨ c' = ⟨c.done, c.cand, c.seq ++ W, W⟩

def simpleB (W : Str) : Bool := (List.range W.length).all fun n => n == 0 || !isToken (W.take n)

theorem simpleB_spec (W : Str) (h : simpleB W = true) (n : Nat) (h0 : 0 < n) (hn : n < W.length) : isToken (W.take n) = false := by
  have := List.all_eq_true.mp h n (by simp; exact hn)
  have h0' : (n == 0) = false := by simp; omega
  simpa [h0'] using this

/-- the keywords that begin with a shorter keyword: prefix keyword, rest -/
def compounds : List (Str × Str) :=
  [([68, 69, 70], [83, 84, 82]), ([68, 69, 70], [73, 78, 84]), ([68, 69, 70], [83, 78, 71]), ([68, 69, 70], [68, 66, 76]), ([69, 82, 82], [79, 82]), ([76, 79, 67], [65, 84, 69])]

theorem all_simple_or_compound : ∀ e ∈ Gen.Tokens.tokens, simpleB e.1 = true ∨ ∃ pq ∈ compounds, e.1 = pq.1 ++ pq.2 := by decide +kernel

theorem compound_facts : ∀ pq ∈ compounds, isToken pq.1 = true ∧ simpleB pq.1 = true ∧ isToken (pq.1 ++ pq.2) = true ∧ pq.2 ≠ []
    ∧ pq.2.foldl parseChar (⟨[], tokenBytes pq.1, pq.1, []⟩, false) = (⟨[], tokenBytes (pq.1 ++ pq.2), pq.1 ++ pq.2, []⟩, false) := by
  decide +kernel

/-- what the domain of the property says about a word (in upper case) -/
def GoodM (W : Str) : Prop :=
  (isToken W = false ∧ ∀ n, 0 < n → n ≤ W.length → isToken (W.take n) = false) ∨ isToken W = true

theorem upperC_idem (c : Nat) : upperC (upperC c) = upperC c := by
  unfold upperC
  by_cases h : 97 ≤ c ∧ c ≤ 122
  · rw [if_pos h, if_neg (by omega)]
  · rw [if_neg h, if_neg h]

theorem wordChar_upper (ch : Nat) (h : WordChar ch) : WordChar (upperC ch) :=
  ⟨by have := h.1; unfold upperC; split <;> omega, upper_not_special ch h.2.1, by rw [upperC_idem]; exact h.2.2⟩

theorem fold_upper : ∀ (w : Str) (c : Ctx), (∀ ch ∈ w, WordChar ch) → w.foldl parseChar (c, false) = (upper w).foldl parseChar (c, false) := by
  intro w
  induction w with
  | nil => intro c _; rfl
  | cons ch rest ih =>
    intro c hw
    simp only [upper_cons, List.foldl_cons]
    rw [parseChar_word c ch (hw ch (by simp)), parseChar_word c (upperC ch) (wordChar_upper ch (hw ch (by simp))), upperC_idem]
    exact ih _ (fun x hx => hw x (by simp [hx]))

theorem start_seq_sep (c : Ctx) (hs : Start c) (x : Str) (hx : x ≠ []) (hne : c.seq ≠ []) : isToken (c.seq ++ x) = false := by
  obtain ⟨_, h | ⟨op, hop, _, hseq⟩⟩ := hs
  · exact absurd h.2 hne
  · rw [hseq]
    apply not_token_of_sep _ _ op (by simp)
    · simp [isSepM, hop]
    · cases x with
      | nil => exact absurd rfl hx
      | cons a as => simp

/-- a keyword none of whose proper prefixes is a keyword -/
theorem simple_run (K : Str) (hK : ∀ ch ∈ K, WordChar ch) (hu : upper K = K) (ht : isToken K = true) (hsimple : simpleB K = true)
    (c : Ctx) (hs : Start c) :
    K.foldl parseChar (c, false)
      = (if c.seq = [] then ⟨c.done ++ c.cand, tokenBytes K, K, []⟩ else ⟨c.done, c.cand, c.seq ++ K, K⟩, false) := by
  obtain ⟨d, C, S, B⟩ := c
  have hB : B = [] := hs.1
  subst hB
  by_cases hS : S = []
  · -- nothing pending: the last character completes the keyword
    subst hS
    have hC : C = [] := by
      rcases hs.2 with h | ⟨op, _, _, hseq⟩
      · exact h.1
      · simp at hseq
    subst hC
    have hne : K ≠ [] := by intro e; rw [e, empty_not_token] at ht; cases ht
    have hsplit : K = K.dropLast ++ [K.getLast hne] := (List.dropLast_concat_getLast hne).symm
    have hKd : ∀ ch ∈ K.dropLast, WordChar ch := fun ch hc => hK ch (List.dropLast_subset K hc)
    have hud : upper K.dropLast = K.dropLast := by
      have := congrArg List.dropLast hu
      simpa [upper, List.map_dropLast] using this
    have hlen : K.dropLast.length = K.length - 1 := List.length_dropLast
    have hpos : 0 < K.length := List.length_pos_iff.mpr hne
    have htake : ∀ n, n ≤ K.dropLast.length → K.dropLast.take n = K.take n := by
      intro n hn
      rw [List.dropLast_eq_take, List.take_take]
      congr 1
      omega
    have hrun := plain_run K.dropLast d [] [] [] hKd
      (by intro n h0 hn; rw [hud, List.nil_append, htake n hn]; exact simpleB_spec K hsimple n h0 (by omega))
      (by intro n hn
          rw [hud, List.nil_append, htake n (by omega)]
          by_cases h0 : n = 0
          · subst h0; simp [empty_not_token]
          · exact simpleB_spec K hsimple n (by omega) (by omega))
    rw [hud] at hrun
    simp only [List.nil_append] at hrun
    rw [hsplit, List.foldl_append, hrun]
    simp only [List.foldl_cons, List.foldl_nil]
    have hlast : WordChar (K.getLast hne) := hK _ (List.getLast_mem hne)
    have hul : upperC (K.getLast hne) = K.getLast hne := by
      have : upper K = K := hu
      have h2 : (upper K).getLast (by simpa [upper] using hne) = upperC (K.getLast hne) := by simp [upper, List.getLast_map]
      rw [← h2]; congr 1
    rw [parseChar_word _ _ hlast, hul]
    have hm : isToken (K.dropLast ++ [K.getLast hne]) = true := by rw [← hsplit]; exact ht
    rw [appendAsToken_match _ _ (by simpa using hm)]
    simp only [List.nil_append, if_true, List.append_nil]
  · -- an operator is pending: the keyword stays pending behind it
    have hrun := plain_run K d C S [] hK
      (by intro n h0 hn
          rw [hu]
          apply start_seq_sep ⟨d, C, S, []⟩ hs _ _ hS
          intro e
          have : (K.take n).length = n := by simp; omega
          rw [e] at this; simp at this; omega)
      (by intro n hn
          rw [hu, List.nil_append]
          by_cases h0 : n = 0
          · subst h0; simp [empty_not_token]
          · exact simpleB_spec K hsimple n (by omega) hn)
    rw [hu] at hrun
    simp only [List.nil_append] at hrun
    rw [hrun]
    simp only [if_neg hS]


theorem upper_append (a b : Str) : upper (a ++ b) = upper a ++ upper b := by simp [upper]

/-- a keyword that begins with a shorter keyword: recognised in both start states -/
theorem compound_run (pq : Str × Str) (hpq : pq ∈ compounds) (hK : ∀ ch ∈ pq.1 ++ pq.2, WordChar ch) (hu : upper (pq.1 ++ pq.2) = pq.1 ++ pq.2)
    (c : Ctx) (hs : Start c) :
    ∃ c', (pq.1 ++ pq.2).foldl parseChar (c, false) = (c', false) ∧ WordEnd c c' (pq.1 ++ pq.2) := by
  obtain ⟨htp, hsp, htk, hq, hfold⟩ := compound_facts pq hpq
  have hup : upper pq.1 = pq.1 := by
    have := congrArg (List.take pq.1.length) hu
    simpa [upper_append, upper] using this
  have h1 := simple_run pq.1 (fun ch hc => hK ch (by simp [hc])) hup htp hsp c hs
  rw [List.foldl_append, h1]
  -- from the state after the prefix keyword, the rest is read as from an empty context
  have key : ∀ (E : Bytes), pq.2.foldl parseChar (⟨E, tokenBytes pq.1, pq.1, []⟩, false)
      = (⟨E, tokenBytes (pq.1 ++ pq.2), pq.1 ++ pq.2, []⟩, false) := by
    intro E
    have : (⟨E, tokenBytes pq.1, pq.1, []⟩ : Ctx) = pre E ⟨[], tokenBytes pq.1, pq.1, []⟩ := by simp [pre]
    rw [this, pre_fold, hfold]
    simp [pre]
  by_cases hS : c.seq = []
  · -- nothing was pending: the prefix keyword is the pending token
    rw [if_pos hS, key]
    exact ⟨_, rfl, Or.inl ⟨htk, rfl, rfl, rfl, rfl⟩⟩
  · -- the prefix keyword is pending text behind an operator: the next character promotes it
    rw [if_neg hS]
    cases hq2 : pq.2 with
    | nil => exact absurd hq2 hq
    | cons q0 qs =>
      have hq0 : WordChar q0 := hK q0 (by rw [hq2]; simp)
      have huq0 : upperC q0 = q0 := by
        have := hu
        rw [upper_append, hup, hq2, upper_cons] at this
        have := List.append_cancel_left this
        exact (List.cons.inj this).1
      have hno : isToken (c.seq ++ pq.1 ++ [q0]) = false := by
        rw [List.append_assoc]
        exact start_seq_sep c hs _ (by simp) hS
      have hstep : parseChar (⟨c.done, c.cand, c.seq ++ pq.1, pq.1⟩, false) q0
          = parseChar (⟨c.done ++ c.cand, tokenBytes pq.1, pq.1, []⟩, false) q0 := by
        rw [parseChar_word _ _ hq0, parseChar_word _ _ hq0, huq0]
        rw [appendAsToken_early _ _ hno htp]
      simp only [List.foldl_cons]
      rw [hstep]
      have := key (c.done ++ c.cand)
      rw [hq2] at this
      simp only [List.foldl_cons] at this
      rw [this]
      exact ⟨_, rfl, Or.inl ⟨by rw [← hq2]; exact htk, rfl, by rw [← hq2], by rw [← hq2], rfl⟩⟩

/-- **one word**: from a start state, a word that is a keyword, or none of whose prefixes is one,
    leaves the tokenizer in one of the two end-of-word states -/
theorem word_run (W : Str) (hW : ∀ ch ∈ W, WordChar ch) (hu : upper W = W) (hg : GoodM W) (c : Ctx) (hs : Start c) :
    ∃ c', W.foldl parseChar (c, false) = (c', false) ∧ WordEnd c c' W := by
  rcases hg with ⟨hnt, hpre⟩ | ht
  · -- no keyword: everything stays pending
    have hrun := plain_run W c.done c.cand c.seq [] hW
      (by intro n h0 hn
          rw [hu]
          by_cases hS : c.seq = []
          · rw [hS, List.nil_append]; exact hpre n h0 hn
          · apply start_seq_sep c hs _ _ hS
            intro e
            have : (W.take n).length = n := by simp; omega
            rw [e] at this; simp at this; omega)
      (by intro n hn
          rw [hu, List.nil_append]
          by_cases h0 : n = 0
          · subst h0; simp [empty_not_token]
          · exact hpre n (by omega) (by omega))
    rw [hu] at hrun
    simp only [List.nil_append] at hrun
    have hc : c = ⟨c.done, c.cand, c.seq, []⟩ := by
      obtain ⟨d, C, S, B⟩ := c
      have : B = [] := hs.1
      subst this; rfl
    rw [hc]
    exact ⟨_, hrun, Or.inr rfl⟩
  · obtain ⟨e, he, hek⟩ := isToken_mem' W ht
    rcases all_simple_or_compound e he with hsimple | ⟨pq, hpq, hsplit⟩
    · rw [hek] at hsimple
      have h1 := simple_run W hW hu ht hsimple c hs
      by_cases hS : c.seq = []
      · rw [if_pos hS] at h1
        exact ⟨_, h1, Or.inl ⟨ht, rfl, rfl, rfl, rfl⟩⟩
      · rw [if_neg hS] at h1
        exact ⟨_, h1, Or.inr rfl⟩
    · rw [hek] at hsplit
      subst hsplit
      exact compound_run pq hpq hW hu c hs


/-! ### what follows a word -/

/-- what is stored for a word: its token if it is a keyword, itself otherwise -/
def fw (W : Str) : Bytes := if isToken W then tokenBytes W else W

theorem parseChar_nonsep (c : Ctx) (ch : Nat) (hq : ch ≠ 34) (hs : isSpecial ch = false) :
    parseChar (c, false) ch = (appendAsToken c [upperC ch], false) := by
  unfold parseChar
  dsimp only
  rw [if_neg hq]
  simp only [Bool.false_eq_true, if_false, hs]

theorem start_done (c : Ctx) (hs : Start c) (hS : c.seq = []) : c.cand = [] := by
  rcases hs.2 with h | ⟨op, _, _, hseq⟩
  · exact h.1
  · rw [hS] at hseq; cases hseq

theorem token_ne_nil (W : Str) (h : isToken W = true) : W ≠ [] := by
  intro e; rw [e, empty_not_token] at h; cases h

/-- closing a word outside a literal (opening quote, end of the line): everything pending is
    committed, the word as its token if it is a keyword -/
theorem commitAsToken_wordEnd (c c' : Ctx) (W : Str) (he : WordEnd c c' W) :
    commitAsToken c' = ⟨c.done ++ c.cand ++ fw W, [], [], []⟩ := by
  rcases he with ⟨ht, hd, hc, hsq, hb⟩ | rfl
  · obtain ⟨d1, C1, S1, B1⟩ := c'
    simp only at hd hc hsq hb
    subst hd hc hsq hb
    unfold commitAsToken
    simp [empty_not_token, commit, fw, ht]
  · unfold commitAsToken fw
    by_cases ht : isToken W = true
    · simp [ht, commit, List.append_assoc]
    · have : isToken W = false := by simpa using ht
      simp [this, commit, List.append_assoc]

/-- a special character after a word -/
theorem special_after_word (c c' : Ctx) (W : Str) (hs : Start c) (he : WordEnd c c' W) (s : Nat) (hsp : isSpecial s = true) (hq : s ≠ 34)
    (hnt : isToken [s] = false) :
    parseChar (c', false) s = (⟨c.done ++ c.cand ++ fw W ++ [s], [], [], []⟩, false) := by
  have hsep : isSepM s = true := by simp [isSepM, hsp]
  have hstep : parseChar (c', false) s = (commit (appendAsToken c' [s]), false) := by
    unfold parseChar
    dsimp only
    rw [if_neg hq]
    simp only [Bool.false_eq_true, if_false, hsp, if_true]
  rw [hstep]
  -- from the state "keyword recognised"
  have fromA : ∀ (E : Bytes), isToken W = true →
      commit (appendAsToken ⟨E, tokenBytes W, W, []⟩ [s]) = ⟨E ++ tokenBytes W ++ [s], [], [], []⟩ := by
    intro E ht
    have hne := token_ne_nil W ht
    rw [appendAsToken_plain _ [s] (not_token_of_sep _ (by simp; exact List.length_pos_iff.mpr hne) s (by simp) hsep) empty_not_token hnt]
    simp [commit, List.append_assoc]
  rcases he with ⟨ht, hd, hc, hsq, hb⟩ | rfl
  · obtain ⟨d1, C1, S1, B1⟩ := c'
    simp only at hd hc hsq hb
    subst hd hc hsq hb
    rw [fromA _ ht]
    simp [fw, ht]
  · by_cases ht : isToken W = true
    · have hne := token_ne_nil W ht
      have hno : isToken (c.seq ++ W ++ [s]) = false :=
        not_token_of_sep _ (by simp; have := List.length_pos_iff.mpr hne; omega) s (by simp) hsep
      rw [appendAsToken_early _ _ hno ht, fromA _ ht]
      simp [fw, ht]
    · have htf : isToken W = false := by simpa using ht
      have hno : isToken (c.seq ++ W ++ [s]) = false := by
        by_cases hemp : c.seq ++ W = []
        · rw [hemp]; exact hnt
        · exact not_token_of_sep _ (by simp; have := List.length_pos_iff.mpr hemp; simp at this; omega) s (by simp) hsep
      rw [appendAsToken_plain _ [s] hno htf hnt]
      simp [commit, fw, htf, List.append_assoc]

/-- an operator after a word: the tokenizer is at the start of a word again, having stored the
    word and the operator (the operator possibly still pending) -/
theorem operator_after_word (c c' : Ctx) (W : Str) (hs : Start c) (he : WordEnd c c' W) (t : Nat) (ht1 : isToken [t] = true) :
    ∃ c'', parseChar (c', false) t = (c'', false) ∧ Start c'' ∧ c''.done ++ c''.cand = c.done ++ c.cand ++ fw W ++ tokenBytes [t] := by
  have hq : t ≠ 34 := by intro e; rw [e, quote_not_token] at ht1; cases ht1
  have hsp : isSpecial t = false := by
    cases h : isSpecial t with
    | false => rfl
    | true =>
      have : t ∈ Gen.Tokens.specialChars := by unfold isSpecial at h; simpa using h
      rw [specials_not_tokens t this] at ht1; cases ht1
  have hsep : isSepM t = true := by simp [isSepM, ht1]
  rw [parseChar_nonsep _ t hq hsp, token_upper t ht1]
  have fromA : ∀ (E : Bytes), isToken W = true →
      appendAsToken ⟨E, tokenBytes W, W, []⟩ [t] = ⟨E ++ tokenBytes W ++ tokenBytes [t], [], [], []⟩ := by
    intro E ht
    have hne := token_ne_nil W ht
    rw [appendAsToken_spot _ t (not_token_of_sep _ (by simp; exact List.length_pos_iff.mpr hne) t (by simp) hsep) empty_not_token ht1]
    simp [List.append_assoc]
  rcases he with ⟨ht, hd, hc, hsq, hb⟩ | rfl
  · obtain ⟨d1, C1, S1, B1⟩ := c'
    simp only at hd hc hsq hb
    subst hd hc hsq hb
    rw [fromA _ ht]
    exact ⟨_, rfl, ⟨rfl, Or.inl ⟨rfl, rfl⟩⟩, by simp [fw, ht, List.append_assoc]⟩
  · by_cases ht : isToken W = true
    · have hne := token_ne_nil W ht
      have hno : isToken (c.seq ++ W ++ [t]) = false :=
        not_token_of_sep _ (by simp; have := List.length_pos_iff.mpr hne; omega) t (by simp) hsep
      rw [appendAsToken_early _ _ hno ht, fromA _ ht]
      exact ⟨_, rfl, ⟨rfl, Or.inl ⟨rfl, rfl⟩⟩, by simp [fw, ht, List.append_assoc]⟩
    · have htf : isToken W = false := by simpa using ht
      by_cases hemp : c.seq ++ W = []
      · -- nothing at all is pending: the operator becomes the pending token
        have hS : c.seq = [] := (List.append_eq_nil_iff.mp hemp).1
        have hW : W = [] := (List.append_eq_nil_iff.mp hemp).2
        have hC := start_done c hs hS
        subst hW
        rw [appendAsToken_match _ _ (by simp [hS, ht1])]
        refine ⟨_, rfl, ⟨rfl, Or.inr ⟨t, ht1, by simp [hS], by simp [hS]⟩⟩, ?_⟩
        simp [hS, hC, fw, empty_not_token]
      · have hno : isToken (c.seq ++ W ++ [t]) = false :=
          not_token_of_sep _ (by simp; have := List.length_pos_iff.mpr hemp; simp at this; omega) t (by simp) hsep
        rw [appendAsToken_spot _ t hno htf ht1]
        exact ⟨_, rfl, ⟨rfl, Or.inl ⟨rfl, rfl⟩⟩, by simp [fw, htf, List.append_assoc]⟩

/-- an opening quote after a word -/
theorem quote_after_word (c c' : Ctx) (W : Str) (he : WordEnd c c' W) :
    parseChar (c', false) 34 = (⟨c.done ++ c.cand ++ fw W ++ [34], [], [], []⟩, true) := by
  unfold parseChar
  simp only [if_true, Bool.false_eq_true, if_false, Bool.not_false]
  rw [commitAsToken_wordEnd c c' W he]
  simp [appendAsLiteral, commit]

/-- the end of the line after a word -/
theorem end_after_word (c c' : Ctx) (W : Str) (he : WordEnd c c' W) :
    (finish (c', false)).done = c.done ++ c.cand ++ fw W := by
  unfold finish
  simp only [Bool.false_eq_true, if_false]
  rw [commitAsToken_wordEnd c c' W he]
  simp [commit]

end Moto.Basic
