/-
  Lexical path normalisation (`normComponents`, `samePath` of Model/Py.lean): the components of joined
  paths, and why a member the disk extractor writes under `dirname archive / sideN /` is never the archive.
-/
import MotoModel.Proofs.PathSpelling
namespace Moto
open Moto.Tape (str)

/-- one step of `os.path.normpath` over the components -/
def normStep (isAbs : Bool) (acc : List Str) (c : Str) : List Str :=
  if c.isEmpty || c == [46] then acc
  else if c == [46, 46] then
    match acc.getLast? with
    | some l => if l == [46, 46] then acc ++ [c] else acc.dropLast
    | none => if isAbs then acc else acc ++ [c]
  else acc ++ [c]

theorem normComponents_eq (s : Str) : normComponents s = (splitSlash s).foldl (normStep (s.head? == some 47)) [] := rfl

theorem splitSlash_go_append (a b : Str) : ∀ cur, splitSlash.go cur (a ++ 47 :: b) = splitSlash.go cur a ++ splitSlash.go [] b := by
  induction a with
  | nil => intro cur; simp [splitSlash.go]
  | cons c a ih =>
    intro cur
    simp only [List.cons_append, splitSlash.go]
    split
    · rw [ih]; rfl
    · rw [ih]

theorem splitSlash_append (a b : Str) : splitSlash (a ++ 47 :: b) = splitSlash a ++ splitSlash b :=
  splitSlash_go_append a b []

theorem splitSlash_go_noslash (x : Str) (h : 47 ∉ x) : ∀ cur, splitSlash.go cur x = [cur.reverse ++ x] := by
  induction x with
  | nil => intro cur; simp [splitSlash.go]
  | cons c x ih =>
    intro cur
    have hc : c ≠ 47 := fun e => h (by simp [e])
    simp only [splitSlash.go]
    rw [if_neg (by simpa using hc), ih (fun hx => h (by simp [hx]))]
    simp

theorem splitSlash_noslash (x : Str) (h : 47 ∉ x) : splitSlash x = [x] := by
  have := splitSlash_go_noslash x h []
  simpa [splitSlash] using this

/-- the non-empty components of a path -/
def nc (s : Str) : List Str := (splitSlash s).filter (fun c => !c.isEmpty)

theorem nc_append (a b : Str) : nc (a ++ 47 :: b) = nc a ++ nc b := by
  unfold nc; rw [splitSlash_append, List.filter_append]

theorem nc_nil : nc [] = [] := by decide

theorem nc_noslash (x : Str) (h : 47 ∉ x) (hne : x ≠ []) : nc x = [x] := by
  unfold nc; rw [splitSlash_noslash x h]
  cases x with
  | nil => exact absurd rfl hne
  | cons c x => rfl

theorem nc_noslash_le (x : Str) (h : 47 ∉ x) : (nc x).length ≤ 1 := by
  unfold nc; rw [splitSlash_noslash x h]
  exact Nat.le_trans (List.length_filter_le _ _) (by simp)

theorem nc_snoc_slash (a : Str) : nc (a ++ [47]) = nc a := by
  have := nc_append a []
  rw [nc_nil, List.append_nil] at this
  exact this

theorem nc_slashes (a : Str) : ∀ k, nc (a ++ List.replicate k 47) = nc a := by
  intro k
  induction k with
  | zero => simp
  | succ k ih => rw [List.replicate_succ', ← List.append_assoc, nc_snoc_slash, ih]

theorem fold_filter (abs : Bool) (cs : List Str) : ∀ acc, cs.foldl (normStep abs) acc = (cs.filter (fun c => !c.isEmpty)).foldl (normStep abs) acc := by
  induction cs with
  | nil => intro acc; rfl
  | cons c cs ih =>
    intro acc
    by_cases hc : c.isEmpty = true
    · have : normStep abs acc c = acc := by unfold normStep; rw [if_pos (by simp [hc])]
      rw [List.foldl_cons, this, List.filter_cons_of_neg (by simp [hc]), ih]
    · rw [List.filter_cons_of_pos (by simpa using hc), List.foldl_cons, List.foldl_cons, ih]

theorem normComponents_nc (s : Str) : normComponents s = (nc s).foldl (normStep (s.head? == some 47)) [] := by
  rw [normComponents_eq, fold_filter]; rfl

/-- an ordinary component: not empty, not `.`, not `..` -/
def PlainComp (c : Str) : Prop := c ≠ [] ∧ c ≠ [46] ∧ c ≠ [46, 46]

theorem normStep_plain (abs : Bool) (acc : List Str) (c : Str) (h : PlainComp c) : normStep abs acc c = acc ++ [c] := by
  obtain ⟨h0, h1, h2⟩ := h
  unfold normStep
  rw [if_neg (by simp [h0, h1]), if_neg (by simpa using h2)]

theorem normStep_length (abs : Bool) (acc : List Str) (c : Str) : (normStep abs acc c).length ≤ acc.length + 1 := by
  unfold normStep
  split
  · omega
  · split
    · split
      · split
        · simp
        · simp; omega
      · split
        · omega
        · simp
    · simp

theorem takeWhile_all {α} (p : α → Bool) : ∀ (l : List α), ∀ b ∈ l.takeWhile p, p b = true := by
  intro l
  induction l with
  | nil => intro b hb; simp at hb
  | cons a l ih =>
    intro b hb
    rw [List.takeWhile_cons] at hb
    split at hb
    · rcases List.mem_cons.mp hb with h | h
      · rw [h]; assumption
      · exact ih b h
    · simp at hb

/-- a string is its right-stripped part followed by the slashes stripped -/
theorem strip_slashes (s : Str) : ∃ k, s = (s.reverse.dropWhile (· == 47)).reverse ++ List.replicate k 47 := by
  have h := List.takeWhile_append_dropWhile (p := (· == 47)) (l := s.reverse)
  have hs : s = (s.reverse.dropWhile (· == 47)).reverse ++ (s.reverse.takeWhile (· == 47)).reverse := by
    have := congrArg List.reverse h
    rw [List.reverse_append, List.reverse_reverse] at this
    exact this.symm
  refine ⟨(s.reverse.takeWhile (· == 47)).length, ?_⟩
  have hrep : (s.reverse.takeWhile (· == 47)).reverse = List.replicate (s.reverse.takeWhile (· == 47)).length 47 := by
    rw [List.eq_replicate_iff]
    refine ⟨by simp, ?_⟩
    intro b hb
    have := takeWhile_all (· == 47) _ b (List.mem_reverse.mp hb)
    simpa using this
  rw [← hrep]
  exact hs

theorem nc_dirname (pre base : Str) (hp : DirPrefix pre) (hb : 47 ∉ base) : nc (dirname (pre ++ base)) = nc pre := by
  unfold dirname
  rw [afterLast_prefix pre base hp hb]
  have : (pre ++ base).take pre.length = pre := by simp
  rw [this]
  dsimp only
  split
  · rfl
  · obtain ⟨k, hk⟩ := strip_slashes pre
    conv => rhs; rw [hk]
    rw [nc_slashes]

theorem nc_prefix (pre base : Str) (hp : DirPrefix pre) : nc (pre ++ base) = nc pre ++ nc base := by
  rcases hp with h | ⟨d, h⟩
  · rw [h, nc_nil]; rfl
  · rw [h, List.append_assoc, List.singleton_append, nc_append, nc_snoc_slash]

theorem nc_pathJoin (a b : Str) (hb : b.head? ≠ some 47) : nc (pathJoin a b) = nc a ++ nc b := by
  unfold pathJoin
  rw [if_neg (by simpa using hb)]
  split
  · rename_i h
    rcases Bool.or_eq_true _ _ ▸ h with h1 | h1
    · have : a = [] := by simpa using h1
      rw [this, nc_nil]; rfl
    · obtain ⟨ys, hl⟩ := List.getLast?_eq_some_iff.mp (show a.getLast? = some 47 by simpa using h1)
      rw [hl, List.append_assoc, List.singleton_append, nc_append, nc_snoc_slash]
  · rw [List.append_assoc, List.singleton_append, nc_append]

theorem head_noslash (x : Str) (h : 47 ∉ x) : x.head? ≠ some 47 := by
  cases x with
  | nil => simp
  | cons c x => intro e; simp at e; exact h (by simp [e])

/-- **a file written under `dirname archive / D / F` (two ordinary components below the archive's own
    directory) is never the archive**: its normalised path is longer than the archive's -/
theorem two_below_dirname_not_archive (archive side f : Str) (hs47 : 47 ∉ side) (hs : PlainComp side) (hf47 : 47 ∉ f) (hf : PlainComp f) :
    samePath (pathJoin (pathJoin (dirname archive) side) f) archive = false := by
  obtain ⟨pre, base, rfl, hp, hb⟩ := path_split archive
  unfold samePath
  by_cases habs : ((pathJoin (pathJoin (dirname (pre ++ base)) side) f).head? == some 47) = ((pre ++ base).head? == some 47)
  · rw [Bool.and_eq_false_iff]
    right
    rw [normComponents_nc, normComponents_nc, habs]
    rw [nc_pathJoin _ f (head_noslash f hf47), nc_pathJoin _ side (head_noslash side hs47), nc_dirname pre base hp hb,
      nc_prefix pre base hp, nc_noslash side hs47 hs.1, nc_noslash f hf47 hf.1]
    rw [List.foldl_append, List.foldl_append, List.foldl_append]
    simp only [List.foldl_cons, List.foldl_nil]
    rw [normStep_plain _ _ side hs, normStep_plain _ _ f hf]
    generalize (nc pre).foldl (normStep ((pre ++ base).head? == some 47)) [] = X
    have hlen : ((nc base).foldl (normStep ((pre ++ base).head? == some 47)) X).length ≤ X.length + 1 := by
      have h1 := nc_noslash_le base hb
      match hm : nc base, h1 with
      | [], _ => simp
      | [b], _ => simpa using normStep_length _ X b
    apply beq_false_of_ne
    intro e
    have := congrArg List.length e
    rw [List.length_append, List.length_append] at this
    simp only [List.length_cons, List.length_nil] at this
    omega
  · have : (((pathJoin (pathJoin (dirname (pre ++ base)) side) f).head? == some 47) == ((pre ++ base).head? == some 47)) = false := by
      cases h1 : ((pathJoin (pathJoin (dirname (pre ++ base)) side) f).head? == some 47) <;>
        cases h2 : ((pre ++ base).head? == some 47) <;> simp_all
    rw [this]; rfl

theorem normStep_cases (abs : Bool) (acc : List Str) (c : Str) :
    normStep abs acc c = acc ++ [c] ∨ (normStep abs acc c).length ≤ acc.length := by
  unfold normStep
  split
  · right; omega
  · split
    · split
      · split
        · left; rfl
        · right; simp
      · split
        · right; omega
        · left; rfl
    · left; rfl

/-- **a file written directly under `dirname archive` is the archive only if it carries the archive's own
    base name** -/
theorem one_below_dirname_not_archive (archive f : Str) (hf47 : 47 ∉ f) (hf : PlainComp f) (hne : f ≠ basename archive) :
    samePath (pathJoin (dirname archive) f) archive = false := by
  obtain ⟨pre, base, rfl, hp, hb⟩ := path_split archive
  rw [basename_prefix pre base hp hb] at hne
  unfold samePath
  by_cases habs : ((pathJoin (dirname (pre ++ base)) f).head? == some 47) = ((pre ++ base).head? == some 47)
  · rw [Bool.and_eq_false_iff]
    right
    rw [normComponents_nc, normComponents_nc, habs]
    rw [nc_pathJoin _ f (head_noslash f hf47), nc_dirname pre base hp hb, nc_prefix pre base hp, nc_noslash f hf47 hf.1]
    rw [List.foldl_append, List.foldl_append]
    simp only [List.foldl_cons, List.foldl_nil]
    rw [normStep_plain _ _ f hf]
    generalize (nc pre).foldl (normStep ((pre ++ base).head? == some 47)) [] = X
    apply beq_false_of_ne
    intro e
    by_cases hbe : base = []
    · rw [hbe, nc_nil] at e
      have := congrArg List.length e
      simp at this
    · rw [nc_noslash base hb hbe] at e
      simp only [List.foldl_cons, List.foldl_nil] at e
      rcases normStep_cases ((pre ++ base).head? == some 47) X base with h | h
      · rw [h] at e
        have := List.append_cancel_left e
        simp at this
        exact hne this
      · have := congrArg List.length e
        rw [List.length_append] at this
        simp only [List.length_cons, List.length_nil] at this
        omega
  · have : (((pathJoin (dirname (pre ++ base)) f).head? == some 47) == ((pre ++ base).head? == some 47)) = false := by
      cases h1 : ((pathJoin (dirname (pre ++ base)) f).head? == some 47) <;>
        cases h2 : ((pre ++ base).head? == some 47) <;> simp_all
    rw [this]; rfl

end Moto
