/-
  The independent writer `Spec.Dos.render` produces consistent sides from well-formed descriptions.
-/
import MotoModel.Proofs.DiskByte0
namespace Moto.Disk
open Moto
open Moto.Spec.Dos (AFile ASide)

/-! ### the table -/

/-- the links of one file, written the way the description says, are the links the tool writes -/
theorem fileTable_eq_linkChain (u : Nat) : ∀ (chain : List Nat) (tab : List Nat),
    (List.range chain.length).foldl (fun t i =>
        t.set (chain.getD i 0) (if i + 1 = chain.length then 0xC0 + u else chain.getD (i + 1) 0)) tab
      = linkChain tab chain u := by
  intro chain
  induction chain with
  | nil => intro tab; rfl
  | cons b rest ih =>
    intro tab
    rw [List.length_cons, List.range_succ_eq_map, List.foldl_cons, List.foldl_map]
    cases rest with
    | nil => simp [linkChain]
    | cons c rest' =>
      simp only [linkChain]
      rw [← ih (tab.set b c)]
      simp only [List.length_cons, List.getD_cons_zero, List.getD_cons_succ]
      have h0 : ¬ (0 + 1 = rest'.length + 1 + 1) := by omega
      simp only [h0, if_false]
      congr 1
      funext t i
      have : (i + 1 + 1 = rest'.length + 1 + 1) = (i + 1 = rest'.length + 1) := by
        apply propext; constructor <;> intro h <;> omega
      simp only [this]

def baseTable (a : ASide) : List Nat := (List.range 160).map fun b => if a.reserved.contains b then 0xFE else 0xFF

theorem tableOf_eq (a : ASide) :
    Spec.Dos.tableOf a = a.files.foldl (fun t f => linkChain t f.chain f.lastSectors) (baseTable a) := by
  unfold Spec.Dos.tableOf baseTable
  dsimp only
  congr 1
  funext t f
  exact fileTable_eq_linkChain f.lastSectors f.chain t

/-- a description the independent writer can lay out: every chain is a duplicate-free list of
    blocks inside the side that are not reserved, chains share no block, slots are distinct … -/
structure WFFile (a : ASide) (f : AFile) : Prop where
  slot : f.slot < 112
  name : f.name.length = 8
  ext : f.ext.length = 3
  first : f.name.getD 0 0 ≠ 0 ∧ f.name.getD 0 0 ≠ 0xFF
  ne : f.chain ≠ []
  nd : f.chain.Nodup
  lt : ∀ b ∈ f.chain, b < 160
  free : ∀ b ∈ f.chain, a.reserved.contains b = false
  ls : 1 ≤ f.lastSectors ∧ f.lastSectors ≤ 8
  lb : f.lastBytes ≤ 255

structure WFSideDesc (a : ASide) : Prop where
  files : ∀ f ∈ a.files, WFFile a f
  res40 : a.reserved.contains 40 = true
  res41 : a.reserved.contains 41 = true
  slots : (a.files.map (·.slot)).Nodup
  chains : a.files.Pairwise (fun f g => ∀ b ∈ f.chain, b ∉ g.chain)
  delSlots : ∀ d ∈ a.deleted, d.1 < 112 ∧ d.2.length = 32 ∧ d.2.getD 0 0 = 0 ∧ ∀ f ∈ a.files, f.slot ≠ d.1
  delNodup : (a.deleted.map (·.1)).Nodup

theorem baseTable_length (a : ASide) : (baseTable a).length = 160 := by simp [baseTable]

theorem baseTable_getD (a : ASide) (b : Nat) (hb : b < 160) :
    (baseTable a).getD b 0 = if a.reserved.contains b then 0xFE else 0xFF := by
  unfold baseTable
  rw [List.getD_eq_getElem?_getD, List.getElem?_map, List.getElem?_range hb]
  rfl

theorem foldLink_length : ∀ (fs : List AFile) (t : List Nat),
    (fs.foldl (fun t f => linkChain t f.chain f.lastSectors) t).length = t.length := by
  intro fs
  induction fs with
  | nil => intro t; rfl
  | cons f rest ih => intro t; rw [List.foldl_cons, ih, linkChain_length]

theorem foldLink_other : ∀ (fs : List AFile) (t : List Nat) (x : Nat), (∀ f ∈ fs, x ∉ f.chain) →
    (fs.foldl (fun t f => linkChain t f.chain f.lastSectors) t).getD x 0 = t.getD x 0 := by
  intro fs
  induction fs with
  | nil => intro t x _; rfl
  | cons f rest ih =>
    intro t x h
    rw [List.foldl_cons, ih _ x (fun g hg => h g (by simp [hg])), linkChain_other _ _ _ _ _ (h f (by simp))]

/-- every file's chain is linked in the final table -/
theorem foldLink_linked : ∀ (fs : List AFile) (t : List Nat), t.length = 160 →
    fs.Pairwise (fun f g => ∀ b ∈ f.chain, b ∉ g.chain) → (∀ f ∈ fs, f.chain.Nodup ∧ ∀ b ∈ f.chain, b < 160) →
    ∀ f ∈ fs, Linked (fs.foldl (fun t f => linkChain t f.chain f.lastSectors) t) f.chain f.lastSectors := by
  intro fs
  induction fs with
  | nil => intro t _ _ _ f hf; simp at hf
  | cons g rest ih =>
    intro t ht hp hw f hf
    rw [List.foldl_cons]
    have hp' := (List.pairwise_cons.mp hp)
    rcases List.mem_cons.mp hf with rfl | hfr
    · -- linked right after its own step, untouched by the others
      have hl := linkChain_linked f.chain t f.lastSectors (hw f (by simp)).1 (fun b hb => by rw [ht]; exact (hw f (by simp)).2 b hb)
      apply linked_of_other _ _ _ _ _ hl
      intro x hx
      exact foldLink_other rest _ x (fun g' hg' hxg => hp'.1 g' hg' x hx hxg)
    · exact ih _ (by rw [linkChain_length]; exact ht) hp'.2 (fun g' hg' => hw g' (by simp [hg'])) f hfr

/-! ### folds of `set` -/

theorem foldSet_length {α β} (key : α → Nat) (val : α → β) : ∀ (l : List α) (c : List β),
    (l.foldl (fun c p => c.set (key p) (val p)) c).length = c.length := by
  intro l
  induction l with
  | nil => intro c; rfl
  | cons p rest ih => intro c; rw [List.foldl_cons, ih, List.length_set]

theorem foldSet_other {α β} (key : α → Nat) (val : α → β) (d : β) : ∀ (l : List α) (c : List β) (k : Nat),
    (∀ p ∈ l, key p ≠ k) → (l.foldl (fun c p => c.set (key p) (val p)) c).getD k d = c.getD k d := by
  intro l
  induction l with
  | nil => intro c k _; rfl
  | cons p rest ih =>
    intro c k h
    rw [List.foldl_cons, ih _ k (fun q hq => h q (by simp [hq])), getD_set_ne _ _ _ _ _ (h p (by simp))]

theorem foldSet_mem {α β} (key : α → Nat) (val : α → β) (d : β) : ∀ (l : List α) (c : List β),
    (l.map key).Nodup → ∀ p ∈ l, key p < c.length → (l.foldl (fun c p => c.set (key p) (val p)) c).getD (key p) d = val p := by
  intro l
  induction l with
  | nil => intro c _ p hp; simp at hp
  | cons q rest ih =>
    intro c hnd p hp hk
    rw [List.foldl_cons]
    simp only [List.map_cons, List.nodup_cons] at hnd
    rcases List.mem_cons.mp hp with rfl | hpr
    · rw [foldSet_other key val d rest _ (key p) (fun r hr e => hnd.1 (List.mem_map.mpr ⟨r, hr, e⟩)), getD_set_eq _ _ _ _ hk]
    · exact ih _ hnd.2 p hpr (by rw [List.length_set]; exact hk)

/-! ### the catalog -/

theorem catalogOf_length (a : ASide) : (Spec.Dos.catalogOf a).length = 112 := by
  unfold Spec.Dos.catalogOf
  dsimp only
  rw [foldSet_length (fun f : AFile => f.slot) (fun f => Spec.Dos.entryOf a.recPad f),
    foldSet_length (fun d : Nat × Bytes => d.1) (fun d => d.2)]
  simp

theorem catalogOf_file (a : ASide) (h : WFSideDesc a) (f : AFile) (hf : f ∈ a.files) :
    (Spec.Dos.catalogOf a).getD f.slot [] = Spec.Dos.entryOf a.recPad f := by
  unfold Spec.Dos.catalogOf
  dsimp only
  apply foldSet_mem (fun f : AFile => f.slot) (fun f => Spec.Dos.entryOf a.recPad f) [] a.files _ h.slots f hf
  rw [foldSet_length (fun d : Nat × Bytes => d.1) (fun d => d.2)]
  simp; exact (h.files f hf).slot

theorem catalogOf_deleted (a : ASide) (h : WFSideDesc a) (d : Nat × Bytes) (hd : d ∈ a.deleted) :
    (Spec.Dos.catalogOf a).getD d.1 [] = d.2 := by
  unfold Spec.Dos.catalogOf
  dsimp only
  rw [foldSet_other (fun f : AFile => f.slot) (fun f => Spec.Dos.entryOf a.recPad f) [] a.files _ d.1
    (fun f hf => (h.delSlots d hd).2.2.2 f hf)]
  apply foldSet_mem (fun d : Nat × Bytes => d.1) (fun d => d.2) [] a.deleted _ h.delNodup d hd
  simp; exact (h.delSlots d hd).1

theorem catalogOf_unused (a : ASide) (i : Nat) (hi : i < 112) (hf : ∀ f ∈ a.files, f.slot ≠ i) (hd : ∀ d ∈ a.deleted, d.1 ≠ i) :
    (Spec.Dos.catalogOf a).getD i [] = List.replicate 32 0xFF := by
  unfold Spec.Dos.catalogOf
  dsimp only
  rw [foldSet_other (fun f : AFile => f.slot) (fun f => Spec.Dos.entryOf a.recPad f) [] a.files _ i hf,
    foldSet_other (fun d : Nat × Bytes => d.1) (fun d => d.2) [] a.deleted _ i hd]
  rw [List.getD_eq_getElem?_getD, List.getElem?_replicate, if_pos hi]
  rfl

/-! ### the sectors of the rendered side -/

theorem foldSet_all {α β} (key : α → Nat) (val : α → β) (P : β → Prop) : ∀ (l : List α) (c : List β),
    (∀ x ∈ c, P x) → (∀ p ∈ l, P (val p)) → ∀ x ∈ l.foldl (fun c p => c.set (key p) (val p)) c, P x := by
  intro l
  induction l with
  | nil => intro c hc _ x hx; exact hc x hx
  | cons p rest ih =>
    intro c hc hv x hx
    rw [List.foldl_cons] at hx
    apply ih (c.set (key p) (val p)) _ (fun q hq => hv q (by simp [hq])) x hx
    intro y hy
    rcases List.mem_or_eq_of_mem_set hy with h | h
    · exact hc y h
    · rw [h]; exact hv p (by simp)

theorem fullSector_length (filler : Nat) (p : Bytes) (h : p.length ≤ 256) : (Spec.Dos.fullSector filler p).length = 256 := by
  simp [Spec.Dos.fullSector]; omega

/-- the side after the data sectors of all files: still 1280 sectors of 256 bytes -/
def dataSide (a : ASide) : Side :=
  a.files.foldl (fun sd f => (Spec.Dos.fileSectors a.filler f).foldl (fun sd p => sd.set p.1 p.2) sd)
    (List.replicate 1280 (List.replicate 256 a.filler))

theorem fileSectors_len (filler : Nat) (f : AFile) : ∀ p ∈ Spec.Dos.fileSectors filler f, p.2.length = 256 := by
  intro p hp
  unfold Spec.Dos.fileSectors at hp
  simp only [List.mem_flatMap, List.mem_map, List.mem_range] at hp
  obtain ⟨i, _, s, _, rfl⟩ := hp
  exact fullSector_length _ _ (by simp; omega)

theorem dataSide_wf (a : ASide) : (dataSide a).length = 1280 ∧ ∀ s ∈ dataSide a, s.length = 256 := by
  unfold dataSide
  have key : ∀ (fs : List AFile) (sd : Side), sd.length = 1280 → (∀ s ∈ sd, s.length = 256) →
      (fs.foldl (fun sd f => (Spec.Dos.fileSectors a.filler f).foldl (fun sd p => sd.set p.1 p.2) sd) sd).length = 1280
      ∧ ∀ s ∈ fs.foldl (fun sd f => (Spec.Dos.fileSectors a.filler f).foldl (fun sd p => sd.set p.1 p.2) sd) sd, s.length = 256 := by
    intro fs
    induction fs with
    | nil => intro sd h1 h2; exact ⟨h1, h2⟩
    | cons f rest ih =>
      intro sd h1 h2
      rw [List.foldl_cons]
      apply ih
      · rw [foldSet_length (fun p : Nat × Bytes => p.1) (fun p => p.2)]; exact h1
      · exact foldSet_all (fun p : Nat × Bytes => p.1) (fun p => p.2) (fun s => s.length = 256) _ sd h2 (fileSectors_len a.filler f)
  exact key a.files _ (List.length_replicate ..) (by intro s hs; rw [List.eq_of_mem_replicate hs]; exact List.length_replicate ..)

def tableSector (a : ASide) : Bytes := [a.byte0] ++ Spec.Dos.tableOf a ++ (List.range 95).map fun i => (a.tableTail * (i + 1)) % 256
def catSector (a : ASide) (k : Nat) : Bytes := (((Spec.Dos.catalogOf a).drop (8 * k)).take 8).flatten

theorem render_eq (a : ASide) :
    Spec.Dos.render a = (List.range 14).foldl (fun sd k => sd.set (322 + k) (catSector a k)) ((dataSide a).set 321 (tableSector a)) := rfl

theorem range_foldSet_get {β} (g : Nat → β) (d : β) (n base : Nat) : ∀ (c : List β), base + n ≤ c.length →
    (∀ j, j < n → ((List.range n).foldl (fun c k => c.set (base + k) (g k)) c).getD (base + j) d = g j)
    ∧ (∀ x, (x < base ∨ base + n ≤ x) → ((List.range n).foldl (fun c k => c.set (base + k) (g k)) c).getD x d = c.getD x d)
    ∧ ((List.range n).foldl (fun c k => c.set (base + k) (g k)) c).length = c.length := by
  induction n with
  | zero => intro c _; exact ⟨fun j hj => by omega, fun x _ => rfl, rfl⟩
  | succ n ih =>
    intro c hc
    rw [List.range_succ, List.foldl_append]
    simp only [List.foldl_cons, List.foldl_nil]
    obtain ⟨h1, h2, h3⟩ := ih c (by omega)
    refine ⟨?_, ?_, ?_⟩
    · intro j hj
      by_cases hjn : j = n
      · subst hjn; rw [getD_set_eq _ _ _ _ (by rw [h3]; omega)]
      · rw [getD_set_ne _ _ _ _ _ (by omega)]; exact h1 j (by omega)
    · intro x hx
      rw [getD_set_ne _ _ _ _ _ (by omega)]; exact h2 x (by omega)
    · rw [List.length_set]; exact h3

/-! ### catalog entries of the rendered side -/

theorem entryOf_length (a : ASide) (f : AFile) (h : WFFile a f) : (Spec.Dos.entryOf a.recPad f).length = 32 := by
  simp [Spec.Dos.entryOf, h.name, h.ext]

/-- what slot `i` of the description's catalog holds -/
theorem catalogOf_cases (a : ASide) (h : WFSideDesc a) (i : Nat) (hi : i < 112) :
    (∃ f ∈ a.files, f.slot = i ∧ (Spec.Dos.catalogOf a).getD i [] = Spec.Dos.entryOf a.recPad f)
    ∨ ((∀ f ∈ a.files, f.slot ≠ i) ∧ ∃ d ∈ a.deleted, d.1 = i ∧ (Spec.Dos.catalogOf a).getD i [] = d.2)
    ∨ ((∀ f ∈ a.files, f.slot ≠ i) ∧ (Spec.Dos.catalogOf a).getD i [] = List.replicate 32 0xFF) := by
  by_cases hf : ∃ f ∈ a.files, f.slot = i
  · obtain ⟨f, hfm, rfl⟩ := hf
    exact Or.inl ⟨f, hfm, rfl, catalogOf_file a h f hfm⟩
  · have hf' : ∀ f ∈ a.files, f.slot ≠ i := fun f hfm e => hf ⟨f, hfm, e⟩
    by_cases hd : ∃ d ∈ a.deleted, d.1 = i
    · obtain ⟨d, hdm, rfl⟩ := hd
      exact Or.inr (Or.inl ⟨hf', d, hdm, rfl, catalogOf_deleted a h d hdm⟩)
    · exact Or.inr (Or.inr ⟨hf', catalogOf_unused a i hi hf' (fun d hdm e => hd ⟨d, hdm, e⟩)⟩)

theorem catalogOf_entry_length (a : ASide) (h : WFSideDesc a) (i : Nat) (hi : i < 112) : ((Spec.Dos.catalogOf a).getD i []).length = 32 := by
  rcases catalogOf_cases a h i hi with ⟨f, hf, _, e⟩ | ⟨_, d, hd, _, e⟩ | ⟨_, e⟩
  · rw [e]; exact entryOf_length a f (h.files f hf)
  · rw [e]; exact (h.delSlots d hd).2.1
  · rw [e]; simp

/-- slicing the concatenation of 32-byte pieces gives back the pieces -/
theorem flatten_slice32 : ∀ (l : List Bytes) (j : Nat), (∀ x ∈ l, x.length = 32) → j < l.length →
    slice l.flatten (32 * j) (32 * j + 32) = l.getD j [] := by
  intro l
  induction l with
  | nil => intro j _ hj; simp at hj
  | cons x xs ih =>
    intro j hl hj
    have hx : x.length = 32 := hl x (by simp)
    cases j with
    | zero =>
      simp only [List.flatten_cons, Nat.mul_zero, Nat.zero_add, List.getD_cons_zero]
      unfold slice
      simp only [List.drop_zero, Nat.sub_zero]
      exact List.take_left' hx
    | succ j =>
      have := ih j (fun y hy => hl y (by simp [hy])) (by simpa using hj)
      simp only [List.flatten_cons, List.getD_cons_succ]
      unfold slice at this ⊢
      have e1 : 32 * (j + 1) = x.length + 32 * j := by omega
      have e2 : 32 * (j + 1) + 32 - 32 * (j + 1) = 32 * j + 32 - 32 * j := by omega
      rw [e2, e1, List.drop_append]
      rw [List.drop_of_length_le (by omega)]
      simpa using this

theorem catSector_slot (a : ASide) (h : WFSideDesc a) (i : Nat) (hi : i < 112) :
    slice (catSector a (i / 8)) (32 * (i % 8)) (32 * (i % 8) + 32) = (Spec.Dos.catalogOf a).getD i [] := by
  unfold catSector
  have hlen := catalogOf_length a
  have hl8 : (((Spec.Dos.catalogOf a).drop (8 * (i / 8))).take 8).length = 8 := by
    rw [List.length_take, List.length_drop, hlen]; omega
  rw [flatten_slice32 _ (i % 8) _ (by rw [hl8]; omega)]
  · rw [List.getD_eq_getElem?_getD, List.getElem?_take, if_pos (by omega), List.getElem?_drop, List.getD_eq_getElem?_getD]
    congr 2
    omega
  · intro x hx
    obtain ⟨n, hn, rfl⟩ := List.getElem_of_mem hx
    rw [hl8] at hn
    have : (List.take 8 (List.drop (8 * (i / 8)) (Spec.Dos.catalogOf a)))[n] = (Spec.Dos.catalogOf a).getD (8 * (i / 8) + n) [] := by
      rw [List.getD_eq_getElem?_getD]
      simp [List.getElem_take, List.getElem_drop]
      rw [List.getElem?_eq_getElem (by rw [hlen]; omega)]
      rfl
    rw [this]
    exact catalogOf_entry_length a h _ (by omega)

theorem catSector_length (a : ASide) (h : WFSideDesc a) (k : Nat) (hk : k < 14) : (catSector a k).length = 256 := by
  unfold catSector
  have hlen := catalogOf_length a
  have hl8 : (((Spec.Dos.catalogOf a).drop (8 * k)).take 8).length = 8 := by
    rw [List.length_take, List.length_drop, hlen]; omega
  rw [List.length_flatten]
  have : (((Spec.Dos.catalogOf a).drop (8 * k)).take 8).map List.length = List.replicate 8 32 := by
    apply List.ext_getElem
    · rw [List.length_map, hl8, List.length_replicate]
    · intro n h1 h2
      simp only [List.getElem_map, List.getElem_replicate]
      have hn : n < 8 := by rw [List.length_map, hl8] at h1; exact h1
      have : (List.take 8 (List.drop (8 * k) (Spec.Dos.catalogOf a)))[n]'(by rw [hl8]; exact hn) = (Spec.Dos.catalogOf a).getD (8 * k + n) [] := by
        rw [List.getD_eq_getElem?_getD]
        simp [List.getElem_take, List.getElem_drop]
        rw [List.getElem?_eq_getElem (by rw [hlen]; omega)]
        rfl
      rw [this]
      exact catalogOf_entry_length a h _ (by omega)
  rw [this]
  simp

/-! ### the rendered side is consistent -/

theorem tableOf_length (a : ASide) : (Spec.Dos.tableOf a).length = 160 := by
  rw [tableOf_eq, foldLink_length, baseTable_length]

theorem foldLink_valid : ∀ (fs : List AFile) (t : List Nat), t.all validStatus = true →
    (∀ f ∈ fs, (∀ b ∈ f.chain, b < 160) ∧ 1 ≤ f.lastSectors ∧ f.lastSectors ≤ 8) →
    (fs.foldl (fun t f => linkChain t f.chain f.lastSectors) t).all validStatus = true := by
  intro fs
  induction fs with
  | nil => intro t h _; exact h
  | cons f rest ih =>
    intro t h hw
    rw [List.foldl_cons]
    obtain ⟨h1, h2, h3⟩ := hw f (by simp)
    exact ih _ (linkChain_valid f.chain t f.lastSectors h h1 h2 h3) (fun g hg => hw g (by simp [hg]))

theorem baseTable_valid (a : ASide) : (baseTable a).all validStatus = true := by
  unfold baseTable
  rw [List.all_eq_true]
  intro s hs
  obtain ⟨b, _, rfl⟩ := List.mem_map.mp hs
  split <;> decide

theorem tableOf_valid (a : ASide) (h : WFSideDesc a) : (Spec.Dos.tableOf a).all validStatus = true := by
  rw [tableOf_eq]
  exact foldLink_valid a.files _ (baseTable_valid a) (fun f hf => ⟨(h.files f hf).lt, (h.files f hf).ls.1, (h.files f hf).ls.2⟩)

theorem render_sector_table (a : ASide) : (Spec.Dos.render a).getD 321 [] = tableSector a := by
  rw [render_eq]
  have hlen : ((dataSide a).set 321 (tableSector a)).length = 1280 := by rw [List.length_set]; exact (dataSide_wf a).1
  rw [(range_foldSet_get (catSector a) [] 14 322 _ (by rw [hlen]; omega)).2.1 321 (Or.inl (by omega))]
  exact getD_set_eq _ _ _ _ (by rw [(dataSide_wf a).1]; omega)

theorem render_sector_cat (a : ASide) (k : Nat) (hk : k < 14) : (Spec.Dos.render a).getD (322 + k) [] = catSector a k := by
  rw [render_eq]
  have hlen : ((dataSide a).set 321 (tableSector a)).length = 1280 := by rw [List.length_set]; exact (dataSide_wf a).1
  exact (range_foldSet_get (catSector a) [] 14 322 _ (by rw [hlen]; omega)).1 k hk

theorem tableSector_length (a : ASide) : (tableSector a).length = 256 := by
  simp [tableSector, tableOf_length]

theorem render_wf (a : ASide) (h : WFSideDesc a) : C11.WFSide (Spec.Dos.render a) := by
  rw [render_eq]
  have hlen : ((dataSide a).set 321 (tableSector a)).length = 1280 := by rw [List.length_set]; exact (dataSide_wf a).1
  constructor
  · rw [(range_foldSet_get (catSector a) [] 14 322 _ (by rw [hlen]; omega)).2.2, hlen]
  · apply foldSet_all (fun k : Nat => 322 + k) (catSector a) (fun s => s.length = 256) (List.range 14)
    · intro x hx
      rcases List.mem_or_eq_of_mem_set hx with h1 | h1
      · exact (dataSide_wf a).2 x h1
      · rw [h1]; exact tableSector_length a
    · intro k hk
      exact catSector_length a h k (List.mem_range.mp hk)

theorem render_getBat (a : ASide) (h : WFSideDesc a) : getBat (Spec.Dos.render a) = .ok (Spec.Dos.tableOf a) := by
  unfold getBat
  dsimp only
  have hs : getSector (Spec.Dos.render a) batTrack batSector = tableSector a := by
    unfold getSector
    have : idx batTrack batSector = 321 := rfl
    rw [this]; exact render_sector_table a
  rw [hs]
  have hT := tableOf_length a
  have hst : (List.range numBlocks).map (fun i => (tableSector a).getD (i + 1) 0) = Spec.Dos.tableOf a := by
    apply List.ext_getElem
    · simp [numBlocks, hT]
    · intro i h1 h2
      simp only [List.getElem_map, List.getElem_range]
      have hi : i < 160 := by simpa [numBlocks] using h1
      unfold tableSector
      rw [List.getD_eq_getElem?_getD, List.append_assoc, List.getElem?_append_right (by simp)]
      simp only [List.length_singleton, Nat.add_sub_cancel]
      rw [List.getElem?_append_left (by omega)]
      simp [List.getElem?_eq_getElem (by omega : i < (Spec.Dos.tableOf a).length)]
  rw [hst, tableOf_valid a h]
  rfl

theorem render_slotData (a : ASide) (h : WFSideDesc a) (i : Nat) (hi : i < 112) :
    slotData (Spec.Dos.render a) i = (Spec.Dos.catalogOf a).getD i [] := by
  unfold slotData getSector
  have : idx batTrack (2 + i / 8) = 322 + i / 8 := by
    unfold idx batTrack; have : Gen.Disk.sectorsPerTrack = 16 := rfl; rw [this]; omega
  rw [this, render_sector_cat a (i / 8) (by omega)]
  exact catSector_slot a h i hi

/-- the chain the description gives to catalog slot `i` -/
def ownOf (a : ASide) (i : Nat) : List Nat :=
  match a.files.find? (fun f => f.slot == i) with
  | some f => f.chain
  | none => []

theorem ownOf_file (a : ASide) (h : WFSideDesc a) (f : AFile) (hf : f ∈ a.files) : ownOf a f.slot = f.chain := by
  unfold ownOf
  have key : ∀ (fs : List AFile), (fs.map (·.slot)).Nodup → f ∈ fs → fs.find? (fun g => g.slot == f.slot) = some f := by
    intro fs
    induction fs with
    | nil => intro _ hm; simp at hm
    | cons g rest ih =>
      intro hnd hm
      simp only [List.map_cons, List.nodup_cons] at hnd
      rcases List.mem_cons.mp hm with rfl | hr
      · simp
      · have hne : g.slot ≠ f.slot := fun e => hnd.1 (List.mem_map.mpr ⟨f, hr, e.symm⟩)
        rw [List.find?_cons_of_neg (by simpa using hne)]
        exact ih hnd.2 hr
  rw [key a.files h.slots hf]

theorem entryOf_13 (a : ASide) (f : AFile) (h : WFFile a f) : (Spec.Dos.entryOf a.recPad f).getD 13 0 = f.chain.getD 0 0 := by
  unfold Spec.Dos.entryOf
  have h11 : (f.name ++ f.ext).length = 11 := by simp [h.name, h.ext]
  rw [List.getD_eq_getElem?_getD, List.append_assoc, List.getElem?_append_right (by omega), h11]
  rfl

theorem entryOf_0 (a : ASide) (f : AFile) (h : WFFile a f) : (Spec.Dos.entryOf a.recPad f).getD 0 0 = f.name.getD 0 0 := by
  unfold Spec.Dos.entryOf
  rw [List.getD_eq_getElem?_getD, List.append_assoc, List.append_assoc, List.getElem?_append_left (by rw [h.name]; omega),
    List.getD_eq_getElem?_getD]

theorem entryOf_drop11 (a : ASide) (f : AFile) (h : WFFile a f) :
    (Spec.Dos.entryOf a.recPad f).drop 11
      = [f.kind, f.flag, f.chain.getD 0 0, f.lastBytes / 256, f.lastBytes % 256] ++ List.replicate 16 a.recPad := by
  unfold Spec.Dos.entryOf
  have h11 : (f.name ++ f.ext).length = 11 := by simp [h.name, h.ext]
  rw [List.append_assoc, List.drop_left' h11]

theorem entryOf_lastb (a : ASide) (f : AFile) (h : WFFile a f) :
    (Spec.Dos.entryOf a.recPad f).getD 14 0 * 256 + (Spec.Dos.entryOf a.recPad f).getD 15 0 = f.lastBytes := by
  have h14 : (Spec.Dos.entryOf a.recPad f)[14]? = ((Spec.Dos.entryOf a.recPad f).drop 11)[3]? := by rw [List.getElem?_drop]
  have h15 : (Spec.Dos.entryOf a.recPad f)[15]? = ((Spec.Dos.entryOf a.recPad f).drop 11)[4]? := by rw [List.getElem?_drop]
  rw [List.getD_eq_getElem?_getD, List.getD_eq_getElem?_getD, h14, h15, entryOf_drop11 a f h]
  simp only [List.cons_append, List.getElem?_cons_succ, List.getElem?_cons_zero, Option.getD_some]
  have hlb := h.lb
  have h1 : f.lastBytes / 256 = 0 := Nat.div_eq_of_lt (by omega)
  have h2 : f.lastBytes % 256 = f.lastBytes := Nat.mod_eq_of_lt (by omega)
  rw [h1, h2]; simp

/-- a slot of the rendered side is live exactly when the description has a file there -/
theorem render_live (a : ASide) (h : WFSideDesc a) (i : Nat) (hi : i < 112) (hl : liveData (slotData (Spec.Dos.render a) i)) :
    ∃ f ∈ a.files, f.slot = i ∧ slotData (Spec.Dos.render a) i = Spec.Dos.entryOf a.recPad f := by
  rw [render_slotData a h i hi] at hl ⊢
  rcases catalogOf_cases a h i hi with ⟨f, hf, hs, e⟩ | ⟨_, d, hd, _, e⟩ | ⟨_, e⟩
  · exact ⟨f, hf, hs, e⟩
  · rw [e] at hl; exact absurd (h.delSlots d hd).2.2.1 hl.2
  · rw [e] at hl; exact absurd (by rfl) hl.1

theorem tableOf_chain_block (a : ASide) (h : WFSideDesc a) (f : AFile) (hf : f ∈ a.files) :
    Linked (Spec.Dos.tableOf a) f.chain f.lastSectors := by
  rw [tableOf_eq]
  exact foldLink_linked a.files _ (baseTable_length a) h.chains (fun g hg => ⟨(h.files g hg).nd, (h.files g hg).lt⟩) f hf

theorem tableOf_outside (a : ASide) (b : Nat) (hb : b < 160) (hn : ∀ f ∈ a.files, b ∉ f.chain) :
    (Spec.Dos.tableOf a).getD b 0 = if a.reserved.contains b then 0xFE else 0xFF := by
  rw [tableOf_eq, foldLink_other a.files _ b hn, baseTable_getD a b hb]

theorem chains_disjoint (a : ASide) (h : WFSideDesc a) (f g : AFile) (hf : f ∈ a.files) (hg : g ∈ a.files) (hne : f.slot ≠ g.slot) :
    ∀ b ∈ f.chain, b ∉ g.chain := by
  have key : ∀ (fs : List AFile), fs.Pairwise (fun f g => ∀ b ∈ f.chain, b ∉ g.chain) → f ∈ fs → g ∈ fs → ∀ b ∈ f.chain, b ∉ g.chain := by
    intro fs
    induction fs with
    | nil => intro _ hm; simp at hm
    | cons x rest ih =>
      intro hp hfm hgm
      obtain ⟨hx, hrest⟩ := List.pairwise_cons.mp hp
      rcases List.mem_cons.mp hfm with rfl | hfr
      · rcases List.mem_cons.mp hgm with rfl | hgr
        · exact absurd rfl hne
        · exact hx g hgr
      · rcases List.mem_cons.mp hgm with rfl | hgr
        · intro b hb hbg
          exact hx f hfr b hbg hb
        · exact ih hrest hfr hgr
  exact key a.files h.chains hf hg

/-- **the independent writer produces consistent sides**: for every well-formed description,
    `Spec.Dos.render` yields a side that satisfies the file-system invariant, each slot owning the
    chain the description gives it -/
theorem render_inv (a : ASide) (h : WFSideDesc a) : SideInv (Spec.Dos.render a) (Spec.Dos.tableOf a) (ownOf a) where
  wf := render_wf a h
  hbat := render_getBat a h
  res40 := by
    rw [tableOf_outside a 40 (by omega) (fun f hf hm => by
      have := (h.files f hf).free 40 hm; rw [h.res40] at this; cases this), h.res40]
    rfl
  res41 := by
    rw [tableOf_outside a 41 (by omega) (fun f hf hm => by
      have := (h.files f hf).free 41 hm; rw [h.res41] at this; cases this), h.res41]
    rfl
  chain := by
    intro i hi hl
    obtain ⟨f, hf, hs, e⟩ := render_live a h i hi hl
    have hw := h.files f hf
    subst hs
    rw [ownOf_file a h f hf, e, entryOf_13 a f hw]
    obtain ⟨b, rest, hc⟩ := List.exists_cons_of_ne_nil hw.ne
    refine ⟨rest, f.lastSectors, by rw [hc]; rfl, hw.ls.1, hw.ls.2, tableOf_chain_block a h f hf, hw.nd, hw.lt⟩
  lastb := by
    intro i hi hl
    obtain ⟨f, hf, _, e⟩ := render_live a h i hi hl
    rw [e, entryOf_lastb a f (h.files f hf)]
    exact (h.files f hf).lb
  disj := by
    intro i j hi hj hij hli hlj
    obtain ⟨f, hf, hfs, _⟩ := render_live a h i hi hli
    obtain ⟨g, hg, hgs, _⟩ := render_live a h j hj hlj
    subst hfs hgs
    rw [ownOf_file a h f hf, ownOf_file a h g hg]
    exact chains_disjoint a h f g hf hg hij
  used := by
    intro b hb
    constructor
    · intro ⟨h1, h2⟩
      apply Classical.byContradiction
      intro hno
      have hn : ∀ f ∈ a.files, b ∉ f.chain := by
        intro f hf hm
        apply hno
        refine ⟨f.slot, (h.files f hf).slot, ?_, by rw [ownOf_file a h f hf]; exact hm⟩
        rw [render_slotData a h f.slot (h.files f hf).slot, catalogOf_file a h f hf]
        have := entryOf_0 a f (h.files f hf)
        exact ⟨by rw [this]; exact (h.files f hf).first.2, by rw [this]; exact (h.files f hf).first.1⟩
      rw [tableOf_outside a b hb hn] at h1 h2
      by_cases hr : a.reserved.contains b = true
      · rw [if_pos hr] at h2; revert h2; decide
      · rw [if_neg hr] at h1; revert h1; decide
    · rintro ⟨i, hi, hl, hm⟩
      obtain ⟨f, hf, hfs, _⟩ := render_live a h i hi hl
      subst hfs
      rw [ownOf_file a h f hf] at hm
      exact linked_all_used _ _ (h.files f hf).ls.2 f.chain (tableOf_chain_block a h f hf) (h.files f hf).lt b hm

/-! ### the data sectors of the rendered side -/

def allSectors (a : ASide) : List (Nat × Bytes) := a.files.flatMap (Spec.Dos.fileSectors a.filler)

theorem dataSide_eq (a : ASide) :
    dataSide a = (allSectors a).foldl (fun sd p => sd.set p.1 p.2) (List.replicate 1280 (List.replicate 256 a.filler)) := by
  unfold dataSide allSectors
  rw [List.foldl_flatMap]

/-- the keys written for one file: `8 b + s` for the blocks `b` of its chain -/
theorem mem_fileSectors (filler : Nat) (f : AFile) (hls : f.lastSectors ≤ 8) (p : Nat × Bytes) (hp : p ∈ Spec.Dos.fileSectors filler f) :
    ∃ i s, i < f.chain.length ∧ s < 8 ∧ (i + 1 = f.chain.length → s < f.lastSectors) ∧ p.1 = 8 * f.chain.getD i 0 + s
      ∧ p.2 = Spec.Dos.fullSector filler ((f.content.drop (255 * (8 * i + s))).take 255) := by
  unfold Spec.Dos.fileSectors at hp
  simp only [List.mem_flatMap, List.mem_map, List.mem_range] at hp
  obtain ⟨i, hi, s, hs, rfl⟩ := hp
  refine ⟨i, s, hi, ?_, ?_, ?_, rfl⟩
  · split at hs
    · omega
    · exact hs
  · intro hlast; rw [if_pos hlast] at hs; exact hs
  · dsimp only; omega

theorem fileSectors_mem (filler : Nat) (f : AFile) (i s : Nat) (hi : i < f.chain.length) (hs : s < 8)
    (hlast : i + 1 = f.chain.length → s < f.lastSectors) :
    ((f.chain.getD i 0 / 2) * 16 + 8 * (f.chain.getD i 0 % 2) + s,
      Spec.Dos.fullSector filler ((f.content.drop (255 * (8 * i + s))).take 255)) ∈ Spec.Dos.fileSectors filler f := by
  unfold Spec.Dos.fileSectors
  simp only [List.mem_flatMap, List.mem_map, List.mem_range]
  refine ⟨i, hi, s, ?_, rfl⟩
  split
  · rename_i hl; exact hlast hl
  · exact hs

theorem getD_inj_nodup (l : List Nat) (h : l.Nodup) (i j : Nat) (hi : i < l.length) (hj : j < l.length) (he : l.getD i 0 = l.getD j 0) : i = j :=
  getD_inj_of_nodup l h i j hi hj he

/-- no data sector is written twice -/
theorem allSectors_keys_nodup (a : ASide) (h : WFSideDesc a) : ((allSectors a).map (·.1)).Nodup := by
  unfold allSectors
  rw [List.map_flatMap]
  unfold List.Nodup
  rw [List.pairwise_flatMap]
  constructor
  · -- within one file
    intro f hf
    have hw := h.files f hf
    rw [List.pairwise_map]
    -- two different positions of the list of sectors have different keys: show via indices
    unfold Spec.Dos.fileSectors
    rw [List.pairwise_flatMap]
    constructor
    · intro i hi
      rw [List.pairwise_map]
      apply List.Pairwise.imp_of_mem _ (List.nodup_range (n := if i + 1 = f.chain.length then f.lastSectors else 8))
      intro s s' _ _ hne
      dsimp only
      omega
    · apply List.Pairwise.imp_of_mem _ (List.nodup_range (n := f.chain.length))
      intro i j hi hj hne x hx y hy
      simp only [List.mem_map, List.mem_range] at hx hy
      obtain ⟨s, hs, rfl⟩ := hx
      obtain ⟨s', hs', rfl⟩ := hy
      dsimp only
      have hi' := List.mem_range.mp hi
      have hj' := List.mem_range.mp hj
      have hbne : f.chain.getD i 0 ≠ f.chain.getD j 0 := fun e => hne (getD_inj_nodup f.chain hw.nd i j hi' hj' e)
      have hls8 := hw.ls.2
      have hs8 : s < 8 := by split at hs <;> omega
      have hs8' : s' < 8 := by split at hs' <;> omega
      omega
  · -- across files
    apply List.Pairwise.imp_of_mem _ h.chains
    intro f g hf hg hdis x hx y hy
    obtain ⟨p, hp, rfl⟩ := List.mem_map.mp hx
    obtain ⟨q, hq, rfl⟩ := List.mem_map.mp hy
    obtain ⟨i, s, hi, hs, _, hk, _⟩ := mem_fileSectors a.filler f (h.files f hf).ls.2 p hp
    obtain ⟨j, s', hj, hs', _, hk', _⟩ := mem_fileSectors a.filler g (h.files g hg).ls.2 q hq
    rw [hk, hk']
    have hb : f.chain.getD i 0 ∈ f.chain := by rw [List.getD_eq_getElem?_getD, List.getElem?_eq_getElem hi]; simp
    have hb' : g.chain.getD j 0 ∈ g.chain := by rw [List.getD_eq_getElem?_getD, List.getElem?_eq_getElem hj]; simp
    have : f.chain.getD i 0 ≠ g.chain.getD j 0 := fun e => hdis _ hb (e ▸ hb')
    omega

theorem fullSector_eq_setPayload (filler : Nat) (p : Bytes) (hp : p.length ≤ 255) :
    Spec.Dos.fullSector filler p = setPayload (List.replicate 256 filler) p := by
  rw [C11.setPayload_eq, List.take_of_length_le (by omega)]
  have : min p.length 256 = p.length := by omega
  rw [this, List.drop_replicate]
  rfl

/-- every data sector of a file of the description, in the rendered side: the 255-byte slice of its
    content, written over a blank sector -/
theorem render_data (a : ASide) (h : WFSideDesc a) (f : AFile) (hf : f ∈ a.files) (j : Nat)
    (hj : j < 8 * (f.chain.length - 1) + f.lastSectors) :
    (Spec.Dos.render a).getD (flatOf f.chain j) []
      = setPayload ((List.replicate 1280 (List.replicate 256 a.filler)).getD (flatOf f.chain j) []) (sliceJ f.content j) := by
  have hw := h.files f hf
  have hn : 1 ≤ f.chain.length := by
    cases hc : f.chain with
    | nil => exact absurd hc hw.ne
    | cons _ _ => simp
  have hi : j / 8 < f.chain.length := by have := hw.ls.2; omega
  have hs : j % 8 < 8 := Nat.mod_lt _ (by omega)
  have hlast : j / 8 + 1 = f.chain.length → j % 8 < f.lastSectors := by intro hl; omega
  have hbm : f.chain.getD (j / 8) 0 ∈ f.chain := by rw [List.getD_eq_getElem?_getD, List.getElem?_eq_getElem hi]; simp
  have hb160 := hw.lt _ hbm
  have hbfree := hw.free _ hbm
  have hb40 : f.chain.getD (j / 8) 0 ≠ 40 := fun e => by rw [e, h.res40] at hbfree; cases hbfree
  have hb41 : f.chain.getD (j / 8) 0 ≠ 41 := fun e => by rw [e, h.res41] at hbfree; cases hbfree
  have hkey : (f.chain.getD (j / 8) 0 / 2) * 16 + 8 * (f.chain.getD (j / 8) 0 % 2) + j % 8 = flatOf f.chain j := by
    unfold flatOf; omega
  have hmem := fileSectors_mem a.filler f (j / 8) (j % 8) hi hs hlast
  rw [hkey] at hmem
  have hj8 : 8 * (j / 8) + j % 8 = j := by omega
  rw [hj8] at hmem
  have hall : (flatOf f.chain j, Spec.Dos.fullSector a.filler ((f.content.drop (255 * j)).take 255)) ∈ allSectors a := by
    unfold allSectors
    exact List.mem_flatMap.mpr ⟨f, hf, hmem⟩
  have hflat : flatOf f.chain j < 1280 := by unfold flatOf; omega
  -- value in the data side
  have hdata : (dataSide a).getD (flatOf f.chain j) [] = Spec.Dos.fullSector a.filler ((f.content.drop (255 * j)).take 255) := by
    rw [dataSide_eq]
    exact foldSet_mem (fun p : Nat × Bytes => p.1) (fun p => p.2) [] (allSectors a) _ (allSectors_keys_nodup a h) _ hall
      (by rw [List.length_replicate]; exact hflat)
  -- not overwritten by the table and the catalog
  have hne : flatOf f.chain j < 320 ∨ 336 ≤ flatOf f.chain j := by unfold flatOf; omega
  rw [render_eq]
  have hlen : ((dataSide a).set 321 (tableSector a)).length = 1280 := by rw [List.length_set]; exact (dataSide_wf a).1
  rw [(range_foldSet_get (catSector a) [] 14 322 _ (by rw [hlen]; omega)).2.1 _ (by omega), getD_set_ne _ _ _ _ _ (by omega), hdata]
  have hblank : (List.replicate 1280 (List.replicate 256 a.filler)).getD (flatOf f.chain j) [] = List.replicate 256 a.filler := by
    rw [List.getD_eq_getElem?_getD, List.getElem?_replicate, if_pos hflat]; rfl
  rw [hblank]
  have hsl : (f.content.drop (255 * j)).take 255 = sliceJ f.content j := by
    unfold sliceJ slice
    rw [Nat.mul_comm 255 j]
    congr 1
    omega
  rw [hsl]
  exact fullSector_eq_setPayload a.filler _ (by rw [sliceJ_length]; omega)

theorem blank_wf (filler : Nat) : C11.WFSide (List.replicate 1280 (List.replicate 256 filler)) :=
  ⟨List.length_replicate .., fun s hs => by rw [List.eq_of_mem_replicate hs]; exact List.length_replicate ..⟩

/-- **reader ∘ independent writer**: the tool's reader, on the rendered side, returns for every
    file of the description exactly its content (any allocation order, any number of sectors in the
    last block, any number of bytes — 0 included — in the last sector) -/
theorem render_content (a : ASide) (h : WFSideDesc a) (f : AFile) (hf : f ∈ a.files)
    (hsize : 255 * (8 * (f.chain.length - 1) + f.lastSectors - 1) + f.lastBytes = f.content.length) :
    fileOf (Spec.Dos.render a) (Spec.Dos.tableOf a) (ownOf a) f.slot = f.content := by
  have hw := h.files f hf
  have inv := render_inv a h
  have hn : 1 ≤ f.chain.length := by
    cases hc : f.chain with
    | nil => exact absurd hc hw.ne
    | cons _ _ => simp
  unfold fileOf
  rw [ownOf_file a h f hf, render_slotData a h f.slot hw.slot, catalogOf_file a h f hf]
  have hlb : (Spec.Dos.entryOf a.recPad f).getD 14 0 * 256 + (Spec.Dos.entryOf a.recPad f).getD 15 0 ≤ 255 := by
    rw [entryOf_lastb a f hw]; exact hw.lb
  have hrl := recordOfBytes_lastBytes (Spec.Dos.entryOf a.recPad f) hlb
  have helb : (⟨1, recordOfBytes (Spec.Dos.entryOf a.recPad f), f.chain⟩ : Entry).lastBytes = f.lastBytes := by
    unfold Entry.lastBytes; dsimp only; rw [hrl, entryOf_lastb a f hw]
  have hlk := tableOf_chain_block a h f hf
  rw [readFile_pieces (Spec.Dos.render a) inv.wf (Spec.Dos.tableOf a) ⟨1, recordOfBytes (Spec.Dos.entryOf a.recPad f), f.chain⟩
    f.lastSectors hw.ls.1 hw.ls.2 hw.ne hw.lt (fun last hlast => linked_last f.lastSectors f.chain _ hlk last hlast) (by rw [helb]; exact hw.lb)]
  rw [helb]
  dsimp only
  have hp := piecesFrom_written (List.replicate 1280 (List.replicate 256 a.filler)) (Spec.Dos.render a) f.chain f.content
    (8 * (f.chain.length - 1) + f.lastSectors) f.lastBytes f.chain.length f.lastSectors (blank_wf a.filler)
    (fun j hj => render_data a h f hf j hj) hsize hw.lb rfl hn hw.ls.1 hw.ls.2 rfl f.chain.length 0 (by omega)
  simp only [List.drop_zero, Nat.mul_zero, Nat.zero_mul] at hp
  rw [hp]
  apply slice_all
  rw [← hsize]
  have h1 := hw.lb
  have h2 := hw.ls.1
  obtain ⟨m, hm⟩ : ∃ m, 8 * (f.chain.length - 1) + f.lastSectors = m + 1 := ⟨8 * (f.chain.length - 1) + f.lastSectors - 1, by omega⟩
  rw [hm, Nat.add_sub_cancel, Nat.add_mul]
  omega

/-! ### the executable check implies the hypotheses -/

theorem wfDescB_sound (a : ASide) (h : Spec.Dos.wfDescB a = true) :
    WFSideDesc a ∧ ∀ f ∈ a.files, 255 * (8 * (f.chain.length - 1) + f.lastSectors - 1) + f.lastBytes = f.content.length := by
  unfold Spec.Dos.wfDescB at h
  simp only [Bool.and_eq_true, List.all_eq_true, decide_eq_true_eq, beq_iff_eq, bne_iff_ne, ne_eq] at h
  obtain ⟨⟨⟨⟨⟨⟨hfiles, h40⟩, h41⟩, hslots⟩, hchains⟩, hdel⟩, hdn⟩ := h
  have hfile : ∀ f ∈ a.files, WFFile a f ∧ 255 * (8 * (f.chain.length - 1) + f.lastSectors - 1) + f.lastBytes = f.content.length := by
    intro f hf
    have := hfiles f hf
    unfold Spec.Dos.wfFileB at this
    simp only [Bool.and_eq_true, List.all_eq_true, decide_eq_true_eq, beq_iff_eq, bne_iff_ne, ne_eq, Bool.not_eq_true',
      List.isEmpty_eq_false_iff] at this
    obtain ⟨⟨⟨⟨⟨⟨⟨⟨⟨⟨⟨⟨h1, h2⟩, h3⟩, h4⟩, h5⟩, h6⟩, h7⟩, h8⟩, h9⟩, h10⟩, h11⟩, h12⟩, h13⟩ := this
    exact ⟨⟨h1, h2, h3, ⟨h4, h5⟩, h6, h7, h8, fun b hb => by simpa using h9 b hb, ⟨h10, h11⟩, h12⟩, h13⟩
  refine ⟨⟨fun f hf => (hfile f hf).1, h40, h41, hslots, hchains, ?_, hdn⟩, fun f hf => (hfile f hf).2⟩
  intro d hd
  obtain ⟨⟨⟨d1, d2⟩, d3⟩, d4⟩ := hdel d hd
  refine ⟨d1, d2, ?_, fun f hf => d4 f hf⟩
  -- first byte 00: `getD 0 1 = 0` excludes the empty list, so `getD 0 0 = 0` as well
  cases hq : d.2 with
  | nil => rw [hq] at d2; simp at d2
  | cons x xs => rw [hq] at d3; simpa using d3

end Moto.Disk
