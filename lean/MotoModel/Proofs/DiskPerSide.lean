/-
  Per side, the number of files a create/add report announces stored equals the number of files
  the image gained on that side.
-/
import MotoModel.Proofs.DiskSmall
namespace Moto.Disk
open Moto Moto.Tape

/-- slot `j` of side `k` holds a file in `b` and held none in `a` -/
def isNew (a b : Image) (k j : Nat) : Bool := (imgFileAt a k j).isNone && (imgFileAt b k j).isSome

/-- number of files side `k` gained from `a` to `b` -/
def newOn (a b : Image) (k : Nat) : Nat := (List.range 112).countP (isNew a b k)

/-- number of announcements in the section of side `k` -/
def announcedOn (k : Nat) (ps : List (Nat × FileEv)) : Nat := ps.countP (fun p => p.1 == k)

theorem announcedOn_append (k : Nat) (a b : List (Nat × FileEv)) : announcedOn k (a ++ b) = announcedOn k a + announcedOn k b := by
  simp [announcedOn, List.countP_append]

theorem countP_split {α : Type} (p q r : α → Bool) : ∀ (l : List α),
    (∀ x ∈ l, r x = (p x || q x) ∧ (p x && q x) = false) → l.countP r = l.countP p + l.countP q := by
  intro l
  induction l with
  | nil => intro _; rfl
  | cons x xs ih =>
    intro h
    have hx := h x (by simp)
    have := ih (fun y hy => h y (by simp [hy]))
    simp only [List.countP_cons, this]
    cases hp : p x <;> cases hq : q x <;> simp [hp, hq] at hx <;> simp [hx] <;> omega

theorem newOn_trans {a b c : Image} (h1 : Keeps a b) (h2 : Keeps b c) (k : Nat) (hk : k < 4) :
    newOn a c k = newOn a b k + newOn b c k := by
  unfold newOn
  apply countP_split
  intro j hj
  have hj : j < 112 := by simpa using hj
  unfold isNew
  cases ha : imgFileAt a k j with
  | some f =>
    have hb := h1 k j f hk hj ha
    have hc := h2 k j f hk hj hb
    simp [hb, hc]
  | none =>
    cases hb : imgFileAt b k j with
    | some f => have hc := h2 k j f hk hj hb; simp [hc]
    | none => simp

theorem newOn_same {a b : Image} (k : Nat) (h : ∀ j, j < 112 → imgFileAt b k j = imgFileAt a k j) : newOn a b k = 0 := by
  unfold newOn
  rw [List.countP_eq_zero]
  intro j hj
  have hj : j < 112 := by simpa using hj
  unfold isNew
  rw [h j hj]
  cases imgFileAt a k j <;> simp

theorem countP_range_eq (n i0 : Nat) (h : i0 < n) : (List.range n).countP (fun j => j == i0) = 1 := by
  induction n with
  | zero => omega
  | succ n ih =>
    rw [List.range_succ, List.countP_append]
    by_cases hi : i0 < n
    · rw [ih hi]; simp; omega
    · have : i0 = n := by omega
      subst this
      have : (List.range i0).countP (fun j => j == i0) = 0 := by
        rw [List.countP_eq_zero]; intro j hj; have : j < i0 := by simpa using hj
        simp; omega
      rw [this]; simp

theorem newOn_one {a b : Image} (k i0 : Nat) (hi : i0 < 112) (f : Bytes × Bytes)
    (hnone : imgFileAt a k i0 = none) (hnew : imgFileAt b k i0 = some f)
    (hrest : ∀ k' j, k' < 4 → j < 112 → ¬ (k' = k ∧ j = i0) → imgFileAt b k' j = imgFileAt a k' j) (k' : Nat) (hk' : k' < 4) :
    newOn a b k' = if k' = k then 1 else 0 := by
  by_cases hk : k' = k
  · subst hk
    rw [if_pos rfl]
    unfold newOn
    rw [← countP_range_eq 112 i0 hi]
    apply List.countP_congr
    intro j hj
    have hj : j < 112 := by simpa using hj
    unfold isNew
    by_cases hji : j = i0
    · subst hji; simp [hnone, hnew]
    · rw [hrest k' j hk' hj (fun h => hji h.2)]
      cases imgFileAt a k' j <;> simp [hji]
  · rw [if_neg hk]
    exact newOn_same k' (fun j hj => hrest k' j hk' hj (fun h => hk h.1))


/-- one offered file: in every section, as many announcements as the side gained files -/
theorem injWriteFile_count (name ext : Str) (kind flag : Nat) (data : Bytes) (hname : ∀ c ∈ name, c ≠ 0xFF)
    (st : Inj) (h : ImgOk st.img) (hc : st.cur < 4) :
    ∃ st', injWriteFile name ext kind flag data 4 st = .ok st' ∧
      ∀ k', k' < 4 → announcedOn k' (storedOn st.cur (fileEvents name ext kind flag data 4 st.img st.cur)) = newOn st.img st'.img k' := by
  obtain ⟨st', hst', hcase⟩ := announced_where_stored name ext kind flag data hname st h hc
  obtain ⟨st2, hst2, _, hone⟩ := injWriteFile_step name ext kind flag data hname 4 st h
  rw [hst'] at hst2
  cases hst2
  refine ⟨st', hst', ?_⟩
  intro k' hk'
  rcases hcase with ⟨k, i0, r, hk4, hi0, hstored, hnone, hnew, _, _⟩ | ⟨hstored, hall⟩
  · rw [hstored]
    have hrest : ∀ k2 j, k2 < 4 → j < 112 → ¬ (k2 = k ∧ j = i0) → imgFileAt st'.img k2 j = imgFileAt st.img k2 j := by
      rcases hone with hsame | ⟨k3, i3, hk3, hi3, _, _, hr⟩
      · rw [hsame k i0 hk4 hi0, hnone] at hnew; cases hnew
      · have : k = k3 ∧ i0 = i3 := by
          apply Classical.byContradiction
          intro hne
          have := hr k i0 hk4 hi0 hne
          rw [this, hnone] at hnew; cases hnew
        rw [this.1, this.2]; exact hr
    rw [newOn_one k i0 hi0 (r, data) hnone hnew hrest k' hk']
    simp only [announcedOn, List.countP_cons, List.countP_nil]
    by_cases hkk : k' = k
    · subst hkk; simp
    · rw [if_neg hkk]
      have : (k == k') = false := by simp; exact fun e => hkk e.symm
      simp [this]
  · rw [hstored, newOn_same k' (fun j hj => hall k' j hk' hj)]
    rfl

theorem newOn_self (a : Image) (k : Nat) : newOn a a k = 0 := newOn_same k (fun _ _ => rfl)

/-- one source argument -/
theorem injFile_count (w : Tape.World) (src : Str) (hsrc : CleanSrc src) (st : Inj) (h : ImgOk st.img) (hc : st.cur < 4) :
    ∃ st' b, injFile w src st = .ok (st', b) ∧
      ∀ k', k' < 4 → announcedOn k' (storedOn st.cur (srcEvents w src st.img st.cur)) = newOn st.img st'.img k' := by
  obtain ⟨st', b, hf, _⟩ := injFile_step w src hsrc st h
  refine ⟨st', b, hf, ?_⟩
  unfold injFile at hf
  unfold srcEvents
  have hname := splitSource_name_clean src hsrc
  dsimp only at hf ⊢
  cases hw : w (splitSource src).2.2.2 with
  | none =>
    rw [hw] at hf; dsimp only at hf; cases hf
    intro k' _; rw [newOn_self]; rfl
  | some data =>
    rw [hw] at hf
    dsimp only at hf ⊢
    split at hf
    · rename_i h8; rw [if_pos h8]; cases hf
      intro k' _; rw [newOn_self]; rfl
    · rename_i h8
      rw [if_neg h8]
      split at hf
      · rename_i h3; rw [if_pos h3]; cases hf
        intro k' _; rw [newOn_self]; rfl
      · rename_i h3
        rw [if_neg h3]
        split at hf
        · rename_i ha; rw [if_pos ha]; cases hf
          intro k' _; rw [newOn_self]; rfl
        · rename_i ha
          rw [if_neg ha]
          obtain ⟨s2, hs2, hcount⟩ := injWriteFile_count (splitSource src).1
            (dispatch (splitSource src).1 (splitSource src).2.1 (splitSource src).2.2.1).2.2
            (dispatch (splitSource src).1 (splitSource src).2.1 (splitSource src).2.2.1).1
            (dispatch (splitSource src).1 (splitSource src).2.1 (splitSource src).2.2.1).2.1 data hname st h hc
          rw [hs2] at hf
          cases hf
          exact hcount

theorem injLoop_count (w : Tape.World) : ∀ (srcs : List Str) (st : Inj), (∀ src ∈ srcs, CleanSrc src) → ImgOk st.img → st.cur < 4 →
    ∃ st', injLoop w srcs st = .ok st' ∧ ImgOk st'.img ∧ Keeps st.img st'.img
      ∧ ∀ k', k' < 4 → announcedOn k' (storedOn st.cur (loopEvents w srcs st.img st.cur)) = newOn st.img st'.img k' := by
  intro srcs
  induction srcs with
  | nil => intro st _ h _; exact ⟨st, rfl, h, Keeps.refl _, by intro k' _; rw [newOn_self]; rfl⟩
  | cons src rest ih =>
    intro st hs h hc
    simp only [injLoop, loopEvents]
    split
    · obtain ⟨u, hu⟩ := usageOfSide_any h st.cur
      rw [hu]
      dsimp only
      split
      · exact ⟨_, rfl, h, Keeps.refl _, by intro k' _; rw [newOn_self]; rfl⟩
      · rename_i h4
        obtain ⟨st', h1, h2, h3, h5⟩ := ih { st with cur := st.cur + 1, l := onBeginOfSide (onEndOfSide st.l u) (st.cur + 1) }
          (fun s hm => hs s (by simp [hm])) h (by dsimp only; omega)
        exact ⟨st', h1, h2, h3, by intro k' hk'; simp only [storedOn]; exact h5 k' hk'⟩
    · obtain ⟨s1, b, hf, hok, hkeep, _, hside, hb⟩ := injFile_sections w src (hs src (by simp)) st h hc
      obtain ⟨s1', b', hf', hcnt⟩ := injFile_count w src (hs src (by simp)) st h hc
      rw [hf] at hf'
      cases hf'
      rw [hf, injFile_next w src st s1 b hf]
      dsimp only
      split
      · rename_i hq
        refine ⟨s1, rfl, hok, hkeep, ?_⟩
        intro k' hk'
        rw [List.append_nil]
        exact hcnt k' hk'
      · rename_i hq
        have hc1 : s1.cur < 4 := by
          cases b with
          | false => rw [hb rfl]; exact hc
          | true => simp at hq; exact hq
        obtain ⟨st', h1, h2, h3, h5⟩ := ih s1 (fun s hm => hs s (by simp [hm])) hok hc1
        refine ⟨st', h1, h2, hkeep.trans h3, ?_⟩
        intro k' hk'
        rw [storedOn_append, hside hc1, announcedOn_append, hcnt k' hk', h5 k' hk', newOn_trans hkeep h3 k' hk']

/-- **per-side counts of a create/add report**: for every side, the number of files the report
    announces stored in that side's section equals the number of files the image gained on that side
    (slots that held no file before the batch and hold one after it) -/
theorem batch_count (w : Tape.World) (verbose : Bool) (img : Image) (srcs : List Str)
    (himg : ImgOk img) (hs : ∀ src ∈ srcs, CleanSrc src) :
    ∃ st, performCore w verbose img srcs = .ok st ∧ ImgOk st.img
      ∧ ∀ k, k < 4 → announcedOn k (storedOn 0 (batchEvents w srcs img)) = newOn img st.img k := by
  obtain ⟨st, hst, hok, _, _⟩ := performCore_files w verbose img srcs himg hs
  refine ⟨st, hst, hok, ?_⟩
  obtain ⟨s1, hl, _, _, hcnt⟩ := injLoop_count w srcs { img := img, cur := 0, l := mute } hs himg (by show 0 < 4; omega)
  rw [performCore_img w verbose img srcs st s1 himg hs hst hl]
  intro k hk
  unfold batchEvents
  rw [storedOn_append, announcedOn_append, hcnt k hk]
  show newOn img s1.img k + _ = newOn img s1.img k
  cases loopNext w srcs img with
  | none => rfl
  | some q =>
    obtain ⟨i1, c1⟩ := q
    dsimp only
    split
    · cases usageOfSide i1 c1 with
      | error e => rfl
      | ok u => simp [storedOn, tailEvents_storedOn, announcedOn]
    · rfl

end Moto.Disk
