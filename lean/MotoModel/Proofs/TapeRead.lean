/-
  The tape reader of the model on tapes written by the independent writer `Spec.K7.render`.
-/
import MotoModel.Model.Tape
import MotoModel.Spec.K7
namespace Moto.Tape
open Moto

/-- a pattern `1^k 3C 5A` cannot match where index `k` is still inside a 3C-free gap or a run of 01 -/
theorem no_early_match (k : Nat) : ∀ (g : Bytes) (n : Nat) (r : Bytes), 60 ∉ g → g.length + n > k →
    startsWith (List.replicate k 1 ++ [60, 90]) (g ++ List.replicate n 1 ++ [60, 90] ++ r) = false := by
  induction k with
  | zero =>
    intro g n r hg hlen
    cases g with
    | cons y g' =>
      have : y ≠ 60 := by intro h; apply hg; simp [h]
      simp [startsWith]; intro h; exact absurd h.symm this
    | nil =>
      cases n with
      | zero => simp at hlen
      | succ n' => simp [startsWith, List.replicate_succ]
  | succ k ih =>
    intro g n r hg hlen
    cases g with
    | cons y g' =>
      have hg' : 60 ∉ g' := by intro h; apply hg; simp [h]
      have := ih g' n r hg' (by simp at hlen; omega)
      simp only [List.replicate_succ, List.cons_append, startsWith]
      simp only [this, Bool.and_false]
    | nil =>
      cases n with
      | zero => simp at hlen
      | succ n' =>
        have := ih [] n' r (by simp) (by simp at hlen ⊢; omega)
        simp only [List.nil_append] at this
        simp only [List.replicate_succ, List.cons_append, List.nil_append, startsWith, this]
        simp

theorem startsWith_self_append (p r : Bytes) : startsWith p (p ++ r) = true := by
  induction p with
  | nil => cases r <;> rfl
  | cons x xs ih => simp [startsWith, ih]

/-- `find` locates the block marker at the last three 01 before the first 3C -/
theorem findSub_marker (g : Bytes) : ∀ (n : Nat) (r : Bytes), 60 ∉ g → 3 ≤ n →
    findSub [1, 1, 1, 60, 90] (g ++ List.replicate n 1 ++ [60, 90] ++ r) = some (g.length + n - 3) := by
  induction g with
  | nil =>
    intro n
    induction n with
    | zero => intro r _ h; omega
    | succ n ih =>
      intro r hg hn
      by_cases h3 : n + 1 = 3
      · have : n = 2 := by omega
        subst this
        simp [findSub, startsWith, List.replicate]
      · have hstart : startsWith [1, 1, 1, 60, 90] (1 :: (List.replicate n 1 ++ [60, 90] ++ r)) = false := by
          have := no_early_match 2 [] n r (by simp) (by simp; omega)
          simp only [List.nil_append] at this
          simp only [startsWith, beq_self_eq_true, Bool.true_and]
          exact this
        have ih' := ih r hg (by omega)
        simp only [List.nil_append, List.length_nil, Nat.zero_add] at ih' ⊢
        simp only [List.replicate_succ, List.cons_append, findSub, hstart, ih']
        simp; omega
  | cons y g' ih =>
    intro n r hg hn
    have hg' : 60 ∉ g' := by intro h; apply hg; simp [h]
    have hstart : startsWith [1, 1, 1, 60, 90] (y :: (g' ++ List.replicate n 1 ++ [60, 90] ++ r)) = false := by
      have := no_early_match 2 g' n r hg' (by omega)
      simp only [startsWith]
      have e : List.replicate 2 1 ++ [60, 90] = [1, 1, 60, 90] := rfl
      rw [e] at this
      simp only [this, Bool.and_false]
    simp only [List.cons_append, findSub, hstart, ih n r hg' hn]
    simp; omega

theorem startsWith_marker_has_3C (l : Bytes) (h : startsWith [1, 1, 1, 60, 90] l = true) : 60 ∈ l := by
  match l with
  | a :: b :: c :: d :: _ =>
    simp only [startsWith, Bool.and_eq_true, beq_iff_eq] at h
    simp [← h.2.2.2.1]
  | [] => simp [startsWith] at h
  | [_] => simp [startsWith] at h
  | [_, _] => simp [startsWith] at h
  | [_, _, _] => simp [startsWith] at h

theorem findSub_none (l : Bytes) (h : 60 ∉ l) : findSub [1, 1, 1, 60, 90] l = none := by
  induction l with
  | nil => rfl
  | cons x xs ih =>
    have hs : startsWith [1, 1, 1, 60, 90] (x :: xs) = false := by
      cases hh : startsWith [1, 1, 1, 60, 90] (x :: xs) with
      | false => rfl
      | true => exact absurd (startsWith_marker_has_3C _ hh) h
    have : 60 ∉ xs := by intro h'; apply h; simp [h']
    simp [findSub, hs, ih this]

/-- length of a frame whose payload has at most 254 bytes, from its length byte -/
theorem frame_take (ty : Nat) (p rest : Bytes) (hp : p.length ≤ 254) :
    let r := Spec.K7.frame ty p ++ rest
    let len := r.getD 1 0
    let n := if len > 0 then len + 1 else 257
    r.take n = Spec.K7.frame ty p ∧ r.drop n = rest := by
  have hl : (Spec.K7.frame ty p).length = p.length + 3 := by simp [Spec.K7.frame]
  have hget : (Spec.K7.frame ty p ++ rest).getD 1 0 = (p.length + 2) % 256 := by simp [Spec.K7.frame]
  simp only [hget]
  have hn : (if (p.length + 2) % 256 > 0 then (p.length + 2) % 256 + 1 else 257) = (Spec.K7.frame ty p).length := by
    rw [hl]
    by_cases h : p.length + 2 = 256
    · simp [h]; omega
    · have : (p.length + 2) % 256 = p.length + 2 := Nat.mod_eq_of_lt (by omega)
      simp [this]
  rw [hn]
  constructor
  · simp
  · simp

/-- one `nextBlock` over a rendered block preceded by a 3C-free gap -/
theorem nextBlock_block (hm : Gen.Tape.readMarker = [1, 1, 1, 60, 90])
    (g : Bytes) (b : Spec.K7.WBlock) (rest : Bytes) (hg : 60 ∉ g) (hb : b.wf) :
    nextBlock (g ++ Spec.K7.renderBlock b ++ rest) = (some (Spec.K7.frame b.ty b.payload), b.gap ++ rest) := by
  obtain ⟨h3, hp, _⟩ := hb
  unfold nextBlock Spec.K7.renderBlock
  rw [hm]
  have e : g ++ (List.replicate b.lead 1 ++ [60, 90] ++ Spec.K7.frame b.ty b.payload ++ b.gap) ++ rest
      = g ++ List.replicate b.lead 1 ++ [60, 90] ++ (Spec.K7.frame b.ty b.payload ++ (b.gap ++ rest)) := by
    simp [List.append_assoc]
  rw [e, findSub_marker g b.lead _ hg h3]
  simp only
  have hd : (g ++ List.replicate b.lead 1 ++ [60, 90] ++ (Spec.K7.frame b.ty b.payload ++ (b.gap ++ rest))).drop
      (g.length + b.lead - 3 + [1, 1, 1, 60, 90].length) = Spec.K7.frame b.ty b.payload ++ (b.gap ++ rest) := by
    have : g.length + b.lead - 3 + [1, 1, 1, 60, 90].length = (g ++ List.replicate b.lead 1 ++ [60, 90]).length := by
      simp; omega
    rw [this, List.drop_left]
  rw [hd]
  have hlen : (Spec.K7.frame b.ty b.payload ++ (b.gap ++ rest)).length ≥ 2 := by simp [Spec.K7.frame]
  simp only [hlen, if_true]
  obtain ⟨h1, h2⟩ := frame_take b.ty b.payload (b.gap ++ rest) hp
  rw [h1, h2]

/-- **reader over a rendered tape**: all blocks, in order, nothing else -/
theorem readAllFuel_render (hm : Gen.Tape.readMarker = [1, 1, 1, 60, 90]) (bs : List Spec.K7.WBlock) :
    ∀ (g tail : Bytes) (fuel : Nat), 60 ∉ g → 60 ∉ tail → (∀ b ∈ bs, b.wf) → bs.length < fuel →
    readAllFuel fuel (g ++ bs.flatMap Spec.K7.renderBlock ++ tail) = bs.map (fun b => Spec.K7.frame b.ty b.payload) := by
  induction bs with
  | nil =>
    intro g tail fuel hg ht _ hf
    cases fuel with
    | zero => omega
    | succ f =>
      have : 60 ∉ g ++ tail := by simp [hg, ht]
      simp [readAllFuel, nextBlock, hm, findSub_none _ this]
  | cons b bs ih =>
    intro g tail fuel hg ht hwf hf
    cases fuel with
    | zero => omega
    | succ f =>
      have hb := hwf b (by simp)
      have e : g ++ (b :: bs).flatMap Spec.K7.renderBlock ++ tail
          = g ++ Spec.K7.renderBlock b ++ (bs.flatMap Spec.K7.renderBlock ++ tail) := by
        simp [List.append_assoc]
      rw [e]
      simp only [readAllFuel, nextBlock_block hm g b _ hg hb, List.map_cons]
      congr 1
      have := ih b.gap tail f hb.2.2 ht (fun b' hb' => hwf b' (by simp [hb'])) (by simp at hf; omega)
      rw [← List.append_assoc]
      exact this

/-! ### idle stretches that may hold any byte, 3C included, as long as no start-of-block pattern occurs in them -/

open Spec.K7 in
theorem startsWith_marker_eq (l : Bytes) : startsWith [1, 1, 1, 60, 90] l = beginsWithMarker l := by
  match l with
  | [] => rfl
  | [a] =>
    by_cases ha : a = 1 <;> simp_all [startsWith, beginsWithMarker] <;> omega
  | [a, b] =>
    by_cases ha : a = 1 <;> by_cases hb : b = 1 <;> simp_all [startsWith, beginsWithMarker] <;> omega
  | [a, b, c] =>
    by_cases ha : a = 1 <;> by_cases hb : b = 1 <;> by_cases hc : c = 1 <;> simp_all [startsWith, beginsWithMarker] <;> omega
  | [a, b, c, d] =>
    by_cases ha : a = 1 <;> by_cases hb : b = 1 <;> by_cases hc : c = 1 <;> by_cases hd : d = 60 <;>
      simp_all [startsWith, beginsWithMarker] <;> omega
  | a :: b :: c :: d :: e :: r =>
    by_cases ha : a = 1 <;> by_cases hb : b = 1 <;> by_cases hc : c = 1 <;> by_cases hd : d = 60 <;> by_cases he : e = 90 <;>
      simp_all [startsWith, beginsWithMarker] <;> omega

open Spec.K7 in
theorem findSub_none_of_idle : ∀ (g : Bytes), idle g = true → findSub [1, 1, 1, 60, 90] g = none
  | [], _ => rfl
  | x :: xs, h => by
    simp only [idle, Bool.and_eq_true, Bool.not_eq_true'] at h
    simp only [findSub, startsWith_marker_eq, h.1, findSub_none_of_idle xs h.2]
    simp

open Spec.K7 in
/-- a 3C-free stretch is idle -/
theorem idle_of_no_3C : ∀ (g : Bytes), 60 ∉ g → idle g = true
  | [], _ => rfl
  | x :: xs, h => by
    have hx : 60 ∉ xs := fun h' => h (by simp [h'])
    have hs : beginsWithMarker (x :: xs) = false := by
      rw [← startsWith_marker_eq]
      cases hh : startsWith [1, 1, 1, 60, 90] (x :: xs) with
      | false => rfl
      | true => exact absurd (startsWith_marker_has_3C _ hh) h
    simp [idle, hs, idle_of_no_3C xs hx]

open Spec.K7 in
/-- no pattern begins inside an idle stretch that is followed by a leader of at least three 01: the pattern's 3C 5A would
    have to sit on the leader's 01 bytes -/
theorem no_match_in_idle (x : Nat) (xs : Bytes) (n : Nat) (r : Bytes) (h : beginsWithMarker (x :: xs) = false) (hn : 3 ≤ n) :
    beginsWithMarker (x :: xs ++ List.replicate n 1 ++ [60, 90] ++ r) = false := by
  obtain ⟨m, rfl⟩ : ∃ m, n = m + 3 := ⟨n - 3, by omega⟩
  simp only [List.replicate_succ]
  match xs with
  | [] =>
    by_cases ha : x = 1 <;> simp_all [beginsWithMarker] <;> omega
  | [b] =>
    by_cases ha : x = 1 <;> by_cases hb : b = 1 <;> simp_all [beginsWithMarker] <;> omega
  | [b, c] =>
    by_cases ha : x = 1 <;> by_cases hb : b = 1 <;> by_cases hc : c = 1 <;> simp_all [beginsWithMarker] <;> omega
  | [b, c, d] =>
    by_cases ha : x = 1 <;> by_cases hb : b = 1 <;> by_cases hc : c = 1 <;> by_cases hd : d = 60 <;> simp_all [beginsWithMarker] <;> omega
  | b :: c :: d :: e :: rest =>
    by_cases ha : x = 1 <;> by_cases hb : b = 1 <;> by_cases hc : c = 1 <;> by_cases hd : d = 60 <;> by_cases he : e = 90 <;>
      simp_all [beginsWithMarker] <;> omega

open Spec.K7 in
/-- `find` locates the block marker at the last three 01 of the leader, whatever the idle stretch before it holds -/
theorem findSub_marker_idle : ∀ (g : Bytes) (n : Nat) (r : Bytes), idle g = true → 3 ≤ n →
    findSub [1, 1, 1, 60, 90] (g ++ List.replicate n 1 ++ [60, 90] ++ r) = some (g.length + n - 3)
  | [], n, r, _, hn => findSub_marker [] n r (by simp) hn
  | x :: xs, n, r, hg, hn => by
    simp only [idle, Bool.and_eq_true, Bool.not_eq_true'] at hg
    have hstart := no_match_in_idle x xs n r hg.1 hn
    have ih := findSub_marker_idle xs n r hg.2 hn
    simp only [List.cons_append] at hstart ⊢
    simp only [findSub, startsWith_marker_eq, hstart, ih]
    simp; omega

/-- one `nextBlock` over a rendered block preceded by an idle stretch -/
theorem nextBlock_block_idle (hm : Gen.Tape.readMarker = [1, 1, 1, 60, 90])
    (g : Bytes) (b : Spec.K7.WBlock) (rest : Bytes) (hg : Spec.K7.idle g = true) (hb : b.wfIdle) :
    nextBlock (g ++ Spec.K7.renderBlock b ++ rest) = (some (Spec.K7.frame b.ty b.payload), b.gap ++ rest) := by
  obtain ⟨h3, hp, _⟩ := hb
  unfold nextBlock Spec.K7.renderBlock
  rw [hm]
  have e : g ++ (List.replicate b.lead 1 ++ [60, 90] ++ Spec.K7.frame b.ty b.payload ++ b.gap) ++ rest
      = g ++ List.replicate b.lead 1 ++ [60, 90] ++ (Spec.K7.frame b.ty b.payload ++ (b.gap ++ rest)) := by
    simp [List.append_assoc]
  rw [e, findSub_marker_idle g b.lead _ hg h3]
  simp only
  have hd : (g ++ List.replicate b.lead 1 ++ [60, 90] ++ (Spec.K7.frame b.ty b.payload ++ (b.gap ++ rest))).drop
      (g.length + b.lead - 3 + [1, 1, 1, 60, 90].length) = Spec.K7.frame b.ty b.payload ++ (b.gap ++ rest) := by
    have : g.length + b.lead - 3 + [1, 1, 1, 60, 90].length = (g ++ List.replicate b.lead 1 ++ [60, 90]).length := by
      simp; omega
    rw [this, List.drop_left]
  rw [hd]
  have hlen : (Spec.K7.frame b.ty b.payload ++ (b.gap ++ rest)).length ≥ 2 := by simp [Spec.K7.frame]
  simp only [hlen, if_true]
  obtain ⟨h1, h2⟩ := frame_take b.ty b.payload (b.gap ++ rest) hp
  rw [h1, h2]

/-- **reader over a rendered tape whose idle stretches may hold anything but the start-of-block pattern**: all blocks, in
    order, nothing else (what follows the last block is that block's idle stretch) -/
theorem readAllFuel_render_idle (hm : Gen.Tape.readMarker = [1, 1, 1, 60, 90]) (bs : List Spec.K7.WBlock) :
    ∀ (g : Bytes) (fuel : Nat), Spec.K7.idle g = true → (∀ b ∈ bs, b.wfIdle) → bs.length < fuel →
    readAllFuel fuel (g ++ bs.flatMap Spec.K7.renderBlock) = bs.map (fun b => Spec.K7.frame b.ty b.payload) := by
  induction bs with
  | nil =>
    intro g fuel hg _ hf
    cases fuel with
    | zero => omega
    | succ f => simp [readAllFuel, nextBlock, hm, findSub_none_of_idle _ hg]
  | cons b bs ih =>
    intro g fuel hg hwf hf
    cases fuel with
    | zero => omega
    | succ f =>
      have hb := hwf b (by simp)
      have e : g ++ (b :: bs).flatMap Spec.K7.renderBlock
          = g ++ Spec.K7.renderBlock b ++ (bs.flatMap Spec.K7.renderBlock) := by
        simp [List.append_assoc]
      rw [e]
      simp only [readAllFuel, nextBlock_block_idle hm g b _ hg hb, List.map_cons]
      congr 1
      exact ih b.gap f hb.2.2 (fun b' hb' => hwf b' (by simp [hb'])) (by simp at hf; omega)

end Moto.Tape
