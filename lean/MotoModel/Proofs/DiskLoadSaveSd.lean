/-
  Loading a four-sided SDDrive image and saving it without storing anything: payload-identical,
  every 512-byte slot padded with FF again.
-/
import MotoModel.Proofs.DiskGeometry
namespace Moto.C11
open Moto Moto.Disk

/-- the image with the upper half of every 512-byte slot replaced by the SDDrive padding -/
def repad (raw : Bytes) : Bytes :=
  (List.range (raw.length / 512)).flatMap fun i => (raw.drop (512 * i)).take 256 ++ Gen.Disk.sdPadding

theorem flatMap_congr' {α β} (l : List α) (f g : α → List β) (h : ∀ x ∈ l, f x = g x) : l.flatMap f = l.flatMap g := by
  rw [List.flatMap_def, List.flatMap_def, List.map_congr_left h]

theorem range_mul (n : Nat) : ∀ a, (List.range a).flatMap (fun i => (List.range n).map (fun j => i * n + j)) = List.range (a * n) := by
  intro a
  induction a with
  | zero => simp
  | succ a ih =>
    rw [List.range_succ, List.flatMap_append, ih, Nat.succ_mul, List.range_add]
    simp

theorem sectorsOf_sd_eq (n : Nat) : ∀ raw : Bytes,
    sectorsOf .sd n raw = (List.range n).map (fun j => (raw.drop (512 * j)).take 256) := by
  induction n with
  | zero => intro raw; rfl
  | succ n ih =>
    intro raw
    have e1 : Gen.Disk.payloadSizeFd = 256 := rfl
    have e2 : sectorSize .sd = 512 := rfl
    simp only [sectorsOf, e1, e2]
    rw [ih, List.range_succ_eq_map, List.map_cons, List.map_map]
    congr 1
    apply List.map_congr_left
    intro j _
    simp only [Function.comp, List.drop_drop]
    congr 2
    omega

/-- **C11 (load/save, SDDrive flavour)**: a four-sided .sd, whatever the bytes of the upper half of
    its 512-byte slots, is saved back payload-identical with the FF padding -/
theorem load_save_sd (raw : Bytes) (img : Image) (hlen : raw.length = 655360 * 4) (h : load .sd raw = .ok img) :
    save .sd img = repad raw := by
  unfold load at h
  have hs : sizeOfSide .sd = 655360 := rfl
  have hne : ¬ (raw.length = 0) := by omega
  have hdiv : raw.length / 655360 = 4 := by rw [hlen]
  simp only [hne, if_false, hs, hdiv] at h
  have hint : ¬ ((min 4 4) < 4 ∧ (min 4 4) * 655360 < raw.length) := by simp
  simp only [Nat.min_self, Nat.lt_irrefl, decide_false, Bool.false_eq_true, if_false, false_and] at h
  cases h
  rw [save_sd_interleave]
  have hsps : sectorsPerSide = 1280 := rfl
  simp only [hsps, sectorsOf_sd_eq]
  unfold repad
  have h5120 : raw.length / 512 = 4 * 1280 := by rw [hlen]
  rw [h5120, ← range_mul 1280 4]
  simp only [List.flatten_eq_flatMap, List.flatMap_map, List.flatMap_assoc, List.flatMap_id']
  apply flatMap_congr'
  intro i _
  simp only [id]
  rw [List.flatMap_map]
  apply flatMap_congr'
  intro j _
  simp only [List.drop_drop]
  have e1 : i * 655360 + 512 * j = 512 * (i * 1280 + j) := by omega
  have e2 : 512 * j + i * 655360 = 512 * (i * 1280 + j) := by omega
  first | rw [e1] | rw [e2]

/-- a slot-wise well-padded image is its own repadding: load then save is then the identity -/
theorem repad_id (raw : Bytes) (n : Nat) (hlen : raw.length = 512 * n)
    (hpad : ∀ i, i < n → (raw.drop (512 * i + 256)).take 256 = Gen.Disk.sdPadding) : repad raw = raw := by
  unfold repad
  have hn : raw.length / 512 = n := by rw [hlen]; simp
  rw [hn]
  have hpieces := pieces_flatten 512 n raw hlen
  have hstep : ((List.range n).flatMap fun i => (raw.drop (512 * i)).take 256 ++ Gen.Disk.sdPadding)
      = ((List.range n).map (fun i => (raw.drop (512 * i)).take 512)).flatten := by
    rw [List.flatten_eq_flatMap, List.flatMap_map]
    apply flatMap_congr'
    intro i hi
    have hi' : i < n := by simpa using hi
    simp only [id]
    have : (raw.drop (512 * i)).take 512 = (raw.drop (512 * i)).take 256 ++ ((raw.drop (512 * i)).drop 256).take 256 := by
      have := List.take_add (l := raw.drop (512 * i)) (i := 256) (j := 256)
      simpa using this
    rw [this, List.drop_drop, hpad i hi']
  rw [hstep, hpieces]

end Moto.C11
