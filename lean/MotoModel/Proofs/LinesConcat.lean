/-
  `readlines` of a concatenation: files that end with a line feed can be joined.
-/
import MotoModel.Model.LineTools
namespace Moto

theorem universalNewlines_append : ∀ (a b : Str), (a = [] ∨ a.getLast? ≠ some 13) →
    universalNewlines (a ++ b) = universalNewlines a ++ universalNewlines b := by
  intro a
  induction a using universalNewlines.induct with
  | case1 => intro b _; rfl
  | case2 rest ih =>
    intro b h
    have hr : rest = [] ∨ rest.getLast? ≠ some 13 := by
      cases rest with
      | nil => exact Or.inl rfl
      | cons x xs =>
        right
        rcases h with h | h
        · cases h
        · simpa [List.getLast?_cons_cons] using h
    simp only [List.cons_append, universalNewlines]
    rw [ih b hr]
  | case3 rest hne ih =>
    intro b h
    -- 13 followed by something that is not 10 (or by nothing)
    cases rest with
    | nil =>
      exfalso
      rcases h with h | h
      · cases h
      · exact h rfl
    | cons x xs =>
      have hx : x ≠ 10 := by intro e; subst e; exact hne xs rfl
      have hr : (x :: xs) = [] ∨ (x :: xs).getLast? ≠ some 13 := by
        right
        rcases h with h | h
        · cases h
        · simpa [List.getLast?_cons_cons] using h
      have e1 : universalNewlines (13 :: (x :: xs ++ b)) = 10 :: universalNewlines (x :: xs ++ b) := by
        rw [universalNewlines.eq_3]
        intro r hr'
        cases hr'
        exact hx rfl
      have e2 : universalNewlines (13 :: x :: xs) = 10 :: universalNewlines (x :: xs) := by
        rw [universalNewlines.eq_3]
        intro r hr'
        cases hr'
        exact hx rfl
      show universalNewlines (13 :: (x :: xs ++ b)) = _
      rw [e1, e2, ih b hr]
      rfl
  | case4 c rest h1 h2 ih =>
    intro b h
    have hr : rest = [] ∨ rest.getLast? ≠ some 13 := by
      cases rest with
      | nil => exact Or.inl rfl
      | cons x xs =>
        right
        rcases h with h | h
        · cases h
        · simpa [List.getLast?_cons_cons] using h
    have e1 : universalNewlines (c :: (rest ++ b)) = c :: universalNewlines (rest ++ b) := by
      rw [universalNewlines.eq_4]
      · intro r hc _; exact h2 hc
      · exact h2
    have e2 : universalNewlines (c :: rest) = c :: universalNewlines rest := by
      rw [universalNewlines.eq_4]
      · exact h1
      · exact h2
    show universalNewlines (c :: (rest ++ b)) = _
    rw [e1, e2, ih b hr]
    rfl


theorem universalNewlines_last (a : Str) (h : a.getLast? = some 10) : (universalNewlines a).getLast? = some 10 := by
  induction a using universalNewlines.induct with
  | case1 => cases h
  | case2 rest ih =>
    simp only [universalNewlines]
    cases rest with
    | nil => rfl
    | cons x xs =>
      have : (x :: xs).getLast? = some 10 := by simpa [List.getLast?_cons_cons] using h
      have h2 := ih this
      cases hu : universalNewlines (x :: xs) with
      | nil => rw [hu] at h2; cases h2
      | cons y ys => rw [hu] at h2; simpa [List.getLast?_cons_cons] using h2
  | case3 rest hne ih =>
    cases rest with
    | nil => simp at h
    | cons x xs =>
      have hx : x ≠ 10 := by intro e; subst e; exact hne xs rfl
      have e2 : universalNewlines (13 :: x :: xs) = 10 :: universalNewlines (x :: xs) := by
        rw [universalNewlines.eq_3]
        intro r hr'; cases hr'; exact hx rfl
      rw [e2]
      have : (x :: xs).getLast? = some 10 := by simpa [List.getLast?_cons_cons] using h
      have h2 := ih this
      cases hu : universalNewlines (x :: xs) with
      | nil => rw [hu] at h2; cases h2
      | cons y ys => rw [hu] at h2; simpa [List.getLast?_cons_cons] using h2
  | case4 c rest h1 h2 ih =>
    have e2 : universalNewlines (c :: rest) = c :: universalNewlines rest := by
      rw [universalNewlines.eq_4]
      · exact h1
      · exact h2
    rw [e2]
    cases rest with
    | nil => simpa [universalNewlines] using h
    | cons x xs =>
      have : (x :: xs).getLast? = some 10 := by simpa [List.getLast?_cons_cons] using h
      have h3 := ih this
      cases hu : universalNewlines (x :: xs) with
      | nil => rw [hu] at h3; cases h3
      | cons y ys => rw [hu] at h3; simpa [List.getLast?_cons_cons] using h3

theorem splitGo_append : ∀ (x : Str) (cur y : Str), x.getLast? = some 10 →
    splitKeepNL.go cur (x ++ y) = splitKeepNL.go cur x ++ splitKeepNL.go [] y := by
  intro x
  induction x with
  | nil => intro cur y h; cases h
  | cons c cs ih =>
    intro cur y h
    simp only [List.cons_append, splitKeepNL.go]
    cases cs with
    | nil =>
      have hc : c = 10 := by simpa using h
      subst hc
      simp [splitKeepNL.go]
    | cons d ds =>
      have hl : (d :: ds).getLast? = some 10 := by simpa [List.getLast?_cons_cons] using h
      by_cases hc : (c == 10) = true
      · simp only [hc, if_true, List.cons_append]
        have := ih [] y hl
        simp only [List.cons_append] at this
        rw [this]
      · simp only [hc, Bool.false_eq_true, if_false]
        have := ih (c :: cur) y hl
        simpa only [List.cons_append] using this

/-- **`readlines` of joined texts**: a text that ends with a line feed (or is empty) can be joined
    with the next one -/
theorem readlines_append (a b : Str) (h : a = [] ∨ a.getLast? = some 10) : readlines (a ++ b) = readlines a ++ readlines b := by
  rcases h with rfl | h
  · simp [readlines, universalNewlines, splitKeepNL, splitKeepNL.go]
  · unfold readlines splitKeepNL
    rw [universalNewlines_append a b (Or.inr (by rw [h]; simp))]
    exact splitGo_append _ [] _ (universalNewlines_last a h)

theorem readlines_flatten : ∀ (files : List Str), (∀ f ∈ files, f = [] ∨ f.getLast? = some 10) →
    readlines files.flatten = files.flatMap readlines := by
  intro files
  induction files with
  | nil => intro _; simp [readlines, universalNewlines, splitKeepNL, splitKeepNL.go]
  | cons f rest ih =>
    intro h
    rw [List.flatten_cons, readlines_append f _ (h f (by simp)), ih (fun g hg => h g (by simp [hg]))]
    simp

end Moto
