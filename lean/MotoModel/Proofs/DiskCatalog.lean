/-
  The catalog as a list of 112 slots; effect of the catalog write of `placeFile` on it.
-/
import MotoModel.Proofs.DiskPreserve
namespace Moto.Disk
open Moto

/-- the 32 bytes of catalog slot `i` (0..111): sector 2 + i/8 of track 20, offset 32 (i mod 8) -/
def slotData (sd : Side) (i : Nat) : Bytes := slice (getSector sd batTrack (2 + i / 8)) (32 * (i % 8)) (32 * (i % 8) + 32)

theorem slots_length (sd : Side) : (slots sd).length = 112 := by
  simp [slots, catalogSectors, slotStarts, List.range']

theorem slot_pairs : (catalogSectors.flatMap fun s => slotStarts.map fun st => (s, st))
    = (List.range 112).map (fun i => (2 + i / 8, 32 * (i % 8))) := by decide +kernel

theorem slots_eq_map (sd : Side) :
    slots sd = (List.range 112).map (fun i => (2 + i / 8, 32 * (i % 8), slotData sd i)) := by
  have e : slots sd = (catalogSectors.flatMap fun s => slotStarts.map fun st => (s, st)).map
      (fun p => (p.1, p.2, slice (getSector sd batTrack p.1) p.2 (p.2 + 32))) := by
    simp [slots, List.map_flatMap, List.map_map, Function.comp_def]
  rw [e, slot_pairs, List.map_map]
  rfl

/-- `slots` enumerates the slots in order -/
theorem slots_getElem (sd : Side) (i : Nat) (h : i < 112) :
    (slots sd)[i]'(by rw [slots_length]; exact h) = (2 + i / 8, 32 * (i % 8), slotData sd i) := by
  simp [slots_eq_map]

end Moto.Disk

namespace Moto.Disk
open Moto

theorem entryOfBytes_status (data : Bytes) (bat : List Nat) (en : Entry) (h : entryOfBytes data bat = .ok en) :
    (en.status = 0 ↔ data.getD 0 0 = 0xFF) ∧ (en.status = 2 ↔ data.getD 0 0 = 0 ∧ data.getD 0 0 ≠ 0xFF)
    ∧ (en.status = 1 ↔ data.getD 0 0 ≠ 0xFF ∧ data.getD 0 0 ≠ 0) := by
  unfold entryOfBytes at h
  dsimp only at h
  generalize data.getD 0 0 = b0 at h ⊢
  split at h
  · rename_i h1; cases h; subst h1; simp
  · rename_i h1
    split at h
    · rename_i h2; cases h; subst h2; simp
    · rename_i h2
      cases hw : walk bat ((recordOfBytes data).getD 13 0) with
      | error e => rw [hw] at h; cases h
      | ok bl =>
        rw [hw] at h; cases h
        simp only
        refine ⟨?_, ?_, ?_⟩
        · constructor
          · intro h; cases h
          · intro h; exact absurd h h1
        · constructor
          · intro h; cases h
          · intro h; exact absurd h.1 h2
        · constructor
          · intro _; exact ⟨h1, h2⟩
          · intro _; trivial

theorem findSlot_found (bat : List Nat) (l : List (Nat × Nat × Bytes)) (s st : Nat) (h : findSlot bat l = .ok (some (s, st))) :
    ∃ data, (s, st, data) ∈ l ∧ (data.getD 0 0 = 0xFF ∨ data.getD 0 0 = 0) := by
  induction l with
  | nil => simp [findSlot] at h
  | cons x rest ih =>
    obtain ⟨s', st', data⟩ := x
    simp only [findSlot] at h
    cases he : entryOfBytes data bat with
    | error e => rw [he] at h; cases h
    | ok en =>
      rw [he] at h
      dsimp only at h
      obtain ⟨e0, e2, _⟩ := entryOfBytes_status data bat en he
      split at h
      · rename_i hst
        cases h
        refine ⟨data, by simp, ?_⟩
        rcases hst with h0 | h2
        · exact Or.inl (e0.mp h0)
        · exact Or.inr (e2.mp h2).1
      · obtain ⟨d, hd, hb⟩ := ih h
        exact ⟨d, by simp [hd], hb⟩

theorem mem_slots (sd : Side) (s st : Nat) (data : Bytes) (h : (s, st, data) ∈ slots sd) :
    ∃ i, i < 112 ∧ s = 2 + i / 8 ∧ st = 32 * (i % 8) ∧ data = slotData sd i := by
  rw [slots_eq_map] at h
  simp only [List.mem_map, List.mem_range] at h
  obtain ⟨i, hi, he⟩ := h
  cases he
  exact ⟨i, hi, rfl, rfl, rfl⟩

theorem slice_sliceAssign_same (cat record : Bytes) (st : Nat) (hst : st + 32 ≤ cat.length) (hr : record.length = 32) :
    slice (sliceAssign cat st (st + 32) record) st (st + 32) = record := by
  unfold slice sliceAssign
  have hm : max st (st + 32) = st + 32 := by omega
  rw [hm, List.append_assoc]
  have h1 : (cat.take st).length = st := by simp; omega
  rw [List.drop_left' h1]
  have : st + 32 - st = 32 := by omega
  rw [this, List.take_left' hr]

theorem slice_sliceAssign_other (cat record : Bytes) (st st' : Nat) (hst : st + 32 ≤ cat.length) (hr : record.length = 32)
    (hd : st' + 32 ≤ st ∨ st + 32 ≤ st') :
    slice (sliceAssign cat st (st + 32) record) st' (st' + 32) = slice cat st' (st' + 32) := by
  unfold slice sliceAssign
  have hm : max st (st + 32) = st + 32 := by omega
  rw [hm]
  have e32 : st' + 32 - st' = 32 := by omega
  rw [e32]
  apply List.ext_getElem?
  intro k
  simp only [List.getElem?_take, List.getElem?_drop]
  split
  · rename_i hk
    rcases hd with h | h
    · rw [List.append_assoc, List.getElem?_append_left (by simp; omega)]
      simp [List.getElem?_take]; omega
    · rw [List.getElem?_append_right (by simp; omega)]
      simp only [List.length_append, List.length_take, hr, List.getElem?_drop]
      congr 1
      omega
  · rfl

theorem setPayload_full (sec v : Bytes) (hv : v.length = 256) (hs : sec.length ≤ 256) : setPayload sec v = v := by
  rw [C11.setPayload_eq, List.take_of_length_le (by omega)]
  have : min v.length 256 = 256 := by omega
  rw [this, List.drop_of_length_le hs, List.append_nil]

end Moto.Disk
