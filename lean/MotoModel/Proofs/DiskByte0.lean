/-
  Side predicates preserved by `writeFile` are preserved by whole runs; instance: byte 0 of the
  table sector stays what it was (zero on images the tools create).
-/
import MotoModel.Proofs.DiskSpec
namespace Moto.Disk
open Moto

def WriteResult.side : WriteResult → Side
  | .ok sd => sd
  | .raised _ sd => sd

/-- `P` survives every `writeFile` on a consistent side, whatever the outcome -/
def SidePreserved (P : Side → Prop) : Prop :=
  ∀ (sd : Side) (bat : List Nat) (own : Nat → List Nat), SideInv sd bat own → P sd →
    ∀ (content : Bytes) (name ext : Str) (kind flag : Nat), (∀ c ∈ name, c ≠ 0xFF) → P (writeFile sd content name ext kind flag).side

/-- a predicate per side index, holding on every side of the image -/
def ImgAllI (P : Nat → Side → Prop) (img : Image) : Prop := ∀ k, k < 4 → P k (img.getD k [])

def ImgAll (P : Side → Prop) (img : Image) : Prop := ImgAllI (fun _ => P) img

theorem ImgAllI.set {P : Nat → Side → Prop} {img : Image} (h : ImgAllI P img) (h4 : img.length = 4) (i : Nat) (sd : Side) (hs : P i sd) :
    ImgAllI P (img.set i sd) := by
  intro j hj
  by_cases hij : i = j
  · subst hij; rw [getD_set_eq _ _ _ _ (by rw [h4]; exact hj)]; exact hs
  · rw [getD_set_ne _ _ _ _ _ hij]; exact h j hj

theorem injWriteFile_presI {P : Nat → Side → Prop} (hP : ∀ k, SidePreserved (P k)) (name ext : Str) (kind flag : Nat) (data : Bytes)
    (hname : ∀ c ∈ name, c ≠ 0xFF) :
    ∀ (fuel : Nat) (st : Inj), ImgOk st.img → ImgAllI P st.img →
      ∃ st', injWriteFile name ext kind flag data fuel st = .ok st' ∧ ImgOk st'.img ∧ ImgAllI P st'.img := by
  intro fuel
  induction fuel with
  | zero => intro st h hp; exact ⟨st, rfl, h, hp⟩
  | succ fuel ih =>
    intro st h hp
    simp only [injWriteFile]
    by_cases hc : st.cur ≥ 4
    · rw [if_pos hc]; exact ⟨st, rfl, h, hp⟩
    · rw [if_neg hc]
      have hcur : st.cur < 4 := by omega
      obtain ⟨bat, own, inv⟩ := h.2 st.cur hcur
      have hpres := hP st.cur _ bat own inv (hp st.cur hcur) data name ext kind flag hname
      rcases writeFile_inv inv data name ext kind flag hname with ⟨sd', i0, hw, _, _, inv', _⟩ | ⟨sd', msg, hw, inv', _⟩
      · rw [hw] at hpres ⊢
        exact ⟨_, rfl, h.set _ _ ⟨_, _, inv'⟩, hp.set h.1 _ _ hpres⟩
      · rw [hw] at hpres ⊢
        dsimp only
        have himg : ImgOk (st.img.set st.cur sd') := h.set _ _ ⟨_, _, inv'⟩
        have hpimg : ImgAllI P (st.img.set st.cur sd') := hp.set h.1 _ _ hpres
        obtain ⟨u, hu⟩ := usageOfSide_ok himg st.cur hcur
        rw [hu]
        dsimp only
        by_cases hn : st.cur + 1 ≥ 4
        · rw [if_pos hn]; exact ⟨_, rfl, himg, hpimg⟩
        · rw [if_neg hn]
          exact ih _ himg hpimg

theorem injFile_presI {P : Nat → Side → Prop} (hP : ∀ k, SidePreserved (P k)) (w : Tape.World) (src : Str) (hsrc : CleanSrc src) (st : Inj)
    (h : ImgOk st.img) (hp : ImgAllI P st.img) :
    ∃ st' b, injFile w src st = .ok (st', b) ∧ ImgOk st'.img ∧ ImgAllI P st'.img := by
  unfold injFile
  have hname := splitSource_name_clean src hsrc
  generalize splitSource src = sp at hname
  obtain ⟨fileName, fileExtension, extWithOption, cleanSrc⟩ := sp
  dsimp only at hname ⊢
  cases w cleanSrc with
  | none => exact ⟨_, _, rfl, h, hp⟩
  | some data =>
    dsimp only
    split
    · exact ⟨_, _, rfl, h, hp⟩
    · split
      · exact ⟨_, _, rfl, h, hp⟩
      · split
        · exact ⟨_, _, rfl, h, hp⟩
        · obtain ⟨st', hst', hok, hpp⟩ := injWriteFile_presI hP fileName (dispatch fileName fileExtension extWithOption).2.2
            (dispatch fileName fileExtension extWithOption).1 (dispatch fileName fileExtension extWithOption).2.1 data hname 4 st h hp
          rw [hst']
          exact ⟨_, _, rfl, hok, hpp⟩

theorem injLoop_presI {P : Nat → Side → Prop} (hP : ∀ k, SidePreserved (P k)) (w : Tape.World) : ∀ (srcs : List Str) (st : Inj),
    (∀ src ∈ srcs, CleanSrc src) → ImgOk st.img → ImgAllI P st.img →
    ∃ st', injLoop w srcs st = .ok st' ∧ ImgOk st'.img ∧ ImgAllI P st'.img := by
  intro srcs
  induction srcs with
  | nil => intro st _ h hp; exact ⟨st, rfl, h, hp⟩
  | cons src rest ih =>
    intro st hs h hp
    simp only [injLoop]
    split
    · obtain ⟨u, hu⟩ := usageOfSide_any h st.cur
      rw [hu]
      dsimp only
      split
      · exact ⟨_, rfl, h, hp⟩
      · exact ih _ (fun s hm => hs s (by simp [hm])) h hp
    · obtain ⟨st', b, hst', hok, hpp⟩ := injFile_presI hP w src (hs src (by simp)) st h hp
      rw [hst']
      dsimp only
      split
      · exact ⟨_, rfl, hok, hpp⟩
      · exact ih _ (fun s hm => hs s (by simp [hm])) hok hpp

theorem performCore_presI {P : Nat → Side → Prop} (hP : ∀ k, SidePreserved (P k)) (w : Tape.World) (verbose : Bool) (img : Image) (srcs : List Str)
    (himg : ImgOk img) (hp : ImgAllI P img) (hs : ∀ src ∈ srcs, CleanSrc src) :
    ∃ st, performCore w verbose img srcs = .ok st ∧ ImgOk st.img ∧ ImgAllI P st.img := by
  unfold performCore
  dsimp only
  obtain ⟨st1, h1, hok1, hp1⟩ := injLoop_presI hP w srcs { img := img, cur := 0, l := onBeginOfSide { processing := 2, verbose := verbose } 0 } hs himg hp
  rw [h1]
  dsimp only
  split
  · obtain ⟨u, hu⟩ := usageOfSide_any hok1 st1.cur
    rw [hu]
    dsimp only
    obtain ⟨st2, h2, himg2⟩ := injTail_ok 4 { st1 with l := onEndOfSide st1.l u } hok1
    rw [h2]
    exact ⟨st2, rfl, by rw [himg2]; exact hok1, by rw [himg2]; exact hp1⟩
  · exact ⟨st1, rfl, hok1, hp1⟩

theorem performCore_pres {P : Side → Prop} (hP : SidePreserved P) (w : Tape.World) (verbose : Bool) (img : Image) (srcs : List Str)
    (himg : ImgOk img) (hp : ImgAll P img) (hs : ∀ src ∈ srcs, CleanSrc src) :
    ∃ st, performCore w verbose img srcs = .ok st ∧ ImgOk st.img ∧ ImgAll P st.img :=
  performCore_presI (P := fun _ => P) (fun _ => hP) w verbose img srcs himg hp hs

/-! ### byte 0 of the table sector -/

def Byte0 (sd : Side) : Prop := (getSector sd batTrack batSector).getD 0 1 = 0

theorem setBat_byte0 (sd : Side) (bat : List Nat) (hw : C11.WFSide sd) (hb : bat.length = 160) :
    (getSector (setBat sd bat) batTrack batSector).getD 0 1 = (getSector sd batTrack batSector).getD 0 1 := by
  rw [setBat_sector sd bat hw hb]
  have hidx : idx batTrack batSector < sd.length := by rw [hw.1]; decide
  have hm : getSector sd batTrack batSector ∈ sd := by
    unfold getSector
    rw [List.getD_eq_getElem?_getD, List.getElem?_eq_getElem hidx]; simp
  have hl := hw.2 _ hm
  generalize getSector sd batTrack batSector = sec at hl
  cases sec with
  | nil => simp at hl
  | cons x xs => simp

theorem byte0_preserved : SidePreserved Byte0 := by
  intro sd bat own inv h0 content name ext kind flag hname
  unfold Byte0 at h0 ⊢
  rw [writeFile_unfold sd bat content name ext kind flag inv.hbat inv.not_free40.1 inv.not_free40.2]
  by_cases hfit : (chosen bat (reqBlocks content.length)).length < reqBlocks content.length
  · rw [if_pos hfit]; exact h0
  · rw [if_neg hfit]
    obtain ⟨h40, h41⟩ := inv.not_free40
    obtain ⟨hwmid, hbmid, hnblen, hframe⟩ := mid_facts sd bat content inv.wf inv.hbat h40 h41 hfit
    have hblen := getBat_length sd bat inv.hbat
    obtain ⟨_, hfree⟩ := chosen_props bat hblen h40 h41 (reqBlocks content.length)
    -- byte 0 of the table sector in the middle state
    have hmid0 : (getSector (midSide sd bat content) batTrack batSector).getD 0 1 = 0 := by
      unfold midSide
      rw [setBat_byte0 _ _ (writeSectors_wf _ _ _ _ _ inv.wf) hnblen]
      have hsame : getSector (writeSectors (chosen bat (reqBlocks content.length)) content (reqSectors content.length) 0 sd) batTrack batSector
          = getSector sd batTrack batSector := by
        have hnd := chosen_nodup bat (reqBlocks content.length)
        obtain ⟨hb1, _, _, _, hS, _, _⟩ := size_law content.length
        have hflen : (chosen bat (reqBlocks content.length)).length = reqBlocks content.length := by
          have := chosen_length_le bat (reqBlocks content.length); omega
        have hspec := (writeSectors_spec _ hnd content (reqSectors content.length) 0 sd (by omega)
          (fun j _ h2 => by
            rw [inv.wf.1]; unfold flatOf
            have hj8 : j / 8 < (chosen bat (reqBlocks content.length)).length := by omega
            have hm : (chosen bat (reqBlocks content.length)).getD (j / 8) 0 ∈ chosen bat (reqBlocks content.length) := by
              rw [List.getD_eq_getElem?_getD, List.getElem?_eq_getElem hj8]; simp
            have := (hfree _ hm).1
            omega)).1
        unfold getSector
        apply hspec
        intro j _ hj he
        unfold flatOf at he
        have hj8 : j / 8 < (chosen bat (reqBlocks content.length)).length := by omega
        have hm : (chosen bat (reqBlocks content.length)).getD (j / 8) 0 ∈ chosen bat (reqBlocks content.length) := by
          rw [List.getD_eq_getElem?_getD, List.getElem?_eq_getElem hj8]; simp
        obtain ⟨_, h40', h41', _⟩ := hfree _ hm
        have hi : idx batTrack batSector = 321 := rfl
        rw [hi] at he
        have := Nat.mod_lt j (show 0 < 8 by omega)
        omega
      rw [hsame]; exact h0
    cases hf : findSlot (newBat bat content) (slots (midSide sd bat content)) with
    | error e => exact hmid0
    | ok o =>
      cases o with
      | none =>
        show (getSector (fullSide sd bat content) batTrack batSector).getD 0 1 = 0
        unfold fullSide
        rw [setBat_byte0 _ _ hwmid (by rw [fold_free_length]; exact hnblen)]
        exact hmid0
      | some p =>
        obtain ⟨s, st⟩ := p
        show (getSector (doneSide sd bat content name ext kind flag s st) batTrack batSector).getD 0 1 = 0
        obtain ⟨data, hmem⟩ := findSlot_mem _ _ _ _ hf
        obtain ⟨hs2, _⟩ := slots_sector_range _ _ _ _ hmem
        unfold doneSide
        rw [putSector_other _ _ _ _ _ _ (by unfold idx batSector; omega)]
        exact hmid0

theorem fresh_byte0 : Byte0 freshSide := by
  unfold Byte0
  decide +kernel

/-- the strict checker = the checker + byte 0 of the table sector is zero -/
theorem fsck_strict (sd : Side) (h : Spec.Dos.fsck false sd = true) (h0 : Byte0 sd) : Spec.Dos.fsck true sd = true := by
  unfold Spec.Dos.fsck at h ⊢
  unfold Byte0 at h0
  have e : (Spec.Dos.sector sd 20 1).getD 0 1 = 0 := h0
  simp only [Bool.not_false, Bool.true_or, Bool.and_true, Bool.not_true, Bool.false_or] at h ⊢
  rw [e]
  simpa using h

/-- what the extractor writes for a consistent side, in terms of the independent reader's files -/
theorem sideFiles_eq_spec {sd : Side} {bat : List Nat} {own : Nat → List Nat} (inv : SideInv sd bat own) (dir : Str) :
    sideFiles sd dir = ((List.range 112).filterMap (specFileAt sd bat own)).map
      (fun f => (pathJoin dir (fileNameOf ⟨1, recordOfBytes (slotData sd f.slot), []⟩), f.content)) := by
  unfold sideFiles
  rw [List.map_filterMap]
  apply filterMap_congr'
  intro j hj
  rw [fileAt_inv inv j (List.mem_range.mp hj)]
  unfold entryAt specFileAt fileOf
  by_cases hl : liveB (slotData sd j) = true
  · rw [if_pos hl, if_pos hl]; rfl
  · rw [if_neg hl, if_neg hl]; rfl

end Moto.Disk
