/-
  A whole create/add batch on an image whose catalogs have no hole: on every side the files afterwards are
  the files before followed by the sources stored there, in command-line order; the sides are taken in order.
-/
import MotoModel.Proofs.DiskOrder
import MotoModel.Proofs.DiskPlace
import MotoModel.Proofs.DiskReport
namespace Moto.Disk
open Moto Moto.Tape

/-- the files of a side in catalog order: (16 entry bytes, content) -/
def sideList (sd : Side) : List (Bytes × Bytes) := (List.range 112).filterMap (fileAt sd)

theorem filterMap_range_cut {β} (F : Nat → Option β) (n m : Nat) (hnm : n ≤ m) (h : ∀ j, n ≤ j → j < m → F j = none) :
    (List.range m).filterMap F = (List.range n).filterMap F := by
  have hsplit : List.range m = List.range n ++ (List.range (m - n)).map (fun x => n + x) := by
    have : m = n + (m - n) := by omega
    rw [this, List.range_add]
    simp
  rw [hsplit, List.filterMap_append]
  have e2 : ((List.range (m - n)).map (fun x => n + x)).filterMap F = [] := by
    rw [List.filterMap_eq_nil_iff]
    intro x hx
    obtain ⟨y, hy, rfl⟩ := List.mem_map.mp hx
    exact h _ (by omega) (by have := List.mem_range.mp hy; omega)
  rw [e2, List.append_nil]

/-- a side whose catalog has no hole receives one more file in an entry that held none: it is the entry
    right after the live ones, and the list of files grows by that file at its end -/
theorem sideList_append {sd sd' : Side} {bat bat' : List Nat} {own own' : Nat → List Nat} (inv : SideInv sd bat own) (inv' : SideInv sd' bat' own')
    (n n' : Nat) (hs : Seq n sd) (hs' : Seq n' sd') (i0 : Nat) (hi0 : i0 < 112)
    (h0 : fileAt sd i0 = none) (f : Bytes × Bytes) (h1 : fileAt sd' i0 = some f)
    (hoth : ∀ j, j < 112 → j ≠ i0 → fileAt sd' j = fileAt sd j) :
    sideList sd' = sideList sd ++ [f] := by
  have hge : n ≤ i0 := by
    apply Classical.byContradiction
    intro h
    exact (fileAt_none_iff inv i0 hi0).mp h0 (hs.1 i0 (by omega))
  have hlive' : liveData (slotData sd' i0) := by
    apply Classical.byContradiction
    intro h
    rw [(fileAt_none_iff inv' i0 hi0).mpr h] at h1
    cases h1
  have hin : i0 = n := by
    apply Classical.byContradiction
    intro hne
    have hlt : n < i0 := by omega
    have hn0 : fileAt sd n = none := (fileAt_none_iff inv n (by omega)).mpr (hs.2 n (Nat.le_refl _) (by omega))
    have hn1 : ¬ liveData (slotData sd' n) := by
      apply (fileAt_none_iff inv' n (by omega)).mp
      rw [hoth n (by omega) (by omega)]; exact hn0
    have hi' : i0 < n' := by
      apply Classical.byContradiction
      intro h
      exact hs'.2 i0 (by omega) hi0 hlive'
    exact hn1 (hs'.1 n (by omega))
  subst hin
  have hnone : ∀ j, i0 ≤ j → j < 112 → fileAt sd j = none :=
    fun j h1 h2 => (fileAt_none_iff inv j h2).mpr (hs.2 j h1 h2)
  unfold sideList
  rw [filterMap_range_cut (fileAt sd') (i0 + 1) 112 (by omega) (fun j h1 h2 => by rw [hoth j h2 (by omega)]; exact hnone j (by omega) h2),
    filterMap_range_cut (fileAt sd) i0 112 (by omega) hnone, List.range_succ, List.filterMap_append]
  congr 1
  · apply filterMap_congr'
    intro j hj
    have := List.mem_range.mp hj
    exact hoth j (by omega) (by omega)
  · simp [h1]

theorem sideList_congr (sd sd' : Side) (h : ∀ j, j < 112 → fileAt sd' j = fileAt sd j) : sideList sd' = sideList sd := by
  unfold sideList
  apply filterMap_congr'
  intro j hj
  exact h j (List.mem_range.mp hj)

def AllPrefix (img : Image) : Prop := ∀ k, k < 4 → Prefix (img.getD k [])

/-- **one file through the injector, on an image whose catalogs have no hole**: it is appended to the files
    of the first side from the cursor on that can take it, the cursor stops there, the other sides keep their
    files; or it fits nowhere, every side keeps its files and the cursor ends past the fourth side -/
theorem injWriteFile_ordered (name ext : Str) (kind flag : Nat) (data : Bytes) (hname : ∀ c ∈ name, c ≠ 0xFF)
    (st : Inj) (h : ImgOk st.img) (hp : AllPrefix st.img) :
    ∃ st', injWriteFile name ext kind flag data 4 st = .ok st' ∧ ImgOk st'.img ∧ AllPrefix st'.img
      ∧ ((∃ k r, st.cur ≤ k ∧ k < 4 ∧ st'.cur = k ∧ IsRecordOf r name ext kind flag data.length
            ∧ sideList (st'.img.getD k []) = sideList (st.img.getD k []) ++ [(r, data)]
            ∧ ∀ k', k' < 4 → k' ≠ k → sideList (st'.img.getD k' []) = sideList (st.img.getD k' []))
         ∨ (4 ≤ st'.cur ∧ ∀ k, k < 4 → sideList (st'.img.getD k []) = sideList (st.img.getD k []))) := by
  obtain ⟨st', hst', hok', hp'⟩ := injWriteFile_presI (P := fun _ => Prefix) (fun _ => prefix_preserved) name ext kind flag data hname 4 st h hp
  obtain ⟨st2, hst2, _, hone⟩ := injWriteFile_step name ext kind flag data hname 4 st h
  rw [hst'] at hst2
  cases hst2
  obtain ⟨st3, hst3, hplace⟩ := injWriteFile_place name ext kind flag data hname 4 st h (by omega)
  rw [hst'] at hst3
  cases hst3
  refine ⟨st', hst', hok', hp', ?_⟩
  rcases hplace with ⟨k, hck, hk4, _, _, hcur, i0, r0, hi0, hbefore, hafter⟩ | ⟨_, hcur, hsame⟩
  · left
    rcases hone with hall | ⟨k2, i2, hk2, hi2, hnone2, ⟨r, hr, hrec⟩, hoth⟩
    · rw [hall k i0 hk4 hi0, hbefore] at hafter; cases hafter
    · have hsame : k2 = k ∧ i2 = i0 := by
        apply Classical.byContradiction
        intro hne
        have := hoth k i0 hk4 hi0 (by intro hh; exact hne ⟨hh.1.symm, hh.2.symm⟩)
        rw [this, hbefore] at hafter; cases hafter
      obtain ⟨e1, e2⟩ := hsame
      subst e1 e2
      refine ⟨k2, r, hck, hk4, hcur, hrec, ?_, ?_⟩
      · obtain ⟨bat, own, inv⟩ := h.2 k2 hk4
        obtain ⟨bat', own', inv'⟩ := hok'.2 k2 hk4
        obtain ⟨n, _, hs⟩ := hp k2 hk4
        obtain ⟨n', _, hs'⟩ := hp' k2 hk4
        exact sideList_append inv inv' n n' hs hs' i2 hi0 hnone2 (r, data) hr
          (fun j hj hne => hoth k2 j hk4 hj (by intro hh; exact hne hh.2))
      · intro k' hk' hne
        exact sideList_congr _ _ (fun j hj => hoth k' j hk' hj (by intro hh; exact hne hh.1))
  · right
    exact ⟨hcur, fun k hk => sideList_congr _ _ (fun j hj => hsame k j hk hj)⟩

/-- `f` is the file the tools store for the source argument `src`: its content is what `src` designates, its
    entry bytes are those written for `src` (name, extension, kind, flag from the argument; size from the content) -/
def FileOf (w : Tape.World) (src : Str) (f : Bytes × Bytes) : Prop :=
  w (splitSource src).2.2.2 = some f.2 ∧ RecOf src f.1 f.2.length

/-- one source argument (not a marker) -/
theorem injFile_ordered (w : Tape.World) (src : Str) (hsrc : CleanSrc src) (st : Inj) (h : ImgOk st.img) (hp : AllPrefix st.img) :
    ∃ st' b, injFile w src st = .ok (st', b) ∧ ImgOk st'.img ∧ AllPrefix st'.img
      ∧ ((∃ k f, b = true ∧ st.cur ≤ k ∧ k < 4 ∧ st'.cur = k ∧ FileOf w src f
            ∧ sideList (st'.img.getD k []) = sideList (st.img.getD k []) ++ [f]
            ∧ ∀ k', k' < 4 → k' ≠ k → sideList (st'.img.getD k' []) = sideList (st.img.getD k' []))
         ∨ ((b = false → st'.cur = st.cur) ∧ (b = true → 4 ≤ st'.cur)
            ∧ ∀ k, k < 4 → sideList (st'.img.getD k []) = sideList (st.img.getD k []))) := by
  unfold injFile
  have hname := splitSource_name_clean src hsrc
  have hfo : ∀ (data r : Bytes), w (splitSource src).2.2.2 = some data →
      IsRecordOf r (splitSource src).1 (dispatch (splitSource src).1 (splitSource src).2.1 (splitSource src).2.2.1).2.2
        (dispatch (splitSource src).1 (splitSource src).2.1 (splitSource src).2.2.1).1
        (dispatch (splitSource src).1 (splitSource src).2.1 (splitSource src).2.2.1).2.1 data.length → FileOf w src (r, data) :=
    fun data r h1 h2 => ⟨h1, h2⟩
  generalize splitSource src = sp at hname hfo
  obtain ⟨fileName, fileExtension, extWithOption, cleanSrc⟩ := sp
  dsimp only at hname hfo ⊢
  have hskip : ∀ (l : DL), ∃ st' b, (Except.ok ({ st with l := l }, false) : Except PyErr (Inj × Bool)) = .ok (st', b) ∧ ImgOk st'.img ∧ AllPrefix st'.img
      ∧ ((∃ k f, b = true ∧ st.cur ≤ k ∧ k < 4 ∧ st'.cur = k ∧ FileOf w src f
            ∧ sideList (st'.img.getD k []) = sideList (st.img.getD k []) ++ [f]
            ∧ ∀ k', k' < 4 → k' ≠ k → sideList (st'.img.getD k' []) = sideList (st.img.getD k' []))
         ∨ ((b = false → st'.cur = st.cur) ∧ (b = true → 4 ≤ st'.cur)
            ∧ ∀ k, k < 4 → sideList (st'.img.getD k []) = sideList (st.img.getD k []))) :=
    fun l => ⟨_, _, rfl, h, hp, Or.inr ⟨fun _ => rfl, fun hb => absurd hb (by decide), fun _ _ => rfl⟩⟩
  cases hw : w cleanSrc with
  | none => exact hskip _
  | some data =>
    dsimp only
    split
    · exact hskip _
    · split
      · exact hskip _
      · split
        · exact hskip _
        · obtain ⟨st', hst', hok', hp', hcase⟩ := injWriteFile_ordered fileName (dispatch fileName fileExtension extWithOption).2.2
            (dispatch fileName fileExtension extWithOption).1 (dispatch fileName fileExtension extWithOption).2.1 data hname st h hp
          rw [hst']
          refine ⟨st', true, rfl, hok', hp', ?_⟩
          rcases hcase with ⟨k, r, h1, h2, h3, hrec, h4, h5⟩ | ⟨h1, h2⟩
          · exact Or.inl ⟨k, (r, data), rfl, h1, h2, h3, hfo data r hw hrec, h4, h5⟩
          · exact Or.inr ⟨fun hb => absurd hb (by decide), fun _ => h1, h2⟩

/-- the files gained by a side: `new` is `old` followed by the files of the sources `ss`, in that order -/
def FilesOf (w : Tape.World) : List (Bytes × Bytes) → List Str → Prop
  | [], [] => True
  | f :: fs, s :: ss => FileOf w s f ∧ FilesOf w fs ss
  | _, _ => False

def NewOn (w : Tape.World) (old new : List (Bytes × Bytes)) (ss : List Str) : Prop :=
  ∃ fs, new = old ++ fs ∧ FilesOf w fs ss

theorem NewOn.refl (w : Tape.World) (l : List (Bytes × Bytes)) : NewOn w l l [] := ⟨[], by simp, trivial⟩

/-- **the loop over the source arguments**: `placed` lists, in command-line order, the sources that end up
    stored, each with the side it is stored on -/
theorem injLoop_ordered (w : Tape.World) : ∀ (srcs : List Str) (st : Inj), (∀ src ∈ srcs, CleanSrc src) → ImgOk st.img → AllPrefix st.img →
    ∃ (st' : Inj) (placed : List (Nat × Str)), injLoop w srcs st = .ok st' ∧ ImgOk st'.img ∧ AllPrefix st'.img
      ∧ (placed.map (·.2)).Sublist srcs ∧ (placed.map (·.1)).Pairwise (· ≤ ·) ∧ (∀ p ∈ placed, st.cur ≤ p.1 ∧ p.1 < 4)
      ∧ ∀ k, k < 4 → NewOn w (sideList (st.img.getD k [])) (sideList (st'.img.getD k [])) ((placed.filter (fun p => p.1 == k)).map (·.2)) := by
  intro srcs
  induction srcs with
  | nil =>
    intro st _ h hp
    exact ⟨st, [], rfl, h, hp, by simp, by simp, by simp, fun k _ => NewOn.refl w _⟩
  | cons src rest ih =>
    intro st hs h hp
    have hrest : ∀ s ∈ rest, CleanSrc s := fun s hm => hs s (by simp [hm])
    simp only [injLoop]
    split
    · obtain ⟨u, hu⟩ := usageOfSide_any h st.cur
      rw [hu]
      dsimp only
      split
      · exact ⟨_, [], rfl, h, hp, by simp, by simp, by simp, fun k _ => NewOn.refl w _⟩
      · obtain ⟨st', placed, h1, h2, h3, h4, h5, h6, h7⟩ := ih { st with cur := st.cur + 1, l := onBeginOfSide (onEndOfSide st.l u) (st.cur + 1) } hrest h hp
        refine ⟨st', placed, h1, h2, h3, List.Sublist.cons _ h4, h5, ?_, h7⟩
        intro p hp'
        have := h6 p hp'
        dsimp only at this
        exact ⟨by omega, this.2⟩
    · obtain ⟨st1, b, hst1, hok1, hp1, hcase⟩ := injFile_ordered w src (hs src (by simp)) st h hp
      rw [hst1]
      dsimp only
      rcases hcase with ⟨k, f, hb, hck, hk4, hcur, hfo, hgain, hoth⟩ | ⟨hbf, hbt, hsame⟩
      · subst hb
        rw [if_neg (by simp; omega)]
        obtain ⟨st', placed, h1, h2, h3, h4, h5, h6, h7⟩ := ih st1 hrest hok1 hp1
        refine ⟨st', (k, src) :: placed, h1, h2, h3, ?_, ?_, ?_, ?_⟩
        · simp only [List.map_cons]; exact List.Sublist.cons₂ _ h4
        · simp only [List.map_cons, List.pairwise_cons]
          refine ⟨?_, h5⟩
          intro a ha
          obtain ⟨p, hp', rfl⟩ := List.mem_map.mp ha
          have := (h6 p hp').1
          omega
        · intro p hp'
          rcases List.mem_cons.mp hp' with rfl | hp''
          · exact ⟨hck, hk4⟩
          · have := h6 p hp''
            exact ⟨by omega, this.2⟩
        · intro k' hk'
          obtain ⟨fs, hfs, hall⟩ := h7 k' hk'
          by_cases hkk : k' = k
          · subst hkk
            refine ⟨f :: fs, ?_, ?_⟩
            · rw [hfs, hgain]; simp
            · simp only [List.filter_cons, beq_self_eq_true, if_true, List.map_cons]
              exact ⟨hfo, hall⟩
          · refine ⟨fs, ?_, ?_⟩
            · rw [hfs, hoth k' hk' hkk]
            · have : ((k, src) :: placed).filter (fun p => p.1 == k') = placed.filter (fun p => p.1 == k') := by
                rw [List.filter_cons, if_neg]
                simp; omega
              rw [this]; exact hall
      · have hweak : ∀ (st' : Inj) (placed : List (Nat × Str)), ImgOk st'.img → AllPrefix st'.img →
            (placed.map (·.2)).Sublist rest → (placed.map (·.1)).Pairwise (· ≤ ·) → (∀ p ∈ placed, st1.cur ≤ p.1 ∧ p.1 < 4) → st.cur ≤ st1.cur →
            (∀ k, k < 4 → NewOn w (sideList (st1.img.getD k [])) (sideList (st'.img.getD k [])) ((placed.filter (fun p => p.1 == k)).map (·.2))) →
            ImgOk st'.img ∧ AllPrefix st'.img
              ∧ (placed.map (·.2)).Sublist (src :: rest) ∧ (placed.map (·.1)).Pairwise (· ≤ ·) ∧ (∀ p ∈ placed, st.cur ≤ p.1 ∧ p.1 < 4)
              ∧ ∀ k, k < 4 → NewOn w (sideList (st.img.getD k [])) (sideList (st'.img.getD k [])) ((placed.filter (fun p => p.1 == k)).map (·.2)) := by
          intro st' placed a1 a2 a3 a4 a5 a6 a7
          refine ⟨a1, a2, List.Sublist.cons _ a3, a4, fun p hp' => ⟨by have := (a5 p hp').1; omega, (a5 p hp').2⟩, ?_⟩
          intro k hk
          rw [← hsame k hk]; exact a7 k hk
        cases b with
        | false =>
          have hc := hbf rfl
          rw [if_neg (by simp)]
          obtain ⟨st', placed, h1, h2, h3, h4, h5, h6, h7⟩ := ih st1 hrest hok1 hp1
          exact ⟨st', placed, h1, hweak st' placed h2 h3 h4 h5 h6 (by omega) h7⟩
        | true =>
          have hc := hbt rfl
          rw [if_pos (by simp; omega)]
          exact ⟨st1, [], rfl, hok1, hp1, by simp, by simp, by simp, fun k hk => by rw [hsame k hk]; exact NewOn.refl w _⟩

/-- **a whole create/add batch on an image whose catalogs have no hole**: there is a list `placed` of
    (side, source argument) — a sub-sequence of the command line, in command-line order, sides never
    decreasing — such that on every side the files afterwards are exactly the files before followed by the
    files of the sources placed on that side, in that order -/
theorem performCore_ordered (w : Tape.World) (verbose : Bool) (img : Image) (srcs : List Str)
    (himg : ImgOk img) (hp : AllPrefix img) (hs : ∀ src ∈ srcs, CleanSrc src) :
    ∃ (st : Inj) (placed : List (Nat × Str)), performCore w verbose img srcs = .ok st ∧ ImgOk st.img ∧ AllPrefix st.img
      ∧ (placed.map (·.2)).Sublist srcs ∧ (placed.map (·.1)).Pairwise (· ≤ ·) ∧ (∀ p ∈ placed, p.1 < 4)
      ∧ ∀ k, k < 4 → NewOn w (sideList (img.getD k [])) (sideList (st.img.getD k [])) ((placed.filter (fun p => p.1 == k)).map (·.2)) := by
  unfold performCore
  dsimp only
  obtain ⟨st1, placed, h1, hok1, hp1, h4, h5, h6, h7⟩ := injLoop_ordered w srcs
    { img := img, cur := 0, l := onBeginOfSide { processing := 2, verbose := verbose } 0 } hs himg hp
  rw [h1]
  dsimp only
  split
  · obtain ⟨u, hu⟩ := usageOfSide_any hok1 st1.cur
    rw [hu]
    dsimp only
    obtain ⟨st2, h2, himg2⟩ := injTail_ok 4 { st1 with l := onEndOfSide st1.l u } hok1
    rw [h2]
    refine ⟨st2, placed, rfl, ?_, ?_, h4, h5, fun p hp' => (h6 p hp').2, ?_⟩ <;> rw [himg2]
    · exact hok1
    · exact hp1
    · exact h7
  · exact ⟨st1, placed, rfl, hok1, hp1, h4, h5, fun p hp' => (h6 p hp').2, h7⟩

/-! ### what `--list` and `--extract` show is the list of files in catalog order -/

/-- the files `--extract` writes for a side are the side's files in catalog order, each under the name read
    from its entry bytes -/
theorem sideFiles_eq_sideList (sd : Side) (dir : Str) :
    sideFiles sd dir = (sideList sd).map (fun f => (pathJoin dir (fileNameOf ⟨1, f.1, []⟩), f.2)) := by
  unfold sideFiles sideList
  rw [List.map_filterMap]

/-- the lines `--list` prints for a side name the side's files in catalog order (the 8 + 3 name bytes of each
    entry) -/
theorem sideEvs_names {sd : Side} {bat : List Nat} {own : Nat → List Nat} (inv : SideInv sd bat own) :
    (sideEvs sd).map (fun ev => (ev.name, ev.ext)) = (sideList sd).map (fun f => (slice f.1 0 8, slice f.1 8 11)) := by
  rw [sideEvs_inv inv]
  unfold sideList
  rw [List.map_map, List.map_filterMap, List.map_filterMap]
  apply filterMap_congr'
  intro j hj
  rw [fileAt_inv inv j (List.mem_range.mp hj)]
  cases entryAt sd own j with
  | none => rfl
  | some e => rfl

theorem sideList_fresh : sideList freshSide = [] := by
  unfold sideList
  rw [List.filterMap_eq_nil_iff]
  intro j hj
  have := fresh_no_file 0 j (by omega) (List.mem_range.mp hj)
  unfold imgFileAt at this
  rw [fresh_getD 0 (by omega)] at this
  exact this

/-- the name a stored source is listed and extracted under -/
theorem fileOf_name (w : Tape.World) (src : Str) (f : Bytes × Bytes) (h : FileOf w src f) :
    fileNameOf ⟨1, f.1, []⟩ = diskName src ∧ w (splitSource src).2.2.2 = some f.2 :=
  ⟨fileName_of_rec src f.1 f.2.length h.2, h.1⟩

/-- **`--create`: the image holds, on every side, exactly the sources placed there, in command-line order** -/
theorem create_ordered (w : Tape.World) (verbose : Bool) (srcs : List Str) (hs : ∀ src ∈ srcs, CleanSrc src) :
    ∃ (st : Inj) (placed : List (Nat × Str)), performCore w verbose ((List.replicate 4 blankSide).map initFileSystem) srcs = .ok st ∧ ImgOk st.img
      ∧ (placed.map (·.2)).Sublist srcs ∧ (placed.map (·.1)).Pairwise (· ≤ ·) ∧ (∀ p ∈ placed, p.1 < 4)
      ∧ ∀ k, k < 4 → FilesOf w (sideList (st.img.getD k [])) ((placed.filter (fun p => p.1 == k)).map (·.2)) := by
  have hp0 : AllPrefix ((List.replicate 4 blankSide).map initFileSystem) := by
    intro k hk
    rw [fresh_getD k hk]
    exact ⟨0, by omega, fresh_seq⟩
  obtain ⟨st, placed, h1, h2, _, h4, h5, h6, h7⟩ := performCore_ordered w verbose _ srcs fresh_img_ok hp0 hs
  refine ⟨st, placed, h1, h2, h4, h5, h6, ?_⟩
  intro k hk
  obtain ⟨fs, hfs, hall⟩ := h7 k hk
  rw [fresh_getD k hk, sideList_fresh, List.nil_append] at hfs
  rw [hfs]; exact hall

end Moto.Disk
