/-
  What `--extract` writes for a consistent image whose entries have ordinary names.
-/
import MotoModel.Proofs.PathNorm
import MotoModel.Proofs.DiskRuns
namespace Moto.Disk
open Moto Moto.Tape

/-- an entry the extractor can write: 7-bit name bytes, no '/' or NUL in the file name, not "." or ".." -/
def NiceRec (r : Bytes) : Prop :=
  (slice r 0 11).any (· ≥ 128) = false
  ∧ (fileNameOf ⟨1, r, []⟩).contains 47 = false ∧ (fileNameOf ⟨1, r, []⟩).contains 0 = false
  ∧ fileNameOf ⟨1, r, []⟩ ≠ [46] ∧ fileNameOf ⟨1, r, []⟩ ≠ [46, 46]

theorem fileNameOf_rec (e : Entry) : fileNameOf e = fileNameOf ⟨1, e.rec16, []⟩ := rfl

theorem readEntries_nice (sd : Side) (bat : List Nat) (dir : Str) : ∀ (entries : List Entry) (st : RdState),
    (∀ e ∈ entries, NiceRec e.rec16) → (∀ e ∈ entries, Tape.collides st.keep (pathJoin dir (fileNameOf e)) = false) →
    ∃ st', readEntries sd bat (some dir) entries st = (st', none) ∧ st'.mkdirs = st.mkdirs ∧ st'.keep = st.keep
      ∧ st'.writes = st.writes ++ entries.map (fun e => (pathJoin dir (fileNameOf e), readFile sd bat e)) := by
  intro entries
  induction entries with
  | nil => intro st _ _; exact ⟨st, rfl, rfl, rfl, by simp⟩
  | cons e rest ih =>
    intro st hn hsafe
    obtain ⟨h128, h47, h0, hdot, hdd⟩ := hn e (by simp)
    have hs0 := hsafe e (by simp)
    simp only [readEntries]
    rw [if_neg (by rw [h128]; decide)]
    rw [fileNameOf_rec e] at hs0 ⊢
    rw [if_neg (by rw [h47, h0]; decide), if_neg (by rw [hs0]; decide), if_neg (by simp [hdot, hdd])]
    have hmono : ∀ S : RdState, S.mkdirs = st.mkdirs → S.keep = st.keep →
        S.writes = st.writes ++ [(pathJoin dir (fileNameOf e), readFile sd bat e)] →
        (∃ st', readEntries sd bat (some dir) rest S = (st', none) ∧ st'.mkdirs = S.mkdirs ∧ st'.keep = S.keep
          ∧ st'.writes = S.writes ++ rest.map (fun e => (pathJoin dir (fileNameOf e), readFile sd bat e))) →
        ∃ st', readEntries sd bat (some dir) rest S = (st', none) ∧ st'.mkdirs = st.mkdirs ∧ st'.keep = st.keep
          ∧ st'.writes = st.writes ++ (e :: rest).map (fun e => (pathJoin dir (fileNameOf e), readFile sd bat e)) := by
      intro S hm hk hw ⟨st', h1, h2, h2', h3⟩
      refine ⟨st', h1, by rw [h2, hm], by rw [h2', hk], ?_⟩
      rw [h3, hw]
      simp
    exact hmono _ rfl rfl (by rw [readFileImpl_eq]; rfl) (ih _ (fun e' he' => hn e' (by simp [he'])) (fun e' he' => hsafe e' (by simp [he'])))

/-- every file of the side has an ordinary name -/
def NiceSide (sd : Side) : Prop := ∀ j f, j < 112 → fileAt sd j = some f → NiceRec f.1

/-- the files of one side as the extractor lays them out under `dir`, in catalog order -/
def sideFiles (sd : Side) (dir : Str) : List (Str × Bytes) :=
  (List.range 112).filterMap fun j => (fileAt sd j).map fun f => (pathJoin dir (fileNameOf ⟨1, f.1, []⟩), f.2)

def sidesFiles (target : Str) : List Side → Nat → List (Str × Bytes)
  | [], _ => []
  | sd :: rest, i => sideFiles sd (pathJoin target (str "side" ++ digits i)) ++ sidesFiles target rest (i + 1)

theorem filterMap_congr' {α β} (l : List α) (f g : α → Option β) (h : ∀ x ∈ l, f x = g x) : l.filterMap f = l.filterMap g := by
  induction l with
  | nil => rfl
  | cons x xs ih => simp only [List.filterMap_cons, h x (by simp), ih (fun y hy => h y (by simp [hy]))]

theorem entries_map_eq_sideFiles {sd : Side} {bat : List Nat} {own : Nat → List Nat} (inv : SideInv sd bat own) (dir : Str) :
    ((List.range 112).filterMap (entryAt sd own)).map (fun e => (pathJoin dir (fileNameOf e), readFile sd bat e)) = sideFiles sd dir := by
  unfold sideFiles
  rw [List.map_filterMap]
  apply filterMap_congr'
  intro j hj
  rw [fileAt_inv inv j (List.mem_range.mp hj)]
  cases entryAt sd own j with
  | none => rfl
  | some e => rfl

theorem nice_entries {sd : Side} {bat : List Nat} {own : Nat → List Nat} (inv : SideInv sd bat own) (hn : NiceSide sd) :
    ∀ e ∈ (List.range 112).filterMap (entryAt sd own), NiceRec e.rec16 := by
  intro e he
  obtain ⟨j, hj, hje⟩ := List.mem_filterMap.mp he
  have hj' := List.mem_range.mp hj
  have := fileAt_inv inv j hj'
  rw [hje] at this
  exact hn j _ hj' this

theorem readSides_nice (target : Str) : ∀ (sides : List Side) (i : Nat) (st : RdState),
    (∀ sd ∈ sides, SideOk sd ∧ NiceSide sd) → (∀ p ∈ sidesFiles target sides i, Tape.collides st.keep p.1 = false) →
    ∃ st', readSides (some target) sides i st = (st', none) ∧ st'.writes = st.writes ++ sidesFiles target sides i := by
  intro sides
  induction sides with
  | nil => intro i st _ _; exact ⟨st, rfl, by simp [sidesFiles]⟩
  | cons sd rest ih =>
    intro i st h hsafe
    obtain ⟨⟨bat, own, inv⟩, hn⟩ := h sd (by simp)
    simp only [readSides, Option.map_some]
    rw [inv.hbat]
    dsimp only
    rw [listFiles_inv inv]
    dsimp only
    have hsafe1 : ∀ e ∈ (List.range 112).filterMap (entryAt sd own),
        Tape.collides st.keep (pathJoin (pathJoin target (str "side" ++ digits i)) (fileNameOf e)) = false := by
      intro e he
      apply hsafe (pathJoin (pathJoin target (str "side" ++ digits i)) (fileNameOf e), readFile sd bat e)
      simp only [sidesFiles, List.mem_append]
      left
      rw [← entries_map_eq_sideFiles inv]
      exact List.mem_map_of_mem he
    have hmono : ∀ S : RdState, S.writes = st.writes → S.keep = st.keep →
        (∃ S', readEntries sd bat (some (pathJoin target (str "side" ++ digits i))) ((List.range 112).filterMap (entryAt sd own)) S = (S', none)
          ∧ S'.mkdirs = S.mkdirs ∧ S'.keep = S.keep ∧ S'.writes = S.writes ++ ((List.range 112).filterMap (entryAt sd own)).map
              (fun e => (pathJoin (pathJoin target (str "side" ++ digits i)) (fileNameOf e), readFile sd bat e))) →
        ∃ st', (match readEntries sd bat (some (pathJoin target (str "side" ++ digits i))) ((List.range 112).filterMap (entryAt sd own)) S with
            | (st', some e) => (st', some e)
            | (st', none) => readSides (some target) rest (i + 1) { st' with l := onEndOfSide st'.l (computeUsage bat) }) = (st', none)
          ∧ st'.writes = st.writes ++ sidesFiles target (sd :: rest) i := by
      intro S hS hK ⟨S', h1, _, hk', h3⟩
      rw [h1]
      dsimp only
      obtain ⟨st2, g1, g2⟩ := ih (i + 1) { S' with l := onEndOfSide S'.l (computeUsage bat) } (fun s hs => h s (by simp [hs]))
        (by intro p hp
            show Tape.collides S'.keep p.1 = false
            rw [hk', hK]
            apply hsafe p
            simp only [sidesFiles, List.mem_append]
            exact Or.inr hp)
      refine ⟨st2, g1, ?_⟩
      rw [g2]
      dsimp only
      rw [h3, hS, entries_map_eq_sideFiles inv]
      simp [sidesFiles]
    exact hmono _ rfl rfl (readEntries_nice sd bat _ _ _ (nice_entries inv hn) hsafe1)

theorem finish_nice (target : Str) (sides : List Side) (S : RdState) (hall : ∀ sd ∈ sides, SideOk sd ∧ NiceSide sd)
    (hsafe : ∀ p ∈ sidesFiles target sides 0, Tape.collides S.keep p.1 = false) :
    (finishRead (readSides (some target) sides 0 S)).status = .ret 0
    ∧ (finishRead (readSides (some target) sides 0 S)).writes = S.writes ++ sidesFiles target sides 0 := by
  obtain ⟨st', h1, h2⟩ := readSides_nice target sides 0 S hall hsafe
  rw [h1]
  exact ⟨rfl, by simp only [finishRead]; exact h2⟩

theorem digits_range : ∀ (n : Nat), ∀ c ∈ digits n, 48 ≤ c ∧ c ≤ 57 := by
  intro n
  induction n using Nat.strongRecOn with
  | _ n ih =>
    intro c hc
    rw [digits] at hc
    split at hc
    · simp at hc; omega
    · rcases List.mem_append.mp hc with h | h
      · exact ih (n / 10) (by omega) c h
      · simp at h; omega

theorem sideDir_plain (k : Nat) : 47 ∉ (str "side" ++ digits k) ∧ PlainComp (str "side" ++ digits k) := by
  refine ⟨?_, ?_, ?_, ?_⟩
  · intro h
    rcases List.mem_append.mp h with h | h
    · revert h; decide
    · have := digits_range k 47 h; omega
  · intro h; have := congrArg List.head? h; simp [str] at this
  · intro h; have := congrArg List.head? h; simp [str] at this
  · intro h; have := congrArg List.head? h; simp [str] at this

theorem niceRec_plain (r : Bytes) (h : NiceRec r) : 47 ∉ fileNameOf ⟨1, r, []⟩ ∧ PlainComp (fileNameOf ⟨1, r, []⟩) := by
  obtain ⟨_, h47, _, hdot, hdd⟩ := h
  refine ⟨by simpa using h47, ?_, hdot, hdd⟩
  unfold fileNameOf
  simp

/-- **without `--into` no member of a disk archive can be extracted onto the archive**: the members go two
    levels below the archive's own directory (`sideN/NAME.EXT`) -/
theorem default_destination_safe (archive : Str) : ∀ (sides : List Side) (i : Nat), (∀ sd ∈ sides, NiceSide sd) →
    ∀ p ∈ sidesFiles (Tape.targetDirOf archive none) sides i, samePath p.1 archive = false := by
  intro sides
  induction sides with
  | nil => intro i _ p hp; simp [sidesFiles] at hp
  | cons sd rest ih =>
    intro i hn p hp
    simp only [sidesFiles, List.mem_append] at hp
    rcases hp with hp | hp
    · unfold sideFiles at hp
      obtain ⟨j, hj, hjp⟩ := List.mem_filterMap.mp hp
      cases hf : fileAt sd j with
      | none => rw [hf] at hjp; simp at hjp
      | some f =>
        rw [hf] at hjp
        simp only [Option.map_some, Option.some.injEq] at hjp
        rw [← hjp]
        have hnice := hn sd (by simp) j f (List.mem_range.mp hj) hf
        obtain ⟨h1, h2⟩ := niceRec_plain f.1 hnice
        obtain ⟨h3, h4⟩ := sideDir_plain i
        exact two_below_dirname_not_archive archive _ _ h3 h4 h1 h2
    · exact ih (i + 1) (fun s hs => hn s (by simp [hs])) p hp

theorem nice_all (img : Image) (h4 : img.length = 4) (hn : ∀ k, k < 4 → NiceSide (img.getD k [])) : ∀ sd ∈ img, NiceSide sd := by
  intro sd hsd
  obtain ⟨i, hi, rfl⟩ := List.getElem_of_mem hsd
  have hi4 : i < 4 := by rw [← h4]; exact hi
  have e : img.getD i [] = img[i] := by rw [List.getD_eq_getElem?_getD, List.getElem?_eq_getElem hi]; rfl
  exact e ▸ hn i hi4

/-- **`--extract` of the archive of a consistent image** (ordinary names): returns 0 and writes,
    side after side and in catalog order, `target/sideN/NAME.EXT` with the content of every file
    of the image — nothing else. -/
theorem extract_consistent (fl : Flavour) (verbose : Bool) (archive : Str) (into : Option Str) (img : Image)
    (h : ImgOk img) (hn : ∀ k, k < 4 → NiceSide (img.getD k []))
    (hk : ∀ p ∈ sidesFiles (Tape.targetDirOf archive into) img 0, samePath p.1 archive = false) :
    (extract fl verbose archive into (save fl img)).status = .ret 0
    ∧ (extract fl verbose archive into (save fl img)).writes = sidesFiles (Tape.targetDirOf archive into) img 0 := by
  unfold extract
  rw [load_save fl img h.wf h.1]
  dsimp only
  have hall : ∀ sd ∈ img, SideOk sd ∧ NiceSide sd := by
    intro sd hsd
    obtain ⟨i, hi, rfl⟩ := List.getElem_of_mem hsd
    have hi4 : i < 4 := by rw [← h.1]; exact hi
    have e : img.getD i [] = img[i] := by rw [List.getD_eq_getElem?_getD, List.getElem?_eq_getElem hi]; rfl
    exact ⟨e ▸ h.2 i hi4, e ▸ hn i hi4⟩
  refine ⟨(finish_nice _ img _ hall hk).1, ?_⟩
  rw [(finish_nice _ img _ hall hk).2]
  rfl

/-- … and without `--into` (the members go beside the archive, under `sideN/`) no member can be the
    archive: the extraction of a consistent image with ordinary names always succeeds -/
theorem extract_consistent_default (fl : Flavour) (verbose : Bool) (archive : Str) (img : Image)
    (h : ImgOk img) (hn : ∀ k, k < 4 → NiceSide (img.getD k [])) :
    (extract fl verbose archive none (save fl img)).status = .ret 0
    ∧ (extract fl verbose archive none (save fl img)).writes = sidesFiles (dirname archive) img 0 :=
  extract_consistent fl verbose archive none img h hn (default_destination_safe archive img 0 (nice_all img h.1 hn))

/-! ### ordinary names -/

theorem slice_of_take {α} (l : List α) (a b n : Nat) (h : b ≤ n) : slice (l.take n) a b = slice l a b := by
  unfold slice
  rw [List.drop_take, List.take_take]
  congr 1
  omega

theorem NiceRec_congr (r1 r2 : Bytes) (h : r1.take 11 = r2.take 11) (hn : NiceRec r1) : NiceRec r2 := by
  have e11 : slice r2 0 11 = slice r1 0 11 := by rw [← slice_of_take r2 0 11 11 (by omega), ← h, slice_of_take _ _ _ _ (by omega)]
  have e8 : slice r2 0 8 = slice r1 0 8 := by rw [← slice_of_take r2 0 8 11 (by omega), ← h, slice_of_take _ _ _ _ (by omega)]
  have e3 : slice r2 8 11 = slice r1 8 11 := by rw [← slice_of_take r2 8 11 11 (by omega), ← h, slice_of_take _ _ _ _ (by omega)]
  unfold NiceRec fileNameOf at hn ⊢
  dsimp only at hn ⊢
  rw [e11, e8, e3]
  exact hn

theorem take_set_of_le {α} (l : List α) (n i : Nat) (x : α) (h : n ≤ i) : (l.set i x).take n = l.take n := by
  apply List.ext_getElem?
  intro k
  simp only [List.getElem?_take]
  split
  · rw [List.getElem?_set_ne (by omega)]
  · rfl

/-- the first eleven bytes of a decoded entry depend on the name and extension fields only -/
theorem recordOfBytes_take11 (d1 d2 : Bytes) (h8 : slice d1 0 8 = slice d2 0 8) (h3 : slice d1 8 11 = slice d2 8 11) :
    (recordOfBytes d1).take 11 = (recordOfBytes d2).take 11 := by
  unfold recordOfBytes
  dsimp only
  rw [take_set_of_le _ 11 15 _ (by omega), take_set_of_le _ 11 14 _ (by omega), take_set_of_le _ 11 13 _ (by omega),
    take_set_of_le _ 11 12 _ (by omega), take_set_of_le _ 11 11 _ (by omega)]
  rw [take_set_of_le _ 11 15 _ (by omega), take_set_of_le _ 11 14 _ (by omega), take_set_of_le _ 11 13 _ (by omega),
    take_set_of_le _ 11 12 _ (by omega), take_set_of_le _ 11 11 _ (by omega)]
  rw [h8, h3]

theorem newRecord_slice (name ext : Str) (k f first lb a b : Nat) (hb : b ≤ 11) :
    slice (newRecord name ext k f first lb) a b = slice (newRecord name ext 0 0 0 0) a b := by
  have key : ∀ k f first lb, slice (newRecord name ext k f first lb) a b
      = slice ((bytesFromStr (upper name) 8 ++ bytesFromStr (upper ext) 3).map (fun c => if c < 0x20 then Gen.Disk.invalidChar else c)) a b := by
    intro k f first lb
    unfold newRecord
    dsimp only
    have h11 : ((bytesFromStr (upper name) 8 ++ bytesFromStr (upper ext) 3).map
        (fun c => if c < 0x20 then Gen.Disk.invalidChar else c)).length = 11 := by simp [bytesFromStr_length]
    rw [← slice_of_take _ a b 11 hb, List.append_assoc, List.take_left' h11]
  rw [key, key]

theorem record_take11 (name ext : Str) (k f first lb : Nat) :
    (recordOfBytes (newRecord name ext k f first lb)).take 11 = (recordOfBytes (newRecord name ext 0 0 0 0)).take 11 :=
  recordOfBytes_take11 _ _ (newRecord_slice name ext k f first lb 0 8 (by omega)) (newRecord_slice name ext k f first lb 8 11 (by omega))

/-- a source whose catalog name the extractor can write back: checked on the 11 name bytes the
    tools would store for it (7-bit, no '/', not blank) -/
def OrdinarySrc (src : Str) : Prop :=
  CleanSrc src ∧ NiceRec (recordOfBytes (newRecord (splitSource src).1
    (dispatch (splitSource src).1 (splitSource src).2.1 (splitSource src).2.2.1).2.2 0 0 0 0))

/-- ordinary names in, ordinary names out -/
theorem nice_after {w : Tape.World} {srcs : List Str} {a b : Image} (hof : OnlyFrom w srcs a b)
    (ha : ∀ k, k < 4 → NiceSide (a.getD k [])) (hs : ∀ src ∈ srcs, OrdinarySrc src) : ∀ k, k < 4 → NiceSide (b.getD k []) := by
  intro k hk j f hj hf
  obtain ⟨r, c⟩ := f
  rcases hof k j r c hk hj hf with h | ⟨src, hsrc, name, ext, kind, flag, hoff, first, hrec⟩
  · exact ha k hk j _ hj h
  · obtain ⟨_, hn, _, _, he⟩ := hoff
    dsimp only
    rw [hrec, hn, he]
    exact NiceRec_congr _ _ (record_take11 _ _ _ _ _ _).symm (hs src hsrc).2

end Moto.Disk
