/-
  Block chains: `linkChain` writes a chain in the table, `walk` reads it back.
-/
import MotoModel.Proofs.DiskBasic
namespace Moto.Disk
open Moto

theorem linkChain_length (chain : List Nat) : ∀ (bat : List Nat) (u : Nat), (linkChain bat chain u).length = bat.length := by
  induction chain with
  | nil => intro bat u; rfl
  | cons b rest ih =>
    intro bat u
    cases rest with
    | nil => simp [linkChain]
    | cons c rest' => simp only [linkChain]; rw [ih]; simp

/-- statuses of blocks outside the chain are untouched -/
theorem linkChain_other (chain : List Nat) : ∀ (bat : List Nat) (u x d : Nat), x ∉ chain →
    (linkChain bat chain u).getD x d = bat.getD x d := by
  induction chain with
  | nil => intro bat u x d _; rfl
  | cons b rest ih =>
    intro bat u x d hx
    have hxb : b ≠ x := by intro h; apply hx; simp [h]
    cases rest with
    | nil => simp [linkChain, List.getD_eq_getElem?_getD, hxb]
    | cons c rest' =>
      simp only [linkChain]
      rw [ih (bat.set b c) u x d (by intro h; apply hx; simp at h ⊢; right; exact h)]
      simp [List.getD_eq_getElem?_getD, hxb]

/-- the table links `cur :: rest`: each block points to the next, the last carries `C0 + u` -/
def Linked (bat : List Nat) : List Nat → Nat → Prop
  | [], _ => True
  | [b], u => bat.getD b 0 = 0xC0 + u
  | b :: c :: rest, u => bat.getD b 0 = c ∧ Linked bat (c :: rest) u

theorem linked_of_other (bat bat' : List Nat) (chain : List Nat) (u : Nat)
    (h : ∀ x ∈ chain, bat'.getD x 0 = bat.getD x 0) (hl : Linked bat chain u) : Linked bat' chain u := by
  induction chain with
  | nil => trivial
  | cons b rest ih =>
    cases rest with
    | nil => simp only [Linked] at hl ⊢; rw [h b (by simp)]; exact hl
    | cons c rest' =>
      simp only [Linked] at hl ⊢
      exact ⟨by rw [h b (by simp)]; exact hl.1, ih (fun x hx => h x (by simp [hx])) hl.2⟩

theorem linkChain_linked (chain : List Nat) : ∀ (bat : List Nat) (u : Nat), chain.Nodup → (∀ b ∈ chain, b < bat.length) →
    Linked (linkChain bat chain u) chain u := by
  induction chain with
  | nil => intro bat u _ _; trivial
  | cons b rest ih =>
    intro bat u hnd hlt
    have hb : b < bat.length := hlt b (by simp)
    cases rest with
    | nil => simp [Linked, linkChain, List.getD_eq_getElem?_getD, hb]
    | cons c rest' =>
      have hnd' : (c :: rest').Nodup := (List.nodup_cons.mp hnd).2
      have hbn : b ∉ c :: rest' := (List.nodup_cons.mp hnd).1
      simp only [linkChain, Linked]
      constructor
      · rw [linkChain_other (c :: rest') (bat.set b c) u b 0 hbn]
        simp [List.getD_eq_getElem?_getD, hb]
      · exact ih (bat.set b c) u hnd' (by intro x hx; simp; exact hlt x (by simp [hx]))

theorem isLast_marker (u : Nat) (h1 : 1 ≤ u) (h8 : u ≤ 8) : isLast (0xC0 + u) = true := by
  unfold isLast
  have a : Gen.Disk.bsLastBlock = 192 := rfl
  have b : Gen.Disk.bsMaxLast = 201 := rfl
  rw [a, b]
  simp only [Bool.and_eq_true, decide_eq_true_eq]
  omega

theorem small_not_special (c : Nat) (h : c < 160) : isLast c = false ∧ isFree c = false ∧ isReserved c = false := by
  unfold isLast isFree isReserved
  have a : Gen.Disk.bsLastBlock = 192 := rfl
  have b : Gen.Disk.bsMaxLast = 201 := rfl
  have c1 : Gen.Disk.bsFree = 255 := rfl
  have c2 : Gen.Disk.bsReserved = 254 := rfl
  rw [a, b, c1, c2]
  refine ⟨?_, ?_, ?_⟩
  · simp only [Bool.and_eq_false_iff, decide_eq_false_iff_not]; omega
  · simp only [beq_eq_false_iff_ne]; omega
  · simp only [beq_eq_false_iff_ne]; omega

theorem marker_not_free (u : Nat) (h8 : u ≤ 8) : isFree (0xC0 + u) = false ∧ isReserved (0xC0 + u) = false := by
  unfold isFree isReserved
  have c1 : Gen.Disk.bsFree = 255 := rfl
  have c2 : Gen.Disk.bsReserved = 254 := rfl
  rw [c1, c2]
  constructor <;> (simp only [beq_eq_false_iff_ne]; omega)

/-- status of the head of a linked chain is neither free nor reserved -/
theorem linked_head_used (bat : List Nat) (b : Nat) (rest : List Nat) (u : Nat) (hl : Linked bat (b :: rest) u)
    (hlt : ∀ x ∈ rest, x < 160) (h8 : u ≤ 8) : isFree (bat.getD b 0) = false ∧ isReserved (bat.getD b 0) = false := by
  cases rest with
  | nil => simp only [Linked] at hl; rw [hl]; exact marker_not_free u h8
  | cons c rest' =>
    simp only [Linked] at hl; rw [hl.1]
    have := small_not_special c (hlt c (by simp))
    exact ⟨this.2.1, this.2.2⟩

/-- the walk follows a linked chain to its end -/
theorem walkLoop_linked (bat : List Nat) (u : Nat) (h1 : 1 ≤ u) (h8 : u ≤ 8) (rest : List Nat) :
    ∀ (cur : Nat) (acc : List Nat) (fuel : Nat), Linked bat (cur :: rest) u → (∀ x ∈ rest, x < 160) →
    (cur :: rest).Nodup → (∀ x ∈ rest, x ∉ acc) → rest.length < fuel →
    walkLoop bat fuel cur acc = acc.reverse ++ rest := by
  induction rest with
  | nil =>
    intro cur acc fuel hl _ _ _ hf
    cases fuel with
    | zero => omega
    | succ f =>
      simp only [Linked] at hl
      simp only [walkLoop]
      rw [hl]
      simp [isLast_marker u h1 h8]
  | cons c rest' ih =>
    intro cur acc fuel hl hlt hnd hacc hf
    cases fuel with
    | zero => simp at hf
    | succ f =>
      simp only [Linked] at hl
      have hc := small_not_special c (hlt c (by simp))
      have hhead := linked_head_used bat c rest' u hl.2 (fun x hx => hlt x (by simp [hx])) h8
      have hcacc : acc.contains c = false := by
        simpa using hacc c (by simp)
      simp only [walkLoop, hl.1, hc.1, hhead.1, hhead.2, hcacc, Bool.false_eq_true, if_false, Bool.or_false]
      have hnd' : (c :: rest').Nodup := (List.nodup_cons.mp hnd).2
      have hcn : c ∉ rest' := (List.nodup_cons.mp hnd').1
      rw [ih c (c :: acc) f hl.2 (fun x hx => hlt x (by simp [hx])) hnd'
        (by intro x hx; simp only [List.mem_cons, not_or]; exact ⟨fun h => hcn (h ▸ hx), hacc x (by simp [hx])⟩)
        (by simp at hf; omega)]
      simp

/-- **reading back a written chain**: after `linkChain`, `walk` from the first block returns the chain -/
theorem walk_linked (bat : List Nat) (first : Nat) (rest : List Nat) (u : Nat) (h1 : 1 ≤ u) (h8 : u ≤ 8)
    (hlen : bat.length = 160) (hl : Linked bat (first :: rest) u) (hlt : ∀ x ∈ first :: rest, x < 160)
    (hnd : (first :: rest).Nodup) : walk bat first = .ok (first :: rest) := by
  unfold walk
  have hf : first < 160 := hlt first (by simp)
  have hhead := linked_head_used bat first rest u hl (fun x hx => hlt x (by simp [hx])) h8
  have hn : ¬ (first ≥ bat.length) := by omega
  simp only [hn, if_false, hhead.1, hhead.2, Bool.or_self, Bool.false_eq_true]
  have hsub : (first :: rest) ⊆ List.range 160 := by intro x hx; simp; exact hlt x hx
  have hle := hnd.length_le_of_subset hsub
  simp only [List.length_cons, List.length_range] at hle
  rw [walkLoop_linked bat u h1 h8 rest first [first] bat.length hl (fun x hx => hlt x (by simp [hx])) hnd
    (by intro x hx; simp; intro h; exact (List.nodup_cons.mp hnd).1 (h ▸ hx)) (by omega)]
  simp

end Moto.Disk
