/-
  The invariant over histories: a fresh side satisfies it, every `writeFile` keeps it, hence every
  side of every image reached by the injector satisfies it.
-/
import MotoModel.Proofs.DiskInv
import MotoModel.Proofs.DiskSaveLoad
namespace Moto.Disk
open Moto

def freshSide : Side := initFileSystem blankSide
def freshBat : List Nat :=
  (List.range numBlocks).map fun i => if Gen.Disk.reservedBlocks.contains i then Gen.Disk.bsReserved else Gen.Disk.bsFree

theorem fresh_getBat : getBat freshSide = .ok freshBat := by
  have h : (match getBat freshSide with | .ok b => b == freshBat | .error _ => false) = true := by decide +kernel
  cases hg : getBat freshSide with
  | error e => rw [hg] at h; cases h
  | ok b => rw [hg] at h; simp only [beq_iff_eq] at h; rw [h]

theorem fresh_slots_unused : ∀ i, i < 112 → (slotData freshSide i).getD 0 0 = 0xFF := by decide +kernel

theorem fresh_free_or_reserved : ∀ b, b < 160 → isFree (freshBat.getD b 0) = true ∨ isReserved (freshBat.getD b 0) = true := by
  decide +kernel

theorem fresh_wf : C11.WFSide freshSide := by
  constructor
  · decide +kernel
  · intro s hs
    have : freshSide.all (fun s => s.length == 256) = true := by decide +kernel
    have := List.all_eq_true.mp this s hs
    simpa using this

/-- a freshly initialised side is a consistent (empty) file system -/
theorem fresh_inv : SideInv freshSide freshBat (fun _ => []) where
  wf := fresh_wf
  hbat := fresh_getBat
  res40 := by decide +kernel
  res41 := by decide +kernel
  chain := by intro i hi hl; exact absurd (fresh_slots_unused i hi) hl.1
  lastb := by intro i hi hl; exact absurd (fresh_slots_unused i hi) hl.1
  disj := by intro i j hi _ _ hl; exact absurd (fresh_slots_unused i hi) hl.1
  used := by
    intro b hb
    constructor
    · intro ⟨h1, h2⟩
      rcases fresh_free_or_reserved b hb with h | h
      · rw [h] at h1; cases h1
      · rw [h] at h2; cases h2
    · rintro ⟨i, hi, hl, _⟩; exact absurd (fresh_slots_unused i hi) hl.1

/-! ### images -/

def SideOk (sd : Side) : Prop := ∃ bat own, SideInv sd bat own
def ImgOk (img : Image) : Prop := img.length = 4 ∧ ∀ i, i < 4 → SideOk (img.getD i [])

theorem ImgOk.set {img : Image} (h : ImgOk img) (i : Nat) (sd : Side) (hs : SideOk sd) : ImgOk (img.set i sd) := by
  refine ⟨by rw [List.length_set]; exact h.1, ?_⟩
  intro j hj
  by_cases hij : i = j
  · subst hij; rw [getD_set_eq _ _ _ _ (by rw [h.1]; exact hj)]; exact hs
  · rw [getD_set_ne _ _ _ _ _ hij]; exact h.2 j hj

theorem fresh_img_ok : ImgOk ((List.replicate 4 blankSide).map initFileSystem) := by
  refine ⟨by simp, ?_⟩
  intro i hi
  have : ((List.replicate 4 blankSide).map initFileSystem).getD i [] = freshSide := by
    rw [List.getD_eq_getElem?_getD, List.getElem?_map, List.getElem?_replicate, if_pos hi]
    simp only [Option.map_some, Option.getD_some, freshSide]
  rw [this]
  exact ⟨_, _, fresh_inv⟩

theorem usageOfSide_ok {img : Image} (h : ImgOk img) (i : Nat) (hi : i < 4) : ∃ u, usageOfSide img i = .ok u := by
  obtain ⟨bat, own, inv⟩ := h.2 i hi
  unfold usageOfSide
  rw [inv.hbat]
  exact ⟨_, rfl⟩

theorem getBat_nil : ∃ b, getBat ([] : Side) = .ok b := by
  have h : (match getBat ([] : Side) with | .ok _ => true | .error _ => false) = true := by decide +kernel
  cases hg : getBat ([] : Side) with
  | error e => rw [hg] at h; cases h
  | ok b => exact ⟨b, rfl⟩

theorem usageOfSide_any {img : Image} (h : ImgOk img) (i : Nat) : ∃ u, usageOfSide img i = .ok u := by
  by_cases hi : i < 4
  · exact usageOfSide_ok h i hi
  · unfold usageOfSide
    have : img.getD i [] = [] := by
      rw [List.getD_eq_getElem?_getD, List.getElem?_eq_none (by rw [h.1]; omega)]; rfl
    rw [this]
    obtain ⟨b, hb⟩ := getBat_nil
    rw [hb]
    exact ⟨_, rfl⟩

/-- the retry loop of the injector never fails on consistent sides, and leaves consistent sides -/
theorem injWriteFile_ok (name ext : Str) (kind flag : Nat) (data : Bytes) (hname : ∀ c ∈ name, c ≠ 0xFF) :
    ∀ (fuel : Nat) (st : Inj), ImgOk st.img → ∃ st', injWriteFile name ext kind flag data fuel st = .ok st' ∧ ImgOk st'.img := by
  intro fuel
  induction fuel with
  | zero => intro st h; exact ⟨st, rfl, h⟩
  | succ fuel ih =>
    intro st h
    simp only [injWriteFile]
    by_cases hc : st.cur ≥ 4
    · rw [if_pos hc]; exact ⟨st, rfl, h⟩
    · rw [if_neg hc]
      have hcur : st.cur < 4 := by omega
      obtain ⟨bat, own, inv⟩ := h.2 st.cur hcur
      rcases writeFile_inv inv data name ext kind flag hname with ⟨sd', i0, hw, _, _, inv', _⟩ | ⟨sd', msg, hw, inv', _⟩
      · rw [hw]
        exact ⟨_, rfl, h.set _ _ ⟨_, _, inv'⟩⟩
      · rw [hw]
        dsimp only
        have himg : ImgOk (st.img.set st.cur sd') := h.set _ _ ⟨_, _, inv'⟩
        obtain ⟨u, hu⟩ := usageOfSide_ok himg st.cur hcur
        rw [hu]
        dsimp only
        by_cases hn : st.cur + 1 ≥ 4
        · rw [if_pos hn]; exact ⟨_, rfl, himg⟩
        · rw [if_neg hn]
          exact ih _ himg

/-! ### the sources loop -/

/-- source arguments the tools accept without a `UnicodeEncodeError`: no code point 0xFF (ASCII in particular) -/
def CleanSrc (src : Str) : Prop := ∀ c ∈ src, c ≠ 0xFF

theorem upperC_ne (c : Nat) (h : c ≠ 0xFF) : upperC c ≠ 0xFF := by unfold upperC; split <;> omega

theorem basename_upper_clean (s : Str) (h : ∀ c ∈ s, c ≠ 0xFF) : ∀ c ∈ basename (upper s), c ≠ 0xFF := by
  intro c hc
  unfold basename at hc
  have := List.mem_of_mem_drop hc
  unfold upper at this
  obtain ⟨d, hd, rfl⟩ := List.mem_map.mp this
  exact upperC_ne d (h d hd)

theorem splitSource_name_clean (src : Str) (h : CleanSrc src) : ∀ c ∈ (splitSource src).1, c ≠ 0xFF := by
  unfold splitSource
  dsimp only
  cases rfindFrom 46 src (afterLast 47 src) with
  | none => exact basename_upper_clean src h
  | some dp => exact basename_upper_clean _ (fun c hc => h c (List.mem_of_mem_take hc))

theorem injFile_ok (w : Tape.World) (src : Str) (hsrc : CleanSrc src) (st : Inj) (h : ImgOk st.img) :
    ∃ st' b, injFile w src st = .ok (st', b) ∧ ImgOk st'.img := by
  unfold injFile
  have hname := splitSource_name_clean src hsrc
  generalize splitSource src = sp at hname
  obtain ⟨fileName, fileExtension, extWithOption, cleanSrc⟩ := sp
  dsimp only at hname ⊢
  cases w cleanSrc with
  | none => exact ⟨_, _, rfl, h⟩
  | some data =>
    dsimp only
    split
    · exact ⟨_, _, rfl, h⟩
    · split
      · exact ⟨_, _, rfl, h⟩
      · split
        · exact ⟨_, _, rfl, h⟩
        · obtain ⟨st', hst', hok⟩ := injWriteFile_ok fileName (dispatch fileName fileExtension extWithOption).2.2
            (dispatch fileName fileExtension extWithOption).1 (dispatch fileName fileExtension extWithOption).2.1 data hname 4 st h
          rw [hst']
          exact ⟨_, _, rfl, hok⟩

theorem injLoop_ok (w : Tape.World) : ∀ (srcs : List Str) (st : Inj), (∀ src ∈ srcs, CleanSrc src) → ImgOk st.img →
    ∃ st', injLoop w srcs st = .ok st' ∧ ImgOk st'.img := by
  intro srcs
  induction srcs with
  | nil => intro st _ h; exact ⟨st, rfl, h⟩
  | cons src rest ih =>
    intro st hs h
    simp only [injLoop]
    split
    · obtain ⟨u, hu⟩ := usageOfSide_any h st.cur
      rw [hu]
      dsimp only
      split
      · exact ⟨_, rfl, h⟩
      · exact ih _ (fun s hm => hs s (by simp [hm])) h
    · obtain ⟨st', b, hst', hok⟩ := injFile_ok w src (hs src (by simp)) st h
      rw [hst']
      dsimp only
      split
      · exact ⟨_, rfl, hok⟩
      · exact ih _ (fun s hm => hs s (by simp [hm])) hok

theorem injTail_ok : ∀ (fuel : Nat) (st : Inj), ImgOk st.img → ∃ st', injTail fuel st = .ok st' ∧ st'.img = st.img := by
  intro fuel
  induction fuel with
  | zero => intro st _; exact ⟨st, rfl, rfl⟩
  | succ fuel ih =>
    intro st h
    simp only [injTail]
    split
    · obtain ⟨u, hu⟩ := usageOfSide_any h (st.cur + 1)
      rw [hu]
      dsimp only
      obtain ⟨st', h1, h2⟩ := ih { st with cur := st.cur + 1, l := onEndOfSide (onBeginOfSide st.l (st.cur + 1)) u } h
      exact ⟨st', h1, h2⟩
    · exact ⟨st, rfl, rfl⟩

/-- **every run of the injector on a consistent image completes and leaves a consistent image** -/
theorem performCore_ok (w : Tape.World) (verbose : Bool) (img : Image) (srcs : List Str)
    (himg : ImgOk img) (hs : ∀ src ∈ srcs, CleanSrc src) :
    ∃ st, performCore w verbose img srcs = .ok st ∧ ImgOk st.img := by
  unfold performCore
  dsimp only
  obtain ⟨st1, h1, hok1⟩ := injLoop_ok w srcs { img := img, cur := 0, l := onBeginOfSide { processing := 2, verbose := verbose } 0 } hs himg
  rw [h1]
  dsimp only
  split
  · obtain ⟨u, hu⟩ := usageOfSide_any hok1 st1.cur
    rw [hu]
    dsimp only
    obtain ⟨st2, h2, himg2⟩ := injTail_ok 4 { st1 with l := onEndOfSide st1.l u } hok1
    rw [h2]
    exact ⟨st2, rfl, by rw [himg2]; exact hok1⟩
  · exact ⟨st1, rfl, hok1⟩

/-! ### the files of a consistent side, and their fate under `writeFile` -/

/-- what the catalog decoder returns for a live slot of a consistent side: its chain is `own i` -/
theorem SideInv.entry {sd : Side} {bat : List Nat} {own : Nat → List Nat} (inv : SideInv sd bat own)
    (i : Nat) (hi : i < 112) (hl : liveData (slotData sd i)) :
    entryOfBytes (slotData sd i) bat = .ok ⟨1, recordOfBytes (slotData sd i), own i⟩ := by
  obtain ⟨rest, u, hown, h1, h8, hlk, hnd, hlt⟩ := inv.chain i hi hl
  unfold entryOfBytes
  dsimp only
  rw [if_neg hl.1, if_neg hl.2, recordOfBytes_13]
  have hlen := getBat_length sd bat inv.hbat
  rw [hown] at hlk hnd hlt
  rw [walk_linked bat _ rest u h1 h8 hlen hlk hlt hnd, hown]

/-- the content of the file in slot `i` -/
def fileOf (sd : Side) (bat : List Nat) (own : Nat → List Nat) (i : Nat) : Bytes :=
  readFile sd bat ⟨1, recordOfBytes (slotData sd i), own i⟩

/-- **every stored file survives every `writeFile`, stored or refused**: same catalog bytes, same
    chain, same content. -/
theorem writeFile_keeps_files {sd : Side} {bat : List Nat} {own : Nat → List Nat} (inv : SideInv sd bat own)
    (content : Bytes) (name ext : Str) (kind flag : Nat) (hname : ∀ c ∈ name, c ≠ 0xFF)
    (i : Nat) (hi : i < 112) (hl : liveData (slotData sd i)) :
    (∃ sd' i0, writeFile sd content name ext kind flag = .ok sd' ∧ i0 ≠ i ∧ slotData sd' i = slotData sd i
        ∧ fileOf sd' (newBat bat content) (fun j => if j = i0 then chosen bat (reqBlocks content.length) else own j) i = fileOf sd bat own i)
    ∨ (∃ sd' msg, writeFile sd content name ext kind flag = .raised (.valueError msg) sd' ∧ slotData sd' i = slotData sd i
        ∧ getBat sd' = .ok bat ∧ fileOf sd' bat own i = fileOf sd bat own i) := by
  obtain ⟨rest, u, hown, h1, h8, hlk, hnd, hlt⟩ := inv.chain i hi hl
  have hused : ∀ b ∈ own i, isFree (bat.getD b 0) = false ∧ isReserved (bat.getD b 0) = false :=
    fun b hb => (inv.used b (hlt b hb)).mpr ⟨i, hi, hl, hb⟩
  have hne4x : ∀ b ∈ own i, b ≠ 40 ∧ b ≠ 41 := by
    intro b hb
    have := (hused b hb).2
    constructor
    · intro h; subst h; rw [inv.res40] at this; cases this
    · intro h; subst h; rw [inv.res41] at this; cases this
  have hlast200 : ∀ last, (own i).getLast? = some last → bat.getD last 0 ≤ 200 := by
    intro last hlast
    rw [linked_last u (own i) bat hlk last hlast]; omega
  rcases writeFile_inv inv content name ext kind flag hname with ⟨sd', i0, hw, hi0, hnl, inv', _, hsj, _⟩ | ⟨sd', msg, hw, inv', hsj⟩
  · left
    have hii : i ≠ i0 := fun h => hnl (h ▸ hl)
    refine ⟨sd', i0, hw, fun h => hii h.symm, hsj i hi hii, ?_⟩
    unfold fileOf
    rw [hsj i hi hii]
    dsimp only
    rw [if_neg hii]
    exact writeFile_preserves sd sd' bat content name ext kind flag inv.wf inv.hbat inv.not_free40.1 inv.not_free40.2 hw _
      (fun b hb => ⟨inv.own_not_chosen i hi hl _ b hb, hne4x b hb⟩) hlast200
  · right
    refine ⟨sd', msg, hw, hsj i hi, inv'.hbat, ?_⟩
    unfold fileOf
    rw [hsj i hi]
    -- the refused side differs from the old one only in sectors of blocks that were free
    rw [writeFile_unfold sd bat content name ext kind flag inv.hbat inv.not_free40.1 inv.not_free40.2] at hw
    by_cases hfit : (chosen bat (reqBlocks content.length)).length < reqBlocks content.length
    · rw [if_pos hfit] at hw
      cases hw
      rfl
    · rw [if_neg hfit] at hw
      obtain ⟨h40, h41⟩ := inv.not_free40
      obtain ⟨hwmid, _, _, hframe⟩ := mid_facts sd bat content inv.wf inv.hbat h40 h41 hfit
      have hsect : ∀ b ∈ own i, ∀ s < 8, getSector (fullSide sd bat content) (blockTrack b) (blockFirstSector b + s)
          = getSector sd (blockTrack b) (blockFirstSector b + s) := by
        intro b hb s hs
        have hflat : idx (blockTrack b) (blockFirstSector b + s) = 8 * b + s := block_sectors_flat b s hs
        unfold fullSide getSector
        rw [hflat]
        unfold setBat
        rw [putSector_flat_other _ _ _ _ _ (by
          unfold idx batTrack batSector; have : Gen.Disk.sectorsPerTrack = 16 := rfl; rw [this]
          have := hne4x b hb; omega)]
        apply hframe
        · intro c hc hcc
          have : c = b := by omega
          exact inv.own_not_chosen i hi hl _ b hb (this ▸ hc)
        · have := hne4x b hb; omega
      cases hf : findSlot (newBat bat content) (slots (midSide sd bat content)) with
      | error e =>
        rw [hf] at hw
        -- impossible on a consistent side, but harmless: the outcome is not a ValueError of the catalog
        exfalso
        have hsmid := mid_slotData sd bat content inv.wf inv.hbat h40 h41 hfit
        obtain ⟨_, _, hnblen, _⟩ := mid_facts sd bat content inv.wf inv.hbat h40 h41 hfit
        obtain ⟨o, ho⟩ := findSlot_no_error _ _ (slots_walk_ok (sd2 := midSide sd bat content) (bat2 := newBat bat content) inv hsmid hnblen
          (fun i hi hl u hlk => inv.linked_newBat content i hi hl u hlk))
        rw [ho] at hf; cases hf
      | ok o =>
        rw [hf] at hw
        cases o with
        | some p => obtain ⟨s, st⟩ := p; cases hw
        | none =>
          dsimp only at hw
          cases hw
          exact readFile_congr _ _ _ _ _ hsect (fun _ _ => rfl) hlast200

/-! ### histories of archives -/

theorem ImgOk.wf {img : Image} (h : ImgOk img) : C11.WFImage img := by
  intro sd hsd
  obtain ⟨i, hi, rfl⟩ := List.getElem_of_mem hsd
  have := h.2 i (by rw [← h.1]; exact hi)
  rw [List.getD_eq_getElem?_getD, List.getElem?_eq_getElem hi] at this
  obtain ⟨_, _, inv⟩ := this
  exact inv.wf

/-- `--add` on the archive of a consistent image is the injector run on that image -/
theorem add_on_saved (fl : Flavour) (w : Tape.World) (verbose : Bool) (archive : Str) (img : Image) (srcs : List Str)
    (h : ImgOk img) : add fl w verbose archive (save fl img) srcs = performOn fl w verbose archive img srcs := by
  unfold add
  rw [load_save fl img h.wf h.1]

end Moto.Disk
