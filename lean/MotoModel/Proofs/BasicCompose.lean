/-
  The tokenizer is compositional at special characters: what was committed is never revisited.
-/
import MotoModel.Model.Basic
namespace Moto.Basic
open Moto

/-- `c` with `d` put in front of what is already committed -/
def pre (d : Bytes) (c : Ctx) : Ctx := { c with done := d ++ c.done }

theorem pre_commit (d : Bytes) (c : Ctx) : commit (pre d c) = pre d (commit c) := by
  simp [commit, pre, List.append_assoc]

theorem pre_literal (d : Bytes) (c : Ctx) (inp : Str) : appendAsLiteral (pre d c) inp = pre d (appendAsLiteral c inp) := rfl

theorem pre_token_fuel (d : Bytes) : ∀ (fuel : Nat) (c : Ctx) (inp : Str),
    appendAsTokenFuel fuel (pre d c) inp = pre d (appendAsTokenFuel fuel c inp) := by
  intro fuel
  induction fuel with
  | zero => intro c inp; rfl
  | succ f ih =>
    intro c inp
    simp only [appendAsTokenFuel]
    have e1 : (pre d c).seq = c.seq := rfl
    have e2 : (pre d c).bucket = c.bucket := rfl
    rw [e1, e2]
    split
    · rfl
    · split
      · have : ({ done := (pre d c).done ++ (pre d c).cand, cand := tokenBytes c.bucket, seq := c.bucket, bucket := [] } : Ctx)
            = pre d { done := c.done ++ c.cand, cand := tokenBytes c.bucket, seq := c.bucket, bucket := [] } := by
          simp [pre, List.append_assoc]
        rw [this, ih]
      · split
        · simp [commit, pre, List.append_assoc]
        · rfl

theorem pre_token (d : Bytes) (c : Ctx) (inp : Str) : appendAsToken (pre d c) inp = pre d (appendAsToken c inp) :=
  pre_token_fuel d 3 c inp

theorem pre_commitAsToken (d : Bytes) (c : Ctx) : commitAsToken (pre d c) = pre d (commitAsToken c) := by
  unfold commitAsToken
  have e2 : (pre d c).bucket = c.bucket := rfl
  rw [e2]
  split
  · simp [commit, pre, List.append_assoc]
  · exact pre_commit d c

theorem pre_finish (d : Bytes) (c : Ctx) (b : Bool) : finish (pre d c, b) = pre d (finish (c, b)) := by
  unfold finish
  cases b
  · simp only [Bool.false_eq_true, if_false, pre_commitAsToken, pre_commit]
  · simp only [if_true, pre_commit]

theorem pre_parseChar (d : Bytes) (c : Ctx) (b : Bool) (ch : Nat) :
    parseChar (pre d c, b) ch = (pre d (parseChar (c, b) ch).1, (parseChar (c, b) ch).2) := by
  unfold parseChar
  dsimp only
  split
  · cases b
    · simp only [Bool.false_eq_true, if_false, Bool.not_false, if_true, pre_commitAsToken, pre_commit, pre_literal]
    · simp only [if_true, Bool.not_true, Bool.false_eq_true, if_false, pre_commit, pre_token]
  · split
    · rw [pre_literal]
    · split
      · rw [pre_token, pre_commit]
      · rw [pre_token]

theorem pre_fold (d : Bytes) (s : Str) : ∀ (c : Ctx) (b : Bool),
    s.foldl parseChar (pre d c, b) = (pre d (s.foldl parseChar (c, b)).1, (s.foldl parseChar (c, b)).2) := by
  induction s with
  | nil => intro c b; rfl
  | cons ch rest ih =>
    intro c b
    simp only [List.foldl_cons]
    rw [pre_parseChar, ih]

/-- a context with nothing pending -/
def Clean (c : Ctx) : Prop := c.cand = [] ∧ c.seq = [] ∧ c.bucket = []

theorem clean_eq_pre (c : Ctx) (h : Clean c) : c = pre c.done {} := by
  obtain ⟨d, ca, se, bu⟩ := c
  obtain ⟨h1, h2, h3⟩ := h
  simp only at h1 h2 h3
  subst h1 h2 h3
  simp [pre]

theorem commit_clean (c : Ctx) : Clean (commit c) := ⟨rfl, rfl, rfl⟩

theorem commit_of_clean (c : Ctx) (h : Clean c) : commit c = c := by
  obtain ⟨d, ca, se, bu⟩ := c
  obtain ⟨h1, h2, h3⟩ := h
  simp only at h1 h2 h3
  subst h1 h2 h3
  simp [commit]

theorem commitAsToken_clean (c : Ctx) : Clean (commitAsToken c) := by
  unfold commitAsToken
  split <;> exact commit_clean _

theorem commitAsToken_of_clean (c : Ctx) (h : Clean c) : commitAsToken c = c := by
  unfold commitAsToken
  rw [h.2.2]
  have : isToken [] = false := by decide +kernel
  rw [this]
  simp only [Bool.false_eq_true, if_false]
  exact commit_of_clean c h

theorem finish_of_clean (c : Ctx) (h : Clean c) (b : Bool) : finish (c, b) = c := by
  unfold finish
  cases b
  · simp only [Bool.false_eq_true, if_false]; rw [commitAsToken_of_clean c h, commit_of_clean c h]
  · simp only [if_true]; exact commit_of_clean c h

/-- a special character outside a literal leaves nothing pending -/
theorem special_clean (c : Ctx) (ch : Nat) (hs : isSpecial ch = true) (hq : ch ≠ 34) : Clean (parseChar (c, false) ch).1 := by
  unfold parseChar
  dsimp only
  rw [if_neg hq]
  simp only [Bool.false_eq_true, if_false, hs, if_true]
  exact commit_clean _

theorem special_lit (c : Ctx) (ch : Nat) (hq : ch ≠ 34) (b : Bool) : (parseChar (c, b) ch).2 = b := by
  unfold parseChar
  dsimp only
  rw [if_neg hq]
  split
  · rfl
  · split <;> rfl

/-- **the tokenizer is compositional at special characters**: if `a` ends, outside a string literal,
    with one of the special characters (. , ( ) : blank), the encoding of `a ++ b` is the encoding
    of `a` followed by the encoding of `b` -/
theorem encodeBody_append (a0 : Str) (s : Nat) (b : Str) (hs : isSpecial s = true) (hq : s ≠ 34)
    (hlit : (a0.foldl parseChar ({}, false)).2 = false) :
    encodeBody (a0 ++ [s] ++ b) = encodeBody (a0 ++ [s]) ++ encodeBody b := by
  unfold encodeBody
  rw [List.foldl_append]
  generalize hst : (a0 ++ [s]).foldl parseChar ({}, false) = st
  have hst' : st = parseChar (a0.foldl parseChar ({}, false)) s := by rw [← hst, List.foldl_append]; rfl
  generalize hc : a0.foldl parseChar ({}, false) = r0 at hlit hst'
  obtain ⟨c0, b0⟩ := r0
  simp only at hlit
  subst hlit
  have hclean : Clean st.1 := by rw [hst']; exact special_clean c0 s hs hq
  have hb : st.2 = false := by rw [hst']; exact special_lit c0 s hq false
  obtain ⟨c1, b1⟩ := st
  simp only at hclean hb
  subst hb
  rw [clean_eq_pre c1 hclean, pre_fold]
  have hfin : finish (pre c1.done {}, false) = pre c1.done {} := by
    unfold finish
    simp only [Bool.false_eq_true, if_false]
    rw [commitAsToken_of_clean _ ⟨rfl, rfl, rfl⟩, commit_of_clean _ ⟨rfl, rfl, rfl⟩]
  rw [hfin]
  show (finish (pre c1.done (List.foldl parseChar ({}, false) b).1, (List.foldl parseChar ({}, false) b).2)).done = _
  rw [pre_finish]
  simp [pre]

end Moto.Basic
