/-
  What a whole run of the injector does to the files of an image: nothing is lost, nothing is
  invented, a file is stored in one place at most.
-/
import MotoModel.Proofs.DiskListing
namespace Moto.Disk
open Moto

def imgFileAt (img : Image) (k j : Nat) : Option (Bytes × Bytes) := fileAt (img.getD k []) j

/-- the entry bytes the tools write for a file (the first block is whatever was free) -/
def IsRecordOf (rec16 : Bytes) (name ext : Str) (kind flag : Nat) (size : Nat) : Prop :=
  ∃ first, rec16 = recordOfBytes (newRecord name ext kind flag first (lastBytesOf size))

/-- one call of the injector's `writeFile` (with its retries on the following sides) either leaves
    every file of every side as it was, or adds the file in exactly one slot of one side that held
    nothing, and leaves every other slot of every side as it was -/
def OneStep (a b : Image) (name ext : Str) (kind flag : Nat) (data : Bytes) : Prop :=
  (∀ k j, k < 4 → j < 112 → imgFileAt b k j = imgFileAt a k j)
  ∨ (∃ k i0, k < 4 ∧ i0 < 112 ∧ imgFileAt a k i0 = none
      ∧ (∃ r, imgFileAt b k i0 = some (r, data) ∧ IsRecordOf r name ext kind flag data.length)
      ∧ ∀ k' j, k' < 4 → j < 112 → ¬ (k' = k ∧ j = i0) → imgFileAt b k' j = imgFileAt a k' j)

theorem imgFileAt_set_same (img : Image) (h4 : img.length = 4) (k : Nat) (hk : k < 4) (sd : Side) (j : Nat) :
    imgFileAt (img.set k sd) k j = fileAt sd j := by
  unfold imgFileAt
  rw [getD_set_eq _ _ _ _ (by rw [h4]; exact hk)]

theorem imgFileAt_set_other (img : Image) (k k' : Nat) (hne : k ≠ k') (sd : Side) (j : Nat) :
    imgFileAt (img.set k sd) k' j = imgFileAt img k' j := by
  unfold imgFileAt
  rw [getD_set_ne _ _ _ _ _ hne]

/-- the retry loop: consistent image in, consistent image out, `OneStep` in between -/
theorem injWriteFile_step (name ext : Str) (kind flag : Nat) (data : Bytes) (hname : ∀ c ∈ name, c ≠ 0xFF) :
    ∀ (fuel : Nat) (st : Inj), ImgOk st.img →
      ∃ st', injWriteFile name ext kind flag data fuel st = .ok st' ∧ ImgOk st'.img ∧ OneStep st.img st'.img name ext kind flag data := by
  intro fuel
  induction fuel with
  | zero => intro st h; exact ⟨st, rfl, h, Or.inl (fun _ _ _ _ => rfl)⟩
  | succ fuel ih =>
    intro st h
    simp only [injWriteFile]
    by_cases hc : st.cur ≥ 4
    · rw [if_pos hc]; exact ⟨st, rfl, h, Or.inl (fun _ _ _ _ => rfl)⟩
    · rw [if_neg hc]
      have hcur : st.cur < 4 := by omega
      obtain ⟨bat, own, inv⟩ := h.2 st.cur hcur
      have hfiles := writeFile_files inv data name ext kind flag hname
      rcases writeFile_inv inv data name ext kind flag hname with ⟨sd', i0, hw, _, _, inv', _⟩ | ⟨sd', msg, hw, inv', _⟩
      · rw [hw]
        refine ⟨_, rfl, h.set _ _ ⟨_, _, inv'⟩, Or.inr ?_⟩
        rcases hfiles with ⟨sd2, i1, hw2, hi1, hnone, hnew, hother⟩ | ⟨sd2, msg2, hw2, _⟩
        · rw [hw] at hw2
          cases hw2
          refine ⟨st.cur, i1, hcur, hi1, hnone, ⟨recordOfBytes (newRecord name ext kind flag ((chosen bat (reqBlocks data.length)).getD 0 0) (lastBytesOf data.length)), ?_, ⟨_, rfl⟩⟩, ?_⟩
          · dsimp only
            rw [imgFileAt_set_same _ h.1 _ hcur]
            exact hnew
          · intro k' j hk' hj hne
            dsimp only
            by_cases hkk : st.cur = k'
            · subst hkk
              rw [imgFileAt_set_same _ h.1 _ hcur]
              exact hother j hj (fun hji => hne ⟨rfl, hji⟩)
            · exact imgFileAt_set_other _ _ _ hkk _ _
        · rw [hw] at hw2; cases hw2
      · rw [hw]
        dsimp only
        have himg : ImgOk (st.img.set st.cur sd') := h.set _ _ ⟨_, _, inv'⟩
        obtain ⟨u, hu⟩ := usageOfSide_ok himg st.cur hcur
        rw [hu]
        dsimp only
        have hsame : ∀ k j, k < 4 → j < 112 → imgFileAt (st.img.set st.cur sd') k j = imgFileAt st.img k j := by
          intro k j hk hj
          rcases hfiles with ⟨sd2, _, hw2, _⟩ | ⟨sd2, msg2, hw2, hall⟩
          · rw [hw] at hw2; cases hw2
          · rw [hw] at hw2
            cases hw2
            by_cases hkk : st.cur = k
            · subst hkk
              rw [imgFileAt_set_same _ h.1 _ hcur]
              exact hall j hj
            · exact imgFileAt_set_other _ _ _ hkk _ _
        by_cases hn : st.cur + 1 ≥ 4
        · rw [if_pos hn]
          exact ⟨_, rfl, himg, Or.inl hsame⟩
        · rw [if_neg hn]
          have hmono : ∀ s : Inj, s.img = st.img.set st.cur sd' →
              (∃ st', injWriteFile name ext kind flag data fuel s = .ok st' ∧ ImgOk st'.img ∧ OneStep s.img st'.img name ext kind flag data) →
              ∃ st', injWriteFile name ext kind flag data fuel s = .ok st' ∧ ImgOk st'.img ∧ OneStep st.img st'.img name ext kind flag data := by
            intro s hs ⟨st', hst', hok', hstep⟩
            refine ⟨st', hst', hok', ?_⟩
            rw [hs] at hstep
            rcases hstep with hall | ⟨k, i0, hk, hi0, hnone, hnew, hother⟩
            · left
              intro k j hk hj
              rw [hall k j hk hj]; exact hsame k j hk hj
            · right
              refine ⟨k, i0, hk, hi0, by rw [← hsame k i0 hk hi0]; exact hnone, hnew, ?_⟩
              intro k' j hk' hj hne
              rw [hother k' j hk' hj hne]; exact hsame k' j hk' hj
          exact hmono _ rfl (ih _ himg)

/-! ### whole batches -/

/-- the files of `a` are files of `b`, in the same slots of the same sides -/
def Keeps (a b : Image) : Prop := ∀ k j f, k < 4 → j < 112 → imgFileAt a k j = some f → imgFileAt b k j = some f

/-- what the source argument `src` offers to the archive when it can be read: catalog name,
    stored extension, kind, flag and data -/
def Offers (w : Tape.World) (src : Str) (name ext : Str) (kind flag : Nat) (data : Bytes) : Prop :=
  w (splitSource src).2.2.2 = some data ∧ name = (splitSource src).1
  ∧ kind = (dispatch (splitSource src).1 (splitSource src).2.1 (splitSource src).2.2.1).1
  ∧ flag = (dispatch (splitSource src).1 (splitSource src).2.1 (splitSource src).2.2.1).2.1
  ∧ ext = (dispatch (splitSource src).1 (splitSource src).2.1 (splitSource src).2.2.1).2.2

/-- every file of `b` is a file of `a` in the same place, or the exact data of one of the sources
    under the entry bytes the tools write for it -/
def OnlyFrom (w : Tape.World) (srcs : List Str) (a b : Image) : Prop :=
  ∀ k j r c, k < 4 → j < 112 → imgFileAt b k j = some (r, c) →
    imgFileAt a k j = some (r, c)
    ∨ ∃ src ∈ srcs, ∃ name ext kind flag, Offers w src name ext kind flag c ∧ IsRecordOf r name ext kind flag c.length

theorem Keeps.refl (a : Image) : Keeps a a := fun _ _ _ _ _ h => h
theorem Keeps.trans {a b c : Image} (h1 : Keeps a b) (h2 : Keeps b c) : Keeps a c :=
  fun k j f hk hj h => h2 k j f hk hj (h1 k j f hk hj h)

theorem OnlyFrom.refl (w : Tape.World) (srcs : List Str) (a : Image) : OnlyFrom w srcs a a := fun _ _ _ _ _ _ h => Or.inl h

theorem OnlyFrom.trans {w : Tape.World} {s1 s2 : List Str} {a b c : Image} (h1 : OnlyFrom w s1 a b) (h2 : OnlyFrom w s2 b c) :
    OnlyFrom w (s1 ++ s2) a c := by
  intro k j r d hk hj h
  rcases h2 k j r d hk hj h with hb | ⟨src, hs, rest⟩
  · rcases h1 k j r d hk hj hb with ha | ⟨src, hs, rest⟩
    · exact Or.inl ha
    · exact Or.inr ⟨src, by simp [hs], rest⟩
  · exact Or.inr ⟨src, by simp [hs], rest⟩

theorem OneStep.keeps {a b : Image} {name ext : Str} {kind flag : Nat} {data : Bytes} (h : OneStep a b name ext kind flag data) : Keeps a b := by
  intro k j f hk hj hf
  rcases h with hall | ⟨k0, i0, _, _, hnone, _, hother⟩
  · rw [hall k j hk hj]; exact hf
  · by_cases hc : k = k0 ∧ j = i0
    · obtain ⟨rfl, rfl⟩ := hc; rw [hnone] at hf; cases hf
    · rw [hother k j hk hj hc]; exact hf

theorem injFile_step (w : Tape.World) (src : Str) (hsrc : CleanSrc src) (st : Inj) (h : ImgOk st.img) :
    ∃ st' b, injFile w src st = .ok (st', b) ∧ ImgOk st'.img ∧ Keeps st.img st'.img ∧ OnlyFrom w [src] st.img st'.img := by
  unfold injFile
  have hname := splitSource_name_clean src hsrc
  have hoff : ∀ name ext kind flag data, (w (splitSource src).2.2.2 = some data ∧ name = (splitSource src).1
      ∧ kind = (dispatch (splitSource src).1 (splitSource src).2.1 (splitSource src).2.2.1).1
      ∧ flag = (dispatch (splitSource src).1 (splitSource src).2.1 (splitSource src).2.2.1).2.1
      ∧ ext = (dispatch (splitSource src).1 (splitSource src).2.1 (splitSource src).2.2.1).2.2) → Offers w src name ext kind flag data :=
    fun _ _ _ _ _ h => h
  generalize splitSource src = sp at hname hoff
  obtain ⟨fileName, fileExtension, extWithOption, cleanSrc⟩ := sp
  dsimp only at hname hoff ⊢
  cases hw : w cleanSrc with
  | none => exact ⟨_, _, rfl, h, Keeps.refl _, OnlyFrom.refl _ _ _⟩
  | some data =>
    dsimp only
    split
    · exact ⟨_, _, rfl, h, Keeps.refl _, OnlyFrom.refl _ _ _⟩
    · split
      · exact ⟨_, _, rfl, h, Keeps.refl _, OnlyFrom.refl _ _ _⟩
      · split
        · exact ⟨_, _, rfl, h, Keeps.refl _, OnlyFrom.refl _ _ _⟩
        · obtain ⟨st', hst', hok, hstep⟩ := injWriteFile_step fileName (dispatch fileName fileExtension extWithOption).2.2
            (dispatch fileName fileExtension extWithOption).1 (dispatch fileName fileExtension extWithOption).2.1 data hname 4 st h
          rw [hst']
          refine ⟨_, _, rfl, hok, hstep.keeps, ?_⟩
          intro k j r c hk hj hf
          rcases hstep with hall | ⟨k0, i0, _, _, _, ⟨r0, hnew, hrec⟩, hother⟩
          · left; rw [← hall k j hk hj]; exact hf
          · by_cases hc : k = k0 ∧ j = i0
            · obtain ⟨rfl, rfl⟩ := hc
              rw [hnew] at hf
              cases hf
              right
              exact ⟨src, by simp, _, _, _, _, hoff _ _ _ _ _ ⟨hw, rfl, rfl, rfl, rfl⟩, hrec⟩
            · left; rw [← hother k j hk hj hc]; exact hf

theorem injLoop_step (w : Tape.World) : ∀ (srcs : List Str) (st : Inj), (∀ src ∈ srcs, CleanSrc src) → ImgOk st.img →
    ∃ st', injLoop w srcs st = .ok st' ∧ ImgOk st'.img ∧ Keeps st.img st'.img ∧ OnlyFrom w srcs st.img st'.img := by
  intro srcs
  induction srcs with
  | nil => intro st _ h; exact ⟨st, rfl, h, Keeps.refl _, OnlyFrom.refl _ _ _⟩
  | cons src rest ih =>
    intro st hs h
    simp only [injLoop]
    have hweak : ∀ {a b : Image}, OnlyFrom w rest a b → OnlyFrom w (src :: rest) a b := by
      intro a b hh k j r c hk hj hf
      rcases hh k j r c hk hj hf with h1 | ⟨s, hs', rest'⟩
      · exact Or.inl h1
      · exact Or.inr ⟨s, by simp [hs'], rest'⟩
    split
    · obtain ⟨u, hu⟩ := usageOfSide_any h st.cur
      rw [hu]
      dsimp only
      split
      · exact ⟨_, rfl, h, Keeps.refl _, OnlyFrom.refl _ _ _⟩
      · obtain ⟨st', h1, h2, h3, h4⟩ := ih { st with cur := st.cur + 1, l := onBeginOfSide (onEndOfSide st.l u) (st.cur + 1) }
          (fun s hm => hs s (by simp [hm])) h
        exact ⟨st', h1, h2, h3, hweak h4⟩
    · obtain ⟨st', b, hst', hok, hk, hof⟩ := injFile_step w src (hs src (by simp)) st h
      rw [hst']
      dsimp only
      have hof' : OnlyFrom w (src :: rest) st.img st'.img := by
        intro k j r c hk' hj hf
        rcases hof k j r c hk' hj hf with h1 | ⟨s, hs', rest'⟩
        · exact Or.inl h1
        · exact Or.inr ⟨s, by simp at hs'; simp [hs'], rest'⟩
      split
      · exact ⟨_, rfl, hok, hk, hof'⟩
      · obtain ⟨st2, h1, h2, h3, h4⟩ := ih st' (fun s hm => hs s (by simp [hm])) hok
        exact ⟨st2, h1, h2, hk.trans h3, by simpa using OnlyFrom.trans hof h4⟩

/-- **a whole batch**: on a consistent image every create/add batch completes, leaves a consistent
    image, keeps every file that was there (same slot, same entry bytes, same content), and every
    file it adds is the exact data of one of its sources under the entry the tools write for it. -/
theorem performCore_files (w : Tape.World) (verbose : Bool) (img : Image) (srcs : List Str)
    (himg : ImgOk img) (hs : ∀ src ∈ srcs, CleanSrc src) :
    ∃ st, performCore w verbose img srcs = .ok st ∧ ImgOk st.img ∧ Keeps img st.img ∧ OnlyFrom w srcs img st.img := by
  unfold performCore
  dsimp only
  obtain ⟨st1, h1, hok1, hk, hof⟩ := injLoop_step w srcs { img := img, cur := 0, l := onBeginOfSide { processing := 2, verbose := verbose } 0 } hs himg
  rw [h1]
  dsimp only
  split
  · obtain ⟨u, hu⟩ := usageOfSide_any hok1 st1.cur
    rw [hu]
    dsimp only
    obtain ⟨st2, h2, himg2⟩ := injTail_ok 4 { st1 with l := onEndOfSide st1.l u } hok1
    rw [h2]
    refine ⟨st2, rfl, ?_, ?_, ?_⟩ <;> rw [himg2]
    · exact hok1
    · exact hk
    · exact hof
  · exact ⟨st1, rfl, hok1, hk, hof⟩

/-- the freshly formatted image holds no file -/
theorem fresh_no_file (k j : Nat) (hk : k < 4) (hj : j < 112) :
    imgFileAt ((List.replicate 4 blankSide).map initFileSystem) k j = none := by
  unfold imgFileAt
  have : ((List.replicate 4 blankSide).map initFileSystem).getD k [] = freshSide := by
    rw [List.getD_eq_getElem?_getD, List.getElem?_map, List.getElem?_replicate, if_pos hk]
    simp only [Option.map_some, Option.getD_some, freshSide]
  rw [this, fileAt_inv fresh_inv j hj]
  unfold entryAt
  rw [if_neg]
  · rfl
  · intro h
    exact absurd (fresh_slots_unused j hj) ((liveB_iff _).mp h).1

end Moto.Disk
