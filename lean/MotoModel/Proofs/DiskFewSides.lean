/-
  Emulator images of one or two sides: saved then loaded they are the same image, and they are
  listed and extracted like the four-sided ones.
-/
import MotoModel.Proofs.DiskReport
namespace Moto.Disk
open Moto Moto.Tape

/-- the sides are recovered one by one from the serialisation, whatever follows it -/
theorem sides_of_bytes (fl : Flavour) : ∀ (img : Image), (∀ sd ∈ img, C11.WFSide sd) → ∀ (tail : Bytes),
    (List.range img.length).map (fun i => sectorsOf fl sectorsPerSide ((img.flatMap (sideBytes fl) ++ tail).drop (i * sizeOfSide fl))) = img := by
  intro img
  induction img with
  | nil => intro _ _; rfl
  | cons a rest ih =>
    intro hw tail
    have ha := hw a (by simp)
    have la := sideBytes_length fl a ha
    have h1280 : sectorsPerSide = a.length := by rw [ha.1]; rfl
    rw [List.length_cons, List.range_succ_eq_map, List.map_cons, List.map_map]
    congr 1
    · simp only [Nat.zero_mul, List.drop_zero, List.flatMap_cons, List.append_assoc]
      rw [h1280]
      exact sectorsOf_sideBytes fl a _ ha.2
    · have hih := ih (fun sd hsd => hw sd (by simp [hsd])) tail
      refine Eq.trans (List.map_congr_left ?_) hih
      intro i _
      simp only [Function.comp, List.flatMap_cons, List.append_assoc]
      congr 1
      have : (i + 1) * sizeOfSide fl = (sideBytes fl a).length + i * sizeOfSide fl := by rw [la, Nat.succ_mul]; omega
      rw [this, ← List.drop_drop, List.drop_left]

/-- **save then load, any admissible number of sides**: four sides in either flavour, one or two
    sides in the emulator flavour -/
theorem load_save_n (fl : Flavour) (img : Image) (hw : ∀ sd ∈ img, C11.WFSide sd)
    (hn : img.length = 4 ∨ (fl = .fd ∧ (img.length = 1 ∨ img.length = 2))) :
    load fl (save fl img) = .ok img := by
  have hpos : 0 < sizeOfSide fl := by cases fl <;> decide
  have hlen : (save fl img).length = img.length * sizeOfSide fl := by
    rw [save_eq]
    clear hn
    induction img with
    | nil => simp
    | cons a rest ih =>
      rw [List.flatMap_cons, List.length_append, ih (fun sd hsd => hw sd (by simp [hsd])),
        sideBytes_length fl a (hw a (by simp)), List.length_cons, Nat.succ_mul]
      omega
  have hsides := sides_of_bytes fl img hw []
  rw [List.append_nil, ← save_eq] at hsides
  have hne : ¬ ((save fl img).length = 0) := by
    rw [hlen]
    rcases hn with h | ⟨_, h | h⟩ <;> rw [h] <;> omega
  have hdiv : (save fl img).length / sizeOfSide fl = img.length := by rw [hlen]; exact Nat.mul_div_cancel _ hpos
  have hmin : min img.length 4 = img.length := by rcases hn with h | ⟨_, h | h⟩ <;> rw [h] <;> rfl
  have hint : ¬ (img.length < 4 ∧ img.length * sizeOfSide fl < (save fl img).length) := by rw [hlen]; omega
  unfold load
  dsimp only
  rw [if_neg hne, hdiv, hmin]
  cases fl with
  | fd =>
    have hbad : (img.length == 0 || img.length == 3) = false := by
      rcases hn with h | ⟨_, h | h⟩ <;> rw [h] <;> rfl
    simp only [hbad, Bool.false_eq_true, if_false, hint]
    rw [hsides]
  | sd =>
    have h4 : img.length = 4 := by
      rcases hn with h | ⟨hf, _⟩
      · exact h
      · cases hf
    have hbad : decide (img.length < 4) = false := by rw [h4]; rfl
    simp only [hbad, Bool.false_eq_true, if_false, hint]
    rw [hsides]

/-- `--list` of the archive of an image of consistent sides — four sides, or one or two for the
    emulator flavour — prints exactly `readReport 0` -/
theorem list_report_n (fl : Flavour) (verbose : Bool) (img : Image) (hall : ∀ sd ∈ img, SideOk sd ∧ NiceSide sd)
    (hn : img.length = 4 ∨ (fl = .fd ∧ (img.length = 1 ∨ img.length = 2))) :
    (list fl verbose (save fl img)).out = [readReport 0 verbose img] ∧ (list fl verbose (save fl img)).status = .ret 0 := by
  have hw : ∀ sd ∈ img, C11.WFSide sd := fun sd hsd => by obtain ⟨⟨_, _, inv⟩, _⟩ := hall sd hsd; exact inv.wf
  unfold list
  rw [load_save_n fl img hw hn]
  dsimp only
  constructor
  · rw [finish_report none img _ rfl rfl rfl rfl rfl hall (fun t ht => by cases ht)]
    simp
  · obtain ⟨st', h1, _⟩ := readSides_report none img 0 { l := { processing := 0, verbose := verbose } } rfl rfl hall (fun t ht => by cases ht)
    rw [h1]; rfl

/-- `--extract` of such an archive: status 0, exactly the files of its sides under `side0`, `side1`, …,
    and the report `readReport 1` -/
theorem extract_n (fl : Flavour) (verbose : Bool) (archive : Str) (into : Option Str) (img : Image)
    (hall : ∀ sd ∈ img, SideOk sd ∧ NiceSide sd)
    (hn : img.length = 4 ∨ (fl = .fd ∧ (img.length = 1 ∨ img.length = 2)))
    (hk : ∀ p ∈ sidesFiles (Tape.targetDirOf archive into) img 0, samePath p.1 archive = false) :
    (extract fl verbose archive into (save fl img)).status = .ret 0
    ∧ (extract fl verbose archive into (save fl img)).writes = sidesFiles (Tape.targetDirOf archive into) img 0
    ∧ (extract fl verbose archive into (save fl img)).out = [intoText into ++ readReport 1 verbose img] := by
  have hw : ∀ sd ∈ img, C11.WFSide sd := fun sd hsd => by obtain ⟨⟨_, _, inv⟩, _⟩ := hall sd hsd; exact inv.wf
  unfold extract
  rw [load_save_n fl img hw hn]
  dsimp only
  refine ⟨(finish_nice _ img _ hall hk).1, ?_, ?_⟩
  · rw [(finish_nice _ img _ hall hk).2]; rfl
  · cases into with
    | none =>
      dsimp only
      rw [finish_report _ img _ rfl rfl rfl rfl rfl hall (fun t ht p hp => by cases ht; exact hk p hp)]
      simp [intoText]
    | some d =>
      dsimp only
      rw [finish_report _ img _ rfl rfl rfl rfl rfl hall (fun t ht p hp => by cases ht; exact hk p hp)]
      simp [intoText, DL.print, List.append_assoc]

end Moto.Disk
