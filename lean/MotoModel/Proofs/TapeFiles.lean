/-
  The reader loop of the model over the frames of whole files.
-/
import MotoModel.Proofs.TapeFormat
import MotoModel.Proofs.TapeRead
namespace Moto.Tape
open Moto

/-- what the reader needs of an archived name: the padded fields strip back to it, the file
    name `NAME.EXT` is an ordinary directory entry, and its bytes are ascii (a leader name with a byte ≥ 0x80 makes the real tool
    stop with `UnicodeDecodeError`: the model's `descOfBlock` is about ascii leaders only) -/
structure NameOK (name ext : Str) : Prop where
  name_strip : strip (Spec.K7.pad 8 name) = name
  ext_strip : strip (Spec.K7.pad 3 ext) = ext
  no_slash : (name ++ [46] ++ ext).contains 47 = false
  openable : openable (name ++ [46] ++ ext) = true
  no_nul : (name ++ [46] ++ ext).contains 0 = false
  ascii : ∀ c ∈ name ++ ext, c < 128

/-- frames of one file whose content is cut into `chunks` -/
def fileFrames (name ext : Str) (kind mode : Nat) (chunks : List Bytes) : List Bytes :=
  Spec.K7.frame 0 (Spec.K7.pad 8 name ++ Spec.K7.pad 3 ext ++ [kind, mode / 256, mode % 256])
    :: (chunks.map (Spec.K7.frame 1) ++ [Spec.K7.frame 255 []])

theorem body_frame (ty : Nat) (c : Bytes) : body (Spec.K7.frame ty c) = c := by
  rw [← buildFromData_eq_frame]; exact body_build ty c

theorem blockType_leader (p : Bytes) : blockType (Spec.K7.frame 0 p) = .leader := by
  simp [blockType, Spec.K7.frame, Gen.Tape.typeLeader]

theorem blockType_data (p : Bytes) : blockType (Spec.K7.frame 1 p) = .data := by
  simp [blockType, Spec.K7.frame, Gen.Tape.typeLeader, Gen.Tape.typeEof, Gen.Tape.typeData]

theorem blockType_eof (p : Bytes) : blockType (Spec.K7.frame 255 p) = .eof := by
  simp [blockType, Spec.K7.frame, Gen.Tape.typeLeader, Gen.Tape.typeEof]

theorem desc_of_leader (name ext : Str) (kind mode : Nat) (h : NameOK name ext) :
    descOfBlock (Spec.K7.frame 0 (Spec.K7.pad 8 name ++ Spec.K7.pad 3 ext ++ [kind, mode / 256, mode % 256]))
      = .ok ⟨name, ext, kind, mode⟩ := by
  have h8 := pad_length 8 name
  have h3 := pad_length 3 ext
  have hs1 := h.name_strip
  have hs2 := h.ext_strip
  generalize Spec.K7.pad 8 name = n8 at h8 hs1 ⊢
  generalize Spec.K7.pad 3 ext = e3 at h3 hs2 ⊢
  match n8, h8, e3, h3 with
  | [a0, a1, a2, a3, a4, a5, a6, a7], _, [b0, b1, b2], _ =>
    simp only [descOfBlock, Spec.K7.frame, slice, List.cons_append, List.nil_append, List.length_cons, List.length_nil,
      List.drop_succ_cons, List.drop_zero, List.take_succ_cons, List.take_zero, List.getD_cons_succ, List.getD_cons_zero]
    simp only [show ¬ (0 + 1 + 1 + 1 + 1 + 1 + 1 + 1 + 1 + 1 + 1 + 1 + 1 + 1 + 1 + 1 + 1 + 1 ≤ 15) by omega, if_false, hs1, hs2]
    congr 2
    omega

/-- listener after one data block of `n` payload bytes -/
def dataStepL (l : Listener) (n : Nat) : Listener :=
  { l with blockIndex := l.blockIndex + 1, blockCount := l.blockCount + 1, fileSize := l.fileSize + n }

theorem onDataBlock_started (l : Listener) (raw : Bytes) (hs : l.started = true) :
    onDataBlock l raw = .ok (dataStepL l (body raw).length) := by
  simp [onDataBlock, hs, dataStepL]

/-- the data blocks of a file, read by the extractor -/
theorem readLoop_data (dir : Str) (chunks : List Bytes) : ∀ (s : RState) (rest : List Bytes), s.l.started = true →
    ∃ l', readLoop true dir s (chunks.map (Spec.K7.frame 1) ++ rest)
      = readLoop true dir { s with l := l', content := s.content ++ chunks.flatten } rest
      ∧ DataStep s.l l' (chunks.map (Spec.K7.frame 1)) := by
  induction chunks with
  | nil => intro s rest hs; exact ⟨s.l, by simp, ⟨hs, rfl, rfl, rfl, by simp, by simp, by simp⟩⟩
  | cons c cs ih =>
    intro s rest hs
    simp only [List.map_cons, List.cons_append, readLoop, readStep, blockType_data, onDataBlock_started _ _ hs,
      if_true, body_frame]
    obtain ⟨l', e, hd⟩ := ih { s with l := dataStepL s.l c.length, content := s.content ++ c } rest hs
    refine ⟨l', ?_, ?_⟩
    · rw [e]; simp [List.append_assoc]
    · constructor
      · exact hd.started
      · exact hd.verbose
      · exact hd.current
      · exact hd.firstBlock
      · rw [hd.blockCount]; simp [dataStepL]; omega
      · rw [hd.blockIndex]; simp [dataStepL]; omega
      · rw [hd.fileSize]; simp [dataStepL, body_frame]; omega

/-- one whole file read by the extractor: one more line, one more write -/
theorem readLoop_file (dir name ext : Str) (kind mode : Nat) (chunks : List Bytes) (hn : NameOK name ext)
    (s : RState) (rest : List Bytes) (hk : collides s.keep (pathJoin dir (name ++ [46] ++ ext)) = false) :
    ∃ l', readLoop true dir s (fileFrames name ext kind mode chunks ++ rest)
      = readLoop true dir { l := l', keep := s.keep,
                            out := s.out ++ [lineOf s.l.verbose ⟨name, ext, kind, mode⟩ (s.l.blockIndex + 1)
                                              (chunks.map List.length).sum chunks.length],
                            desc := some ⟨name, ext, kind, mode⟩, content := chunks.flatten,
                            writes := s.writes ++ [(pathJoin dir (name ++ [46] ++ ext), chunks.flatten)] } rest
      ∧ l'.verbose = s.l.verbose ∧ l'.blockIndex = s.l.blockIndex + (chunks.length + 2) := by
  unfold fileFrames
  simp only [List.cons_append, readLoop, readStep, blockType_leader, desc_of_leader name ext kind mode hn, if_true]
  obtain ⟨l1, e1, hd⟩ := readLoop_data dir chunks
    { s with l := onBeginFileBlock s.l ⟨name, ext, kind, mode⟩, desc := some ⟨name, ext, kind, mode⟩, content := [] }
    (Spec.K7.frame 255 [] :: rest) rfl
  simp only [List.append_assoc, List.singleton_append]
  rw [e1]
  simp only [readLoop, readStep, blockType_eof, if_true, List.nil_append]
  have hcur : l1.current = some ⟨name, ext, kind, mode⟩ := by rw [hd.current]; rfl
  simp only [hn.no_slash, hk, hn.no_nul, hn.openable, Bool.false_eq_true, if_false, Bool.not_true, onEndBlock, hcur]
  refine ⟨{ l1 with blockIndex := l1.blockIndex + 1, current := none }, ?_, ?_, ?_⟩
  · congr 2
    · rw [endLine_congr]
      simp only [hd.verbose, hd.firstBlock, hd.fileSize, hd.blockCount, onBeginFileBlock, List.length_map, Nat.zero_add,
        List.map_map]
      congr 3
      have : ((fun b => List.length (body b)) ∘ Spec.K7.frame 1) = List.length := by
        funext c; simp [body_frame]
      rw [this]
    · simp
  · simp [hd.verbose, onBeginFileBlock]
  · simp [hd.blockIndex, onBeginFileBlock]; omega

end Moto.Tape
