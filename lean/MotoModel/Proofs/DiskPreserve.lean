/-
  Files already on a side are not disturbed by `writeFile`.
-/
import MotoModel.Proofs.DiskWriteRead
namespace Moto.Disk
open Moto

theorem readSectors_congr (sdA sdB : Side) (b sMax lastSize : Nat) (cnt : Nat)
    (h : ∀ s < cnt, getSector sdA (blockTrack b) (blockFirstSector b + s) = getSector sdB (blockTrack b) (blockFirstSector b + s)) :
    ∀ r, readSectors sdA b sMax lastSize cnt r = readSectors sdB b sMax lastSize cnt r := by
  induction cnt with
  | zero => intro r; rfl
  | succ c ih => intro r; simp only [readSectors, ih (fun s hs => h s (by omega)) r, h c (by omega)]

theorem go_congr (sdA sdB : Side) (lu lb lastI : Nat) (hlu : lu ≤ 8) (blocks : List Nat)
    (h : ∀ b ∈ blocks, ∀ s < 8, getSector sdA (blockTrack b) (blockFirstSector b + s) = getSector sdB (blockTrack b) (blockFirstSector b + s)) :
    ∀ i r, readFile.go sdA lu lb lastI blocks i r = readFile.go sdB lu lb lastI blocks i r := by
  induction blocks with
  | nil => intro i r; rfl
  | cons b bs ih =>
    intro i r
    simp only [readFile.go]
    have hb := h b (by simp)
    rw [ih (fun x hx => h x (by simp [hx]))]
    congr 1
    split
    · exact readSectors_congr sdA sdB b _ _ _ (fun s hs => hb s (by omega)) r
    · exact readSectors_congr sdA sdB b _ _ _ (fun s hs => hb s hs) r

/-- `readFile` only looks at the sectors of the entry's blocks and at the status of its last block -/
theorem readFile_congr (sdA sdB : Side) (batA batB : List Nat) (e : Entry)
    (hs : ∀ b ∈ e.blocks, ∀ s < 8, getSector sdA (blockTrack b) (blockFirstSector b + s) = getSector sdB (blockTrack b) (blockFirstSector b + s))
    (hbat : ∀ last, e.blocks.getLast? = some last → batA.getD last 0 = batB.getD last 0)
    (hu : ∀ last, e.blocks.getLast? = some last → batB.getD last 0 ≤ 200) :
    readFile sdA batA e = readFile sdB batB e := by
  unfold readFile
  cases hl : e.blocks.getLast? with
  | none => rfl
  | some last =>
    dsimp only
    have hb := hbat last hl
    have hsz : sizeInBytes batA e = sizeInBytes batB e := by unfold sizeInBytes; rw [hl]; simp only [hb]
    have hle : batB.getD last 0 - Gen.Disk.bsLastBlock ≤ 8 := by
      have := hu last hl; have e1 : Gen.Disk.bsLastBlock = 192 := rfl; rw [e1]; omega
    rw [hb, hsz, go_congr sdA sdB _ _ _ hle e.blocks hs]

/-- **C06 (old files intact)**: a file whose chain shares no block with the newly allocated chain
    and does not sit on track 20 reads back, after a successful `writeFile`, exactly as before. -/
theorem writeFile_preserves (sd sd3 : Side) (bat : List Nat) (content : Bytes) (name ext : Str) (kind flag : Nat)
    (hw : C11.WFSide sd) (hb : getBat sd = .ok bat)
    (h40 : isFree (bat.getD 40 0) = false) (h41 : isFree (bat.getD 41 0) = false)
    (hres : writeFile sd content name ext kind flag = .ok sd3) (e : Entry)
    (hdisj : ∀ b ∈ e.blocks, b ∉ chosen bat (reqBlocks content.length) ∧ b ≠ 40 ∧ b ≠ 41)
    (hlastst : ∀ last, e.blocks.getLast? = some last → bat.getD last 0 ≤ 200) :
    readFile sd3 (linkChain bat (chosen bat (reqBlocks content.length)) (lastSectorsOf content.length)) e = readFile sd bat e := by
  obtain ⟨hb1, hu1, hu8, hlb, hS, hsize, _⟩ := size_law content.length
  have hblen := getBat_length sd bat hb
  unfold writeFile at hres
  rw [hb] at hres
  dsimp only at hres
  rw [protect_id bat h40 h41] at hres
  simp only [writeFileWith] at hres
  split at hres
  · cases hres
  · rename_i hfit
    generalize hfree : chosen bat (reqBlocks content.length) = free at hres hdisj ⊢
    have hflen : free.length = reqBlocks content.length := by
      have : free.length ≤ reqBlocks content.length := by rw [← hfree]; simp only [chosen]; exact List.length_take_le _ _
      rw [hfree] at hfit; omega
    have hnd : free.Nodup := hfree ▸ chosen_nodup bat _
    have hlt : ∀ b ∈ free, b < 160 := fun b hb' => hblen ▸ (chosen_free bat _ b (hfree ▸ hb')).1
    unfold placeFile at hres
    dsimp only at hres
    cases hf : findSlot _ _ with
    | error err => rw [hf] at hres; cases hres
    | ok o =>
      rw [hf] at hres
      cases o with
      | none => cases hres
      | some p =>
        obtain ⟨s, st⟩ := p
        dsimp only at hres
        cases hres
        obtain ⟨data, hmem⟩ := findSlot_mem _ _ _ _ hf
        obtain ⟨hs2, hs15⟩ := slots_sector_range _ _ _ _ hmem
        apply readFile_congr
        · intro b hbm s' hs8
          obtain ⟨hnf, h40, h41⟩ := hdisj b hbm
          · have hflat : idx (blockTrack b) (blockFirstSector b + s') = 8 * b + s' := block_sectors_flat b s' hs8
            unfold getSector
            rw [hflat]
            rw [putSector_flat_other _ _ _ _ _ (by unfold idx batTrack; have : Gen.Disk.sectorsPerTrack = 16 := rfl; rw [this]; omega)]
            unfold setBat
            rw [putSector_flat_other _ _ _ _ _ (by unfold idx batTrack batSector; have : Gen.Disk.sectorsPerTrack = 16 := rfl; rw [this]; omega)]
            have hspec := (writeSectors_spec free hnd content (reqSectors content.length) 0 sd (by omega)
              (fun j _ h2 => by
                rw [hw.1]; unfold flatOf
                have hj8 : j / 8 < free.length := by omega
                have hm : free.getD (j / 8) 0 ∈ free := by
                  rw [List.getD_eq_getElem?_getD, List.getElem?_eq_getElem hj8]; simp
                have := hlt _ hm
                omega)).1
            apply hspec
            intro j _ hj he
            unfold flatOf at he
            have hj8 : j / 8 < free.length := by omega
            have hm : free.getD (j / 8) 0 ∈ free := by
              rw [List.getD_eq_getElem?_getD, List.getElem?_eq_getElem hj8]; simp
            have : free.getD (j / 8) 0 = b := by
              have := Nat.mod_lt j (show 0 < 8 by omega)
              omega
            exact hnf (this ▸ hm)
        · intro last hlast
          have hm : last ∈ e.blocks := List.mem_of_getLast? hlast
          exact linkChain_other free bat _ last 0 (hdisj last hm).1
        · exact hlastst

end Moto.Disk

namespace Moto.Disk
open Moto

theorem fold_free_getD (chain : List Nat) : ∀ (b : List Nat) (x : Nat),
    (chain.foldl (fun b i => b.set i Gen.Disk.bsFree) b).getD x 0
      = if x ∈ chain ∧ x < b.length then Gen.Disk.bsFree else b.getD x 0 := by
  induction chain with
  | nil => intro b x; simp
  | cons c cs ih =>
    intro b x
    simp only [List.foldl_cons]
    rw [ih]
    simp only [List.length_set, List.mem_cons]
    by_cases hxc : x = c
    · subst hxc
      by_cases hl : x < b.length
      · by_cases hm : x ∈ cs
        · simp [hm, hl]
        · simp [hm, hl, List.getD_eq_getElem?_getD]
      · have : b.set x Gen.Disk.bsFree = b := List.set_eq_of_length_le (by omega)
        simp [hl, this]
    · by_cases hm : x ∈ cs
      · by_cases hl : x < b.length
        · simp [hm, hl]
        · simp [hm, hl, hxc, List.getD_eq_getElem?_getD, List.getElem?_set_ne (Ne.symm hxc)]
      · simp [hm, hxc, List.getD_eq_getElem?_getD, List.getElem?_set_ne (Ne.symm hxc)]

theorem fold_free_length (chain : List Nat) : ∀ (b : List Nat), (chain.foldl (fun b i => b.set i Gen.Disk.bsFree) b).length = b.length := by
  induction chain with
  | nil => intro b; rfl
  | cons c cs ih => intro b; simp only [List.foldl_cons]; rw [ih]; simp

/-- freeing the blocks of a chain that was made of free blocks gives the table back -/
theorem restore_table (bat chain : List Nat) (u : Nat) (hfree : ∀ b ∈ chain, isFree (bat.getD b 0) = true) :
    chain.foldl (fun b i => b.set i Gen.Disk.bsFree) (linkChain bat chain u) = bat := by
  apply List.ext_getElem
  · rw [fold_free_length, linkChain_length]
  · intro i h1 h2
    have e1 : (chain.foldl (fun b i => b.set i Gen.Disk.bsFree) (linkChain bat chain u))[i]
        = (chain.foldl (fun b i => b.set i Gen.Disk.bsFree) (linkChain bat chain u)).getD i 0 := by
      rw [List.getD_eq_getElem?_getD, List.getElem?_eq_getElem h1]; rfl
    have e2 : bat[i] = bat.getD i 0 := by
      rw [List.getD_eq_getElem?_getD, List.getElem?_eq_getElem h2]; rfl
    rw [e1, e2, fold_free_getD]
    by_cases hm : i ∈ chain
    · have hl : i < (linkChain bat chain u).length := by rw [linkChain_length]; exact h2
      simp only [hm, hl, and_self, if_true]
      have := hfree i hm
      unfold isFree at this
      have h3 : bat.getD i 0 = Gen.Disk.bsFree := by simpa using this
      exact h3.symm
    · simp only [hm, false_and, if_false]
      exact linkChain_other chain bat u i 0 hm

theorem setBat_setBat_sector (sd : Side) (b1 b2 : List Nat) (hw : C11.WFSide sd) (h1 : b1.length = 160) (h2 : b2.length = 160) :
    getSector (setBat (setBat sd b1) b2) batTrack batSector
      = (getSector sd batTrack batSector).take 1 ++ b2 ++ (getSector sd batTrack batSector).drop 161 := by
  have hw1 : C11.WFSide (setBat sd b1) := by unfold setBat; exact putSector_wf _ _ _ _ hw
  rw [setBat_sector _ b2 hw1 h2, setBat_sector sd b1 hw h1]
  have hidx : idx batTrack batSector < sd.length := by rw [hw.1]; decide
  have hm : getSector sd batTrack batSector ∈ sd := by
    unfold getSector
    rw [List.getD_eq_getElem?_getD, List.getElem?_eq_getElem hidx]; simp
  have hl := hw.2 _ hm
  generalize getSector sd batTrack batSector = sec at hl ⊢
  have ht : (sec.take 1).length = 1 := by simp; omega
  have e1 : ((sec.take 1 ++ b1 ++ sec.drop 161)).take 1 = sec.take 1 := by
    rw [List.append_assoc, List.take_append_of_le_length (by omega)]
    exact List.take_of_length_le (by omega)
  have e2 : ((sec.take 1 ++ b1 ++ sec.drop 161)).drop 161 = sec.drop 161 := by
    have : (sec.take 1 ++ b1).length = 161 := by simp [h1]; omega
    rw [← this, List.drop_left]
  rw [e1, e2]

theorem statuses_of_sector (sec : Bytes) (hl : sec.length = 256) :
    (List.range numBlocks).map (fun i => sec.getD (i + 1) 0) = (sec.drop 1).take 160 := by
  apply List.ext_getElem?
  intro i
  by_cases hi : i < 160
  · simp only [List.getElem?_map, List.getElem?_range (show i < numBlocks from hi), Option.map_some, List.getElem?_take, hi, if_true,
      List.getElem?_drop, List.getD_eq_getElem?_getD]
    have : 1 + i = i + 1 := by omega
    rw [this, List.getElem?_eq_getElem (by omega)]; simp
  · have h1 : ((List.range numBlocks).map (fun i => sec.getD (i + 1) 0))[i]? = none := by
      apply List.getElem?_eq_none; simp [numBlocks]; omega
    have h2 : ((sec.drop 1).take 160)[i]? = none := by
      apply List.getElem?_eq_none; simp; omega
    rw [h1, h2]

/-- the decoded table determines bytes 1..160 of its sector -/
theorem getBat_sector (sd : Side) (bat : List Nat) (hw : C11.WFSide sd) (h : getBat sd = .ok bat) :
    (getSector sd batTrack batSector).take 1 ++ bat ++ (getSector sd batTrack batSector).drop 161 = getSector sd batTrack batSector := by
  unfold getBat at h
  dsimp only at h
  split at h
  · cases h
    have hidx : idx batTrack batSector < sd.length := by rw [hw.1]; decide
    have hm : getSector sd batTrack batSector ∈ sd := by
      unfold getSector
      rw [List.getD_eq_getElem?_getD, List.getElem?_eq_getElem hidx]; simp
    have hl := hw.2 _ hm
    generalize getSector sd batTrack batSector = sec at hl ⊢
    rw [statuses_of_sector sec hl]
    have e : sec.drop 161 = (sec.drop 1).drop 160 := by rw [List.drop_drop]
    rw [e, List.append_assoc, List.take_append_drop, List.take_append_drop]
  · cases h

end Moto.Disk
