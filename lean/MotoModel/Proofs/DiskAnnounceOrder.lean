/-
  The files a create/add report announces as stored are, in order, a sub-sequence of the sources:
  every source is announced at most once, in the order of the command line, under the name and
  with the size its argument gives.
-/
import MotoModel.Proofs.DiskSections
namespace Moto.Disk
open Moto Moto.Tape

/-- what the report says of the source argument `src` when it is stored: the catalog name, the kind
    strings, the size of the file on disk and the blocks it needs; `none` for an argument that is
    skipped (no such file, name or extension too long) -/
def srcEv (w : Tape.World) (src : Str) : Option FileEv :=
  match w (splitSource src).2.2.2 with
  | none => none
  | some data =>
    if (splitSource src).1.length > 8 then none
    else if (splitSource src).2.1.length > 3 then none
    else if ((splitSource src).1 ++ (splitSource src).2.1).any (· ≥ 128) then none
    else some (evOf (splitSource src).1 (dispatch (splitSource src).1 (splitSource src).2.1 (splitSource src).2.2.1).2.2
      (dispatch (splitSource src).1 (splitSource src).2.1 (splitSource src).2.2.1).1
      (dispatch (splitSource src).1 (splitSource src).2.1 (splitSource src).2.2.1).2.1 data)

theorem fileEvents_announce (name ext : Str) (kind flag : Nat) (data : Bytes) : ∀ (fuel : Nat) (img : Image) (cur s : Nat),
    (storedOn s (fileEvents name ext kind flag data fuel img cur)).map (·.2) = []
    ∨ (storedOn s (fileEvents name ext kind flag data fuel img cur)).map (·.2) = [evOf name ext kind flag data] := by
  intro fuel
  induction fuel with
  | zero => intro img cur s; left; rfl
  | succ fuel ih =>
    intro img cur s
    simp only [fileEvents]
    split
    · left; rfl
    · cases writeFile (img.getD cur []) data name ext kind flag with
      | ok sd => right; rfl
      | raised e sd =>
        cases e with
        | valueError m =>
          dsimp only
          cases usageOfSide (img.set cur sd) cur with
          | error e => left; rfl
          | ok u =>
            dsimp only
            split
            · left; rfl
            · simp only [List.cons_append, List.nil_append, storedOn]
              exact ih (img.set cur sd) (cur + 1) (cur + 1)
        | indexError => left; rfl
        | typeError => left; rfl
        | overflowError => left; rfl
        | unicodeError => left; rfl
        | nameError => left; rfl
        | attributeError => left; rfl
        | osError k => left; rfl

theorem srcEvents_announce (w : Tape.World) (src : Str) (img : Image) (cur s : Nat) :
    ((storedOn s (srcEvents w src img cur)).map (·.2)).Sublist (srcEv w src).toList := by
  unfold srcEvents srcEv
  cases w (splitSource src).2.2.2 with
  | none => simp [storedOn]
  | some data =>
    dsimp only
    split
    · simp [storedOn]
    · split
      · simp [storedOn]
      · split
        · simp [storedOn]
        · rcases fileEvents_announce (splitSource src).1 (dispatch (splitSource src).1 (splitSource src).2.1 (splitSource src).2.2.1).2.2
            (dispatch (splitSource src).1 (splitSource src).2.1 (splitSource src).2.2.1).1
            (dispatch (splitSource src).1 (splitSource src).2.1 (splitSource src).2.2.1).2.1 data 4 img cur s with h | h
          · rw [h]; exact List.nil_sublist _
          · rw [h]; exact List.Sublist.refl _

theorem loopEvents_announce (w : Tape.World) : ∀ (srcs : List Str) (img : Image) (cur s : Nat),
    ((storedOn s (loopEvents w srcs img cur)).map (·.2)).Sublist (srcs.filterMap (srcEv w)) := by
  intro srcs
  induction srcs with
  | nil => intro img cur s; simp [loopEvents, storedOn]
  | cons src rest ih =>
    intro img cur s
    have hcons : (src :: rest).filterMap (srcEv w) = (srcEv w src).toList ++ rest.filterMap (srcEv w) := by
      rw [List.filterMap_cons]
      cases srcEv w src <;> rfl
    simp only [loopEvents]
    split
    · -- an end-of-side marker announces nothing
      rw [hcons]
      apply List.Sublist.trans _ (List.sublist_append_right _ _)
      cases usageOfSide img cur with
      | error e => exact List.nil_sublist _
      | ok u =>
        dsimp only
        split
        · simp [storedOn]
        · simp only [storedOn]
          exact ih img (cur + 1) (cur + 1)
    · rw [storedOn_append, List.map_append, hcons]
      apply List.Sublist.append (srcEvents_announce w src img cur s)
      cases srcNext w src img cur with
      | none => simp [storedOn]
      | some q =>
        obtain ⟨i1, c1, p⟩ := q
        dsimp only
        split
        · simp [storedOn]
        · exact ih i1 c1 _

/-- **each stored file is announced once, in processing order, under its catalog name**: the
    announcements of a whole create/add report — whatever the image, the sources, the markers, the
    refusals — are a sub-sequence of what the source arguments give, in the order of the command line:
    no source is announced twice, none out of order, none under another name or size -/
theorem announcements_in_order (w : Tape.World) (srcs : List Str) (img : Image) :
    ((storedOn 0 (batchEvents w srcs img)).map (·.2)).Sublist (srcs.filterMap (srcEv w)) := by
  unfold batchEvents
  rw [storedOn_append, List.map_append]
  have hmain := loopEvents_announce w srcs img 0 0
  cases loopNext w srcs img with
  | none => simpa [storedOn] using hmain
  | some q =>
    obtain ⟨i1, c1⟩ := q
    dsimp only
    split
    · cases usageOfSide i1 c1 with
      | error e => simpa [storedOn] using hmain
      | ok u => simpa [storedOn, tailEvents_storedOn] using hmain
    · simpa [storedOn] using hmain

end Moto.Disk
