/-
  Sector-level frame lemmas: `putSector`, `setBat`.
-/
import MotoModel.Proofs.DiskChain
import MotoModel.Props.C11
namespace Moto.Disk
open Moto

theorem getD_set_eq {α} (l : List α) (i : Nat) (x d : α) (h : i < l.length) : (l.set i x).getD i d = x := by
  simp [List.getD_eq_getElem?_getD, h]

theorem getD_set_ne {α} (l : List α) (i j : Nat) (x d : α) (h : i ≠ j) : (l.set i x).getD j d = l.getD j d := by
  simp [List.getD_eq_getElem?_getD, List.getElem?_set_ne h]

/-- data sectors of block `b` are the flat sectors `8 b .. 8 b + 7` -/
theorem block_sectors_flat (b s : Nat) (_hs : s < 8) : idx (blockTrack b) (blockFirstSector b + s) = 8 * b + s := by
  unfold idx blockTrack blockFirstSector
  have : Gen.Disk.sectorsPerTrack = 16 := rfl
  rw [this]; omega

theorem putSector_length (sd : Side) (t s : Nat) (v : Bytes) : (putSector sd t s v).length = sd.length := by
  simp [putSector]

/-- a write goes to one sector: every other sector keeps its bytes -/
theorem putSector_other (sd : Side) (t s t' s' : Nat) (v : Bytes) (h : idx t s ≠ idx t' s') :
    getSector (putSector sd t s v) t' s' = getSector sd t' s' := by
  unfold getSector putSector
  exact getD_set_ne _ _ _ _ _ h

theorem putSector_same (sd : Side) (t s : Nat) (v : Bytes) (h : idx t s < sd.length) :
    getSector (putSector sd t s v) t s = setPayload (getSector sd t s) v := by
  unfold getSector putSector
  exact getD_set_eq _ _ _ _ h

theorem putSector_flat_other (sd : Side) (t s : Nat) (v : Bytes) (k : Nat) (h : idx t s ≠ k) :
    (putSector sd t s v).getD k [] = sd.getD k [] := by
  unfold putSector
  exact getD_set_ne _ _ _ _ _ h

theorem putSector_wf (sd : Side) (t s : Nat) (v : Bytes) (h : C11.WFSide sd) : C11.WFSide (putSector sd t s v) := by
  obtain ⟨h1, h2⟩ := h
  constructor
  · rw [putSector_length]; exact h1
  · intro x hx
    unfold putSector at hx
    rcases List.mem_or_eq_of_mem_set hx with h' | h'
    · exact h2 x h'
    · rw [h']
      by_cases hi : idx t s < sd.length
      · have hm : getSector sd t s ∈ sd := by
          unfold getSector
          rw [List.getD_eq_getElem?_getD, List.getElem?_eq_getElem hi]
          simp
        rw [C11.setPayload_length _ _ (by rw [h2 _ hm]; exact Nat.le_refl _)]
        exact h2 _ hm
      · -- out of range: `set` did nothing, so x cannot be the new value unless it was there
        have : sd.set (idx t s) (setPayload (getSector sd t s) v) = sd := List.set_eq_of_length_le (by omega)
        rw [this] at hx
        rw [← h']; exact h2 x hx

/-- the table setter touches one sector only … -/
theorem setBat_other (sd : Side) (bat : List Nat) (t s : Nat) (h : idx batTrack batSector ≠ idx t s) :
    getSector (setBat sd bat) t s = getSector sd t s := by
  unfold setBat
  exact putSector_other _ _ _ _ _ _ h

/-- … and in it only the status bytes 1..160 -/
theorem setBat_sector (sd : Side) (bat : List Nat) (hw : C11.WFSide sd) (hb : bat.length = 160) :
    getSector (setBat sd bat) batTrack batSector
      = (getSector sd batTrack batSector).take 1 ++ bat ++ (getSector sd batTrack batSector).drop 161 := by
  unfold setBat
  have hidx : idx batTrack batSector < sd.length := by rw [hw.1]; decide
  rw [putSector_same _ _ _ _ hidx]
  have hm : getSector sd batTrack batSector ∈ sd := by
    unfold getSector
    rw [List.getD_eq_getElem?_getD, List.getElem?_eq_getElem hidx]; simp
  have hl := hw.2 _ hm
  generalize getSector sd batTrack batSector = sec at hl ⊢
  rw [C11.setPayload_eq]
  have hlen : (sliceAssign sec 1 (bat.length + 1) bat).length = 256 := by
    simp [sliceAssign]; omega
  rw [List.take_of_length_le (by omega)]
  have : min (sliceAssign sec 1 (bat.length + 1) bat).length 256 = 256 := by omega
  rw [this, List.drop_of_length_le (by omega), List.append_nil]
  simp [sliceAssign, hb]

/-- the decoded table after `setBat` is the table that was set -/
theorem getBat_setBat (sd : Side) (bat : List Nat) (hw : C11.WFSide sd) (hb : bat.length = 160)
    (hv : bat.all validStatus = true) : getBat (setBat sd bat) = .ok bat := by
  unfold getBat
  dsimp only
  rw [setBat_sector sd bat hw hb]
  have hidx : idx batTrack batSector < sd.length := by rw [hw.1]; decide
  have hm : getSector sd batTrack batSector ∈ sd := by
    unfold getSector
    rw [List.getD_eq_getElem?_getD, List.getElem?_eq_getElem hidx]; simp
  have hl := hw.2 _ hm
  generalize getSector sd batTrack batSector = sec at hl ⊢
  have hst : (List.range numBlocks).map (fun i => (sec.take 1 ++ bat ++ sec.drop 161).getD (i + 1) 0) = bat := by
    apply List.ext_getElem
    · simp [numBlocks, hb]
    · intro i h1 h2
      simp only [List.getElem_map, List.getElem_range]
      have hi : i < 160 := by simpa [numBlocks] using h1
      have ht : (sec.take 1).length = 1 := by simp; omega
      rw [List.getD_eq_getElem?_getD, List.append_assoc, List.getElem?_append_right (by omega)]
      simp only [ht, Nat.add_sub_cancel]
      rw [List.getElem?_append_left (by omega)]
      simp [List.getElem?_eq_getElem (by omega : i < bat.length)]
  rw [hst, hv]
  rfl

end Moto.Disk
