/-
  `load` of what `save` wrote is the image that was saved (both flavours, four sides).
-/
import MotoModel.Proofs.DiskGeometry
namespace Moto.Disk
open Moto

/-- one sector slot in the archive: the payload, then (SDDrive) 256 bytes of FF -/
def slotBytes (fl : Flavour) (sec : Bytes) : Bytes :=
  match fl with
  | .fd => sec
  | .sd => sec ++ Gen.Disk.sdPadding

def sideBytes (fl : Flavour) (sd : Side) : Bytes := sd.flatMap (slotBytes fl)

theorem save_eq (fl : Flavour) (img : Image) : save fl img = img.flatMap (sideBytes fl) := by
  unfold save sideBytes slotBytes
  cases fl <;> rfl

theorem slotBytes_length (fl : Flavour) (sec : Bytes) (h : sec.length = 256) : (slotBytes fl sec).length = sectorSize fl := by
  cases fl
  · simp [slotBytes, h]; rfl
  · have : Gen.Disk.sdPadding.length = 256 := by decide +kernel
    simp [slotBytes, h, this]; rfl

theorem sideBytes_length (fl : Flavour) (sd : Side) (h : C11.WFSide sd) : (sideBytes fl sd).length = sizeOfSide fl := by
  unfold sideBytes
  rw [C11.flatMap_length_const sd _ (sectorSize fl) (fun s hs => slotBytes_length fl s (h.2 s hs)), h.1]
  cases fl <;> rfl

/-- cutting the bytes of a side back into sectors gives the side -/
theorem sectorsOf_sideBytes (fl : Flavour) : ∀ (sd : Side) (rest : Bytes), (∀ s ∈ sd, s.length = 256) →
    sectorsOf fl sd.length (sideBytes fl sd ++ rest) = sd := by
  intro sd
  induction sd with
  | nil => intro rest _; rfl
  | cons sec more ih =>
    intro rest h
    have hs : sec.length = 256 := h sec (by simp)
    have e1 : Gen.Disk.payloadSizeFd = 256 := rfl
    simp only [List.length_cons, sectorsOf, sideBytes, List.flatMap_cons, e1]
    have hslot := slotBytes_length fl sec hs
    have htake : (slotBytes fl sec ++ List.flatMap (slotBytes fl) more ++ rest).take 256 = sec := by
      cases fl
      · simp only [slotBytes]
        rw [List.append_assoc, List.take_left' hs]
      · simp only [slotBytes]
        rw [List.append_assoc, List.append_assoc, List.take_left' hs]
    have hdrop : (slotBytes fl sec ++ List.flatMap (slotBytes fl) more ++ rest).drop (sectorSize fl)
        = sideBytes fl more ++ rest := by
      rw [List.append_assoc, List.drop_left' hslot]; rfl
    rw [htake, hdrop, ih rest (fun s hs' => h s (by simp [hs']))]

/-- **C11 (save then load)**: a four-sided image in memory, saved in either flavour and loaded
    again, is the same image. -/
theorem load_save (fl : Flavour) (img : Image) (hw : C11.WFImage img) (h4 : img.length = 4) :
    load fl (save fl img) = .ok img := by
  obtain ⟨a, b, c, d, rfl⟩ : ∃ a b c d, img = [a, b, c, d] := by
    match img, h4 with
    | [a, b, c, d], _ => exact ⟨a, b, c, d, rfl⟩
  have ha := hw a (by simp)
  have hb := hw b (by simp)
  have hc := hw c (by simp)
  have hd := hw d (by simp)
  have la := sideBytes_length fl a ha
  have lb := sideBytes_length fl b hb
  have lc := sideBytes_length fl c hc
  have ld := sideBytes_length fl d hd
  have hpos : 0 < sizeOfSide fl := by cases fl <;> decide
  rw [save_eq]
  simp only [List.flatMap_cons, List.flatMap_nil, List.append_nil]
  have s0 := sectorsOf_sideBytes fl a (sideBytes fl b ++ (sideBytes fl c ++ sideBytes fl d)) ha.2
  have s1 := sectorsOf_sideBytes fl b (sideBytes fl c ++ sideBytes fl d) hb.2
  have s2 := sectorsOf_sideBytes fl c (sideBytes fl d) hc.2
  have s3 := sectorsOf_sideBytes fl d [] hd.2
  rw [ha.1] at s0; rw [hb.1] at s1; rw [hc.1] at s2; rw [hd.1, List.append_nil] at s3
  generalize sideBytes fl a = A at la s0
  generalize sideBytes fl b = B at lb s0 s1
  generalize sideBytes fl c = C at lc s0 s1 s2
  generalize sideBytes fl d = D at ld s0 s1 s2 s3
  have hlen : (A ++ (B ++ (C ++ D))).length = 4 * sizeOfSide fl := by simp only [List.length_append, la, lb, lc, ld]; omega
  have d1 : (A ++ (B ++ (C ++ D))).drop (sizeOfSide fl) = B ++ (C ++ D) := List.drop_left' la
  have d2 : (A ++ (B ++ (C ++ D))).drop (2 * sizeOfSide fl) = C ++ D := by
    rw [← List.append_assoc]; exact List.drop_left' (by simp only [List.length_append, la, lb]; omega)
  have d3 : (A ++ (B ++ (C ++ D))).drop (3 * sizeOfSide fl) = D := by
    rw [← List.append_assoc, ← List.append_assoc]; exact List.drop_left' (by simp only [List.length_append, la, lb, lc]; omega)
  unfold load
  dsimp only
  have hne : ¬ ((A ++ (B ++ (C ++ D))).length = 0) := by rw [hlen]; omega
  have hdiv : (A ++ (B ++ (C ++ D))).length / sizeOfSide fl = 4 := by rw [hlen]; exact Nat.mul_div_cancel _ hpos
  rw [if_neg hne, hdiv]
  have m4 : min 4 4 = 4 := rfl
  have e4' : List.range 4 = [0, 1, 2, 3] := by decide
  have h1280 : sectorsPerSide = 1280 := rfl
  rw [m4, e4']
  simp only [List.map_cons, List.map_nil, Nat.zero_mul, List.drop_zero, Nat.one_mul, h1280, s0, d1, s1, d2, s2, d3, s3]
  cases fl <;> simp

end Moto.Disk
