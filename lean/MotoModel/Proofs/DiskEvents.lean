/-
  The report of a create/add batch as the replay of a list of events that depends on the image and
  the sources only: which events happen is separated from how they are printed.
-/
import MotoModel.Proofs.DiskCount
import MotoModel.Props.C20
namespace Moto.Disk
open Moto Moto.Tape

/-- what the injector tells its listener -/
inductive LEv where
  | beginSide (i : Nat)
  | endSide (u : Usage)
  | beginFile (ev : FileEv)
  | endFile (ev : FileEv)
  | before (msg : Str)
  | abort (msg : Str)

def playOne (l : DL) : LEv → DL
  | .beginSide i => onBeginOfSide l i
  | .endSide u => onEndOfSide l u
  | .beginFile ev => onBeginOfFile l ev
  | .endFile ev => onEndOfFile l ev
  | .before m => onBeforeBeginOfFile l m
  | .abort m => onAbortFile l m

/-- the listener after a list of events -/
def play (l : DL) (evs : List LEv) : DL := evs.foldl playOne l

theorem play_append (l : DL) (a b : List LEv) : play l (a ++ b) = play (play l a) b := by simp [play, List.foldl_append]

def evOf (name ext : Str) (kind flag : Nat) (data : Bytes) : FileEv :=
  { name := name, ext := ext, tof := tofString kind, tod := todString kind flag,
    bytes := data.length, blocks := (max 1 ((data.length + 254) / 255) + 7) / 8 }

/-- events of one offered file, with its retries on the following sides: a function of the image
    and the cursor -/
def fileEvents (name ext : Str) (kind flag : Nat) (data : Bytes) : Nat → Image → Nat → List LEv
  | 0, _, _ => []
  | fuel + 1, img, cur =>
    if cur ≥ 4 then [] else
    match writeFile (img.getD cur []) data name ext kind flag with
    | .ok _ => [.beginFile (evOf name ext kind flag data), .endFile (evOf name ext kind flag data)]
    | .raised (.valueError _) sd =>
      match usageOfSide (img.set cur sd) cur with
      | .error _ => []
      | .ok u =>
        [.beginFile (evOf name ext kind flag data), .abort (str "too big"), .endSide u]
          ++ (if cur + 1 ≥ 4 then [] else .beginSide (cur + 1) :: fileEvents name ext kind flag data fuel (img.set cur sd) (cur + 1))
    | .raised _ _ => []

/-- the listener after `injWriteFile` is the listener before, played through `fileEvents` -/
theorem injWriteFile_events (name ext : Str) (kind flag : Nat) (data : Bytes) :
    ∀ (fuel : Nat) (st st' : Inj), injWriteFile name ext kind flag data fuel st = .ok st' →
      st'.l = play st.l (fileEvents name ext kind flag data fuel st.img st.cur) := by
  intro fuel
  induction fuel with
  | zero => intro st st' h; simp only [injWriteFile] at h; cases h; rfl
  | succ fuel ih =>
    intro st st' h
    simp only [injWriteFile] at h
    simp only [fileEvents]
    by_cases hc : st.cur ≥ 4
    · rw [if_pos hc] at h ⊢; cases h; rfl
    · rw [if_neg hc] at h ⊢
      cases hw : writeFile (st.img.getD st.cur []) data name ext kind flag with
      | ok sd => rw [hw] at h; dsimp only at h ⊢; cases h; rfl
      | raised e sd =>
        rw [hw] at h
        cases e with
        | valueError m =>
          dsimp only at h ⊢
          cases hu : usageOfSide (st.img.set st.cur sd) st.cur with
          | error e => rw [hu] at h; cases h
          | ok u =>
            rw [hu] at h
            dsimp only at h ⊢
            by_cases h4 : st.cur + 1 ≥ 4
            · rw [if_pos h4] at h ⊢; cases h; rfl
            · rw [if_neg h4] at h ⊢
              have := ih _ st' h
              rw [this]
              simp [play, playOne, evOf]
        | indexError => cases h
        | typeError => cases h
        | overflowError => cases h
        | unicodeError => cases h
        | nameError => cases h
        | attributeError => cases h
        | osError k => cases h

/-! ### one source argument -/

/-- a listener used only to compute where the image and the cursor go (they do not depend on it) -/
def mute : DL := { processing := 2, verbose := false }

/-- events of one source argument that is not an end-of-side marker -/
def srcEvents (w : Tape.World) (src : Str) (img : Image) (cur : Nat) : List LEv :=
  match w (splitSource src).2.2.2 with
  | none => [.before (str "-- not found : " ++ src)]
  | some data =>
    if (splitSource src).1.length > 8 then [.before (str "-- too long name : " ++ (splitSource src).2.2.2)]
    else if (splitSource src).2.1.length > 3 then [.before (str "-- too long extension : " ++ (splitSource src).2.2.2)]
    else if ((splitSource src).1 ++ (splitSource src).2.1).any (· ≥ 128) then [.before (str "-- not an ascii name : " ++ (splitSource src).2.2.2)]
    else fileEvents (splitSource src).1 (dispatch (splitSource src).1 (splitSource src).2.1 (splitSource src).2.2.1).2.2
      (dispatch (splitSource src).1 (splitSource src).2.1 (splitSource src).2.2.1).1
      (dispatch (splitSource src).1 (splitSource src).2.1 (splitSource src).2.2.1).2.1 data 4 img cur

theorem injFile_events (w : Tape.World) (src : Str) (st st' : Inj) (b : Bool) (h : injFile w src st = .ok (st', b)) :
    st'.l = play st.l (srcEvents w src st.img st.cur) := by
  unfold injFile at h
  unfold srcEvents
  dsimp only at h ⊢
  cases hw : w (splitSource src).2.2.2 with
  | none => rw [hw] at h; dsimp only at h ⊢; cases h; rfl
  | some data =>
    rw [hw] at h
    dsimp only at h ⊢
    split at h
    · rename_i h8; rw [if_pos h8]; cases h; rfl
    · rename_i h8
      rw [if_neg h8]
      split at h
      · rename_i h3; rw [if_pos h3]; cases h; rfl
      · rename_i h3
        rw [if_neg h3]
        split at h
        · rename_i ha; rw [if_pos ha]; cases h; rfl
        · rename_i ha
          rw [if_neg ha]
          cases hi : injWriteFile (splitSource src).1 (dispatch (splitSource src).1 (splitSource src).2.1 (splitSource src).2.2.1).2.2
              (dispatch (splitSource src).1 (splitSource src).2.1 (splitSource src).2.2.1).1
              (dispatch (splitSource src).1 (splitSource src).2.1 (splitSource src).2.2.1).2.1 data 4 st with
          | error e => rw [hi] at h; cases h
          | ok s2 =>
            rw [hi] at h
            cases h
            exact injWriteFile_events _ _ _ _ _ 4 st st' hi

/-- where the image and the cursor go for one source argument (computed with a mute listener) -/
def srcNext (w : Tape.World) (src : Str) (img : Image) (cur : Nat) : Option (Image × Nat × Bool) :=
  match injFile w src ⟨img, cur, mute⟩ with
  | .ok (s, b) => some (s.img, s.cur, b)
  | .error _ => none

theorem injFile_next (w : Tape.World) (src : Str) (st st' : Inj) (b : Bool) (h : injFile w src st = .ok (st', b)) :
    srcNext w src st.img st.cur = some (st'.img, st'.cur, b) := by
  have hc := C20.injFile_core w w src rfl st ⟨st.img, st.cur, mute⟩ rfl
  unfold srcNext
  rw [h] at hc
  cases hm : injFile w src ⟨st.img, st.cur, mute⟩ with
  | error e => rw [hm] at hc; simp [Except.map] at hc
  | ok r =>
    obtain ⟨s2, b2⟩ := r
    rw [hm] at hc
    simp only [Except.map, Except.ok.injEq, Prod.mk.injEq, C20.core] at hc
    obtain ⟨⟨h1, h2⟩, h3⟩ := hc
    simp [h1, h2, h3]

/-! ### the whole batch -/

/-- the events of the sources loop: a function of the files on disk, the sources, the image and the cursor -/
def loopEvents (w : Tape.World) : List Str → Image → Nat → List LEv
  | [], _, _ => []
  | src :: rest, img, cur =>
    if basename (upper src) = str "--EOS" then
      match usageOfSide img cur with
      | .error _ => []
      | .ok u => .endSide u :: (if cur + 1 ≥ 4 then [] else .beginSide (cur + 1) :: loopEvents w rest img (cur + 1))
    else
      srcEvents w src img cur ++
        (match srcNext w src img cur with
         | none => []
         | some (img', cur', processed) => if processed && decide (cur' ≥ 4) then [] else loopEvents w rest img' cur')

theorem injLoop_events (w : Tape.World) : ∀ (srcs : List Str) (st st' : Inj), injLoop w srcs st = .ok st' →
    st'.l = play st.l (loopEvents w srcs st.img st.cur) := by
  intro srcs
  induction srcs with
  | nil => intro st st' h; simp only [injLoop] at h; cases h; rfl
  | cons src rest ih =>
    intro st st' h
    simp only [injLoop] at h
    simp only [loopEvents]
    split at h
    · rename_i he
      rw [if_pos he]
      cases hu : usageOfSide st.img st.cur with
      | error e => rw [hu] at h; cases h
      | ok u =>
        rw [hu] at h
        dsimp only at h ⊢
        split at h
        · rename_i h4; rw [if_pos h4]; cases h; rfl
        · rename_i h4
          rw [if_neg h4]
          have := ih _ st' h
          rw [this]
          simp [play, playOne]
    · rename_i he
      rw [if_neg he]
      cases hf : injFile w src st with
      | error e => rw [hf] at h; cases h
      | ok r =>
        obtain ⟨s1, p⟩ := r
        rw [hf] at h
        dsimp only at h
        rw [play_append, ← injFile_events w src st s1 p hf, injFile_next w src st s1 p hf]
        dsimp only
        split at h
        · rename_i hq; rw [if_pos hq]; cases h; rfl
        · rename_i hq
          rw [if_neg hq]
          exact ih s1 st' h

/-- events of the sides not reached by the batch -/
def tailEvents : Nat → Image → Nat → List LEv
  | 0, _, _ => []
  | fuel + 1, img, cur =>
    if cur + 1 < 4 then
      match usageOfSide img (cur + 1) with
      | .error _ => []
      | .ok u => .beginSide (cur + 1) :: .endSide u :: tailEvents fuel img (cur + 1)
    else []

theorem injTail_events : ∀ (fuel : Nat) (st st' : Inj), injTail fuel st = .ok st' → st'.l = play st.l (tailEvents fuel st.img st.cur) := by
  intro fuel
  induction fuel with
  | zero => intro st st' h; simp only [injTail] at h; cases h; rfl
  | succ fuel ih =>
    intro st st' h
    simp only [injTail] at h
    simp only [tailEvents]
    split at h
    · rename_i hc
      rw [if_pos hc]
      cases hu : usageOfSide st.img (st.cur + 1) with
      | error e => rw [hu] at h; cases h
      | ok u =>
        rw [hu] at h
        dsimp only at h ⊢
        have := ih _ st' h
        rw [this]
        simp [play, playOne]
    · rename_i hc
      rw [if_neg hc]; cases h; rfl

/-- where the image and the cursor are after the sources loop (computed with a mute listener) -/
def loopNext (w : Tape.World) (srcs : List Str) (img : Image) : Option (Image × Nat) :=
  match injLoop w srcs ⟨img, 0, mute⟩ with
  | .ok s => some (s.img, s.cur)
  | .error _ => none

/-- all the events of a create/add batch, after the first "Side 0" -/
def batchEvents (w : Tape.World) (srcs : List Str) (img : Image) : List LEv :=
  loopEvents w srcs img 0 ++
    (match loopNext w srcs img with
     | none => []
     | some (img1, cur1) =>
       if cur1 < 4 then
         match usageOfSide img1 cur1 with
         | .error _ => []
         | .ok u => .endSide u :: tailEvents 4 img1 cur1
       else [])

/-- **the report of a create/add batch is the replay of `batchEvents`**: which events the listener
    receives is a function of the files on disk, the sources and the image — not of the verbosity -/
theorem performCore_events (w : Tape.World) (verbose : Bool) (img : Image) (srcs : List Str) (st : Inj)
    (h : performCore w verbose img srcs = .ok st) :
    st.l = play (onBeginOfSide { processing := 2, verbose := verbose } 0) (batchEvents w srcs img) := by
  unfold performCore at h
  dsimp only at h
  unfold batchEvents
  cases hl : injLoop w srcs { img := img, cur := 0, l := onBeginOfSide { processing := 2, verbose := verbose } 0 } with
  | error e => rw [hl] at h; cases h
  | ok s1 =>
    rw [hl] at h
    dsimp only at h
    have hev := injLoop_events w srcs _ s1 hl
    dsimp only at hev
    have hcore := C20.injLoop_core w w srcs (fun _ _ => rfl)
      { img := img, cur := 0, l := onBeginOfSide { processing := 2, verbose := verbose } 0 } ⟨img, 0, mute⟩ rfl
    rw [hl] at hcore
    have hnext : loopNext w srcs img = some (s1.img, s1.cur) := by
      unfold loopNext
      cases hm : injLoop w srcs ⟨img, 0, mute⟩ with
      | error e => rw [hm] at hcore; simp [Except.map] at hcore
      | ok s2 =>
        rw [hm] at hcore
        simp only [Except.map, Except.ok.injEq, C20.core, Prod.mk.injEq] at hcore
        simp [hcore.1, hcore.2]
    rw [hnext, play_append, ← hev]
    dsimp only
    split at h
    · rename_i hc
      rw [if_pos hc]
      cases hu : usageOfSide s1.img s1.cur with
      | error e => rw [hu] at h; cases h
      | ok u =>
        rw [hu] at h
        dsimp only at h ⊢
        cases ht : injTail 4 { s1 with l := onEndOfSide s1.l u } with
        | error e => rw [ht] at h; cases h
        | ok s2 =>
          rw [ht] at h
          cases h
          rw [injTail_events 4 _ st ht]
          simp [play, playOne]
    · rename_i hc
      rw [if_neg hc]
      cases h
      rfl

/-! ### what the events of one file look like -/

def LEv.isEndFile : LEv → Bool
  | .endFile _ => true
  | _ => false

/-- for one offered file: rounds of "announced, too big, side closed, next side opened", then at
    most one "announced, stored"; every announcement carries the true size of the data and the
    number of blocks it needs -/
theorem fileEvents_shape (name ext : Str) (kind flag : Nat) (data : Bytes) : ∀ (fuel : Nat) (img : Image) (cur : Nat),
    (fileEvents name ext kind flag data fuel img cur).countP LEv.isEndFile ≤ 1
    ∧ ∀ e ∈ fileEvents name ext kind flag data fuel img cur,
        e = .beginFile (evOf name ext kind flag data) ∨ e = .endFile (evOf name ext kind flag data) ∨ e = .abort (str "too big")
        ∨ (∃ u, e = .endSide u) ∨ (∃ i, e = .beginSide i) := by
  intro fuel
  induction fuel with
  | zero => intro img cur; simp [fileEvents]
  | succ fuel ih =>
    intro img cur
    simp only [fileEvents]
    by_cases hc : cur ≥ 4
    · rw [if_pos hc]; simp
    · rw [if_neg hc]
      cases hw : writeFile (img.getD cur []) data name ext kind flag with
      | ok sd =>
        dsimp only
        constructor
        · simp [LEv.isEndFile]
        · intro e he
          simp only [List.mem_cons, List.mem_nil_iff, or_false] at he
          rcases he with rfl | rfl
          · exact Or.inl rfl
          · exact Or.inr (Or.inl rfl)
      | raised e sd =>
        cases e with
        | valueError m =>
          dsimp only
          cases hu : usageOfSide (img.set cur sd) cur with
          | error e => simp
          | ok u =>
            dsimp only
            by_cases h4 : cur + 1 ≥ 4
            · rw [if_pos h4]
              constructor
              · simp [LEv.isEndFile]
              · intro e he
                simp only [List.append_nil, List.mem_cons, List.mem_nil_iff, or_false] at he
                rcases he with rfl | rfl | rfl
                · exact Or.inl rfl
                · exact Or.inr (Or.inr (Or.inl rfl))
                · exact Or.inr (Or.inr (Or.inr (Or.inl ⟨u, rfl⟩)))
            · rw [if_neg h4]
              obtain ⟨h1, h2⟩ := ih (img.set cur sd) (cur + 1)
              constructor
              · simp only [List.cons_append, List.nil_append, List.countP_cons, LEv.isEndFile]
                simpa using h1
              · intro e he
                simp only [List.cons_append, List.nil_append, List.mem_cons] at he
                rcases he with rfl | rfl | rfl | rfl | he
                · exact Or.inl rfl
                · exact Or.inr (Or.inr (Or.inl rfl))
                · exact Or.inr (Or.inr (Or.inr (Or.inl ⟨u, rfl⟩)))
                · exact Or.inr (Or.inr (Or.inr (Or.inr ⟨cur + 1, rfl⟩)))
                · exact h2 e he
        | indexError => simp
        | typeError => simp
        | overflowError => simp
        | unicodeError => simp
        | nameError => simp
        | attributeError => simp
        | osError k => simp

theorem evOf_facts (name ext : Str) (kind flag : Nat) (data : Bytes) :
    (evOf name ext kind flag data).bytes = data.length ∧ (evOf name ext kind flag data).blocks = reqBlocks data.length
    ∧ (evOf name ext kind flag data).name = name ∧ (evOf name ext kind flag data).ext = ext :=
  ⟨rfl, (reqBlocks_formula data.length).symm, rfl, rfl⟩

end Moto.Disk
