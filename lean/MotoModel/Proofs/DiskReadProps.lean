/-
  C07 — first layer (chains, sizes, side counts, the efficient reader); namespace Moto.C07, audited with Props/C07.lean
  (first layer: side counts of `load`, chain following on any linked table)
-/
import MotoModel.Proofs.DiskChain
import MotoModel.Proofs.DiskFill
import MotoModel.Props.C11
import MotoModel.Spec.Dos
namespace Moto.C07
open Moto Moto.Disk

/-- **C07 (chains)**: whatever the allocation order — any duplicate-free list of blocks below 160
    linked in the table, ending in a last-block marker C1..C8 — the reader follows exactly that
    chain, from the first block recorded in the catalog. -/
theorem chain_followed (bat : List Nat) (chain : List Nat) (u : Nat) (hlen : bat.length = 160)
    (hne : chain ≠ []) (hnd : chain.Nodup) (hlt : ∀ b ∈ chain, b < 160) (h1 : 1 ≤ u) (h8 : u ≤ 8)
    (hl : Linked bat chain u) : walk bat (chain.getD 0 0) = .ok chain := by
  obtain ⟨first, rest, rfl⟩ := List.exists_cons_of_ne_nil hne
  simp only [List.getD_cons_zero]
  exact walk_linked bat first rest u h1 h8 hlen hl hlt hnd

/-- the table an independent writer produces for one file links its chain (fragmented or not) -/
theorem writer_links (bat : List Nat) (chain : List Nat) (u : Nat) (hnd : chain.Nodup) (hlt : ∀ b ∈ chain, b < bat.length) :
    Linked (linkChain bat chain u) chain u := linkChain_linked chain bat u hnd hlt

/-- chains of other files are not disturbed by linking a disjoint chain -/
theorem other_chain_kept (bat : List Nat) (c1 c2 : List Nat) (u1 u2 : Nat) (hd : ∀ b ∈ c2, b ∉ c1) (hl : Linked bat c2 u2) :
    Linked (linkChain bat c1 u1) c2 u2 :=
  linked_of_other bat _ c2 u2 (fun x hx => linkChain_other c1 bat u1 x 0 (hd x hx)) hl

/-- the size the reader announces: 255 bytes per full sector plus the bytes of the last one -/
theorem size_formula (bat : List Nat) (rec16 : Bytes) (chain : List Nat) (last : Nat) (u : Nat) (h8 : u ≤ 8)
    (hlast : chain.getLast? = some last) (hs : bat.getD last 0 = 0xC0 + u) :
    sizeInBytes bat ⟨1, rec16, chain⟩ = (8 * (chain.length - 1) + u - 1) * 255 + (rec16.getD 14 0 * 256 + rec16.getD 15 0) := by
  unfold sizeInBytes
  simp only [hlast, hs, Entry.lastBytes]
  have : usageOf (0xC0 + u) = u := by
    unfold usageOf
    have := marker_not_free u h8
    simp only [this.1, this.2, Bool.false_eq_true, if_false, Bool.false_or]
    have hn : hasNext (0xC0 + u) = false := by
      unfold hasNext; have : Gen.Disk.bsMaxNext = 160 := rfl; rw [this]; simp; omega
    simp only [hn, Bool.false_eq_true, if_false]
    have : Gen.Disk.bsLastBlock = 192 := rfl
    rw [this]; omega
  rw [this]

/-! ### side counts -/

theorem load_fd_sides (raw : Bytes) (n : Nat) (hn : n = 1 ∨ n = 2 ∨ n = 4) (hlen : raw.length = 327680 * n) :
    ∃ img, load .fd raw = .ok img ∧ img.length = n := by
  unfold load
  have hs : sizeOfSide .fd = 327680 := rfl
  have hne : ¬ (raw.length = 0) := by rcases hn with h | h | h <;> omega
  have hdiv : raw.length / 327680 = n := by rw [hlen]; simp
  have hmin : min n 4 = n := by rcases hn with h | h | h <;> omega
  simp only [hne, if_false, hs, hdiv, hmin]
  have hbad : (n == 0 || n == 3) = false := by rcases hn with h | h | h <;> subst h <;> rfl
  have hint : ¬ (n < 4 ∧ n * 327680 < raw.length) := by rw [Nat.mul_comm]; omega
  simp only [hbad, Bool.false_eq_true, if_false, hint]
  exact ⟨_, rfl, by simp⟩

theorem load_sd_sides (raw : Bytes) (hlen : raw.length = 655360 * 4) :
    ∃ img, load .sd raw = .ok img ∧ img.length = 4 := by
  unfold load
  have hs : sizeOfSide .sd = 655360 := rfl
  have hne : ¬ (raw.length = 0) := by omega
  have hdiv : raw.length / 655360 = 4 := by rw [hlen]
  simp only [hne, if_false, hs, hdiv]
  exact ⟨_, rfl, by simp⟩

theorem load_fd_three_sides_rejected (raw : Bytes) (hlen : raw.length = 327680 * 3) : load .fd raw = .error (.valueError "sides") := by
  unfold load
  have hs : sizeOfSide .fd = 327680 := rfl
  have hne : ¬ (raw.length = 0) := by omega
  have hdiv : raw.length / 327680 = 3 := by rw [hlen]
  simp [hne, hs, hdiv]

/-- **C07 (the extractor's reader)**: the efficient reader the model's extractor runs is, for every
    side, table and entry (well-formed or not), the reader that mirrors controller.readFile's
    slice-assignment loop. -/
theorem reader_impl_is_reader (sd : Side) (bat : List Nat) (e : Entry) : readFileImpl sd bat e = readFile sd bat e :=
  readFileImpl_eq sd bat e

end Moto.C07
