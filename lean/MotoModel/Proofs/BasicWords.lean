/-
  Words the tokenizer leaves alone: words made of characters that occur in no keyword (digits,
  J, Z, #, %, …), and string literals.
-/
import MotoModel.Proofs.BasicCompose
namespace Moto.Basic
open Moto

theorem isToken_mem' (k : Str) (h : isToken k = true) : ∃ e ∈ Gen.Tokens.tokens, e.1 = k := by
  unfold isToken tokenOf at h
  cases hf : Gen.Tokens.tokens.find? (fun e => e.1 == k) with
  | none => simp [hf] at h
  | some e =>
    have := List.find?_some hf
    exact ⟨e, List.mem_of_find?_eq_some hf, by simpa using this⟩

/-- the character occurs in no keyword of the table -/
def inertB (c : Nat) : Bool := Gen.Tokens.tokens.all fun e => !e.1.contains c

theorem not_token_of_inert (s : Str) (c : Nat) (hc : c ∈ s) (hi : inertB c = true) : isToken s = false := by
  cases h : isToken s with
  | false => rfl
  | true =>
    obtain ⟨e, he, rfl⟩ := isToken_mem' s h
    unfold inertB at hi
    have := List.all_eq_true.mp hi e he
    simp at this
    exact absurd hc this

theorem empty_not_token : isToken [] = false := by decide +kernel
theorem specials_not_tokens : ∀ s ∈ Gen.Tokens.specialChars, isToken [s] = false := by decide +kernel
theorem quote_inert : inertB 34 = true := by decide +kernel
theorem specials_inert : ∀ s ∈ Gen.Tokens.specialChars, inertB s = true := by decide +kernel

/-- a character of an inert word: not a quote, not special, and its upper case occurs in no keyword -/
def InertChar (c : Nat) : Prop := c ≠ 34 ∧ isSpecial c = false ∧ inertB (upperC c) = true

/-- the state after an inert word read from a clean context: everything is still pending, unmatched -/
theorem inert_word_state (w : Str) (hw : ∀ c ∈ w, InertChar c) (d : Bytes) :
    w.foldl parseChar ({ done := d }, false) = ({ done := d, cand := [], seq := upper w, bucket := upper w }, false) := by
  have key : ∀ (w p : Str), (∀ c ∈ p, InertChar c) → (∀ c ∈ w, InertChar c) →
      w.foldl parseChar ({ done := d, cand := [], seq := upper p, bucket := upper p }, false)
        = ({ done := d, cand := [], seq := upper (p ++ w), bucket := upper (p ++ w) }, false) := by
    intro w
    induction w with
    | nil => intro p _ _; simp
    | cons ch rest ih =>
      intro p hp hw
      obtain ⟨hq, hs, hi⟩ := hw ch (by simp)
      simp only [List.foldl_cons]
      have hstep : parseChar ({ done := d, cand := [], seq := upper p, bucket := upper p }, false) ch
          = ({ done := d, cand := [], seq := upper (p ++ [ch]), bucket := upper (p ++ [ch]) }, false) := by
        unfold parseChar
        dsimp only
        rw [if_neg hq]
        simp only [Bool.false_eq_true, if_false, hs]
        unfold appendAsToken
        simp only [appendAsTokenFuel]
        have h1 : isToken (upper p ++ [upperC ch]) = false := not_token_of_inert _ (upperC ch) (by simp) hi
        have h2 : isToken (upper p) = false := by
          cases p with
          | nil => exact empty_not_token
          | cons x xs => exact not_token_of_inert _ (upperC x) (by simp [upper]) (hp x (by simp)).2.2
        have h3 : isToken [upperC ch] = false := not_token_of_inert _ (upperC ch) (by simp) hi
        rw [h1, h2, h3]
        simp [upper]
      rw [hstep]
      have := ih (p ++ [ch]) (by
        intro c hc
        rcases List.mem_append.mp hc with h | h
        · exact hp c h
        · simp at h; rw [h]; exact hw ch (by simp)) (fun c hc => hw c (by simp [hc]))
      rw [this]
      simp
  have := key w [] (by simp) hw
  simpa [upper] using this

/-- **an inert word followed by a special character is stored as it is, upper-cased** -/
theorem inert_word (w : Str) (hw : ∀ c ∈ w, InertChar c) (s : Nat) (hs : s ∈ Gen.Tokens.specialChars) :
    encodeBody (w ++ [s]) = upper w ++ [s] := by
  unfold encodeBody
  rw [List.foldl_append, inert_word_state w hw []]
  have hsp : isSpecial s = true := by unfold isSpecial; simpa using hs
  have hq : s ≠ 34 := by intro e; rw [e] at hs; revert hs; decide
  simp only [List.foldl_cons, List.foldl_nil]
  unfold parseChar
  dsimp only
  rw [if_neg hq]
  simp only [Bool.false_eq_true, if_false, hsp, if_true]
  unfold appendAsToken
  simp only [appendAsTokenFuel]
  have hsi := specials_inert s hs
  have h1 : isToken (upper w ++ [s]) = false := not_token_of_inert _ s (by simp) hsi
  have h2 : isToken (upper w) = false := by
    cases w with
    | nil => exact empty_not_token
    | cons x xs => exact not_token_of_inert _ (upperC x) (by simp [upper]) (hw x (by simp)).2.2
  have h3 : isToken [s] = false := specials_not_tokens s hs
  rw [h1, h2, h3]
  simp [commit]
  rw [finish_of_clean _ ⟨rfl, rfl, rfl⟩]

/-- nothing matches: the input joins what is pending -/
theorem appendAsToken_plain (c : Ctx) (inp : Str) (h1 : isToken (c.seq ++ inp) = false) (h2 : isToken c.bucket = false)
    (h3 : isToken inp = false) : appendAsToken c inp = { c with seq := c.seq ++ inp, bucket := c.bucket ++ inp } := by
  unfold appendAsToken
  show appendAsTokenFuel (2 + 1) c inp = _
  rw [appendAsTokenFuel]
  simp only [h1, h2, h3, Bool.false_eq_true, if_false]

/-! ### string literals -/

theorem literal_body (lit : Str) (h : 34 ∉ lit) (d : Bytes) (p : Str) :
    lit.foldl parseChar ({ done := d, cand := [], seq := p, bucket := p }, true)
      = ({ done := d, cand := [], seq := p ++ lit, bucket := p ++ lit }, true) := by
  induction lit generalizing p with
  | nil => simp
  | cons ch rest ih =>
    have hq : ch ≠ 34 := fun e => h (by simp [e])
    simp only [List.foldl_cons]
    have hstep : parseChar ({ done := d, cand := [], seq := p, bucket := p }, true) ch
        = ({ done := d, cand := [], seq := p ++ [ch], bucket := p ++ [ch] }, true) := by
      unfold parseChar
      dsimp only
      rw [if_neg hq]
      simp [appendAsLiteral]
    rw [hstep, ih (fun hm => h (by simp [hm])) (p ++ [ch])]
    simp

/-- a string literal is copied verbatim, quotes included, whatever it contains -/
theorem literal_state (lit : Str) (h : 34 ∉ lit) (d : Bytes) :
    ([34] ++ lit ++ [34]).foldl parseChar ({ done := d }, false) = ({ done := d ++ [34] ++ lit ++ [34] }, false) := by
  rw [List.foldl_append, List.foldl_append]
  have h1 : [34].foldl parseChar ({ done := d }, false) = ({ done := d ++ [34], cand := [], seq := [], bucket := [] }, true) := by
    simp only [List.foldl_cons, List.foldl_nil]
    unfold parseChar
    simp [commit, appendAsLiteral, commitAsToken_of_clean { done := d } ⟨rfl, rfl, rfl⟩]
  rw [h1, literal_body lit h (d ++ [34]) []]
  simp only [List.nil_append, List.foldl_cons, List.foldl_nil]
  unfold parseChar
  dsimp only
  rw [if_pos rfl]
  simp only [Bool.not_true, Bool.false_eq_true, if_false]
  have hq1 : isToken ([] ++ [34]) = false := not_token_of_inert _ 34 (by simp) quote_inert
  have hq3 : isToken [34] = false := not_token_of_inert _ 34 (by simp) quote_inert
  rw [appendAsToken_plain _ [34] (by simpa [commit] using hq1) (by simpa [commit] using empty_not_token) hq3]
  simp [commit]

theorem literal_then_separator (lit : Str) (h : 34 ∉ lit) (s : Nat) (hs : s ∈ Gen.Tokens.specialChars) :
    encodeBody ([34] ++ lit ++ [34] ++ [s]) = [34] ++ lit ++ [34] ++ [s] := by
  unfold encodeBody
  rw [List.foldl_append, literal_state lit h []]
  have hsp : isSpecial s = true := by unfold isSpecial; simpa using hs
  have hq : s ≠ 34 := by intro e; rw [e] at hs; revert hs; decide
  simp only [List.foldl_cons, List.foldl_nil]
  unfold parseChar
  dsimp only
  rw [if_neg hq]
  simp only [Bool.false_eq_true, if_false, hsp, if_true]
  rw [appendAsToken_plain _ [s] (by simpa using specials_not_tokens s hs) empty_not_token (specials_not_tokens s hs)]
  simp [commit]
  rw [finish_of_clean _ ⟨rfl, rfl, rfl⟩]

/-- after a whole literal the reader is outside literals again -/
theorem literal_closed (lit : Str) (h : 34 ∉ lit) : (([34] ++ lit ++ [34]).foldl parseChar ({}, false)).2 = false := by
  have := literal_state lit h []
  rw [this]

end Moto.Basic
