/-
  What `listFiles` returns on a consistent side, and how a `writeFile` changes it.
-/
import MotoModel.Proofs.DiskHistory
namespace Moto.Disk
open Moto

def liveB (d : Bytes) : Bool := d.getD 0 0 != 0xFF && d.getD 0 0 != 0

theorem liveB_iff (d : Bytes) : liveB d = true ↔ liveData d := by
  unfold liveB liveData
  simp

/-- the entry the catalog decoder yields for slot `i` of a consistent side, if it is live -/
def entryAt (sd : Side) (own : Nat → List Nat) (i : Nat) : Option Entry :=
  if liveB (slotData sd i) then some ⟨1, recordOfBytes (slotData sd i), own i⟩ else none

theorem listFiles_go_inv {sd : Side} {bat : List Nat} {own : Nat → List Nat} (inv : SideInv sd bat own) :
    ∀ (l : List Nat) (acc : List Entry), (∀ i ∈ l, i < 112) →
      listFiles.go bat (l.map fun i => (2 + i / 8, 32 * (i % 8), slotData sd i)) acc
        = .ok (acc.reverse ++ l.filterMap (entryAt sd own)) := by
  intro l
  induction l with
  | nil => intro acc _; simp [listFiles.go]
  | cons i rest ih =>
    intro acc hl
    have hi : i < 112 := hl i (by simp)
    simp only [List.map_cons, listFiles.go, List.filterMap_cons]
    by_cases hlive : liveData (slotData sd i)
    · rw [inv.entry i hi hlive]
      dsimp only
      rw [if_pos rfl, ih _ (fun j hj => hl j (by simp [hj]))]
      have : entryAt sd own i = some ⟨1, recordOfBytes (slotData sd i), own i⟩ := by
        unfold entryAt; rw [if_pos ((liveB_iff _).mpr hlive)]
      rw [this]
      simp
    · have hnone : entryAt sd own i = none := by
        unfold entryAt; rw [if_neg (fun h => hlive ((liveB_iff _).mp h))]
      rw [hnone]
      unfold entryOfBytes
      dsimp only
      by_cases h1 : (slotData sd i).getD 0 0 = 0xFF
      · rw [if_pos h1]
        dsimp only
        rw [if_neg (by decide), ih _ (fun j hj => hl j (by simp [hj]))]
      · rw [if_neg h1]
        have h2 : (slotData sd i).getD 0 0 = 0 := by
          by_cases h2 : (slotData sd i).getD 0 0 = 0
          · exact h2
          · exact absurd ⟨h1, h2⟩ hlive
        rw [if_pos h2]
        dsimp only
        rw [if_neg (by decide), ih _ (fun j hj => hl j (by simp [hj]))]

/-- **the listing of a consistent side**: the live entries in slot order, each with its chain -/
theorem listFiles_inv {sd : Side} {bat : List Nat} {own : Nat → List Nat} (inv : SideInv sd bat own) :
    listFiles sd = .ok ((List.range 112).filterMap (entryAt sd own)) := by
  unfold listFiles
  rw [inv.hbat]
  dsimp only
  rw [slots_eq_map, listFiles_go_inv inv (List.range 112) [] (fun i hi => List.mem_range.mp hi)]
  simp

theorem set14_15 (d : Bytes) (hd : d.length = 16) (u : Nat) (hu : u ≤ 255) :
    ((d.set 14 (u / 256 % 256)).set 15 (u % 256)).getD 14 0 * 256 + ((d.set 14 (u / 256 % 256)).set 15 (u % 256)).getD 15 0 = u := by
  rw [getD_set_ne _ 15 14 _ _ (by omega), getD_set_eq _ 14 _ _ (by omega), getD_set_eq _ 15 _ _ (by simp; omega)]
  have h1 : u / 256 = 0 := Nat.div_eq_of_lt (by omega)
  have h2 : u % 256 = u := Nat.mod_eq_of_lt (by omega)
  rw [h1, h2]; simp

theorem recordOfBytes_lastBytes (data : Bytes) (h : data.getD 14 0 * 256 + data.getD 15 0 ≤ 255) :
    (recordOfBytes data).getD 14 0 * 256 + (recordOfBytes data).getD 15 0 = data.getD 14 0 * 256 + data.getD 15 0 := by
  unfold recordOfBytes
  dsimp only
  apply set14_15 _ _ _ h
  simp only [List.length_set, List.length_append, List.length_map, List.length_take, List.length_drop]
  simp only [sliceAssign, slice, List.length_append, List.length_take, List.length_drop, List.length_replicate]
  omega

/-- **what a successful `writeFile` does to the listing of a consistent side**: one slot that
    listed nothing now lists the new file, whose content reads back; every other slot lists what it
    listed, and every file already listed reads back as before. -/
theorem writeFile_listing {sd : Side} {bat : List Nat} {own : Nat → List Nat} (inv : SideInv sd bat own)
    (content : Bytes) (name ext : Str) (kind flag : Nat) (hname : ∀ c ∈ name, c ≠ 0xFF)
    (sd' : Side) (hres : writeFile sd content name ext kind flag = .ok sd') :
    ∃ i0, i0 < 112 ∧ entryAt sd own i0 = none
      ∧ SideInv sd' (newBat bat content) (fun i => if i = i0 then chosen bat (reqBlocks content.length) else own i)
      ∧ (∀ j, j < 112 → j ≠ i0 →
          entryAt sd' (fun i => if i = i0 then chosen bat (reqBlocks content.length) else own i) j = entryAt sd own j)
      ∧ entryAt sd' (fun i => if i = i0 then chosen bat (reqBlocks content.length) else own i) i0
          = some ⟨1, recordOfBytes (newRecord name ext kind flag ((chosen bat (reqBlocks content.length)).getD 0 0) (lastBytesOf content.length)),
                  chosen bat (reqBlocks content.length)⟩
      ∧ readFile sd' (newBat bat content)
          ⟨1, recordOfBytes (newRecord name ext kind flag ((chosen bat (reqBlocks content.length)).getD 0 0) (lastBytesOf content.length)),
           chosen bat (reqBlocks content.length)⟩ = content
      ∧ (∀ j e, j < 112 → entryAt sd own j = some e → readFile sd' (newBat bat content) e = readFile sd bat e) := by
  rcases writeFile_inv inv content name ext kind flag hname with ⟨sd2, i0, hw, hi0, hnl, inv', hs0, hsj, hflen⟩ | ⟨sd2, msg, hw, _, _⟩
  · rw [hw] at hres
    cases hres
    obtain ⟨h40, h41⟩ := inv.not_free40
    obtain ⟨_, _, _, hread⟩ := writeFile_read_back sd sd' bat content name ext kind flag inv.wf inv.hbat h40 h41 hw
    obtain ⟨_, _, _, hlb255, _, _, _⟩ := size_law content.length
    refine ⟨i0, hi0, ?_, inv', ?_, ?_, ?_, ?_⟩
    · unfold entryAt; rw [if_neg (fun h => hnl ((liveB_iff _).mp h))]
    · intro j hj hne
      unfold entryAt
      dsimp only
      rw [hsj j hj hne, if_neg hne]
    · unfold entryAt
      have hlive : liveData (slotData sd' i0) := by rw [hs0]; exact newRecord_live _ _ _ _ _ _ hname
      dsimp only
      rw [if_pos ((liveB_iff _).mpr hlive), hs0, if_pos rfl]
    · apply hread
      · rfl
      · unfold Entry.lastBytes
        dsimp only
        rw [recordOfBytes_lastBytes _ (by rw [newRecord_lastb _ _ _ _ _ _ hlb255]; exact hlb255), newRecord_lastb _ _ _ _ _ _ hlb255]
    · intro j e hj he
      unfold entryAt at he
      by_cases hl : liveB (slotData sd j) = true
      · rw [if_pos hl] at he
        cases he
        have hlive := (liveB_iff _).mp hl
        rcases writeFile_keeps_files inv content name ext kind flag hname j hj hlive with ⟨sd3, i1, hw3, hne, _, hfile⟩ | ⟨sd3, msg, hw3, _⟩
        · rw [hw] at hw3
          cases hw3
          -- the slot found is determined by the run: i1 = i0 is not needed, only that j keeps its chain
          unfold fileOf at hfile
          dsimp only at hfile
          rw [if_neg (fun h => hne h.symm)] at hfile
          -- hfile talks about slotData sd' j; rewrite to slotData sd j
          have hj0 : j ≠ i0 := fun h => hnl (h ▸ hlive)
          rw [hsj j hj hj0] at hfile
          exact hfile
        · rw [hw] at hw3; cases hw3
      · rw [if_neg hl] at he; cases he
  · rw [hw] at hres; cases hres

/-! ### the file held by a catalog slot, read from the side alone -/

/-- (the 16 meaningful bytes of the entry, the content) of slot `j`, as the tools' own reader
    decodes them; `none` for a slot that is not live or cannot be decoded -/
def fileAt (sd : Side) (j : Nat) : Option (Bytes × Bytes) :=
  match getBat sd with
  | .error _ => none
  | .ok bat =>
    if liveB (slotData sd j) then
      match entryOfBytes (slotData sd j) bat with
      | .ok e => some (e.rec16, readFile sd bat e)
      | .error _ => none
    else none

theorem fileAt_inv {sd : Side} {bat : List Nat} {own : Nat → List Nat} (inv : SideInv sd bat own) (j : Nat) (hj : j < 112) :
    fileAt sd j = (entryAt sd own j).map fun e => (e.rec16, readFile sd bat e) := by
  unfold fileAt entryAt
  rw [inv.hbat]
  dsimp only
  by_cases hl : liveB (slotData sd j) = true
  · rw [if_pos hl, if_pos hl, inv.entry j hj ((liveB_iff _).mp hl)]
    rfl
  · rw [if_neg hl, if_neg hl]
    rfl

/-- **one `writeFile`, seen from the catalog**: whatever the outcome, every slot that held a file
    still holds the same file (same 16 entry bytes, same content); when the file is stored, exactly
    one slot that held nothing now holds the new entry with the content given, and no other slot
    changed. -/
theorem writeFile_files {sd : Side} {bat : List Nat} {own : Nat → List Nat} (inv : SideInv sd bat own)
    (content : Bytes) (name ext : Str) (kind flag : Nat) (hname : ∀ c ∈ name, c ≠ 0xFF) :
    (∃ sd' i0, writeFile sd content name ext kind flag = .ok sd' ∧ i0 < 112 ∧ fileAt sd i0 = none
        ∧ fileAt sd' i0 = some (recordOfBytes (newRecord name ext kind flag ((chosen bat (reqBlocks content.length)).getD 0 0)
                                  (lastBytesOf content.length)), content)
        ∧ ∀ j, j < 112 → j ≠ i0 → fileAt sd' j = fileAt sd j)
    ∨ (∃ sd' msg, writeFile sd content name ext kind flag = .raised (.valueError msg) sd' ∧ ∀ j, j < 112 → fileAt sd' j = fileAt sd j) := by
  rcases writeFile_inv inv content name ext kind flag hname with ⟨sd2, i0, hw, hi0, hnl, inv', hs0, hsj, hflen⟩ | ⟨sd2, msg, hw, inv', hsj⟩
  · left
    obtain ⟨i1, hi1, hnone, inv1, hother, hnew, hread, hold⟩ := writeFile_listing inv content name ext kind flag hname sd2 hw
    refine ⟨sd2, i1, hw, hi1, ?_, ?_, ?_⟩
    · rw [fileAt_inv inv i1 hi1, hnone]; rfl
    · rw [fileAt_inv inv1 i1 hi1, hnew]
      simp only [Option.map_some, hread]
    · intro j hj hne
      rw [fileAt_inv inv1 j hj, fileAt_inv inv j hj, hother j hj hne]
      cases he : entryAt sd own j with
      | none => rfl
      | some e => simp only [Option.map_some, hold j e hj he]
  · right
    refine ⟨sd2, msg, hw, ?_⟩
    intro j hj
    rw [fileAt_inv inv' j hj, fileAt_inv inv j hj]
    have hent : entryAt sd2 own j = entryAt sd own j := by unfold entryAt; rw [hsj j hj]
    rw [hent]
    cases he : entryAt sd own j with
    | none => rfl
    | some e =>
      simp only [Option.map_some]
      unfold entryAt at he
      by_cases hl : liveB (slotData sd j) = true
      · rw [if_pos hl] at he
        cases he
        rcases writeFile_keeps_files inv content name ext kind flag hname j hj ((liveB_iff _).mp hl) with ⟨sd3, _, hw3, _⟩ | ⟨sd3, msg3, hw3, _, _, hfile⟩
        · rw [hw] at hw3; cases hw3
        · rw [hw] at hw3
          cases hw3
          unfold fileOf at hfile
          rw [hsj j hj] at hfile
          rw [hfile]
      · rw [if_neg hl] at he; cases he

end Moto.Disk
