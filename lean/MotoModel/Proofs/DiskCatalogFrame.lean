/-
  Byte frame of the catalog and of the allocation table over a whole create/add batch: a catalog entry
  changes only when a file is stored in it (it was not live, it is live afterwards); a status of the table
  changes only when the block is handed to a file (it was free, it is not free afterwards).
-/
import MotoModel.Proofs.DiskUntouched
namespace Moto.Disk
open Moto

/-- catalog entry `j` still holds `v`, or `v` was not a live entry and the entry is live now -/
def CatSlot (j : Nat) (v : Bytes) (sd : Side) : Prop :=
  slotData sd j = v ∨ (¬ liveData v ∧ liveData (slotData sd j))

theorem catSlot_preserved (j : Nat) (hj : j < 112) (v : Bytes) : SidePreserved (CatSlot j v) := by
  intro sd bat own inv hP content name ext kind flag hname
  rcases writeFile_inv inv content name ext kind flag hname with ⟨sd', i0, hw, _, hnl, _, hs0, hsj, _⟩ | ⟨sd', msg, hw, _, hs⟩
  · rw [hw]
    show CatSlot j v sd'
    by_cases hji : j = i0
    · subst hji
      have hlive : liveData (slotData sd' j) := by rw [hs0]; exact newRecord_live _ _ _ _ _ _ hname
      rcases hP with h | ⟨hv, hl⟩
      · exact Or.inr ⟨by rw [← h]; exact hnl, hlive⟩
      · exact absurd hl hnl
    · unfold CatSlot
      rw [hsj j hj hji]
      exact hP
  · rw [hw]
    show CatSlot j v sd'
    unfold CatSlot
    rw [hs j hj]
    exact hP

/-- the status of block `b` is still `v`, or `v` was "free" and the block is not free now -/
def TabStatus (b : Nat) (v : Nat) (sd : Side) : Prop :=
  ∃ bat, getBat sd = .ok bat ∧ (bat.getD b 0 = v ∨ (isFree v = true ∧ isFree (bat.getD b 0) = false))

theorem tabStatus_preserved (b : Nat) (v : Nat) : SidePreserved (TabStatus b v) := by
  intro sd bat own inv hP content name ext kind flag hname
  obtain ⟨bat0, hb0, hcase⟩ := hP
  rw [inv.hbat] at hb0
  cases hb0
  rcases writeFile_inv inv content name ext kind flag hname with ⟨sd', i0, hw, hi0, _, inv', hs0, _, _⟩ | ⟨sd', msg, hw, inv', _⟩
  · rw [hw]
    show TabStatus b v sd'
    refine ⟨_, inv'.hbat, ?_⟩
    by_cases hm : b ∈ chosen bat (reqBlocks content.length)
    · obtain ⟨hblt, hfree⟩ := chosen_free bat _ b hm
      have hb160 : b < 160 := by rw [← getBat_length sd bat inv.hbat]; exact hblt
      have hlive : liveData (slotData sd' i0) := by rw [hs0]; exact newRecord_live _ _ _ _ _ _ hname
      have hused := (inv'.used b hb160).mpr ⟨i0, hi0, hlive, by simp [hm]⟩
      rcases hcase with h | ⟨hv, hnf⟩
      · exact Or.inr ⟨by rw [← h]; exact hfree, hused.1⟩
      · rw [hfree] at hnf; cases hnf
    · unfold newBat
      rw [linkChain_other _ _ _ _ _ hm]
      exact hcase
  · rw [hw]
    exact ⟨_, inv'.hbat, hcase⟩

/-- **the catalog and the table change only where files are stored**, over a whole create/add batch and
    on every side: every one of the 112 catalog entries (all 256 bytes of the 14 catalog sectors) holds the
    same 32 bytes as before unless it was not a live entry and is one now; every status of the table is the
    same as before unless the block was free and is not free now -/
theorem batch_catalog_table_frame (w : Tape.World) (verbose : Bool) (img : Image) (srcs : List Str)
    (himg : ImgOk img) (hs : ∀ src ∈ srcs, CleanSrc src) :
    ∃ st, performCore w verbose img srcs = .ok st ∧ ImgOk st.img
      ∧ (∀ k, k < 4 → ∀ j, j < 112 →
          slotData (st.img.getD k []) j = slotData (img.getD k []) j
          ∨ (¬ liveData (slotData (img.getD k []) j) ∧ liveData (slotData (st.img.getD k []) j)))
      ∧ (∀ k, k < 4 → ∀ bat, getBat (img.getD k []) = .ok bat → ∀ b, ∃ bat', getBat (st.img.getD k []) = .ok bat'
          ∧ (bat'.getD b 0 = bat.getD b 0 ∨ (isFree (bat.getD b 0) = true ∧ isFree (bat'.getD b 0) = false))) := by
  obtain ⟨st, hst, hok⟩ := performCore_ok w verbose img srcs himg hs
  refine ⟨st, hst, hok, ?_, ?_⟩
  · intro k hk j hj
    let P : Nat → Side → Prop := fun i sd => i = k → CatSlot j (slotData (img.getD k []) j) sd
    have hP : ∀ i, SidePreserved (P i) := by
      intro i sd bat1 own inv hp content name ext kind flag hname hik
      exact catSlot_preserved j hj _ sd bat1 own inv (hp hik) content name ext kind flag hname
    have h0 : ImgAllI P img := by
      intro i _ hik
      subst hik
      exact Or.inl rfl
    obtain ⟨st2, hst2, _, hp2⟩ := performCore_presI hP w verbose img srcs himg h0 hs
    rw [hst] at hst2
    cases hst2
    exact hp2 k hk rfl
  · intro k hk bat hbat b
    let P : Nat → Side → Prop := fun i sd => i = k → TabStatus b (bat.getD b 0) sd
    have hP : ∀ i, SidePreserved (P i) := by
      intro i sd bat1 own inv hp content name ext kind flag hname hik
      exact tabStatus_preserved b _ sd bat1 own inv (hp hik) content name ext kind flag hname
    have h0 : ImgAllI P img := by
      intro i _ hik
      subst hik
      exact ⟨bat, hbat, Or.inl rfl⟩
    obtain ⟨st2, hst2, _, hp2⟩ := performCore_presI hP w verbose img srcs himg h0 hs
    rw [hst] at hst2
    cases hst2
    exact hp2 k hk rfl

end Moto.Disk
