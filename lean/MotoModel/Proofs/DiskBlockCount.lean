/-
  The block count announced when a file is stored is the block count a later listing prints for it: in a consistent side,
  the length of an entry's chain is determined by the entry bytes the tool wrote (bytes in the last sector) and the length
  of the content — and for an entry written by the tool it is `reqBlocks` of that length.
-/
import MotoModel.Proofs.DiskSections
import MotoModel.Proofs.DiskReport
namespace Moto.Disk
open Moto Moto.Tape

theorem lastBytesOf_le (n : Nat) : lastBytesOf n ≤ 255 := by
  unfold lastBytesOf layoutOf computeRequiredSlots
  by_cases h0 : n > 0
  · simp only [h0, if_true]
    by_cases hr : n % 255 > 0
    · simp only [hr, if_true]; omega
    · simp only [hr, if_false]; omega
  · simp only [h0, if_false]; omega

/-- the arithmetic: a size that decomposes into `L` blocks, `u` sectors in the last one and the tool's own "bytes in the
    last sector" needs exactly `L` blocks -/
theorem blocks_of_size (n L u : Nat) (hL : 1 ≤ L) (h1 : 1 ≤ u) (h8 : u ≤ 8)
    (h : n = (8 * (L - 1) + u - 1) * 255 + lastBytesOf n) : L = reqBlocks n := by
  unfold lastBytesOf layoutOf computeRequiredSlots at h
  unfold reqBlocks layoutOf computeRequiredSlots
  by_cases h0 : n > 0
  · simp only [h0, if_true] at h ⊢
    by_cases hr : n % 255 > 0
    · simp only [hr, if_true] at h ⊢
      by_cases hs : (n / 255 + 1) % 8 > 0
      · simp only [hs, if_true]; omega
      · simp only [hs, if_false]; omega
    · simp only [hr, if_false] at h ⊢
      by_cases hs : (n / 255) % 8 > 0
      · simp only [hs, if_true]; omega
      · simp only [hs, if_false]; omega
  · simp only [h0, if_false] at h ⊢
    have : n = 0 := by omega
    subst this
    simp at h ⊢
    omega

/-- **chain length of a tool-written entry**: on a consistent side, a slot that holds a file whose entry carries the tool's
    "bytes in the last sector" for the file's own length owns exactly `reqBlocks` of that length blocks -/
theorem chain_length_of_record {sd : Side} {bat : List Nat} {own : Nat → List Nat} (inv : SideInv sd bat own) (j : Nat) (hj : j < 112)
    (r c : Bytes) (hf : fileAt sd j = some (r, c)) (hlb : r.getD 14 0 * 256 + r.getD 15 0 = lastBytesOf c.length) :
    ∃ e, entryAt sd own j = some e ∧ e.rec16 = r ∧ readFile sd bat e = c ∧ (own j).length = reqBlocks c.length := by
  rw [fileAt_inv inv j hj] at hf
  cases he : entryAt sd own j with
  | none => rw [he] at hf; cases hf
  | some e =>
    rw [he] at hf
    simp only [Option.map_some, Option.some.injEq, Prod.mk.injEq] at hf
    obtain ⟨hr, hc⟩ := hf
    refine ⟨e, rfl, hr, hc, ?_⟩
    unfold entryAt at he
    by_cases hl : liveB (slotData sd j) = true
    · rw [if_pos hl] at he
      cases he
      have hlive := (liveB_iff _).mp hl
      obtain ⟨_, u, h1, h8, hne, hlt, hlast⟩ := chain_facts inv j hj hlive
      have hlbi := inv.lastb j hj hlive
      have hrl := recordOfBytes_lastBytes (slotData sd j) hlbi
      dsimp only at hr hc
      have hlen := readFile_length sd inv.wf bat ⟨1, recordOfBytes (slotData sd j), own j⟩ u h1 h8 hne hlt hlast
        (by unfold Entry.lastBytes; dsimp only; rw [hrl]; exact hlbi)
      cases hgl : (own j).getLast? with
      | none => rw [List.getLast?_eq_none_iff] at hgl; exact absurd hgl hne
      | some last =>
        have hsz := sizeInBytes_of bat ⟨1, recordOfBytes (slotData sd j), own j⟩ last u h8 hgl (hlast last hgl)
        rw [hsz] at hlen
        unfold Entry.lastBytes at hlen
        dsimp only at hlen
        rw [hc, hr, hlb] at hlen
        have hL : 1 ≤ (own j).length := by
          cases hown : own j with
          | nil => exact absurd hown hne
          | cons x xs => simp
        exact blocks_of_size c.length (own j).length u hL h1 h8 hlen
    · rw [if_neg hl] at he; cases he

/-- the entry bytes written for a file of `size` bytes carry `lastBytesOf size` -/
theorem isRecordOf_lastBytes {r : Bytes} {name ext : Str} {kind flag size : Nat} (h : IsRecordOf r name ext kind flag size) :
    r.getD 14 0 * 256 + r.getD 15 0 = lastBytesOf size := by
  obtain ⟨first, hr⟩ := h
  rw [hr]
  have hle := lastBytesOf_le size
  rw [recordOfBytes_lastBytes _ (by rw [newRecord_lastb _ _ _ _ _ _ hle]; exact hle), newRecord_lastb _ _ _ _ _ _ hle]

/-- **what a create/add report announces for a stored file is what a later listing prints for it**: every announcement
    `(k, ev)` of the batch has, on side `k` of the image the batch leaves, a live entry in a slot that held nothing before
    whose sixteen entry bytes are those the tool writes for the *announced name and extension* (`IsRecordOf`) and whose
    listing event — the size and the block count `--list` / `--extract` print, the length of its chain in the allocation table —
    carries the announced size and the announced block count -/
theorem batch_blocks_listed (w : Tape.World) (verbose : Bool) (img : Image) (srcs : List Str)
    (himg : ImgOk img) (hs : ∀ src ∈ srcs, CleanSrc src) :
    ∃ st, performCore w verbose img srcs = .ok st ∧ ImgOk st.img
      ∧ ∀ p ∈ storedOn 0 (batchEvents w srcs img), ∃ j bat own e, j < 112 ∧ SideInv (st.img.getD p.1 []) bat own
          ∧ imgFileAt img p.1 j = none ∧ entryAt (st.img.getD p.1 []) own j = some e
          ∧ (∃ kind flag, IsRecordOf e.rec16 p.2.name p.2.ext kind flag p.2.bytes)
          ∧ (evOfEntry bat e).bytes = p.2.bytes ∧ (evOfEntry bat e).blocks = p.2.blocks ∧ (own j).length = p.2.blocks := by
  obtain ⟨st, hst, hok, hhon⟩ := batch_sections w verbose img srcs himg hs
  refine ⟨st, hst, hok, ?_⟩
  intro p hp
  obtain ⟨hk, j, r, c, hj, hnone, hnew, hbytes, hblocks, kind, flag, hrec⟩ := hhon p hp
  obtain ⟨bat, own, inv⟩ := hok.2 p.1 hk
  unfold imgFileAt at hnew
  obtain ⟨e, he, her, hec, hlen⟩ := chain_length_of_record inv j hj r c hnew (isRecordOf_lastBytes hrec)
  obtain ⟨hb1, hb2, _, _⟩ := event_facts inv j hj e he
  refine ⟨j, bat, own, e, hj, inv, hnone, he, ⟨kind, flag, by rw [her, hbytes]; exact hrec⟩, ?_, ?_, ?_⟩
  · rw [hb1, hec, hbytes]
  · rw [hb2, hlen, hblocks]
  · rw [hlen, hblocks]

end Moto.Disk
