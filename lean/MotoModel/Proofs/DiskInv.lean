/-
  The file-system invariant of one side and its preservation by `writeFile`, whatever the outcome
  (stored, refused for lack of blocks, refused for lack of a catalog entry).
-/
import MotoModel.Proofs.DiskCatalog
namespace Moto.Disk
open Moto

/-! ### anatomy of `writeFile` -/

/-- the table after linking the blocks chosen for `content` -/
def newBat (bat : List Nat) (content : Bytes) : List Nat :=
  linkChain bat (chosen bat (reqBlocks content.length)) (lastSectorsOf content.length)

/-- the side just before the catalog search: data copied, table stored -/
def midSide (sd : Side) (bat : List Nat) (content : Bytes) : Side :=
  setBat (writeSectors (chosen bat (reqBlocks content.length)) content (reqSectors content.length) 0 sd) (newBat bat content)

/-- the side when a catalog slot is found -/
def doneSide (sd : Side) (bat : List Nat) (content : Bytes) (name ext : Str) (kind flag s st : Nat) : Side :=
  putSector (midSide sd bat content) batTrack s
    (sliceAssign (getSector (midSide sd bat content) batTrack s) st (st + 32)
      (newRecord name ext kind flag ((chosen bat (reqBlocks content.length)).getD 0 0) (lastBytesOf content.length)))

/-- the side when the catalog is full -/
def fullSide (sd : Side) (bat : List Nat) (content : Bytes) : Side :=
  setBat (midSide sd bat content)
    ((chosen bat (reqBlocks content.length)).foldl (fun b i => b.set i Gen.Disk.bsFree) (newBat bat content))

theorem writeFile_unfold (sd : Side) (bat : List Nat) (content : Bytes) (name ext : Str) (kind flag : Nat)
    (hb : getBat sd = .ok bat) (h40 : isFree (bat.getD 40 0) = false) (h41 : isFree (bat.getD 41 0) = false) :
    writeFile sd content name ext kind flag =
      if (chosen bat (reqBlocks content.length)).length < reqBlocks content.length then
        .raised (.valueError "not.enough.blocks") sd
      else match findSlot (newBat bat content) (slots (midSide sd bat content)) with
        | .error e => .raised e (midSide sd bat content)
        | .ok (some (s, st)) => .ok (doneSide sd bat content name ext kind flag s st)
        | .ok none => .raised (.valueError "no.more.space.in.catalog") (fullSide sd bat content) := by
  unfold writeFile
  rw [hb]
  dsimp only
  rw [protect_id bat h40 h41]
  rfl

theorem chosen_props (bat : List Nat) (hlen : bat.length = 160) (h40 : isFree (bat.getD 40 0) = false)
    (h41 : isFree (bat.getD 41 0) = false) (k : Nat) :
    (chosen bat k).Nodup ∧ ∀ b ∈ chosen bat k, b < 160 ∧ b ≠ 40 ∧ b ≠ 41 ∧ isFree (bat.getD b 0) = true := by
  refine ⟨chosen_nodup bat k, ?_⟩
  intro b hb
  obtain ⟨h1, h2⟩ := chosen_free bat k b hb
  refine ⟨hlen ▸ h1, ?_, ?_, h2⟩
  · intro h; subst h; rw [h40] at h2; cases h2
  · intro h; subst h; rw [h41] at h2; cases h2

theorem chosen_length_le (bat : List Nat) (k : Nat) : (chosen bat k).length ≤ k := by
  simp only [chosen]; exact List.length_take_le _ _

/-- the side before the catalog search: well formed, its table is the linked table, and no sector
    outside the chosen blocks and the table sector has changed -/
theorem mid_facts (sd : Side) (bat : List Nat) (content : Bytes) (hw : C11.WFSide sd) (hb : getBat sd = .ok bat)
    (h40 : isFree (bat.getD 40 0) = false) (h41 : isFree (bat.getD 41 0) = false)
    (hfit : ¬ (chosen bat (reqBlocks content.length)).length < reqBlocks content.length) :
    C11.WFSide (midSide sd bat content) ∧ getBat (midSide sd bat content) = .ok (newBat bat content)
    ∧ (newBat bat content).length = 160
    ∧ (∀ f, (∀ b ∈ chosen bat (reqBlocks content.length), ¬ (8 * b ≤ f ∧ f < 8 * b + 8)) → f ≠ 321 →
        (midSide sd bat content).getD f [] = sd.getD f []) := by
  obtain ⟨hb1, hu1, hu8, hlb, hS, hsize, _⟩ := size_law content.length
  have hblen := getBat_length sd bat hb
  obtain ⟨hnd, hfree⟩ := chosen_props bat hblen h40 h41 (reqBlocks content.length)
  have hflen : (chosen bat (reqBlocks content.length)).length = reqBlocks content.length := by
    have := chosen_length_le bat (reqBlocks content.length); omega
  unfold midSide newBat
  generalize chosen bat (reqBlocks content.length) = free at hnd hfree hflen ⊢
  have hlt : ∀ b ∈ free, b < 160 := fun b h => (hfree b h).1
  generalize hsd1 : writeSectors free content (reqSectors content.length) 0 sd = sd1
  generalize hbat' : linkChain bat free (lastSectorsOf content.length) = bat'
  have hw1 : C11.WFSide sd1 := hsd1 ▸ writeSectors_wf _ _ _ _ _ hw
  have hw2 : C11.WFSide (setBat sd1 bat') := by unfold setBat; exact putSector_wf _ _ _ _ hw1
  have hb'len : bat'.length = 160 := by rw [← hbat', linkChain_length]; exact hblen
  have hb'valid : bat'.all validStatus = true := hbat' ▸ linkChain_valid free bat _ (getBat_valid sd bat hb) hlt hu1 hu8
  refine ⟨hw2, getBat_setBat sd1 bat' hw1 hb'len hb'valid, hb'len, ?_⟩
  intro f hf h321
  unfold setBat
  rw [putSector_flat_other _ _ _ _ _ (by unfold idx batTrack batSector; have : Gen.Disk.sectorsPerTrack = 16 := rfl; rw [this]; omega)]
  rw [← hsd1]
  have hspec := (writeSectors_spec free hnd content (reqSectors content.length) 0 sd (by omega)
    (fun j _ h2 => by
      rw [hw.1]; unfold flatOf
      have hj8 : j / 8 < free.length := by omega
      have hm : free.getD (j / 8) 0 ∈ free := by
        rw [List.getD_eq_getElem?_getD, List.getElem?_eq_getElem hj8]; simp
      have := hlt _ hm
      omega)).1
  apply hspec
  intro j _ hj he
  unfold flatOf at he
  have hj8 : j / 8 < free.length := by omega
  have hm : free.getD (j / 8) 0 ∈ free := by
    rw [List.getD_eq_getElem?_getD, List.getElem?_eq_getElem hj8]; simp
  have := Nat.mod_lt j (show 0 < 8 by omega)
  exact hf _ hm (by omega)

/-- in particular the catalog sectors are those of the side before -/
theorem mid_catalog (sd : Side) (bat : List Nat) (content : Bytes) (hw : C11.WFSide sd) (hb : getBat sd = .ok bat)
    (h40 : isFree (bat.getD 40 0) = false) (h41 : isFree (bat.getD 41 0) = false)
    (hfit : ¬ (chosen bat (reqBlocks content.length)).length < reqBlocks content.length)
    (s : Nat) (h2 : 2 ≤ s) (h15 : s ≤ 15) : getSector (midSide sd bat content) batTrack s = getSector sd batTrack s := by
  obtain ⟨_, _, _, hframe⟩ := mid_facts sd bat content hw hb h40 h41 hfit
  have hblen := getBat_length sd bat hb
  obtain ⟨_, hfree⟩ := chosen_props bat hblen h40 h41 (reqBlocks content.length)
  unfold getSector
  have hi : idx batTrack s = 320 + s := by unfold idx batTrack; have : Gen.Disk.sectorsPerTrack = 16 := rfl; rw [this]
  rw [hi]
  apply hframe
  · intro b hbm hc
    obtain ⟨_, h40', h41', _⟩ := hfree b hbm
    omega
  · omega

theorem mid_slotData (sd : Side) (bat : List Nat) (content : Bytes) (hw : C11.WFSide sd) (hb : getBat sd = .ok bat)
    (h40 : isFree (bat.getD 40 0) = false) (h41 : isFree (bat.getD 41 0) = false)
    (hfit : ¬ (chosen bat (reqBlocks content.length)).length < reqBlocks content.length)
    (i : Nat) (hi : i < 112) : slotData (midSide sd bat content) i = slotData sd i := by
  unfold slotData
  rw [mid_catalog sd bat content hw hb h40 h41 hfit (2 + i / 8) (by omega) (by omega)]

/-! ### chains -/

/-- every block of a linked chain is in use -/
theorem linked_all_used (bat : List Nat) (u : Nat) (h8 : u ≤ 8) : ∀ (ch : List Nat), Linked bat ch u → (∀ x ∈ ch, x < 160) →
    ∀ b ∈ ch, isFree (bat.getD b 0) = false ∧ isReserved (bat.getD b 0) = false := by
  intro ch
  induction ch with
  | nil => intro _ _ b hb; simp at hb
  | cons c rest ih =>
    intro hl hlt b hb
    rcases List.mem_cons.mp hb with h | h
    · subst h
      exact linked_head_used bat b rest u hl (fun x hx => hlt x (by simp [hx])) h8
    · cases rest with
      | nil => simp at h
      | cons d rest' =>
        simp only [Linked] at hl
        exact ih hl.2 (fun x hx => hlt x (by simp [hx])) b h

theorem recordOfBytes_length (data : Bytes) : (recordOfBytes data).length = 16 := by
  unfold recordOfBytes
  simp only [List.length_set, List.length_append, List.length_map, List.length_take, List.length_drop]
  simp only [sliceAssign, slice, List.length_append, List.length_take, List.length_drop, List.length_replicate]
  omega

theorem recordOfBytes_13 (data : Bytes) : (recordOfBytes data).getD 13 0 = data.getD 13 0 := by
  unfold recordOfBytes
  dsimp only
  rw [getD_set_ne _ 15 13 _ _ (by omega), getD_set_ne _ 14 13 _ _ (by omega)]
  apply getD_set_eq
  simp only [List.length_set, List.length_append, List.length_map, List.length_take, List.length_drop]
  simp only [sliceAssign, slice, List.length_append, List.length_take, List.length_drop, List.length_replicate]
  omega

theorem bytesFromStr_length (s : Str) (n : Nat) : (bytesFromStr s n).length = n := by
  unfold bytesFromStr
  split
  · simp; omega
  · simp; omega

theorem newRecord_length (name ext : Str) (kind flag first lb : Nat) : (newRecord name ext kind flag first lb).length = 32 := by
  unfold newRecord
  simp [bytesFromStr_length]
  rfl

theorem newRecord_13 (name ext : Str) (kind flag first lb : Nat) : (newRecord name ext kind flag first lb).getD 13 0 = first := by
  unfold newRecord
  dsimp only
  have h11 : ((bytesFromStr (upper name) 8 ++ bytesFromStr (upper ext) 3).map
      (fun c => if c < 0x20 then Gen.Disk.invalidChar else c)).length = 11 := by simp [bytesFromStr_length]
  rw [List.getD_eq_getElem?_getD, List.append_assoc, List.getElem?_append_right (by omega), h11]
  rfl

theorem newRecord_drop11 (name ext : Str) (kind flag first lb : Nat) :
    (newRecord name ext kind flag first lb).drop 11
      = [kind, flag, first, (lb / 256) % 256, lb % 256] ++ Gen.Disk.paddingOfRecord := by
  unfold newRecord
  dsimp only
  have h11 : ((bytesFromStr (upper name) 8 ++ bytesFromStr (upper ext) 3).map
      (fun c => if c < 0x20 then Gen.Disk.invalidChar else c)).length = 11 := by simp [bytesFromStr_length]
  rw [List.append_assoc, List.drop_left' h11]

theorem newRecord_lastb (name ext : Str) (kind flag first lb : Nat) (hlb : lb ≤ 255) :
    (newRecord name ext kind flag first lb).getD 14 0 * 256 + (newRecord name ext kind flag first lb).getD 15 0 = lb := by
  have h14 : (newRecord name ext kind flag first lb)[14]? = ((newRecord name ext kind flag first lb).drop 11)[3]? := by
    rw [List.getElem?_drop]
  have h15 : (newRecord name ext kind flag first lb)[15]? = ((newRecord name ext kind flag first lb).drop 11)[4]? := by
    rw [List.getElem?_drop]
  rw [List.getD_eq_getElem?_getD, List.getD_eq_getElem?_getD, h14, h15, newRecord_drop11]
  simp only [List.cons_append, List.getElem?_cons_succ, List.getElem?_cons_zero, Option.getD_some]
  omega

/-- the first byte of a new record is a printable, non-FF byte: the entry is live -/
theorem newRecord_live (name ext : Str) (kind flag first lb : Nat) (hname : ∀ c ∈ name, c ≠ 0xFF) :
    (newRecord name ext kind flag first lb).getD 0 0 ≠ 0xFF ∧ (newRecord name ext kind flag first lb).getD 0 0 ≠ 0 := by
  unfold newRecord
  dsimp only
  have h8 := bytesFromStr_length (upper name) 8
  obtain ⟨x, xs, hx⟩ : ∃ x xs, bytesFromStr (upper name) 8 = x :: xs := by
    cases h : bytesFromStr (upper name) 8 with
    | nil => rw [h] at h8; cases h8
    | cons x xs => exact ⟨x, xs, rfl⟩
  have hx255 : x ≠ 0xFF := by
    unfold bytesFromStr at hx
    split at hx
    · cases hn : name with
      | nil => rw [hn] at hx; simp [upper] at hx
      | cons c cs =>
        rw [hn] at hx
        simp only [upper, List.map_cons, List.take_succ_cons, List.cons.injEq] at hx
        have := hname c (by rw [hn]; simp)
        rw [← hx.1]
        unfold upperC
        split <;> omega
    · cases hn : name with
      | nil =>
        rw [hn] at hx
        simp only [upper, List.map_nil, List.length_nil, Nat.sub_zero, List.nil_append] at hx
        have : Gen.Disk.paddingChar = 32 := rfl
        rw [this] at hx
        cases hx
        omega
      | cons c cs =>
        rw [hn] at hx
        simp only [upper, List.map_cons, List.cons_append, List.cons.injEq] at hx
        have := hname c (by rw [hn]; simp)
        rw [← hx.1]
        unfold upperC
        split <;> omega
  rw [hx]
  simp only [List.cons_append, List.map_cons, List.getD_cons_zero]
  have : Gen.Disk.invalidChar = 120 := rfl
  rw [this]
  split <;> omega

/-! ### the catalog search never fails on a side whose live entries have chains -/

def liveData (d : Bytes) : Prop := d.getD 0 0 ≠ 0xFF ∧ d.getD 0 0 ≠ 0

theorem findSlot_no_error (bat : List Nat) (l : List (Nat × Nat × Bytes))
    (h : ∀ s st data, (s, st, data) ∈ l → liveData data → ∃ ch, walk bat (data.getD 13 0) = .ok ch) :
    ∃ o, findSlot bat l = .ok o := by
  induction l with
  | nil => exact ⟨none, rfl⟩
  | cons x rest ih =>
    obtain ⟨s, st, data⟩ := x
    simp only [findSlot]
    have hx := h s st data (by simp)
    obtain ⟨o, ho⟩ := ih (fun s' st' d' hm => h s' st' d' (by simp [hm]))
    unfold entryOfBytes
    dsimp only
    by_cases h1 : data.getD 0 0 = 0xFF
    · rw [if_pos h1]; exact ⟨_, rfl⟩
    · rw [if_neg h1]
      by_cases h2 : data.getD 0 0 = 0
      · rw [if_pos h2]; exact ⟨_, rfl⟩
      · obtain ⟨ch, hch⟩ := hx ⟨h1, h2⟩
        rw [if_neg h2, recordOfBytes_13, hch]
        exact ⟨o, by simpa using ho⟩

/-! ### the invariant -/

/-- One side is a consistent file system, `own i` being the chain of catalog slot `i`:
    geometry, readable table, track 20 reserved, every live entry names a proper chain (no
    repetition, inside the table, linked up to a last-block marker), chains of different entries
    share no block, and the blocks in use are exactly the blocks of the chains. -/
structure SideInv (sd : Side) (bat : List Nat) (own : Nat → List Nat) : Prop where
  wf : C11.WFSide sd
  hbat : getBat sd = .ok bat
  res40 : bat.getD 40 0 = 0xFE
  res41 : bat.getD 41 0 = 0xFE
  chain : ∀ i, i < 112 → liveData (slotData sd i) →
    ∃ rest u, own i = (slotData sd i).getD 13 0 :: rest ∧ 1 ≤ u ∧ u ≤ 8 ∧ Linked bat (own i) u ∧ (own i).Nodup ∧ ∀ b ∈ own i, b < 160
  lastb : ∀ i, i < 112 → liveData (slotData sd i) → (slotData sd i).getD 14 0 * 256 + (slotData sd i).getD 15 0 ≤ 255
  disj : ∀ i j, i < 112 → j < 112 → i ≠ j → liveData (slotData sd i) → liveData (slotData sd j) → ∀ b ∈ own i, b ∉ own j
  used : ∀ b, b < 160 → ((isFree (bat.getD b 0) = false ∧ isReserved (bat.getD b 0) = false) ↔
    ∃ i, i < 112 ∧ liveData (slotData sd i) ∧ b ∈ own i)

theorem SideInv.of_same {sd sd' : Side} {bat : List Nat} {own : Nat → List Nat} (inv : SideInv sd bat own)
    (hw : C11.WFSide sd') (hb : getBat sd' = .ok bat) (hs : ∀ i, i < 112 → slotData sd' i = slotData sd i) : SideInv sd' bat own where
  wf := hw
  hbat := hb
  res40 := inv.res40
  res41 := inv.res41
  chain := by intro i hi hl; rw [hs i hi] at hl ⊢; exact inv.chain i hi hl
  lastb := by intro i hi hl; rw [hs i hi] at hl ⊢; exact inv.lastb i hi hl
  disj := by intro i j hi hj hij hli hlj; rw [hs i hi] at hli; rw [hs j hj] at hlj; exact inv.disj i j hi hj hij hli hlj
  used := by
    intro b hb'
    rw [inv.used b hb']
    constructor
    · rintro ⟨i, hi, hl, hm⟩; exact ⟨i, hi, by rw [hs i hi]; exact hl, hm⟩
    · rintro ⟨i, hi, hl, hm⟩; exact ⟨i, hi, by rw [hs i hi] at hl; exact hl, hm⟩

theorem SideInv.not_free40 {sd : Side} {bat : List Nat} {own : Nat → List Nat} (inv : SideInv sd bat own) :
    isFree (bat.getD 40 0) = false ∧ isFree (bat.getD 41 0) = false := by
  rw [inv.res40, inv.res41]; exact ⟨rfl, rfl⟩

/-- blocks of live chains are not free, hence never chosen -/
theorem SideInv.own_not_chosen {sd : Side} {bat : List Nat} {own : Nat → List Nat} (inv : SideInv sd bat own)
    (i : Nat) (hi : i < 112) (hl : liveData (slotData sd i)) (k : Nat) : ∀ b ∈ own i, b ∉ chosen bat k := by
  intro b hb hc
  obtain ⟨rest, u, _, _, _, _, _, hlt⟩ := inv.chain i hi hl
  have := (inv.used b (hlt b hb)).mpr ⟨i, hi, hl, hb⟩
  have hf := (chosen_free bat k b hc).2
  rw [this.1] at hf; cases hf

/-- the chains of the live entries are still linked after the new chain is linked -/
theorem SideInv.linked_newBat {sd : Side} {bat : List Nat} {own : Nat → List Nat} (inv : SideInv sd bat own)
    (content : Bytes) (i : Nat) (hi : i < 112) (hl : liveData (slotData sd i)) (u : Nat) (hlk : Linked bat (own i) u) :
    Linked (newBat bat content) (own i) u := by
  apply linked_of_other bat _ _ _ _ hlk
  intro x hx
  exact linkChain_other _ bat _ x 0 (inv.own_not_chosen i hi hl _ x hx)

theorem slots_walk_ok {sd sd2 : Side} {bat bat2 : List Nat} {own : Nat → List Nat} (inv : SideInv sd bat own)
    (hs : ∀ i, i < 112 → slotData sd2 i = slotData sd i) (hlen : bat2.length = 160)
    (hlk : ∀ i, i < 112 → liveData (slotData sd i) → ∀ u, Linked bat (own i) u → Linked bat2 (own i) u) :
    ∀ s st data, (s, st, data) ∈ slots sd2 → liveData data → ∃ ch, walk bat2 (data.getD 13 0) = .ok ch := by
  intro s st data hm hl
  obtain ⟨i, hi, _, _, hd⟩ := mem_slots sd2 s st data hm
  rw [hd, hs i hi] at hl
  obtain ⟨rest, u, hown, h1, h8, hlink, hnd, hlt⟩ := inv.chain i hi hl
  have hl2 := hlk i hi hl u hlink
  rw [hown] at hl2 hnd hlt
  rw [hd, hs i hi]
  exact ⟨_, walk_linked bat2 _ rest u h1 h8 hlen hl2 hlt hnd⟩

/-- writing a 32-byte record in slot `i0`: that slot holds the record, all other slots, the table
    and the geometry are as before -/
theorem putSlot_facts (m : Side) (hw : C11.WFSide m) (i0 : Nat) (hi0 : i0 < 112) (record : Bytes) (hr : record.length = 32) :
    C11.WFSide (putSector m batTrack (2 + i0 / 8)
        (sliceAssign (getSector m batTrack (2 + i0 / 8)) (32 * (i0 % 8)) (32 * (i0 % 8) + 32) record))
    ∧ getBat (putSector m batTrack (2 + i0 / 8)
        (sliceAssign (getSector m batTrack (2 + i0 / 8)) (32 * (i0 % 8)) (32 * (i0 % 8) + 32) record)) = getBat m
    ∧ slotData (putSector m batTrack (2 + i0 / 8)
        (sliceAssign (getSector m batTrack (2 + i0 / 8)) (32 * (i0 % 8)) (32 * (i0 % 8) + 32) record)) i0 = record
    ∧ ∀ j, j < 112 → j ≠ i0 → slotData (putSector m batTrack (2 + i0 / 8)
        (sliceAssign (getSector m batTrack (2 + i0 / 8)) (32 * (i0 % 8)) (32 * (i0 % 8) + 32) record)) j = slotData m j := by
  have hidx : ∀ s, idx batTrack s = 320 + s := by
    intro s; unfold idx batTrack; have : Gen.Disk.sectorsPerTrack = 16 := rfl; rw [this]
  have hlt : idx batTrack (2 + i0 / 8) < m.length := by rw [hidx, hw.1]; omega
  have hm : getSector m batTrack (2 + i0 / 8) ∈ m := by
    unfold getSector
    rw [List.getD_eq_getElem?_getD, List.getElem?_eq_getElem hlt]; simp
  have hcl := hw.2 _ hm
  generalize hcat : getSector m batTrack (2 + i0 / 8) = cat at hcl ⊢
  have hvl : (sliceAssign cat (32 * (i0 % 8)) (32 * (i0 % 8) + 32) record).length = 256 := by
    simp [sliceAssign, hr]; omega
  have hsame : getSector (putSector m batTrack (2 + i0 / 8) (sliceAssign cat (32 * (i0 % 8)) (32 * (i0 % 8) + 32) record))
      batTrack (2 + i0 / 8) = sliceAssign cat (32 * (i0 % 8)) (32 * (i0 % 8) + 32) record := by
    rw [putSector_same _ _ _ _ hlt, hcat]
    exact setPayload_full _ _ hvl (by omega)
  refine ⟨putSector_wf _ _ _ _ hw, getBat_putSector_other _ _ _ (by unfold batSector; omega), ?_, ?_⟩
  · unfold slotData
    rw [hsame]
    exact slice_sliceAssign_same cat record _ (by omega) hr
  · intro j hj hne
    unfold slotData
    by_cases hsec : j / 8 = i0 / 8
    · rw [hsec, hsame, ← hcat]
      rw [hcat]
      exact slice_sliceAssign_other cat record _ _ (by omega) hr (by omega)
    · rw [putSector_other _ _ _ _ _ _ (by rw [hidx, hidx]; omega)]

/-- **the invariant is preserved by `writeFile`, whatever the outcome.**  Either the file is stored:
    some slot `i0` that was not live now holds the new record, the table is the old one with the
    chosen blocks linked, and the side is consistent with `i0` owning exactly the chosen blocks;
    or the file is refused with a `ValueError` and the side is consistent with the *same* table and
    the same catalog as before.  No other outcome exists (no exception of another type, no
    half-written state). -/
theorem writeFile_inv {sd : Side} {bat : List Nat} {own : Nat → List Nat} (inv : SideInv sd bat own)
    (content : Bytes) (name ext : Str) (kind flag : Nat) (hname : ∀ c ∈ name, c ≠ 0xFF) :
    (∃ sd' i0, writeFile sd content name ext kind flag = .ok sd' ∧ i0 < 112 ∧ ¬ liveData (slotData sd i0)
        ∧ SideInv sd' (newBat bat content) (fun i => if i = i0 then chosen bat (reqBlocks content.length) else own i)
        ∧ slotData sd' i0 = newRecord name ext kind flag ((chosen bat (reqBlocks content.length)).getD 0 0) (lastBytesOf content.length)
        ∧ (∀ j, j < 112 → j ≠ i0 → slotData sd' j = slotData sd j)
        ∧ (chosen bat (reqBlocks content.length)).length = reqBlocks content.length)
    ∨ (∃ sd' msg, writeFile sd content name ext kind flag = .raised (.valueError msg) sd' ∧ SideInv sd' bat own
        ∧ ∀ j, j < 112 → slotData sd' j = slotData sd j) := by
  rw [writeFile_unfold sd bat content name ext kind flag inv.hbat inv.not_free40.1 inv.not_free40.2]
  by_cases hfit : (chosen bat (reqBlocks content.length)).length < reqBlocks content.length
  · right
    exact ⟨sd, _, by rw [if_pos hfit], inv, fun _ _ => rfl⟩
  · rw [if_neg hfit]
    obtain ⟨h40, h41⟩ := inv.not_free40
    obtain ⟨hwmid, hbmid, hnblen, _⟩ := mid_facts sd bat content inv.wf inv.hbat h40 h41 hfit
    have hsmid := mid_slotData sd bat content inv.wf inv.hbat h40 h41 hfit
    have hblen := getBat_length sd bat inv.hbat
    obtain ⟨hnd, hfree⟩ := chosen_props bat hblen h40 h41 (reqBlocks content.length)
    obtain ⟨hb1, hu1, hu8, hlb255, _, _, _⟩ := size_law content.length
    have hflen : (chosen bat (reqBlocks content.length)).length = reqBlocks content.length := by
      have := chosen_length_le bat (reqBlocks content.length); omega
    have hwalk := slots_walk_ok (sd2 := midSide sd bat content) (bat2 := newBat bat content) inv hsmid hnblen
      (fun i hi hl u hlk => inv.linked_newBat content i hi hl u hlk)
    obtain ⟨o, ho⟩ := findSlot_no_error _ _ hwalk
    rw [ho]
    cases o with
    | none =>
      right
      refine ⟨fullSide sd bat content, _, rfl, ?_, ?_⟩
      · have hrest : fullSide sd bat content = setBat (midSide sd bat content) bat := by
          unfold fullSide newBat
          rw [restore_table bat _ _ (fun b hb => (hfree b hb).2.2.2)]
        rw [hrest]
        apply inv.of_same
        · unfold setBat; exact putSector_wf _ _ _ _ hwmid
        · exact getBat_setBat _ bat hwmid hblen (getBat_valid sd bat inv.hbat)
        · intro i hi
          rw [← hsmid i hi]
          unfold slotData
          rw [setBat_other _ _ _ _ (by unfold idx batTrack batSector; have : Gen.Disk.sectorsPerTrack = 16 := rfl; rw [this]; omega)]
      · intro i hi
        rw [← hsmid i hi]
        unfold fullSide slotData
        rw [setBat_other _ _ _ _ (by unfold idx batTrack batSector; have : Gen.Disk.sectorsPerTrack = 16 := rfl; rw [this]; omega)]
    | some p =>
      obtain ⟨s, st⟩ := p
      left
      obtain ⟨data, hmem, hnl⟩ := findSlot_found _ _ _ _ ho
      obtain ⟨i0, hi0, hs, hst, hd⟩ := mem_slots _ _ _ _ hmem
      subst hs hst
      have hnotlive : ¬ liveData (slotData sd i0) := by
        rw [← hsmid i0 hi0, ← hd]
        intro ⟨l1, l2⟩
        rcases hnl with h | h
        · exact l1 h
        · exact l2 h
      generalize hrec : newRecord name ext kind flag ((chosen bat (reqBlocks content.length)).getD 0 0) (lastBytesOf content.length) = record
      have hrl : record.length = 32 := by rw [← hrec]; exact newRecord_length _ _ _ _ _ _
      have hr13 : record.getD 13 0 = (chosen bat (reqBlocks content.length)).getD 0 0 := by rw [← hrec]; exact newRecord_13 _ _ _ _ _ _
      have hrlive : liveData record := by rw [← hrec]; exact newRecord_live _ _ _ _ _ _ hname
      have hrlb : record.getD 14 0 * 256 + record.getD 15 0 ≤ 255 := by rw [← hrec, newRecord_lastb _ _ _ _ _ _ hlb255]; exact hlb255
      obtain ⟨hw3, hb3, hs0, hsj⟩ := putSlot_facts (midSide sd bat content) hwmid i0 hi0 record hrl
      have hdone : doneSide sd bat content name ext kind flag (2 + i0 / 8) (32 * (i0 % 8)) = putSector (midSide sd bat content) batTrack (2 + i0 / 8)
          (sliceAssign (getSector (midSide sd bat content) batTrack (2 + i0 / 8)) (32 * (i0 % 8)) (32 * (i0 % 8) + 32) record) := by
        unfold doneSide; rw [hrec]
      refine ⟨_, i0, rfl, hi0, hnotlive, ?_, by rw [hdone]; exact hs0, by intro j hj hne; rw [hdone, hsj j hj hne, hsmid j hj], hflen⟩
      rw [hdone]
      generalize hsd' : putSector (midSide sd bat content) batTrack (2 + i0 / 8)
          (sliceAssign (getSector (midSide sd bat content) batTrack (2 + i0 / 8)) (32 * (i0 % 8)) (32 * (i0 % 8) + 32) record) = sd' at hw3 hb3 hs0 hsj
      have hsj' : ∀ j, j < 112 → j ≠ i0 → slotData sd' j = slotData sd j := fun j hj hne => by rw [hsj j hj hne, hsmid j hj]
      generalize hfr : chosen bat (reqBlocks content.length) = free at hnd hfree hflen hr13
      have hlinkfree : Linked (newBat bat content) free (lastSectorsOf content.length) := by
        unfold newBat; rw [hfr]
        exact linkChain_linked free bat _ hnd (fun b hb => by rw [hblen]; exact (hfree b hb).1)
      have hother : ∀ x, x ∉ free → (newBat bat content).getD x 0 = bat.getD x 0 := by
        intro x hx; unfold newBat; rw [hfr]; exact linkChain_other free bat _ x 0 hx
      have hownfree : ∀ i, i < 112 → liveData (slotData sd i) → ∀ b ∈ own i, b ∉ free := by
        intro i hi hl b hb; rw [← hfr]; exact inv.own_not_chosen i hi hl _ b hb
      constructor
      · exact hw3
      · rw [hb3]; exact hbmid
      · rw [hother 40 (fun h => (hfree 40 h).2.1 rfl)]; exact inv.res40
      · rw [hother 41 (fun h => (hfree 41 h).2.2.1 rfl)]; exact inv.res41
      · intro i hi hl
        by_cases hii : i = i0
        · subst hii
          rw [hs0, if_pos rfl]
          cases hfc : free with
          | nil => rw [hfc] at hflen; simp at hflen; omega
          | cons f rest =>
            refine ⟨rest, lastSectorsOf content.length, ?_, hu1, hu8, hfc ▸ hlinkfree, hfc ▸ hnd, ?_⟩
            · rw [hr13, hfc]; rfl
            · intro b hb; exact (hfree b (hfc ▸ hb)).1
        · rw [hsj' i hi hii] at hl ⊢
          rw [if_neg hii]
          obtain ⟨rest, u, hown, h1, h8, hlk, hnd', hlt'⟩ := inv.chain i hi hl
          exact ⟨rest, u, hown, h1, h8, inv.linked_newBat content i hi hl u hlk, hnd', hlt'⟩
      · intro i hi hl
        by_cases hii : i = i0
        · subst hii; rw [hs0]; exact hrlb
        · rw [hsj' i hi hii] at hl ⊢; exact inv.lastb i hi hl
      · intro i j hi hj hij hli hlj b hb
        by_cases hii : i = i0
        · have hjj : j ≠ i0 := fun h => hij (hii.trans h.symm)
          rw [if_pos hii] at hb
          rw [if_neg hjj]
          rw [hsj' j hj hjj] at hlj
          intro hbj
          exact hownfree j hj hlj b hbj hb
        · rw [if_neg hii] at hb
          rw [hsj' i hi hii] at hli
          by_cases hjj : j = i0
          · rw [if_pos hjj]
            exact hownfree i hi hli b hb
          · rw [if_neg hjj]
            rw [hsj' j hj hjj] at hlj
            exact inv.disj i j hi hj hij hli hlj b hb
      · intro b hb
        by_cases hbf : b ∈ free
        · constructor
          · intro _
            exact ⟨i0, hi0, by rw [hs0]; exact hrlive, by rw [if_pos rfl]; exact hbf⟩
          · intro _
            exact linked_all_used _ _ hu8 free hlinkfree (fun x hx => (hfree x hx).1) b hbf
        · rw [hother b hbf, inv.used b hb]
          constructor
          · rintro ⟨i, hi, hl, hm⟩
            have hii : i ≠ i0 := fun h => hnotlive (h ▸ hl)
            exact ⟨i, hi, by rw [hsj' i hi hii]; exact hl, by rw [if_neg hii]; exact hm⟩
          · rintro ⟨i, hi, hl, hm⟩
            by_cases hii : i = i0
            · rw [if_pos hii] at hm; exact absurd hm hbf
            · rw [if_neg hii] at hm
              rw [hsj' i hi hii] at hl
              exact ⟨i, hi, hl, hm⟩

end Moto.Disk
