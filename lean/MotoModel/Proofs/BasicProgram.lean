/-
  The whole program: the encoded text of a line holds no zero byte (so the zero that ends a record is the first one), and the
  independent parser of `Spec.BasicRef` reads back the records `convert` writes — as long as the image stays within 16-bit addresses.
-/
import MotoModel.Model.Basic
import MotoModel.Spec.BasicRef
import MotoModel.Proofs.Digits
import MotoModel.Proofs.LinesConcat
namespace Moto.Basic
open Moto

/-- no zero byte -/
def NZ (l : List Nat) : Prop := ∀ b ∈ l, b ≠ 0

theorem NZ.append {a b : List Nat} (ha : NZ a) (hb : NZ b) : NZ (a ++ b) := by
  intro x hx
  rcases List.mem_append.mp hx with h | h
  · exact ha x h
  · exact hb x h

theorem NZ.nil : NZ [] := by intro x hx; cases hx

/-- every keyword of the table is stored as non-zero bytes (its code, and the colon in front where the rule says so) -/
theorem table_nz : ∀ e ∈ Gen.Tokens.tokens, (∀ b ∈ tokenBytes e.1, b ≠ 0) ∧ (∀ b ∈ bytesFromUint ((tokenOf e.1).getD 0), b ≠ 0) := by
  decide +kernel

theorem isToken_in_table {s : Str} (h : isToken s = true) : ∃ e ∈ Gen.Tokens.tokens, e.1 = s := by
  unfold isToken tokenOf at h
  cases hf : Gen.Tokens.tokens.find? (fun e => e.1 == s) with
  | none => rw [hf] at h; simp at h
  | some e => exact ⟨e, List.mem_of_find?_eq_some hf, by simpa using List.find?_some hf⟩

theorem tokenBytes_nz {s : Str} (h : isToken s = true) : NZ (tokenBytes s) := by
  obtain ⟨e, he, rfl⟩ := isToken_in_table h
  exact (table_nz e he).1

theorem codeBytes_nz {s : Str} (h : isToken s = true) : NZ (bytesFromUint ((tokenOf s).getD 0)) := by
  obtain ⟨e, he, rfl⟩ := isToken_in_table h
  exact (table_nz e he).2

/-- the four buffers of the tokenizer hold no zero byte -/
def CtxNZ (c : Ctx) : Prop := NZ c.done ∧ NZ c.cand ∧ NZ c.seq ∧ NZ c.bucket

theorem commit_nz {c : Ctx} (h : CtxNZ c) : CtxNZ (commit c) := by
  obtain ⟨h1, h2, _, h4⟩ := h
  exact ⟨(h1.append h2).append h4, NZ.nil, NZ.nil, NZ.nil⟩

theorem appendAsTokenFuel_nz : ∀ (fuel : Nat) (c : Ctx) (inp : Str), CtxNZ c → NZ inp → CtxNZ (appendAsTokenFuel fuel c inp)
  | 0, c, _, h, _ => h
  | fuel + 1, c, inp, h, hi => by
    obtain ⟨h1, h2, h3, h4⟩ := h
    simp only [appendAsTokenFuel]
    split
    · rename_i ht
      exact ⟨h1, tokenBytes_nz ht, h3.append hi, NZ.nil⟩
    · split
      · rename_i _ hb
        exact appendAsTokenFuel_nz fuel _ inp ⟨h1.append h2, tokenBytes_nz hb, h4, NZ.nil⟩ hi
      · split
        · rename_i _ _ hin
          have hc1 : CtxNZ (commit { c with seq := c.seq ++ inp }) := commit_nz ⟨h1, h2, h3.append hi, h4⟩
          refine commit_nz ⟨hc1.1, hc1.2.1.append (codeBytes_nz hin), hc1.2.2.1, hc1.2.2.2⟩
        · exact ⟨h1, h2, h3.append hi, h4.append hi⟩

theorem commitAsToken_nz {c : Ctx} (h : CtxNZ c) : CtxNZ (commitAsToken c) := by
  obtain ⟨h1, h2, h3, h4⟩ := h
  unfold commitAsToken
  split
  · rename_i hb
    exact commit_nz ⟨h1.append h2, tokenBytes_nz hb, h3, NZ.nil⟩
  · exact commit_nz ⟨h1, h2, h3, h4⟩

theorem appendAsLiteral_nz {c : Ctx} {inp : Str} (h : CtxNZ c) (hi : NZ inp) : CtxNZ (appendAsLiteral c inp) := by
  obtain ⟨h1, h2, h3, h4⟩ := h
  exact ⟨h1, h2, h3.append hi, h4.append hi⟩

theorem upperC_nz {ch : Nat} (h : ch ≠ 0) : upperC ch ≠ 0 := by
  unfold upperC
  split <;> omega

theorem single_nz {ch : Nat} (h : ch ≠ 0) : NZ [ch] := by
  intro x hx
  simp only [List.mem_cons, List.mem_nil_iff, or_false] at hx
  subst hx; exact h

theorem parseChar_nz (st : Ctx × Bool) (ch : Nat) (h : CtxNZ st.1) (hc : ch ≠ 0) : CtxNZ (parseChar st ch).1 := by
  obtain ⟨c, inLit⟩ := st
  simp only at h
  unfold parseChar
  simp only
  split
  · cases inLit with
    | true =>
      simp only [if_true, Bool.not_true, Bool.false_eq_true, if_false]
      exact commit_nz (appendAsTokenFuel_nz 3 _ _ (commit_nz h) (single_nz hc))
    | false =>
      simp only [Bool.false_eq_true, if_false, Bool.not_false, if_true]
      exact commit_nz (appendAsLiteral_nz (commitAsToken_nz h) (single_nz hc))
  · split
    · exact appendAsLiteral_nz h (single_nz hc)
    · split
      · exact commit_nz (appendAsTokenFuel_nz 3 _ _ h (single_nz hc))
      · exact appendAsTokenFuel_nz 3 _ _ h (single_nz (upperC_nz hc))

theorem foldl_parseChar_nz : ∀ (body : Str) (st : Ctx × Bool), CtxNZ st.1 → NZ body → CtxNZ (body.foldl parseChar st).1
  | [], st, h, _ => h
  | ch :: rest, st, h, hb => by
    simp only [List.foldl_cons]
    exact foldl_parseChar_nz rest _ (parseChar_nz st ch h (hb ch (by simp))) (fun x hx => hb x (by simp [hx]))

/-- **the encoded text of a line holds no zero byte** when the line holds no NUL character -/
theorem encodeBody_nz (body : Str) (h : NZ body) : NZ (encodeBody body) := by
  unfold encodeBody finish
  have hf := foldl_parseChar_nz body ({}, false) ⟨NZ.nil, NZ.nil, NZ.nil, NZ.nil⟩ h
  generalize body.foldl parseChar ({}, false) = st at hf
  obtain ⟨c, inLit⟩ := st
  cases inLit with
  | true => exact (commit_nz hf).1
  | false => exact (commit_nz (commitAsToken_nz hf)).1

/-! ### the independent parser reads back what `convert` writes -/

open Moto.Spec.BasicRef in
theorem u16At_u16_0 (v : Nat) (hv : v < 65536) (r : Bytes) : u16At (u16 v ++ r) 0 = v := by
  simp only [u16At, u16, List.cons_append, List.nil_append, List.getD_cons_zero, List.getD_cons_succ]
  omega

open Moto.Spec.BasicRef in
theorem u16At_u16_2 (a b c d : Nat) (r : Bytes) : u16At (a :: b :: c :: d :: r) 2 = c * 256 + d := by
  simp [u16At]

theorem takeWhile_nz (enc more : Bytes) (h : NZ enc) : (enc ++ 0 :: more).takeWhile (· != 0) = enc := by
  induction enc with
  | nil => simp
  | cons x xs ih =>
    have hx : x ≠ 0 := h x (by simp)
    simp only [List.cons_append, List.takeWhile_cons]
    rw [if_pos (by simpa using hx), ih (fun y hy => h y (by simp [hy]))]

/-- the records a list of (number, text) pairs is stored as, from address `ptr` on: link, number (two bytes), encoded text -/
def recsOf : Nat → List (Nat × Str) → List (Nat × Nat × Bytes)
  | _, [] => []
  | ptr, (num, body) :: rest =>
    (ptr + (encodeBody body).length + 5, num % 65536, encodeBody body) :: recsOf (ptr + (encodeBody body).length + 5) rest

open Moto.Spec.BasicRef in
theorem records_end (fuel : Nat) : records (fuel + 1) [0, 0] = some [] := by
  simp [records, u16At]

open Moto.Spec.BasicRef in
/-- one record is read back: link, number modulo 65536, text up to the first zero byte -/
theorem records_step (fuel link num : Nat) (enc more : Bytes) (hl0 : 0 < link) (hl : link < 65536) (hnz : NZ enc) :
    records (fuel + 1) (u16 link ++ u16 num ++ (enc ++ [0]) ++ more)
      = (records fuel more).map (fun rs => (link, num % 65536, enc) :: rs) := by
  have hshape : u16 link ++ u16 num ++ (enc ++ [0]) ++ more
      = (link / 256) % 256 :: link % 256 :: (num / 256) % 256 :: num % 256 :: (enc ++ 0 :: more) := by
    simp [u16, List.append_assoc]
  rw [hshape]
  have hlen : ((link / 256) % 256 :: link % 256 :: (num / 256) % 256 :: num % 256 :: (enc ++ 0 :: more)).length
      = enc.length + more.length + 5 := by simp; omega
  have h0 : u16At ((link / 256) % 256 :: link % 256 :: (num / 256) % 256 :: num % 256 :: (enc ++ 0 :: more)) 0 = link := by
    simp only [u16At, List.getD_cons_zero, List.getD_cons_succ]; omega
  have h2 : u16At ((link / 256) % 256 :: link % 256 :: (num / 256) % 256 :: num % 256 :: (enc ++ 0 :: more)) 2 = num % 65536 := by
    rw [u16At_u16_2]; omega
  simp only [records, hlen, h0, h2]
  rw [if_neg (by omega), if_neg (by omega), if_neg (by omega)]
  simp only [List.drop_succ_cons, List.drop_zero, takeWhile_nz enc more hnz]
  have hdrop : List.drop (4 + enc.length) ((link / 256) % 256 :: link % 256 :: (num / 256) % 256 :: num % 256 :: (enc ++ 0 :: more)) = 0 :: more := by
    rw [Nat.add_comm]
    simp only [List.drop_succ_cons]
    exact List.drop_left' rfl
  simp only [hdrop]

open Moto.Spec.BasicRef in
/-- the loop of `convert` and the record reader of the specification are inverse to each other while the addresses fit in 16 bits -/
theorem records_of_convertLines : ∀ (lines : List Str) (parts : List (Nat × Str)) (ptr fuel : Nat) (bytes : Bytes),
    convertLines ptr lines = some bytes → lines.map extractLineParts = parts.map some → (∀ p ∈ parts, NZ p.2) →
    0 < ptr → ptr + bytes.length < 65536 → bytes.length < fuel →
    records fuel (bytes ++ [0, 0]) = some (recsOf ptr parts)
  | [], parts, ptr, fuel, bytes, hc, hp, _, _, _, hf => by
    simp only [convertLines, Option.some.injEq] at hc
    subst hc
    cases parts with
    | nil =>
      cases fuel with
      | zero => simp at hf
      | succ f => simpa [recsOf] using records_end f
    | cons a b => simp at hp
  | line :: rest, parts, ptr, fuel, bytes, hc, hp, hnz, hp0, hsz, hf => by
    cases parts with
    | nil => simp at hp
    | cons pr prs =>
      obtain ⟨num, body⟩ := pr
      simp only [List.map_cons, List.cons.injEq] at hp
      obtain ⟨hl, hrest⟩ := hp
      simp only [convertLines, hl] at hc
      cases hr : convertLines (ptr + (encodeBody body ++ [0]).length + 4) rest with
      | none => rw [hr] at hc; simp at hc
      | some more =>
        rw [hr] at hc
        simp only [Option.some.injEq] at hc
        subst hc
        have hptr : ptr + (encodeBody body ++ [0]).length + 4 = ptr + (encodeBody body).length + 5 := by simp; omega
        rw [hptr] at hr
        have hblen : (u16 (ptr + (encodeBody body ++ [0]).length + 4) ++ u16 num ++ (encodeBody body ++ [0]) ++ more).length
            = (encodeBody body).length + more.length + 5 := by simp [u16]; omega
        rw [hblen] at hsz hf
        cases fuel with
        | zero => omega
        | succ f =>
          rw [hptr, List.append_assoc _ more, records_step f _ num (encodeBody body) (more ++ [0, 0]) (by omega) (by omega)
            (encodeBody_nz body (hnz (num, body) (by simp)))]
          rw [records_of_convertLines rest prs (ptr + (encodeBody body).length + 5) f more hr hrest
            (fun p hp' => hnz p (by simp [hp'])) (by omega) (by omega) (by omega)]
          simp [recsOf]

open Moto.Spec.BasicRef in
theorem linksOk_recsOf : ∀ (parts : List (Nat × Str)) (ptr : Nat), parseProgram.linksOk ptr (recsOf ptr parts) = true
  | [], _ => by simp [recsOf, parseProgram.linksOk]
  | (num, body) :: rest, ptr => by
    simp only [recsOf, parseProgram.linksOk, beq_self_eq_true, Bool.true_and]
    exact linksOk_recsOf rest _

open Moto.Spec.BasicRef in
/-- **the file `convert` writes is a structurally valid program, and its records are the lines**: for a listing whose lines all carry a
    number, hold no NUL character, and whose image ends below address 65536 -/
theorem parseProgram_convert (text : Str) (parts : List (Nat × Str)) (file : Bytes)
    (hc : convert text = some file) (hp : (readlines text).map extractLineParts = parts.map some)
    (hnz : ∀ p ∈ parts, NZ p.2) (hsz : Gen.Tokens.programBase + file.length < 65536) :
    parseProgram file = some ⟨recsOf Gen.Tokens.programBase parts⟩ := by
  unfold convert at hc
  cases hr : convertLines Gen.Tokens.programBase (readlines text) with
  | none => rw [hr] at hc; simp at hc
  | some records =>
    rw [hr] at hc
    simp only [Option.some.injEq] at hc
    subst hc
    have hlen : ([0xFF] ++ u16 (records ++ [0, 0]).length ++ (records ++ [0, 0])).length = records.length + 5 := by simp [u16]
    rw [hlen] at hsz
    have hbase : Gen.Tokens.programBase = 9636 := rfl
    have hshape : [0xFF] ++ u16 (records ++ [0, 0]).length ++ (records ++ [0, 0])
        = 0xFF :: ((records.length + 2) / 256) % 256 :: (records.length + 2) % 256 :: (records ++ [0, 0]) := by simp [u16]
    rw [hshape]
    have hrec := records_of_convertLines (readlines text) parts Gen.Tokens.programBase ((records ++ [0, 0]).length + 1) records hr hp hnz
      (by rw [hbase]; omega) (by omega) (by simp only [List.length_append, List.length_cons, List.length_nil]; omega)
    simp only [parseProgram]
    rw [if_neg (by simp; omega), hrec]
    simp only
    have hl := linksOk_recsOf parts Gen.Tokens.programBase
    rw [hbase] at hl ⊢
    rw [if_pos hl]

/-! ### a listing written line by line: `N body LF` -/

theorem universalNewlines_noCR : ∀ (l : Str), (∀ c ∈ l, c ≠ 13) → universalNewlines l = l
  | [], _ => rfl
  | c :: rest, h => by
    have hc : c ≠ 13 := h c (by simp)
    rw [universalNewlines.eq_4 c rest (fun r hc' _ => hc hc') hc,
      universalNewlines_noCR rest (fun x hx => h x (by simp [hx]))]

theorem splitGo_line : ∀ (l cur : Str), (∀ c ∈ l, c ≠ 10) → splitKeepNL.go cur (l ++ [10]) = [cur.reverse ++ l ++ [10]]
  | [], cur, _ => by simp [splitKeepNL.go]
  | c :: rest, cur, h => by
    have hc : c ≠ 10 := h c (by simp)
    simp only [List.cons_append, splitKeepNL.go, beq_iff_eq, hc, if_false]
    rw [splitGo_line rest (c :: cur) (fun x hx => h x (by simp [hx]))]
    simp

theorem splitGo_lastline : ∀ (l cur : Str), (∀ c ∈ l, c ≠ 10) → (cur ++ l ≠ []) → splitKeepNL.go cur l = [cur.reverse ++ l]
  | [], cur, _, hne => by
    have : cur ≠ [] := by simpa using hne
    simp [splitKeepNL.go, this]
  | c :: rest, cur, h, _ => by
    have hc : c ≠ 10 := h c (by simp)
    simp only [splitKeepNL.go, beq_iff_eq, hc, if_false]
    rw [splitGo_lastline rest (c :: cur) (fun x hx => h x (by simp [hx])) (by simp)]
    simp

/-- a line without CR and LF inside, followed by LF, is one line for `readlines` -/
theorem readlines_line (l : Str) (h : ∀ c ∈ l, c ≠ 10 ∧ c ≠ 13) : readlines (l ++ [10]) = [l ++ [10]] := by
  unfold readlines splitKeepNL
  rw [universalNewlines_noCR _ (by
    intro c hc
    rcases List.mem_append.mp hc with hc | hc
    · exact (h c hc).2
    · simp only [List.mem_cons, List.not_mem_nil, or_false] at hc; omega)]
  simpa using splitGo_line l [] (fun c hc => (h c hc).1)

/-- a last line without final LF -/
theorem readlines_lastline (l : Str) (h : ∀ c ∈ l, c ≠ 10 ∧ c ≠ 13) (hne : l ≠ []) : readlines l = [l] := by
  unfold readlines splitKeepNL
  rw [universalNewlines_noCR _ (fun c hc => (h c hc).2)]
  simpa using splitGo_lastline l [] (fun c hc => (h c hc).1) (by simpa using hne)

/-- one line of a listing as it is typed: the number, one blank, the text -/
def listingLine (p : Nat × Str) : Str := digits p.1 ++ 32 :: p.2

/-- the listing: every line followed by LF; the last one with or without it -/
def listingText (finalLF : Bool) : List (Nat × Str) → Str
  | [] => []
  | [p] => listingLine p ++ (if finalLF then [10] else [])
  | p :: q :: rest => listingLine p ++ [10] ++ listingText finalLF (q :: rest)

theorem listingLine_clean (p : Nat × Str) (h : ∀ c ∈ p.2, c ≠ 10 ∧ c ≠ 13) : ∀ c ∈ listingLine p, c ≠ 10 ∧ c ≠ 13 := by
  intro c hc
  unfold listingLine at hc
  rcases List.mem_append.mp hc with hc | hc
  · have := digits_all_digit p.1 c hc
    simp [isDigit] at this; omega
  · rcases List.mem_cons.mp hc with rfl | hc
    · omega
    · exact h c hc

theorem listingLine_ne_nil (p : Nat × Str) : listingLine p ≠ [] := by
  unfold listingLine
  have := digits_ne_nil p.1
  cases hd : digits p.1 with
  | nil => exact absurd hd this
  | cons x xs => simp

/-- `readlines` of the listing: its lines, the last one as typed -/
theorem readlines_listing (finalLF : Bool) : ∀ (ps : List (Nat × Str)), (∀ p ∈ ps, ∀ c ∈ p.2, c ≠ 10 ∧ c ≠ 13) →
    ∃ lines, readlines (listingText finalLF ps) = lines ∧ lines.length = ps.length ∧
      ∀ i (hi : i < ps.length), lines[i]? = some (listingLine ps[i] ++ (if i + 1 < ps.length ∨ finalLF = true then [10] else []))
  | [], _ => ⟨[], by simp [listingText, readlines, universalNewlines, splitKeepNL, splitKeepNL.go], rfl, by intro i hi; simp at hi⟩
  | [p], h => by
    have hcl := listingLine_clean p (h p (by simp))
    cases finalLF with
    | true =>
      refine ⟨[listingLine p ++ [10]], by simp [listingText, readlines_line _ hcl], rfl, ?_⟩
      intro i hi
      simp only [List.length_singleton] at hi
      have : i = 0 := by omega
      subst this; simp
    | false =>
      refine ⟨[listingLine p], by simp [listingText, readlines_lastline _ hcl (listingLine_ne_nil p)], rfl, ?_⟩
      intro i hi
      simp only [List.length_singleton] at hi
      have : i = 0 := by omega
      subst this; simp
  | p :: q :: rest, h => by
    have hcl := listingLine_clean p (h p (by simp))
    obtain ⟨lines, hl, hlen, hget⟩ := readlines_listing finalLF (q :: rest) (fun x hx => h x (by simp [hx]))
    refine ⟨(listingLine p ++ [10]) :: lines, ?_, by simp [hlen], ?_⟩
    · simp only [listingText]
      rw [readlines_append _ _ (Or.inr (by simp)), readlines_line _ hcl, hl]; rfl
    · intro i hi
      cases i with
      | zero => simp
      | succ j =>
        simp only [List.length_cons] at hi
        have := hget j (by simp only [List.length_cons]; omega)
        simp only [List.getElem?_cons_succ, List.getElem_cons_succ, List.length_cons] at this ⊢
        rw [this]
        have hiff : (j + 1 < rest.length + 1 ∨ finalLF = true) ↔ (j + 1 + 1 < rest.length + 1 + 1 ∨ finalLF = true) := by
          constructor
          · rintro (h1 | h1)
            · left; omega
            · right; exact h1
          · rintro (h1 | h1)
            · left; omega
            · right; exact h1
        simp only [hiff]

/-- a typed line `N body` (with or without the line feed) is cut into its number and its text -/
theorem extractLineParts_typed (n : Nat) (body : Str) (hn : 0 < n) (lf : Bool) (hb : body.getLast? ≠ some 10) :
    extractLineParts (listingLine (n, body) ++ (if lf then [10] else [])) = some (n, body) := by
  obtain ⟨c, r, hd, h1, h2⟩ := digits_head_pos n hn
  have htw : ∀ tail : Str, ((digits n ++ 32 :: body) ++ tail).takeWhile isDigit = digits n := by
    intro tail
    rw [List.append_assoc, List.cons_append]
    exact takeWhile_digits n 32 _ (by decide)
  unfold extractLineParts listingLine
  simp only
  rw [hd] at htw ⊢
  simp only [List.cons_append]
  rw [if_pos ⟨h1, h2⟩]
  have htw' := htw (if lf then [10] else [])
  simp only [List.cons_append] at htw'
  rw [htw']
  have hdrop : List.drop (c :: r).length (c :: (r ++ 32 :: body ++ if lf = true then [10] else []))
      = 32 :: body ++ (if lf = true then [10] else []) := by
    have : c :: (r ++ 32 :: body ++ if lf = true then [10] else []) = (c :: r) ++ (32 :: body ++ if lf = true then [10] else []) := by simp
    rw [this, List.drop_left]
  rw [hdrop, ← hd, parseNat_digits]
  cases lf with
  | true =>
    simp only [if_true]
    have h10 : (32 :: body ++ [10]).getLast? = some 10 := by
      rw [show 32 :: body ++ [10] = (32 :: body) ++ [10] from rfl, List.getLast?_append]; simp
    rw [if_pos h10]
    have hdl : (32 :: body ++ [10]).dropLast = 32 :: body := by
      rw [show 32 :: body ++ [10] = (32 :: body) ++ [10] from rfl, List.dropLast_concat]
    rw [hdl]; simp
  | false =>
    simp only [Bool.false_eq_true, if_false, List.append_nil]
    have h10 : (32 :: body).getLast? ≠ some 10 := by
      cases body with
      | nil => simp
      | cons x xs => simpa [List.getLast?_cons_cons] using hb
    rw [if_neg h10]; simp

theorem convertLines_of_parts : ∀ (lines : List Str) (parts : List (Nat × Str)) (ptr : Nat),
    lines.map extractLineParts = parts.map some → ∃ bytes, convertLines ptr lines = some bytes
  | [], _, _, _ => ⟨[], rfl⟩
  | line :: rest, [], _, h => by simp at h
  | line :: rest, (num, body) :: prs, ptr, h => by
    simp only [List.map_cons, List.cons.injEq] at h
    obtain ⟨more, hm⟩ := convertLines_of_parts rest prs (ptr + (encodeBody body ++ [0]).length + 4) h.2
    refine ⟨u16 (ptr + (encodeBody body ++ [0]).length + 4) ++ u16 num ++ (encodeBody body ++ [0]) ++ more, ?_⟩
    simp only [convertLines, h.1, hm]

/-- the lines of a typed listing are cut into the numbers and texts that were typed -/
theorem parts_of_listing (finalLF : Bool) (ps : List (Nat × Str)) (hn : ∀ p ∈ ps, 0 < p.1)
    (hc : ∀ p ∈ ps, ∀ c ∈ p.2, c ≠ 10 ∧ c ≠ 13) :
    (readlines (listingText finalLF ps)).map extractLineParts = ps.map some := by
  obtain ⟨lines, hl, hlen, hget⟩ := readlines_listing finalLF ps hc
  rw [hl]
  apply List.ext_getElem?
  intro i
  by_cases hi : i < ps.length
  · have hp : ps[i] ∈ ps := List.getElem_mem hi
    have hb : (ps[i]).2.getLast? ≠ some 10 := by
      intro e
      exact (hc _ hp 10 (List.mem_of_getLast? e)).1 rfl
    have := extractLineParts_typed (ps[i]).1 (ps[i]).2 (hn _ hp)
      (decide (i + 1 < ps.length ∨ finalLF = true)) hb
    simp only [List.getElem?_map, hget i hi, Option.map_some, List.getElem?_eq_getElem hi]
    simp only [decide_eq_true_eq] at this
    rw [this]
  · simp only [List.getElem?_map]
    rw [List.getElem?_eq_none (by omega), List.getElem?_eq_none (by omega)]
    rfl

/-! ### the same listing with CR LF line ends (a file written on another system) -/

/-- every line followed by CR LF -/
def listingTextCRLF : List (Nat × Str) → Str
  | [] => []
  | p :: rest => listingLine p ++ [13, 10] ++ listingTextCRLF rest

theorem universalNewlines_line_crlf : ∀ (l rest : Str), (∀ c ∈ l, c ≠ 13) →
    universalNewlines (l ++ [13, 10] ++ rest) = l ++ [10] ++ universalNewlines rest
  | [], rest, _ => by
    simp only [List.nil_append, List.cons_append]
    rw [universalNewlines.eq_2]
  | c :: l, rest, h => by
    have hc : c ≠ 13 := h c (by simp)
    simp only [List.cons_append]
    rw [universalNewlines.eq_4 c _ (fun r hc' _ => hc hc') hc]
    rw [universalNewlines_line_crlf l rest (fun x hx => h x (by simp [hx]))]

/-- text-mode reading turns the CR LF listing into the LF listing -/
theorem universalNewlines_crlf_listing : ∀ (ps : List (Nat × Str)), (∀ p ∈ ps, ∀ c ∈ p.2, c ≠ 10 ∧ c ≠ 13) →
    universalNewlines (listingTextCRLF ps) = universalNewlines (listingText true ps)
  | [], _ => rfl
  | [p], h => by
    have hcl := listingLine_clean p (h p (by simp))
    simp only [listingTextCRLF, listingText, if_true]
    rw [universalNewlines_line_crlf _ [] (fun c hc => (hcl c hc).2)]
    rw [universalNewlines_noCR (listingLine p ++ [10]) (by
      intro c hc
      rcases List.mem_append.mp hc with hc | hc
      · exact (hcl c hc).2
      · simp only [List.mem_cons, List.not_mem_nil, or_false] at hc; omega)]
    simp [universalNewlines]
  | p :: q :: rest, h => by
    have hcl := listingLine_clean p (h p (by simp))
    have ih := universalNewlines_crlf_listing (q :: rest) (fun x hx => h x (by simp [hx]))
    simp only [listingTextCRLF, listingText] at ih ⊢
    rw [universalNewlines_line_crlf _ _ (fun c hc => (hcl c hc).2), ih]
    rw [universalNewlines_append (listingLine p ++ [10]) _ (Or.inr (by simp))]
    rw [universalNewlines_noCR (listingLine p ++ [10]) (by
      intro c hc
      rcases List.mem_append.mp hc with hc | hc
      · exact (hcl c hc).2
      · simp only [List.mem_cons, List.not_mem_nil, or_false] at hc; omega)]

/-- the converter does not see the difference -/
theorem convert_crlf_listing (ps : List (Nat × Str)) (h : ∀ p ∈ ps, ∀ c ∈ p.2, c ≠ 10 ∧ c ≠ 13) :
    convert (listingTextCRLF ps) = convert (listingText true ps) := by
  unfold convert readlines
  rw [universalNewlines_crlf_listing ps h]

end Moto.Basic
