/-
  A batch that fits on the first side is stored there entirely.
-/
import MotoModel.Proofs.DiskSections
namespace Moto.Disk
open Moto Moto.Tape

/-- number of live catalog entries of a side -/
def liveCount (sd : Side) : Nat := (List.range 112).countP fun j => liveB (slotData sd j)

theorem not_full_of_count (sd : Side) (h : liveCount sd < 112) : ¬ CatalogFull sd := by
  intro hfull
  unfold liveCount at h
  have : (List.range 112).countP (fun j => liveB (slotData sd j)) = (List.range 112).length := by
    rw [List.countP_eq_length]
    intro j hj
    exact (liveB_iff _).mpr (hfull j (List.mem_range.mp hj))
  rw [this] at h
  simp at h

/-- a stored file makes one more live entry -/
theorem liveCount_stored {sd sd' : Side} (i0 : Nat) (hi0 : i0 < 112) (hnl : ¬ liveData (slotData sd i0)) (hl : liveData (slotData sd' i0))
    (hother : ∀ j, j < 112 → j ≠ i0 → slotData sd' j = slotData sd j) : liveCount sd' = liveCount sd + 1 := by
  unfold liveCount
  apply countP_point (List.range 112) List.nodup_range _ _ i0 (List.mem_range.mpr hi0)
  · cases h : liveB (slotData sd i0) with
    | false => rfl
    | true => exact absurd ((liveB_iff _).mp h) hnl
  · exact (liveB_iff _).mpr hl
  · intro j hj hne
    rw [hother j (List.mem_range.mp hj) hne]

theorem fresh_counts : freeBlocks freshBat = 157 ∧ liveCount freshSide = 0 := by
  constructor
  · decide +kernel
  · unfold liveCount
    rw [List.countP_eq_zero]
    intro j hj
    have := fresh_slots_unused j (List.mem_range.mp hj)
    unfold liveB
    rw [this]
    decide

/-- what the batch still has room for on side 0 -/
structure Room (img : Image) (blocks slots : Nat) : Prop where
  ok : ImgOk img
  side0 : ∃ bat own, SideInv (img.getD 0 []) bat own ∧ blocks ≤ freeBlocks bat ∧ liveCount (img.getD 0 []) + slots ≤ 112

/-- a file that fits on side 0 while the cursor is there is stored there; the room shrinks by its
    blocks and one entry; the other sides are untouched -/
theorem store_on_side0 (name ext : Str) (kind flag : Nat) (data : Bytes) (hname : ∀ c ∈ name, c ≠ 0xFF)
    (st : Inj) (hcur : st.cur = 0) (B S : Nat) (hroom : Room st.img (reqBlocks data.length + B) (1 + S)) :
    ∃ st', injWriteFile name ext kind flag data 4 st = .ok st' ∧ st'.cur = 0 ∧ Room st'.img B S
      ∧ fileCount st'.img = fileCount st.img + 1 ∧ Keeps st.img st'.img
      ∧ (∀ k, 1 ≤ k → st'.img.getD k [] = st.img.getD k []) := by
  obtain ⟨h, bat, own, inv, hblocks, hslots⟩ := hroom
  have hfits : Fits (st.img.getD 0 []) bat data.length := ⟨by omega, not_full_of_count _ (by omega)⟩
  obtain ⟨sd0, hok0⟩ := (writeFile_ok_iff inv data name ext kind flag).mpr hfits
  rcases writeFile_inv inv data name ext kind flag hname with ⟨sd', i0, hw, hi0, hnl, inv', hs0, hsj, hflen⟩ | ⟨sd', msg, hw, _, _⟩
  · have hstep : injWriteFile name ext kind flag data 4 st
        = .ok { st with img := st.img.set st.cur sd', l := onEndOfFile (onBeginOfFile st.l (evOf name ext kind flag data)) (evOf name ext kind flag data) } := by
      show injWriteFile name ext kind flag data (3 + 1) st = _
      simp only [injWriteFile]
      rw [if_neg (by omega), hcur, hw]
      rfl
    refine ⟨_, hstep, hcur, ?_, ?_, ?_, ?_⟩
    · dsimp only
      rw [hcur]
      refine ⟨h.set 0 sd' ⟨_, _, inv'⟩, newBat bat data, (fun i => if i = i0 then chosen bat (reqBlocks data.length) else own i), ?_, ?_, ?_⟩
      · rw [getD_set_eq _ _ _ _ (by rw [h.1]; omega)]; exact inv'
      · rw [freeBlocks_newBat bat data (getBat_length _ bat inv.hbat)]; omega
      · rw [getD_set_eq _ _ _ _ (by rw [h.1]; omega)]
        have hl : liveData (slotData sd' i0) := by rw [hs0]; exact newRecord_live _ _ _ _ _ _ hname
        rw [liveCount_stored i0 hi0 hnl hl hsj]; omega
    · dsimp only
      rw [hcur]
      exact stored_count st.img h.1 0 (by omega) inv data name ext kind flag hname sd' hw
    · dsimp only
      rw [hcur]
      have hone : OneStep st.img (st.img.set 0 sd') name ext kind flag data := by
        rcases writeFile_files inv data name ext kind flag hname with ⟨sd2, i1, hw2, hi1, hnone, hnew, hother⟩ | ⟨sd2, m2, hw2, _⟩
        · rw [hw] at hw2
          cases hw2
          right
          refine ⟨0, i1, by omega, hi1, hnone, ⟨recordOfBytes (newRecord name ext kind flag ((chosen bat (reqBlocks data.length)).getD 0 0) (lastBytesOf data.length)), ?_, ⟨_, rfl⟩⟩, ?_⟩
          · rw [imgFileAt_set_same _ h.1 _ (by omega)]; exact hnew
          · intro k' j hk' hj hne
            by_cases hkk : 0 = k'
            · subst hkk
              rw [imgFileAt_set_same _ h.1 _ (by omega)]
              exact hother j hj (fun e => hne ⟨rfl, e⟩)
            · exact imgFileAt_set_other _ _ _ hkk _ _
        · rw [hw] at hw2; cases hw2
      exact hone.keeps
    · intro k hk
      dsimp only
      rw [hcur, getD_set_ne _ _ _ _ _ (by omega)]
  · rw [hok0] at hw; cases hw

/-- a source argument that names a readable file with an 8.3 name (not an end-of-side marker) -/
def Storable (w : Tape.World) (src : Str) (data : Bytes) : Prop :=
  basename (upper src) ≠ str "--EOS" ∧ w (splitSource src).2.2.2 = some data
  ∧ (splitSource src).1.length ≤ 8 ∧ (splitSource src).2.1.length ≤ 3 ∧ CleanSrc src
  ∧ ((splitSource src).1 ++ (splitSource src).2.1).any (· ≥ 128) = false

def batchBlocks (items : List (Str × Bytes)) : Nat := (items.map fun p => reqBlocks p.2.length).sum

theorem injLoop_side0 (w : Tape.World) : ∀ (items : List (Str × Bytes)) (st : Inj) (B S : Nat), st.cur = 0 →
    (∀ p ∈ items, Storable w p.1 p.2) → Room st.img (batchBlocks items + B) (items.length + S) →
    ∃ st', injLoop w (items.map (·.1)) st = .ok st' ∧ st'.cur = 0 ∧ Room st'.img B S
      ∧ fileCount st'.img = fileCount st.img + items.length ∧ Keeps st.img st'.img
      ∧ (∀ k, 1 ≤ k → st'.img.getD k [] = st.img.getD k []) := by
  intro items
  induction items with
  | nil =>
    intro st B S hcur _ hroom
    refine ⟨st, rfl, hcur, ?_, by simp, Keeps.refl _, fun _ _ => rfl⟩
    simpa [batchBlocks] using hroom
  | cons p rest ih =>
    intro st B S hcur hall hroom
    obtain ⟨src, data⟩ := p
    obtain ⟨hne, hw, h8, h3, hclean, hascii⟩ := hall (src, data) (by simp)
    dsimp only at hne hw h8 h3 hclean hascii
    have hname := splitSource_name_clean src hclean
    simp only [List.map_cons, injLoop]
    rw [if_neg hne]
    have hroom1 : Room st.img (reqBlocks data.length + (batchBlocks rest + B)) (1 + (rest.length + S)) := by
      obtain ⟨h, bat, own, inv, hb, hs⟩ := hroom
      refine ⟨h, bat, own, inv, ?_, ?_⟩
      · simp only [batchBlocks, List.map_cons, List.sum_cons] at hb ⊢; omega
      · simp only [List.length_cons] at hs; omega
    obtain ⟨s1, hs1, hc1, hr1, hcount1, hkeep1, hsides1⟩ := store_on_side0 (splitSource src).1
      (dispatch (splitSource src).1 (splitSource src).2.1 (splitSource src).2.2.1).2.2
      (dispatch (splitSource src).1 (splitSource src).2.1 (splitSource src).2.2.1).1
      (dispatch (splitSource src).1 (splitSource src).2.1 (splitSource src).2.2.1).2.1 data hname st hcur _ _ hroom1
    have hfile : injFile w src st = .ok (s1, true) := by
      unfold injFile
      dsimp only
      rw [hw]
      dsimp only
      rw [if_neg (Nat.not_lt.mpr h8), if_neg (Nat.not_lt.mpr h3), if_neg (by rw [hascii]; simp), hs1]
    rw [hfile]
    dsimp only
    rw [if_neg (by simp [hc1])]
    obtain ⟨st', h1, h2, h3', h4, h5, h6⟩ := ih s1 B S hc1 (fun q hq => hall q (by simp [hq])) hr1
    refine ⟨st', h1, h2, h3', ?_, hkeep1.trans h5, ?_⟩
    · rw [h4, hcount1]; simp only [List.length_cons]; omega
    · intro k hk; rw [h6 k hk, hsides1 k hk]

/-- the image a batch leaves is the image its sources loop leaves (whatever the listener) -/
theorem performCore_img (w : Tape.World) (verbose : Bool) (img : Image) (srcs : List Str) (st s1 : Inj)
    (himg : ImgOk img) (hs : ∀ src ∈ srcs, CleanSrc src)
    (hst : performCore w verbose img srcs = .ok st) (hl : injLoop w srcs ⟨img, 0, mute⟩ = .ok s1) : st.img = s1.img := by
  have hcore := C20.injLoop_core w w srcs (fun _ _ => rfl)
    ⟨img, 0, onBeginOfSide { processing := 2, verbose := verbose } 0⟩ ⟨img, 0, mute⟩ rfl
  unfold performCore at hst
  dsimp only at hst
  cases hl2 : injLoop w srcs ⟨img, 0, onBeginOfSide { processing := 2, verbose := verbose } 0⟩ with
  | error e => rw [hl2] at hst; cases hst
  | ok s2 =>
    rw [hl2] at hst hcore
    rw [hl] at hcore
    simp only [Except.map, Except.ok.injEq, C20.core, Prod.mk.injEq] at hcore
    dsimp only at hst
    split at hst
    · cases hu : usageOfSide s2.img s2.cur with
      | error e => rw [hu] at hst; cases hst
      | ok u =>
        rw [hu] at hst
        dsimp only at hst
        cases ht : injTail 4 { s2 with l := onEndOfSide s2.l u } with
        | error e => rw [ht] at hst; cases hst
        | ok s3 =>
          rw [ht] at hst
          cases hst
          have hok2 : ImgOk s2.img := by
            obtain ⟨x, hx, hxo⟩ := injLoop_ok w srcs ⟨img, 0, onBeginOfSide { processing := 2, verbose := verbose } 0⟩ hs himg
            rw [hl2] at hx; cases hx; exact hxo
          obtain ⟨s4, h4, h5⟩ := injTail_ok 4 { s2 with l := onEndOfSide s2.l u } hok2
          rw [ht] at h4
          cases h4
          rw [h5]
          exact hcore.1
    · cases hst; exact hcore.1

theorem fresh_room (B S : Nat) (hB : B ≤ 157) (hS : S ≤ 112) : Room ((List.replicate 4 blankSide).map initFileSystem) B S := by
  refine ⟨fresh_img_ok, freshBat, (fun _ => []), ?_, ?_, ?_⟩
  · have : ((List.replicate 4 blankSide).map initFileSystem).getD 0 [] = freshSide := by
      rw [List.getD_eq_getElem?_getD, List.getElem?_map, List.getElem?_replicate, if_pos (by omega)]
      simp only [Option.map_some, Option.getD_some, freshSide]
    rw [this]; exact fresh_inv
  · rw [fresh_counts.1]; exact hB
  · have : ((List.replicate 4 blankSide).map initFileSystem).getD 0 [] = freshSide := by
      rw [List.getD_eq_getElem?_getD, List.getElem?_map, List.getElem?_replicate, if_pos (by omega)]
      simp only [Option.map_some, Option.getD_some, freshSide]
    rw [this, fresh_counts.2]; omega

/-- **a batch that fits on the first side is stored there entirely**: when every source names a
    readable file with an 8.3 name, the blocks they need sum to at most 157 and there are at most 112
    of them, `--create` stores every one of them on side 0: the image holds exactly as many files as
    there are sources, sides 1–3 stay freshly formatted, and the cursor never leaves side 0 -/
theorem create_small_batch (w : Tape.World) (verbose : Bool) (items : List (Str × Bytes))
    (hall : ∀ p ∈ items, Storable w p.1 p.2) (hB : batchBlocks items ≤ 157) (hS : items.length ≤ 112) :
    ∃ st, performCore w verbose ((List.replicate 4 blankSide).map initFileSystem) (items.map (·.1)) = .ok st
      ∧ ImgOk st.img ∧ fileCount st.img = items.length
      ∧ (∀ k, 1 ≤ k → k < 4 → st.img.getD k [] = freshSide) := by
  obtain ⟨st, hst, hok, _, _⟩ := performCore_files w verbose _ (items.map (·.1)) fresh_img_ok
    (fun s hs => by obtain ⟨p, hp, rfl⟩ := List.mem_map.mp hs; exact (hall p hp).2.2.2.2.1)
  refine ⟨st, hst, hok, ?_⟩
  -- the image is the one the sources loop leaves
  obtain ⟨s1, hl, hc1, _, hcount, _, hsides⟩ := injLoop_side0 w items
    { img := (List.replicate 4 blankSide).map initFileSystem, cur := 0, l := mute } 0 0 rfl hall
    (by simpa using fresh_room (batchBlocks items) items.length hB hS)
  have hclean : ∀ s ∈ items.map (·.1), CleanSrc s := fun s hs => by
    obtain ⟨p, hp, rfl⟩ := List.mem_map.mp hs; exact (hall p hp).2.2.2.2.1
  have himgeq : st.img = s1.img := performCore_img w verbose _ _ st s1 fresh_img_ok hclean hst hl
  rw [himgeq]
  refine ⟨?_, ?_⟩
  · rw [hcount]
    have h0 : fileCount ((List.replicate 4 blankSide).map initFileSystem) = 0 := by
      unfold fileCount
      rw [List.countP_eq_zero]
      intro p hp
      obtain ⟨k, j⟩ := p
      obtain ⟨hk, hj⟩ := (mem_grid k j).mp hp
      dsimp only
      rw [fresh_no_file k j hk hj]
      simp
    dsimp only
    omega
  · intro k hk1 hk4
    rw [hsides k hk1]
    dsimp only
    rw [List.getD_eq_getElem?_getD, List.getElem?_map, List.getElem?_replicate, if_pos hk4]
    simp only [Option.map_some, Option.getD_some, freshSide]

end Moto.Disk
