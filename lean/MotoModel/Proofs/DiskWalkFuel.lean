/-
  The chain walk of the model uses a fuel of 160 steps; on a table the tools can load (every status
  valid) the fuel is never what stops it: the walk ends on a last-block marker, a free or reserved
  block, or a block already visited — as the `while` loop of the source does.
-/
import MotoModel.Proofs.DiskCount
import MotoModel.Proofs.DiskWriteRead
namespace Moto.Disk
open Moto

/-- number of blocks of the table already on the chain -/
def visited (acc : List Nat) : Nat := (List.range 160).countP fun b => acc.contains b

theorem visited_le (acc : List Nat) : visited acc ≤ 160 := by
  unfold visited
  have := List.countP_le_length (p := fun b => acc.contains b) (l := List.range 160)
  simpa using this

theorem visited_cons (acc : List Nat) (x : Nat) (hx : x < 160) (hn : acc.contains x = false) : visited (x :: acc) = visited acc + 1 := by
  unfold visited
  apply countP_point (List.range 160) List.nodup_range _ _ x (List.mem_range.mpr hx) hn
  · simp
  · intro y _ hne
    simp only [List.contains_eq_mem, List.mem_cons, decide_eq_decide]
    constructor
    · intro h; rcases h with h | h
      · exact absurd h hne
      · exact h
    · intro h; exact Or.inr h

/-- a valid status that is neither free, nor reserved, nor a last-block marker is a block number -/
theorem next_in_range (s : Nat) (hb : s < 256) (hv : validStatus s = true) (hf : isFree s = false) (hr : isReserved s = false) (hl : isLast s = false) : s < 160 := by
  unfold validStatus isFree isReserved isLast at *
  have c1 : Gen.Disk.bsMaxNext = 160 := rfl
  have c2 : Gen.Disk.bsMinLast = 193 := rfl
  have c3 : Gen.Disk.bsMaxLast = 201 := rfl
  have c4 : Gen.Disk.bsReserved = 254 := rfl
  have c5 : Gen.Disk.bsFree = 255 := rfl
  have c6 : Gen.Disk.bsLastBlock = 192 := rfl
  simp only [c1, c2, c3, c4, c5, c6] at *
  grind

theorem walkLoop_fuel (bat : List Nat) (hlen : bat.length = 160) (hvalid : bat.all validStatus = true) (hbytes : ∀ s ∈ bat, s < 256) :
    ∀ (fuel cur : Nat) (acc : List Nat), cur < 160 → isFree (bat.getD cur 0) = false → isReserved (bat.getD cur 0) = false →
      160 - visited acc < fuel → ∀ k, walkLoop bat (fuel + k) cur acc = walkLoop bat fuel cur acc := by
  intro fuel
  induction fuel with
  | zero => intro cur acc _ _ _ h; omega
  | succ f ih =>
    intro cur acc hcur hf hr hfuel k
    have e : f + 1 + k = (f + k) + 1 := by omega
    rw [e]
    simp only [walkLoop]
    split
    · rfl
    · rename_i hlast
      split
      · rfl
      · rename_i hstop
        simp only [Bool.or_eq_true, not_or, Bool.not_eq_true] at hstop
        obtain ⟨⟨hf', hr'⟩, hc'⟩ := hstop
        have hlast' : isLast (bat.getD cur 0) = false := by simpa using hlast
        have hmem : bat.getD cur 0 ∈ bat := by
          rw [List.getD_eq_getElem?_getD, List.getElem?_eq_getElem (by rw [hlen]; exact hcur)]
          simp
        have hv := List.all_eq_true.mp hvalid _ hmem
        have hn := next_in_range _ (hbytes _ hmem) hv hf hr hlast'
        apply ih _ _ hn hf' hr'
        have h1 := visited_le (bat.getD cur 0 :: acc)
        rw [visited_cons acc _ hn hc'] at h1 ⊢
        omega

/-- **the chain walk never stops for lack of fuel** on a table the tools can load -/
theorem walk_fuel_enough (sd : Side) (bat : List Nat) (hb : getBat sd = .ok bat) (hbytes : ∀ s ∈ bat, s < 256) (first : Nat) (hfirst : first < 160)
    (hf : isFree (bat.getD first 0) = false) (hr : isReserved (bat.getD first 0) = false) (k : Nat) :
    walkLoop bat (bat.length + k) first [first] = walkLoop bat bat.length first [first] := by
  have hlen := getBat_length sd bat hb
  rw [hlen]
  apply walkLoop_fuel bat hlen (getBat_valid sd bat hb) hbytes 160 first [first] hfirst hf hr
  have : visited [first] = 1 := by
    have := visited_cons [] first hfirst (by simp)
    rw [this]
    unfold visited
    simp
  omega

end Moto.Disk
