/-
  Basic facts about the disk model: slot arithmetic, usage counting, chosen blocks.
-/
import MotoModel.Model.DiskCli
namespace Moto.Disk
open Moto

theorem crs_pos (n k : Nat) (hk : 0 < k) (hn : 0 < n) :
    1 ≤ (computeRequiredSlots n k).1 ∧ 1 ≤ (computeRequiredSlots n k).2 ∧ (computeRequiredSlots n k).2 ≤ k
      ∧ k * ((computeRequiredSlots n k).1 - 1) + (computeRequiredSlots n k).2 = n := by
  unfold computeRequiredSlots
  have hd := Nat.div_add_mod n k
  have hm := Nat.mod_lt n hk
  generalize n / k = q at hd ⊢
  generalize n % k = r at hd hm ⊢
  by_cases h : r > 0
  · simp only [h, if_true]
    refine ⟨by omega, by omega, by omega, ?_⟩
    simp only [Nat.add_sub_cancel]; omega
  · simp only [h, if_false]
    have h0 : r = 0 := by omega
    have hq : 1 ≤ q := by
      rcases Nat.eq_zero_or_pos q with hz | hp
      · rw [hz] at hd; omega
      · exact hp
    refine ⟨hq, hk, Nat.le_refl _, ?_⟩
    have : k * (q - 1) + k = k * q := by
      have e : q = (q - 1) + 1 := by omega
      conv => rhs; rw [e, Nat.mul_add, Nat.mul_one]
    omega

/-- **size law**: the size a reader computes from the catalog and the table,
    `(8 (blocks-1) + sectorsOfLastBlock - 1) * 255 + bytesOfLastSector`, is the content length -/
theorem size_law (n : Nat) :
    1 ≤ reqBlocks n ∧ 1 ≤ lastSectorsOf n ∧ lastSectorsOf n ≤ 8 ∧ lastBytesOf n ≤ 255
      ∧ 8 * (reqBlocks n - 1) + lastSectorsOf n = reqSectors n
      ∧ 255 * (8 * (reqBlocks n - 1) + lastSectorsOf n - 1) + lastBytesOf n = n
      ∧ (0 < n → 1 ≤ lastBytesOf n) := by
  unfold reqBlocks lastSectorsOf lastBytesOf reqSectors layoutOf
  by_cases hn : n > 0
  · simp only [hn, if_true]
    obtain ⟨h1, h2, h3, h4⟩ := crs_pos n 255 (by omega) hn
    obtain ⟨g1, g2, g3, g4⟩ := crs_pos (computeRequiredSlots n 255).1 8 (by omega) h1
    refine ⟨g1, g2, g3, h3, g4, ?_, fun _ => h2⟩
    rw [g4]; exact h4
  · have : n = 0 := by omega
    subst this
    simp [computeRequiredSlots]

theorem walk_error (bat : List Nat) (first : Nat) (e : PyErr) (h : walk bat first = .error e) : e = .indexError := by
  unfold walk at h
  dsimp only at h
  split at h
  · cases h; rfl
  · split at h <;> cases h

theorem entryOfBytes_error (data : Bytes) (bat : List Nat) (e : PyErr) (h : entryOfBytes data bat = .error e) : e = .indexError := by
  unfold entryOfBytes at h
  dsimp only at h
  split at h
  · cases h
  · split at h
    · cases h
    · cases hw : walk bat ((recordOfBytes data).getD 13 0) with
      | error e' => rw [hw] at h; cases h; exact walk_error _ _ _ hw
      | ok bl => rw [hw] at h; cases h

theorem findSlot_error (bat : List Nat) (l : List (Nat × Nat × Bytes)) (e : PyErr) (h : findSlot bat l = .error e) : e = .indexError := by
  induction l with
  | nil => simp [findSlot] at h
  | cons x rest ih =>
    obtain ⟨s, st, data⟩ := x
    simp only [findSlot] at h
    cases he : entryOfBytes data bat with
    | error e' => rw [he] at h; cases h; exact entryOfBytes_error data bat e he
    | ok en =>
      rw [he] at h
      simp only at h
      split at h
      · cases h
      · exact ih h

theorem computeUsage_fold (bat : List Nat) : ∀ u : Usage,
    let r := bat.foldl (fun u s => if isFree s then { u with free := u.free + 1 }
                          else if isReserved s then { u with reserved := u.reserved + 1 }
                          else { u with used := u.used + 1 }) u
    r.used + r.reserved + r.free = u.used + u.reserved + u.free + bat.length := by
  induction bat with
  | nil => intro u; simp
  | cons s rest ih =>
    intro u
    simp only [List.foldl_cons, List.length_cons]
    split
    · have := ih { u with free := u.free + 1 }; simp only at this ⊢; omega
    · split
      · have := ih { u with reserved := u.reserved + 1 }; simp only at this ⊢; omega
      · have := ih { u with used := u.used + 1 }; simp only at this ⊢; omega

/-- free + used + reserved = number of blocks of the table -/
theorem usage_sum (bat : List Nat) :
    (computeUsage bat).used + (computeUsage bat).reserved + (computeUsage bat).free = bat.length := by
  have := computeUsage_fold bat ⟨0, 0, 0⟩
  simpa [computeUsage] using this

theorem getBat_length (sd : Side) (bat : List Nat) (h : getBat sd = .ok bat) : bat.length = 160 := by
  unfold getBat at h
  dsimp only at h
  split at h
  · cases h; simp [numBlocks]
  · cases h

theorem free_not_reserved (s : Nat) (h : isFree s = true) : isReserved s = false := by
  unfold isFree at h; unfold isReserved
  have : s = Gen.Disk.bsFree := by simpa using h
  subst this; decide

theorem chosen_free (bat : List Nat) (k : Nat) : ∀ b ∈ chosen bat k, b < bat.length ∧ isFree (bat.getD b 0) = true := by
  intro b hb
  have := List.mem_of_mem_take hb
  simp only [List.mem_filter, List.mem_range] at this
  exact this

theorem chosen_nodup (bat : List Nat) (k : Nat) : (chosen bat k).Nodup := by
  unfold chosen
  exact ((List.nodup_range).filter _).sublist (List.take_sublist _ _)

/-- reserved blocks — in particular blocks 40 and 41, which hold the table and the catalog —
    are never handed to a file -/
theorem chosen_never_reserved (bat : List Nat) (k : Nat) : ∀ b ∈ chosen bat k, isReserved (bat.getD b 0) = false :=
  fun b hb => free_not_reserved _ (chosen_free bat k b hb).2

/-- a table that does not show the blocks of track 20 as free is left as it is -/
theorem protect_id (bat : List Nat) (h40 : isFree (bat.getD 40 0) = false) (h41 : isFree (bat.getD 41 0) = false) : protect bat = bat := by
  unfold protect
  simp only [h40, h41, Bool.false_eq_true, if_false]

theorem free_reserved_false : isFree Gen.Disk.bsReserved = false := by decide

/-- **whatever the table says, the blocks of track 20 are never chosen for a file** -/
theorem protect_track20 (bat : List Nat) (hlen : 41 < bat.length) :
    isFree ((protect bat).getD 40 0) = false ∧ isFree ((protect bat).getD 41 0) = false := by
  unfold protect
  by_cases h40 : isFree (bat.getD 40 0) = true
  · by_cases h41 : isFree (bat.getD 41 0) = true
    · have e1 : (bat.set 40 Gen.Disk.bsReserved).getD 41 0 = bat.getD 41 0 := by
        rw [List.getD_eq_getElem?_getD, List.getD_eq_getElem?_getD, List.getElem?_set_ne (by omega)]
      simp only [h40, if_true, e1, h41]
      constructor
      · rw [List.getD_eq_getElem?_getD, List.getElem?_set_ne (by omega), List.getElem?_set_self (by omega)]
        exact free_reserved_false
      · rw [List.getD_eq_getElem?_getD, List.getElem?_set_self (by simp; omega)]
        exact free_reserved_false
    · have h41' : isFree (bat.getD 41 0) = false := by simpa using h41
      have e1 : (bat.set 40 Gen.Disk.bsReserved).getD 41 0 = bat.getD 41 0 := by
        rw [List.getD_eq_getElem?_getD, List.getD_eq_getElem?_getD, List.getElem?_set_ne (by omega)]
      simp only [h40, if_true, e1, h41', Bool.false_eq_true, if_false]
      refine ⟨?_, trivial⟩
      rw [List.getD_eq_getElem?_getD, List.getElem?_set_self (by omega)]
      exact free_reserved_false
  · have h40' : isFree (bat.getD 40 0) = false := by simpa using h40
    simp only [h40', Bool.false_eq_true, if_false]
    by_cases h41 : isFree (bat.getD 41 0) = true
    · simp only [h41, if_true]
      constructor
      · rw [List.getD_eq_getElem?_getD, List.getElem?_set_ne (by omega)]
        rw [← List.getD_eq_getElem?_getD]; exact h40'
      · rw [List.getD_eq_getElem?_getD, List.getElem?_set_self (by omega)]
        exact free_reserved_false
    · have h41' : isFree (bat.getD 41 0) = false := by simpa using h41
      simp only [h41', Bool.false_eq_true, if_false]
      exact ⟨h40', trivial⟩

/-- the block count the injector announces, in closed form -/
theorem reqBlocks_formula (n : Nat) : reqBlocks n = (max 1 ((n + 254) / 255) + 7) / 8 := by
  obtain ⟨h1, h2, h3, h4, h5, h6, h7⟩ := size_law n
  by_cases hn : 0 < n
  · have := h7 hn
    omega
  · have : n = 0 := by omega
    subst this
    simp [reqBlocks, layoutOf, computeRequiredSlots]

end Moto.Disk
