/-
  The tool's reading of a source argument (`rfind`-based index arithmetic: `Tape.classify`, `Disk.splitSource`) is the
  naming rule of `Spec/Names.lean` (last component, last dot, upper case, 8 + 3), for every argument string.
-/
import MotoModel.Spec.Names
import MotoModel.Proofs.PathSpelling
import MotoModel.Proofs.Digits
namespace Moto
open Moto.Spec.Names

theorem dropWhile_all_append {p : Nat → Bool} : ∀ (a : Str) (c : Nat) (r : Str), (∀ x ∈ a, p x = true) → p c = false →
    (a ++ c :: r).dropWhile p = c :: r
  | [], c, r, _, hc => by simp [List.dropWhile_cons, hc]
  | x :: xs, c, r, ha, hc => by
    simp only [List.cons_append, List.dropWhile_cons, ha x (by simp), if_true]
    exact dropWhile_all_append xs c r (fun y hy => ha y (by simp [hy])) hc

theorem ne_of_not_mem {c : Nat} {l : Str} (h : c ∉ l) : ∀ x ∈ l.reverse, (x != c) = true := by
  intro x hx
  have : x ∈ l := List.mem_reverse.mp hx
  simp only [bne_iff_ne, ne_eq]
  intro e; subst e; exact h this

/-- the last component of `dir/…/base` is `base` -/
theorem baseName_split (pre base : Str) (hp : DirPrefix pre) (hb : 47 ∉ base) : baseName (pre ++ base) = base := by
  unfold baseName
  rw [List.reverse_append]
  rcases hp with rfl | ⟨d, rfl⟩
  · simp only [List.reverse_nil, List.append_nil]
    rw [takeWhileB_all _ (ne_of_not_mem hb), List.reverse_reverse]
  · rw [List.reverse_append, List.reverse_singleton, List.singleton_append,
      takeWhileB_all_append _ 47 _ (ne_of_not_mem hb) (by decide), List.reverse_reverse]

theorem stemExt_nodot (b : Str) (h : 46 ∉ b) : stemExt b = (b, none) := by
  unfold stemExt
  rw [if_neg (by simpa using h)]

theorem stemExt_dot (p post : Str) (h : 46 ∉ post) : stemExt (p ++ 46 :: post) = (p, some post) := by
  unfold stemExt
  rw [if_pos (by simp)]
  have hr : (p ++ 46 :: post).reverse = post.reverse ++ 46 :: p.reverse := by simp
  rw [hr, takeWhileB_all_append _ 46 _ (ne_of_not_mem h) (by decide), dropWhile_all_append _ 46 _ (ne_of_not_mem h) (by decide)]
  simp

theorem take_len_sub_two (l : Str) : l.take (l.length - 2) = l.dropLast.dropLast := by
  rw [List.dropLast_eq_take, List.dropLast_eq_take, List.take_take]
  congr 1
  simp only [List.length_take]
  omega

theorem dropLast2_append (pre base : Str) (h : 2 ≤ base.length) : (pre ++ base).dropLast.dropLast = pre ++ base.dropLast.dropLast := by
  rw [← take_len_sub_two, ← take_len_sub_two, List.length_append, List.take_append]
  have e1 : pre.length + base.length - 2 - pre.length = base.length - 2 := by omega
  rw [e1, List.take_of_length_le (by omega)]

open Moto.Tape in
/-- the rule for a base name (no '/') -/
theorem classify_base (base : Str) (hb : 47 ∉ base) :
    classify base = ({ name := (tapeSource base).name, ext := (tapeSource base).ext, kind := (tapeSource base).kind,
                       mode := (tapeSource base).mode }, (tapeSource base).path) := by
  have hbn : baseName base = base := by simpa using baseName_split [] base (Or.inl rfl) hb
  have h0 : afterLast 47 base = 0 := by simpa using afterLast_prefix [] base (Or.inl rfl) hb
  unfold classify classifyRaw tapeSource
  rw [hbn, h0]
  rcases rfind_split 46 base with ⟨hnone, hno⟩ | ⟨i, hsome, p, post, hsplit, hlen, hpost⟩
  · rw [hnone, stemExt_nodot base hno]
    simp only [field]
    rw [basename_upper_nodir base hb]
    simp
  · rw [hsome]
    have hp47 : 47 ∉ p := fun h => hb (by rw [hsplit]; exact List.mem_append_left _ h)
    have htake : base.take i = p := by rw [hsplit, ← hlen]; simp
    have hdrop : base.drop (i + 1) = post := by
      rw [hsplit, ← hlen, List.drop_append]
      simp
    rw [hsplit, stemExt_dot p post hpost, ← hsplit]
    simp only [htake, hdrop, basename_upper_nodir p hp47, field]
    have htt : ∀ (s : Str), (if s.length > 8 then s.take 8 else s).take 8 = s.take 8 := by
      intro s; split
      · rw [List.take_take]; simp
      · rfl
    by_cases hA : upper post = str "BAS,A"
    · have hA' : upper post = basA := by rw [hA]; decide
      rw [if_pos hA]
      simp only [hA', htt, take_len_sub_two, Spec.K7.kindMode, basA, if_true]
      simp [str]
    · have hA' : ¬ upper post = basA := by intro e; apply hA; rw [e]; decide
      rw [if_neg hA]
      by_cases hB : upper post = str "BAS"
      · have hB' : upper post = [66, 65, 83] := by rw [hB]; decide
        rw [if_pos hB]
        simp only [htt, Spec.K7.kindMode, hB', if_true, if_neg hA']
        simp [basA]
      · have hB' : ¬ upper post = [66, 65, 83] := by intro e; apply hB; rw [e]; decide
        rw [if_neg hB]
        by_cases hC : upper post = str "CSV"
        · have hC' : upper post = [67, 83, 86] := by rw [hC]; decide
          rw [if_pos hC]
          simp only [htt, Spec.K7.kindMode, hC', if_neg hA']
          simp [basA]
        · have hC' : ¬ upper post = [67, 83, 86] := by intro e; apply hC; rw [e]; decide
          have hA'' : ¬ upper post = [66, 65, 83, 44, 65] := hA'
          rw [if_neg hC]
          simp only [htt, Spec.K7.kindMode, if_neg hA', if_neg hB', if_neg hC', if_neg hA'']

open Moto.Tape in
/-- **the tape archiver's reading of a source argument is the naming rule** — for every argument string: the name is 8
    characters of the upper-cased stem of the last path component, the extension 3 characters of what follows its last dot,
    kind and mode come from the documented table, the file read is the argument (minus the option `,a`) -/
theorem classify_eq_spec (src : Str) :
    classify src = ({ name := (tapeSource src).name, ext := (tapeSource src).ext, kind := (tapeSource src).kind,
                      mode := (tapeSource src).mode }, (tapeSource src).path) := by
  obtain ⟨pre, base, rfl, hp, hb⟩ := path_split src
  obtain ⟨h1, h2⟩ := classify_prefix pre base hp hb
  have hbase := classify_base base hb
  have hspec : (tapeSource (pre ++ base)).name = (tapeSource base).name ∧ (tapeSource (pre ++ base)).ext = (tapeSource base).ext
      ∧ (tapeSource (pre ++ base)).kind = (tapeSource base).kind ∧ (tapeSource (pre ++ base)).mode = (tapeSource base).mode
      ∧ (tapeSource (pre ++ base)).path = pre ++ (tapeSource base).path := by
    have hbn : baseName base = base := by simpa using baseName_split [] base (Or.inl rfl) hb
    unfold tapeSource
    rw [baseName_split pre base hp hb, hbn]
    rcases rfind_split 46 base with ⟨_, hno⟩ | ⟨i, _, p, post, hsplit, _, hpost⟩
    · rw [stemExt_nodot base hno]
      exact ⟨rfl, rfl, rfl, rfl, rfl⟩
    · rw [hsplit, stemExt_dot p post hpost]
      refine ⟨rfl, rfl, rfl, rfl, ?_⟩
      simp only
      by_cases hA : upper post = basA
      · rw [if_pos hA, if_pos hA]
        have hl : post.length = 5 := by
          have := congrArg List.length hA
          simpa [upper, basA] using this
        exact dropLast2_append pre _ (by simp; omega)
      · rw [if_neg hA, if_neg hA]
  obtain ⟨s1, s2, s3, s4, s5⟩ := hspec
  rw [s1, s2, s3, s4, s5]
  apply Prod.ext
  · rw [h1, hbase]
  · rw [h2, hbase]

/-! ### disk archivers -/

theorem hasOption_eq (src : Str) : hasOption src = decide (upper (src.drop (src.length - 2)) = Tape.str ",A") := by
  unfold hasOption
  rw [List.take_reverse, List.reverse_reverse]
  have : Tape.str ",A" = [44, 65] := by decide
  rw [this]
  by_cases h : upper (src.drop (src.length - 2)) = [44, 65]
  · simp [h]
  · simp [h]

/-- an argument that ends with the option: the option sits in what follows the last dot -/
theorem option_in_extension (p post : Str) (h : upper ((p ++ 46 :: post).drop ((p ++ 46 :: post).length - 2)) = Tape.str ",A") :
    2 ≤ post.length := by
  by_cases hl : 2 ≤ post.length
  · exact hl
  · exfalso
    have hcases : post.length = 0 ∨ post.length = 1 := by omega
    rcases hcases with h0 | h1
    · have hp0 : post = [] := List.eq_nil_of_length_eq_zero h0
      subst hp0
      have hlast := congrArg List.getLast? h
      have : (p ++ [46]).drop ((p ++ [46]).length - 2) = p.drop (p.length - 1) ++ [46] := by
        rw [List.drop_append]
        simp only [List.length_append, List.length_singleton]
        have e1 : p.length + 1 - 2 - p.length = 0 := by omega
        have e2 : p.length + 1 - 2 = p.length - 1 := by omega
        rw [e1, e2]; rfl
      rw [this, upper_append] at hlast
      simp [upper, upperC, Tape.str] at hlast
    · obtain ⟨b, rfl⟩ : ∃ b, post = [b] := by
        match post, h1 with
        | [b], _ => exact ⟨b, rfl⟩
      have : (p ++ [46, b]).drop ((p ++ [46, b]).length - 2) = [46, b] := by
        rw [List.drop_append]
        simp only [List.length_append, List.length_cons, List.length_nil]
        have e1 : p.length + (0 + 1 + 1) - 2 - p.length = 0 := by omega
        have e2 : p.length + (0 + 1 + 1) - 2 = p.length := by omega
        rw [e1, e2, List.drop_length]; rfl
      rw [this] at h
      have hfirst := congrArg List.head? h
      simp [upper, upperC, Tape.str] at hfirst

open Moto.Disk in
/-- the rule for a base name (no '/') -/
theorem splitSource_base (base : Str) (hb : 47 ∉ base) :
    splitSource base = ((diskSource base).name, (diskSource base).ext, (diskSource base).extWithOption, (diskSource base).path) := by
  have hbn : baseName base = base := by simpa using baseName_split [] base (Or.inl rfl) hb
  have h0 : afterLast 47 base = 0 := by simpa using afterLast_prefix [] base (Or.inl rfl) hb
  unfold splitSource diskSource
  rw [hbn, h0, hasOption_eq]
  simp only [decide_eq_true_eq, take_len_sub_two]
  rcases rfind_split 46 base with ⟨hnone, hno⟩ | ⟨i, hsome, p, post, hsplit, hlen, hpost⟩
  · rw [hnone, stemExt_nodot base hno]
    simp only
    rw [basename_upper_nodir base hb]
  · rw [hsome]
    have hp47 : 47 ∉ p := fun h => hb (by rw [hsplit]; exact List.mem_append_left _ h)
    have htake : base.take i = p := by rw [hsplit, ← hlen]; simp
    have hdrop : base.drop (i + 1) = post := by
      rw [hsplit, ← hlen, List.drop_append]
      simp
    rw [hsplit, stemExt_dot p post hpost, ← hsplit]
    simp only [htake, hdrop, basename_upper_nodir p hp47]
    by_cases hA : upper (base.drop (base.length - 2)) = Tape.str ",A"
    · simp only [if_pos hA]
      have h2 : 2 ≤ post.length := option_in_extension p post (by rw [← hsplit]; exact hA)
      have : (base.dropLast.dropLast).drop (i + 1) = post.dropLast.dropLast := by
        have hb2 : base.dropLast.dropLast = (p ++ [46]) ++ post.dropLast.dropLast := by
          rw [hsplit, show p ++ 46 :: post = (p ++ [46]) ++ post by simp]
          exact dropLast2_append _ post h2
        rw [hb2, ← hlen, List.drop_append]
        simp
      rw [this]
    · simp only [if_neg hA, hdrop]

open Moto.Disk in
/-- **the disk archivers' reading of a source argument is the naming rule** — for every argument string -/
theorem splitSource_eq_spec (src : Str) :
    splitSource src = ((diskSource src).name, (diskSource src).ext, (diskSource src).extWithOption, (diskSource src).path) := by
  obtain ⟨pre, base, rfl, hp, hb⟩ := path_split src
  obtain ⟨h1, h2, h3, h4⟩ := splitSource_prefix pre base hp hb
  have hbase := splitSource_base base hb
  have hopt : hasOption (pre ++ base) = hasOption base := by
    rw [hasOption_eq, hasOption_eq]
    exact hasA_prefix pre base hp
  have hspec : (diskSource (pre ++ base)).name = (diskSource base).name ∧ (diskSource (pre ++ base)).ext = (diskSource base).ext
      ∧ (diskSource (pre ++ base)).extWithOption = (diskSource base).extWithOption
      ∧ (diskSource (pre ++ base)).path = pre ++ (diskSource base).path := by
    have hbn : baseName base = base := by simpa using baseName_split [] base (Or.inl rfl) hb
    have hpath : (if hasOption base = true then (pre ++ base).dropLast.dropLast else pre ++ base)
        = pre ++ (if hasOption base = true then base.dropLast.dropLast else base) := by
      by_cases hA : hasOption base = true
      · rw [if_pos hA, if_pos hA]
        have h2 : 2 ≤ base.length := by
          rw [hasOption_eq] at hA
          exact hasA_len base (by simpa using hA)
        exact dropLast2_append pre base h2
      · rw [if_neg hA, if_neg hA]
    unfold diskSource
    rw [baseName_split pre base hp hb, hbn]
    simp only [hopt]
    rcases rfind_split 46 base with ⟨_, hno⟩ | ⟨i, _, p, post, hsplit, _, hpost⟩
    · rw [stemExt_nodot base hno]
      exact ⟨rfl, rfl, rfl, hpath⟩
    · have hse : stemExt base = (p, some post) := by rw [hsplit]; exact stemExt_dot p post hpost
      rw [hse]
      exact ⟨rfl, rfl, rfl, hpath⟩
  obtain ⟨s1, s2, s3, s4⟩ := hspec
  rw [s1, s2, s3, s4]
  apply Prod.ext
  · rw [h1, hbase]
  · apply Prod.ext
    · rw [h2, hbase]
    · apply Prod.ext
      · rw [h3, hbase]
      · rw [h4, hbase]

end Moto
