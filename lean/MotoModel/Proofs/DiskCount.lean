/-
  The totals of a create/add report: the number of files announced stored is the number of files
  the image gained.
-/
import MotoModel.Proofs.DiskReport
namespace Moto.Disk
open Moto Moto.Tape

def grid : List (Nat × Nat) := (List.range 4).flatMap fun k => (List.range 112).map fun j => (k, j)

/-- number of catalog slots of the image that hold a file -/
def fileCount (img : Image) : Nat := grid.countP fun p => (imgFileAt img p.1 p.2).isSome

theorem mem_grid (k j : Nat) : (k, j) ∈ grid ↔ k < 4 ∧ j < 112 := by
  unfold grid
  simp only [List.mem_flatMap, List.mem_range, List.mem_map, Prod.mk.injEq]
  constructor
  · rintro ⟨a, ha, b, hb, rfl, rfl⟩; exact ⟨ha, hb⟩
  · rintro ⟨hk, hj⟩; exact ⟨k, hk, j, hj, rfl, rfl⟩

theorem grid_nodup : grid.Nodup := by decide +kernel  -- 448 points

theorem countP_congr' {α} (l : List α) (f g : α → Bool) (h : ∀ x ∈ l, f x = g x) : l.countP f = l.countP g := by
  induction l with
  | nil => rfl
  | cons x xs ih =>
    simp only [List.countP_cons, h x (by simp), ih (fun y hy => h y (by simp [hy]))]

/-- changing a predicate from false to true at one point of a duplicate-free list adds one -/
theorem countP_point {α} [DecidableEq α] (l : List α) (hnd : l.Nodup) (f g : α → Bool) (x0 : α) (hx : x0 ∈ l)
    (hf : f x0 = false) (hg : g x0 = true) (hother : ∀ x ∈ l, x ≠ x0 → g x = f x) : l.countP g = l.countP f + 1 := by
  induction l with
  | nil => simp at hx
  | cons x xs ih =>
    have hnd' := (List.nodup_cons.mp hnd).2
    have hxn := (List.nodup_cons.mp hnd).1
    simp only [List.countP_cons]
    by_cases hxx : x = x0
    · subst hxx
      rw [hf, hg]
      have : xs.countP g = xs.countP f := countP_congr' xs g f (fun y hy => hother y (by simp [hy]) (fun e => hxn (e ▸ hy)))
      rw [this]; simp
    · have hx' : x0 ∈ xs := by
        rcases List.mem_cons.mp hx with h | h
        · exact absurd h.symm hxx
        · exact h
      rw [ih hnd' hx' (fun y hy hne => hother y (by simp [hy]) hne), hother x (by simp) hxx]
      omega

theorem fileCount_same (a b : Image) (h : ∀ k j, k < 4 → j < 112 → imgFileAt b k j = imgFileAt a k j) : fileCount b = fileCount a := by
  unfold fileCount
  apply countP_congr'
  intro p hp
  obtain ⟨k, j⟩ := p
  obtain ⟨hk, hj⟩ := (mem_grid k j).mp hp
  dsimp only
  rw [h k j hk hj]

/-- one offered file changes the number of files of the image by one if it is stored, by nothing if not -/
theorem OneStep.count {a b : Image} {name ext : Str} {kind flag : Nat} {data : Bytes} (h : OneStep a b name ext kind flag data) :
    ((∀ k j, k < 4 → j < 112 → imgFileAt b k j = imgFileAt a k j) ∧ fileCount b = fileCount a)
    ∨ ((∃ k i0 r, k < 4 ∧ i0 < 112 ∧ imgFileAt a k i0 = none ∧ imgFileAt b k i0 = some (r, data)) ∧ fileCount b = fileCount a + 1) := by
  rcases h with hall | ⟨k, i0, hk, hi0, hnone, ⟨r, hnew, _⟩, hother⟩
  · left; exact ⟨hall, fileCount_same a b hall⟩
  · right
    refine ⟨⟨k, i0, r, hk, hi0, hnone, hnew⟩, ?_⟩
    unfold fileCount
    apply countP_point grid grid_nodup _ _ (k, i0) ((mem_grid k i0).mpr ⟨hk, hi0⟩)
    · dsimp only; rw [hnone]; rfl
    · dsimp only; rw [hnew]; rfl
    · intro p hp hne
      obtain ⟨k', j⟩ := p
      obtain ⟨hk', hj⟩ := (mem_grid k' j).mp hp
      dsimp only
      rw [hother k' j hk' hj (fun hc => hne (by rw [hc.1, hc.2]))]

/-! ### the listener's total -/

theorem onBeginOfFile_total (l : DL) (ev : FileEv) : (onBeginOfFile l ev).filesAll = l.filesAll ∧ (onBeginOfFile l ev).resetNext = l.resetNext := by
  obtain ⟨p, v, nl, sides, f1, fa, b1, ba, rn, out⟩ := l
  unfold onBeginOfFile DL.retLine DL.put DL.print
  cases nl <;> cases v <;> simp

theorem onEndOfFile_total (l : DL) (ev : FileEv) : (onEndOfFile l ev).filesAll = l.filesAll + 1 ∧ (onEndOfFile l ev).resetNext = l.resetNext := by
  obtain ⟨p, v, nl, sides, f1, fa, b1, ba, rn, out⟩ := l
  unfold onEndOfFile DL.retLine DL.print
  cases nl <;> cases v <;> by_cases hp : p = 0 <;> simp [hp]

theorem onAbortFile_total (l : DL) (m : Str) : (onAbortFile l m).filesAll = l.filesAll ∧ (onAbortFile l m).resetNext = l.resetNext := by
  simp [onAbortFile, DL.print]

theorem onBeforeBeginOfFile_total (l : DL) (m : Str) : (onBeforeBeginOfFile l m).filesAll = l.filesAll ∧ (onBeforeBeginOfFile l m).resetNext = l.resetNext := by
  simp [onBeforeBeginOfFile, DL.print]

theorem onEndOfSide_total (l : DL) (u : Usage) : (onEndOfSide l u).filesAll = l.filesAll ∧ (onEndOfSide l u).resetNext = l.resetNext := by
  obtain ⟨p, v, nl, sides, f1, fa, b1, ba, rn, out⟩ := l
  unfold onEndOfSide DL.retLine DL.print
  cases nl <;> cases v <;> by_cases hp : p = 0 <;> simp [hp]

theorem onBeginOfSide_total (l : DL) (hr : l.resetNext = false) (i : Nat) : (onBeginOfSide l i).filesAll = l.filesAll ∧ (onBeginOfSide l i).resetNext = false := by
  obtain ⟨p, v, nl, sides, f1, fa, b1, ba, rn, out⟩ := l
  simp only at hr
  subst hr
  unfold onBeginOfSide DL.retLine DL.print
  cases nl <;> simp only [Bool.false_eq_true, if_false, if_true] <;> (repeat' split) <;> exact ⟨rfl, rfl⟩

/-- the listener's total and the image move together -/
def Balanced (base : Nat) (st : Inj) : Prop := st.l.filesAll + base = fileCount st.img ∧ st.l.resetNext = false

theorem stored_count (img : Image) (h4 : img.length = 4) (cur : Nat) (hcur : cur < 4) {bat : List Nat} {own : Nat → List Nat}
    (inv : SideInv (img.getD cur []) bat own) (data : Bytes) (name ext : Str) (kind flag : Nat) (hname : ∀ c ∈ name, c ≠ 0xFF)
    (sd' : Side) (hw : writeFile (img.getD cur []) data name ext kind flag = .ok sd') :
    fileCount (img.set cur sd') = fileCount img + 1 := by
  rcases writeFile_files inv data name ext kind flag hname with ⟨sd2, i1, hw2, hi1, hnone, hnew, hother⟩ | ⟨sd2, msg2, hw2, _⟩
  · rw [hw] at hw2
    cases hw2
    unfold fileCount
    apply countP_point grid grid_nodup _ _ (cur, i1) ((mem_grid cur i1).mpr ⟨hcur, hi1⟩)
    · dsimp only; unfold imgFileAt; rw [hnone]; rfl
    · dsimp only; rw [imgFileAt_set_same _ h4 _ hcur, hnew]; rfl
    · intro p hp hne
      obtain ⟨k', j⟩ := p
      obtain ⟨hk', hj⟩ := (mem_grid k' j).mp hp
      dsimp only
      by_cases hkk : cur = k'
      · subst hkk
        rw [imgFileAt_set_same _ h4 _ hcur, hother j hj (fun e => hne (by rw [e]))]
        rfl
      · rw [imgFileAt_set_other _ _ _ hkk]
  · rw [hw] at hw2; cases hw2

theorem refused_count (img : Image) (h4 : img.length = 4) (cur : Nat) (hcur : cur < 4) {bat : List Nat} {own : Nat → List Nat}
    (inv : SideInv (img.getD cur []) bat own) (data : Bytes) (name ext : Str) (kind flag : Nat) (hname : ∀ c ∈ name, c ≠ 0xFF)
    (sd' : Side) (e : PyErr) (hw : writeFile (img.getD cur []) data name ext kind flag = .raised e sd') :
    fileCount (img.set cur sd') = fileCount img := by
  rcases writeFile_files inv data name ext kind flag hname with ⟨sd2, _, hw2, _⟩ | ⟨sd2, msg2, hw2, hall⟩
  · rw [hw] at hw2; cases hw2
  · rw [hw] at hw2
    cases hw2
    apply fileCount_same
    intro k j hk hj
    by_cases hkk : cur = k
    · subst hkk
      rw [imgFileAt_set_same _ h4 _ hcur]
      exact hall j hj
    · exact imgFileAt_set_other _ _ _ hkk _ _

theorem injWriteFile_balanced (base : Nat) (name ext : Str) (kind flag : Nat) (data : Bytes) (hname : ∀ c ∈ name, c ≠ 0xFF) :
    ∀ (fuel : Nat) (st : Inj), ImgOk st.img → Balanced base st →
      ∃ st', injWriteFile name ext kind flag data fuel st = .ok st' ∧ ImgOk st'.img ∧ Balanced base st' := by
  intro fuel
  induction fuel with
  | zero => intro st h hb; exact ⟨st, rfl, h, hb⟩
  | succ fuel ih =>
    intro st h hb
    simp only [injWriteFile]
    by_cases hc : st.cur ≥ 4
    · rw [if_pos hc]; exact ⟨st, rfl, h, hb⟩
    · rw [if_neg hc]
      have hcur : st.cur < 4 := by omega
      obtain ⟨bat, own, inv⟩ := h.2 st.cur hcur
      rcases writeFile_inv inv data name ext kind flag hname with ⟨sd', i0, hw, _, _, inv', _⟩ | ⟨sd', msg, hw, inv', _⟩
      · rw [hw]
        refine ⟨_, rfl, h.set _ _ ⟨_, _, inv'⟩, ?_, ?_⟩
        · dsimp only
          rw [(onEndOfFile_total _ _).1, (onBeginOfFile_total _ _).1, stored_count st.img h.1 st.cur hcur inv data name ext kind flag hname sd' hw]
          have := hb.1
          omega
        · dsimp only
          rw [(onEndOfFile_total _ _).2, (onBeginOfFile_total _ _).2]; exact hb.2
      · rw [hw]
        dsimp only
        have himg : ImgOk (st.img.set st.cur sd') := h.set _ _ ⟨_, _, inv'⟩
        obtain ⟨u, hu⟩ := usageOfSide_ok himg st.cur hcur
        rw [hu]
        dsimp only
        have hcnt := refused_count st.img h.1 st.cur hcur inv data name ext kind flag hname sd' _ hw
        by_cases hn : st.cur + 1 ≥ 4
        · rw [if_pos hn]
          refine ⟨_, rfl, himg, ?_, ?_⟩
          · dsimp only
            rw [(onEndOfSide_total _ _).1, (onAbortFile_total _ _).1, (onBeginOfFile_total _ _).1, hcnt]; exact hb.1
          · dsimp only
            rw [(onEndOfSide_total _ _).2, (onAbortFile_total _ _).2, (onBeginOfFile_total _ _).2]; exact hb.2
        · rw [if_neg hn]
          apply ih _ himg
          have hr : (onEndOfSide (onAbortFile (onBeginOfFile st.l
              { name := name, ext := ext, tof := tofString kind, tod := todString kind flag, bytes := data.length,
                blocks := (max 1 ((data.length + 254) / 255) + 7) / 8 }) (str "too big")) u).resetNext = false := by
            rw [(onEndOfSide_total _ _).2, (onAbortFile_total _ _).2, (onBeginOfFile_total _ _).2]; exact hb.2
          constructor
          · dsimp only
            rw [(onBeginOfSide_total _ hr _).1, (onEndOfSide_total _ _).1, (onAbortFile_total _ _).1, (onBeginOfFile_total _ _).1, hcnt]; exact hb.1
          · dsimp only
            exact (onBeginOfSide_total _ hr _).2

theorem injFile_balanced (base : Nat) (w : Tape.World) (src : Str) (hsrc : CleanSrc src) (st : Inj) (h : ImgOk st.img) (hb : Balanced base st) :
    ∃ st' b, injFile w src st = .ok (st', b) ∧ ImgOk st'.img ∧ Balanced base st' := by
  unfold injFile
  have hname := splitSource_name_clean src hsrc
  generalize splitSource src = sp at hname
  obtain ⟨fileName, fileExtension, extWithOption, cleanSrc⟩ := sp
  dsimp only at hname ⊢
  have hmsg : ∀ m, Balanced base { st with l := onBeforeBeginOfFile st.l m } := by
    intro m
    exact ⟨by dsimp only; rw [(onBeforeBeginOfFile_total _ _).1]; exact hb.1, by dsimp only; rw [(onBeforeBeginOfFile_total _ _).2]; exact hb.2⟩
  cases w cleanSrc with
  | none => exact ⟨_, _, rfl, h, hmsg _⟩
  | some data =>
    dsimp only
    split
    · exact ⟨_, _, rfl, h, hmsg _⟩
    · split
      · exact ⟨_, _, rfl, h, hmsg _⟩
      · split
        · exact ⟨_, _, rfl, h, hmsg _⟩
        · obtain ⟨st', hst', hok, hbal⟩ := injWriteFile_balanced base fileName (dispatch fileName fileExtension extWithOption).2.2
            (dispatch fileName fileExtension extWithOption).1 (dispatch fileName fileExtension extWithOption).2.1 data hname 4 st h hb
          rw [hst']
          exact ⟨_, _, rfl, hok, hbal⟩

theorem injLoop_balanced (base : Nat) (w : Tape.World) : ∀ (srcs : List Str) (st : Inj), (∀ src ∈ srcs, CleanSrc src) → ImgOk st.img →
    Balanced base st → ∃ st', injLoop w srcs st = .ok st' ∧ ImgOk st'.img ∧ Balanced base st' := by
  intro srcs
  induction srcs with
  | nil => intro st _ h hb; exact ⟨st, rfl, h, hb⟩
  | cons src rest ih =>
    intro st hs h hb
    simp only [injLoop]
    split
    · obtain ⟨u, hu⟩ := usageOfSide_any h st.cur
      rw [hu]
      dsimp only
      have hr : (onEndOfSide st.l u).resetNext = false := by rw [(onEndOfSide_total _ _).2]; exact hb.2
      split
      · exact ⟨_, rfl, h, by dsimp only; rw [(onEndOfSide_total _ _).1]; exact hb.1, hr⟩
      · refine ih { st with cur := st.cur + 1, l := onBeginOfSide (onEndOfSide st.l u) (st.cur + 1) } (fun s hm => hs s (by simp [hm])) h ?_
        exact ⟨by dsimp only; rw [(onBeginOfSide_total _ hr _).1, (onEndOfSide_total _ _).1]; exact hb.1, (onBeginOfSide_total _ hr _).2⟩
    · obtain ⟨st', b, hst', hok, hbal⟩ := injFile_balanced base w src (hs src (by simp)) st h hb
      rw [hst']
      dsimp only
      split
      · exact ⟨_, rfl, hok, hbal⟩
      · exact ih _ (fun s hm => hs s (by simp [hm])) hok hbal

theorem injTail_balanced (base : Nat) : ∀ (fuel : Nat) (st : Inj), ImgOk st.img → Balanced base st →
    ∃ st', injTail fuel st = .ok st' ∧ st'.img = st.img ∧ Balanced base st' := by
  intro fuel
  induction fuel with
  | zero => intro st _ hb; exact ⟨st, rfl, rfl, hb⟩
  | succ fuel ih =>
    intro st h hb
    simp only [injTail]
    split
    · obtain ⟨u, hu⟩ := usageOfSide_any h (st.cur + 1)
      rw [hu]
      dsimp only
      have hr := (onBeginOfSide_total st.l hb.2 (st.cur + 1))
      obtain ⟨st', h1, h2, h3⟩ := ih { st with cur := st.cur + 1, l := onEndOfSide (onBeginOfSide st.l (st.cur + 1)) u } h
        ⟨by dsimp only; rw [(onEndOfSide_total _ _).1, hr.1]; exact hb.1, by dsimp only; rw [(onEndOfSide_total _ _).2]; exact hr.2⟩
      exact ⟨st', h1, h2, h3⟩
    · exact ⟨st, rfl, rfl, hb⟩

/-- **the total of a create/add report**: the number of files the closing line announces is the
    number of files the image gained -/
theorem performCore_total (w : Tape.World) (verbose : Bool) (img : Image) (srcs : List Str)
    (himg : ImgOk img) (hs : ∀ src ∈ srcs, CleanSrc src) :
    ∃ st, performCore w verbose img srcs = .ok st ∧ ImgOk st.img ∧ st.l.filesAll + fileCount img = fileCount st.img := by
  unfold performCore
  dsimp only
  have hb0 : Balanced (fileCount img) { img := img, cur := 0, l := onBeginOfSide { processing := 2, verbose := verbose } 0 } := by
    have := onBeginOfSide_total ({ processing := 2, verbose := verbose } : DL) rfl 0
    exact ⟨by dsimp only; rw [this.1]; simp, this.2⟩
  obtain ⟨st1, h1, hok1, hb1⟩ := injLoop_balanced (fileCount img) w srcs _ hs himg hb0
  rw [h1]
  dsimp only
  split
  · obtain ⟨u, hu⟩ := usageOfSide_any hok1 st1.cur
    rw [hu]
    dsimp only
    obtain ⟨st2, h2, himg2, hb2⟩ := injTail_balanced (fileCount img) 4 { st1 with l := onEndOfSide st1.l u } hok1
      ⟨by dsimp only; rw [(onEndOfSide_total _ _).1]; exact hb1.1, by dsimp only; rw [(onEndOfSide_total _ _).2]; exact hb1.2⟩
    rw [h2]
    exact ⟨st2, rfl, by rw [himg2]; exact hok1, hb2.1⟩
  · exact ⟨st1, rfl, hok1, hb1.1⟩

theorem length_filterMap_countP {α β} (l : List α) (f : α → Option β) : (l.filterMap f).length = l.countP (fun x => (f x).isSome) := by
  induction l with
  | nil => rfl
  | cons x xs ih =>
    simp only [List.filterMap_cons, List.countP_cons]
    cases hx : f x with
    | none => simp [ih]
    | some y => simp [ih]

theorem sideFiles_length (sd : Side) (dir : Str) : (sideFiles sd dir).length = (List.range 112).countP (fun j => (fileAt sd j).isSome) := by
  unfold sideFiles
  rw [length_filterMap_countP]
  apply countP_congr'
  intro j _
  cases fileAt sd j <;> rfl

theorem sidesFiles_length (target : Str) : ∀ (sides : List Side) (i : Nat),
    (sidesFiles target sides i).length = (sides.map fun sd => (List.range 112).countP (fun j => (fileAt sd j).isSome)).sum := by
  intro sides
  induction sides with
  | nil => intro i; rfl
  | cons sd rest ih => intro i; simp only [sidesFiles, List.length_append, sideFiles_length, ih, List.map_cons, List.sum_cons]

/-- the number of files of a four-sided image is the number of files `--extract` writes -/
theorem fileCount_eq_extracted (img : Image) (h4 : img.length = 4) (target : Str) : fileCount img = (sidesFiles target img 0).length := by
  obtain ⟨a, b, c, d, rfl⟩ : ∃ a b c d, img = [a, b, c, d] := by
    match img, h4 with
    | [a, b, c, d], _ => exact ⟨a, b, c, d, rfl⟩
  rw [sidesFiles_length]
  unfold fileCount grid
  rw [List.countP_flatMap]
  have e4 : List.range 4 = [0, 1, 2, 3] := by decide
  rw [e4]
  simp only [List.map_cons, List.map_nil, List.sum_cons, List.sum_nil, Function.comp, List.countP_map]
  rfl

end Moto.Disk
